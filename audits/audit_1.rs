#![allow(warnings)]
extern crate mech_syntax;
extern crate mech_core;
use mech_syntax::*;
use mech_core::*;
use mech_interpreter::*;

fn run(s: &str) -> MResult<Value> {
  let tree = parser::parse(s).expect("parse");
  let mut intrp = Interpreter::new(0);
  intrp.interpret(&tree)
}

#[test]
fn smoke() {
  println!("{:?}", run("1 + 1"));
}
