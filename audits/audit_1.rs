// Audit of properties C01 (elementwise operators) and C19 (re-evaluation) on the UNMODIFIED code.
//
// Copy to tests/audit.rs and run:  cargo test --offline --test audit -- --test-threads=4
//
// Naming:
//   c01_viol_* / c19_viol_*  : asserts what the property demands; FAILS on the current code (confirmed violation)
//   c01_holds_* / c19_holds_* : hypotheses that were run and turned out to hold (tests pass)
//   obs_*                    : observations outside the letter of the properties (see comments)
//
// The sweep c19_holds_sweep_interpreter_tests reads <worktree>/audit_progs.txt (the programs of tests/interpreter.rs,
// separated by "\n=====PROG=====\n"); it is skipped when that file is absent.
#![allow(warnings)]
extern crate mech_syntax;
extern crate mech_core;
use mech_syntax::*;
use mech_core::*;
use mech_interpreter::*;

// ------------------------------------------------------------------------------------------------
// helpers
// ------------------------------------------------------------------------------------------------

/// silence the (caught) panics of the interpreter, keep the assertion messages of this file
fn quiet() {
  std::panic::set_hook(Box::new(|info| {
    if let Some(l) = info.location() { if l.file().ends_with("audit.rs") { eprintln!("{}", info); } }
  }));
}

/// parse + interpret in a fresh interpreter; Err(kind name) on parse error / interpreter error
fn run(s: &str) -> Result<Value, String> {
  let tree = parser::parse(s).map_err(|_| "ParseError".to_string())?;
  let mut intrp = Interpreter::new(0);
  intrp.interpret(&tree).map_err(|e| format!("{}: {}", e.kind_name(), e.kind_message()))
}

fn strip_addr(s: &str) -> String {
  let mut out = String::new();
  let mut rest = s;
  while let Some(i) = rest.find("@0x") {
    out.push_str(&rest[..i]);
    let tail = &rest[i + 3..];
    let j = tail.find(|c: char| !c.is_ascii_hexdigit()).unwrap_or(tail.len());
    rest = &tail[j..];
  }
  out.push_str(rest);
  out
}

/// printable form of a value (no addresses, whitespace normalised) + its kind
fn show(v: &Value) -> String {
  format!("{} :: {:?}", strip_addr(&v.to_string()).split_whitespace().collect::<Vec<_>>().join(" "), v.kind())
}
fn text(v: &Value) -> String { strip_addr(&v.to_string()).split_whitespace().collect::<Vec<_>>().join(" ") }

fn must_be_rejected(prog: &str) {
  quiet();
  match run(prog) {
    Err(_) => {}
    Ok(v) => panic!("`{}` has operands of incompatible shape and must be rejected with an error, but evaluates to {}", prog, show(&v)),
  }
}

// ------------------------------------------------------------------------------------------------
// C01 — confirmed violations
// ------------------------------------------------------------------------------------------------

// V1: "operands of incompatible shape are rejected with an error rather than a value".
// Cause: impl_binop_match_arms (src/core/src/stdlib.rs) has no shape check in the dynamic same-class arms
//   MDMD (l.742-745), RDRD (l.763-766), VDVD (l.784-787): `out` is sized from lhs only. add/sub/div happen to panic inside
//   nalgebra (add_to/sub_to/component_div assert the shape), every other operator zips / indexes by lhs.len().
#[test] fn c01_viol_mul_row_vectors_of_different_length() { must_be_rejected("[1 2 3 4 5] * [1 2 3 4 5 6]"); }   // => [1 4 9 16 25]
#[test] fn c01_viol_mul_longer_lhs_pads_with_zero()        { must_be_rejected("[1 2 3 4 5 6] * [1 2 3 4 5]"); }   // => [1 4 9 16 25 0]
#[test] fn c01_viol_mod_row_vectors_of_different_length() { must_be_rejected("[1 2 3 4 5] % [1 2 3 4 5 6]"); }   // => [0 0 0 0 0]
#[test] fn c01_viol_pow_row_vectors_of_different_length() { must_be_rejected("[1 2 3 4 5] ^ [1 2 3 4 5 6]"); }   // => [1 4 27 256 3125]
#[test] fn c01_viol_gt_row_vectors_of_different_length()  { must_be_rejected("[1 2 3 4 5] > [1 2 3 4 5 6]"); }   // => [false x5]
#[test] fn c01_viol_eq_row_vectors_of_different_length()  { must_be_rejected("[1 2 3 4 5] == [1 2 3 4 5 6]"); }  // => [true x5]
#[test] fn c01_viol_neq_col_vectors_of_different_length() { must_be_rejected("[1;2;3] != [1;2;3;4]"); }
#[test] fn c01_viol_and_row_vectors_of_different_length() { must_be_rejected("[true true true true true] && [true true true true true false]"); }
#[test] fn c01_viol_or_row_vectors_of_different_length()  { must_be_rejected("[true true true true true] || [true true true true true false]"); }
#[test] fn c01_viol_xor_row_vectors_of_different_length() { must_be_rejected("[true true true true true] ⊕ [true true true true true false]"); }
#[test] fn c01_viol_mul_2x4_by_4x2()                      { must_be_rejected("[1 2 3 4; 5 6 7 8] * [1 2; 3 4; 5 6; 7 8]"); } // => [1 10 6 24; 15 42 28 64]
#[test] fn c01_viol_gt_2x3_by_its_transpose()             { must_be_rejected("A := [1 2 3; 4 5 6]; B := A'; A > B"); }
#[test] fn c01_viol_mul_1x1_matrix_by_2x2()               { must_be_rejected("[5] * [1 2; 3 4]"); }                        // => [5]
#[test] fn c01_viol_mul_2x2_by_1x1_matrix()               { must_be_rejected("[1 2; 3 4] * [5]"); }                        // => [5 0; 0 0]
#[test] fn c01_viol_mul_range_by_longer_vector()          { must_be_rejected("x := 1..=3; x * [1 2 3 4 5]"); }           // => [1 4 9]

// V2: "On scalars the operators agree with exact integer arithmetic whenever the exact result is representable".
// -128 mod -1 == 0 is representable in i8, but Rust's `%` overflows.  Cause: mod_op / mod_vec_op / mod_scalar_*_op in
// machines/math/src/ops/modulus.rs (l.79-81 ff.) use the raw `%`.
#[test]
fn c01_viol_i8_min_mod_minus_one_is_zero() {
  quiet();
  let r = run("a<i8> := -128; b<i8> := -1; a % b");
  assert_eq!(r.as_ref().map(text), Ok("0".to_string()), "i8: -128 % -1 must be 0, got {:?}", r.as_ref().map(show));
}
#[test]
fn c01_viol_i64_min_mod_minus_one_is_zero() {
  quiet();
  let r = run("a<i64> := -9223372036854775808; b<i64> := -1; a % b");
  assert_eq!(r.as_ref().map(text), Ok("0".to_string()), "i64: MIN % -1 must be 0, got {:?}", r.as_ref().map(show));
}
#[test]
fn c01_viol_i8_matrix_min_mod_minus_one() {
  quiet();
  let r = run("a<[i8]> := [-128 5]; b<i8> := -1; a % b");
  assert!(r.is_ok(), "[-128 5] % -1 must be [0 0], got {:?}", r.as_ref().map(show));
}

// V3: accepted operands of different kinds give wrong / order-dependent answers, and acceptance is not lifted to matrices.
// Cause: the fallback of impl_mech_binop_fxn (src/core/src/stdlib.rs l.1113-1123): when no arm matches, rhs is
// *lossily* converted to the kind of lhs (Value::convert_to saturates / truncates), then lhs to the kind of rhs; the
// fallback exists only for two non-reference scalars.
#[test]
fn c01_viol_u8_255_less_than_256() {
  quiet();
  // exact comparison: 255 < 256 is true.  (an error would also be acceptable: "rejected rather than a value")
  match run("255u8 < 256") { Ok(v) => assert_eq!(text(&v), "true", "255u8 < 256"), Err(_) => {} }
}
#[test]
fn c01_viol_u8_255_equals_256() {
  quiet();
  match run("255u8 == 256") { Ok(v) => assert_eq!(text(&v), "false", "255u8 == 256"), Err(_) => {} }
}
#[test]
fn c01_viol_u8_zero_greater_than_minus_one() {
  quiet();
  match run("0u8 > -1") { Ok(v) => assert_eq!(text(&v), "true", "0u8 > -1"), Err(_) => {} }
}
#[test]
fn c01_viol_mixed_kind_mul_depends_on_operand_order() {
  quiet();
  let a = run("3u8 * 1.5"); let b = run("1.5 * 3u8");
  // multiplication is commutative: both orders must denote the same number (or both be rejected)
  assert_eq!(a.as_ref().map(text).ok(), b.as_ref().map(text).ok(), "3u8 * 1.5 = {:?} but 1.5 * 3u8 = {:?}", a.as_ref().map(show), b.as_ref().map(show));
}
#[test]
fn c01_viol_scalar_u8_plus_f64_accepted_but_matrix_rejected() {
  quiet();
  let s = run("1u8 + 1");
  assert!(s.is_ok());
  // "if an operator accepts scalars of a kind it also accepts ... a matrix with a scalar on either side"
  let m = run("[1u8 2u8] + 1");
  assert!(m.is_ok(), "1u8 + 1 = {:?} is accepted, but [1u8 2u8] + 1 => {:?}", s.as_ref().map(show), m.as_ref().map(show));
}
#[test]
fn c01_viol_scalar_u8_plus_f64_accepted_but_not_through_a_variable() {
  quiet();
  assert!(run("1u8 + 1").is_ok());
  let m = run("x := 1u8; x + 1");
  assert!(m.is_ok(), "1u8 + 1 is accepted, but x := 1u8; x + 1 => {:?}", m.as_ref().map(show));
}

// V4: operators that accept a pair of scalar kinds but not the matrix forms of the same kinds.
// Cause: impl_pow_fxn (machines/math/src/ops/pow.rs l.229-239) special-cases (R64, I32) scalars only (PowRational);
//        impl_add_fxn (machines/math/src/ops/add.rs l.80-93) promotes a real to C64 only when the other operand is a *scalar* C64.
#[test]
fn c01_viol_rational_pow_accepted_for_scalar_only() {
  quiet();
  let s = run("p<i32> := 2; (1/2) ^ p");
  assert_eq!(s.as_ref().map(text), Ok("1/4".to_string()));
  let m = run("p<i32> := 2; [1/2 1/3] ^ p");
  assert!(m.is_ok(), "(1/2) ^ p is accepted, [1/2 1/3] ^ p => {:?}", m.as_ref().map(show));
}
#[test]
fn c01_viol_complex_plus_real_accepted_for_scalar_only() {
  quiet();
  let s = run("(1+2i) + 1");
  assert_eq!(s.as_ref().map(text), Ok("2+2i".to_string()));
  let m = run("[1+2i 3+4i] + 1");
  assert!(m.is_ok(), "(1+2i) + 1 is accepted, [1+2i 3+4i] + 1 => {:?}", m.as_ref().map(show));
}

// V5: integer operands above 2^53: every numeric literal is parsed as f64 first (integer(), src/interpreter/src/literals.rs
// l.304-307) and then converted by typed_literal (l.132-141), so distinct u64 operands collapse before the operator runs.
#[test]
fn c01_viol_u64_comparison_of_large_literals() {
  quiet();
  let r = run("18446744073709551615u64 == 18446744073709551614u64");
  assert_eq!(r.as_ref().map(text), Ok("false".to_string()));
}
#[test]
fn c01_viol_u64_add_zero_is_identity_above_2_pow_53() {
  quiet();
  let r = run("9007199254740993u64 + 0u64");
  assert_eq!(r.as_ref().map(text), Ok("9007199254740993".to_string()));
}

// ------------------------------------------------------------------------------------------------
// C01 — hypotheses that hold
// ------------------------------------------------------------------------------------------------

#[test] fn c01_holds_add_len_mismatch_rejected() { must_be_rejected("[1 2 3 4 5] + [1 2 3 4 5 6]"); } // (via a caught nalgebra panic)
#[test] fn c01_holds_sub_len_mismatch_rejected() { must_be_rejected("[1 2 3 4 5] - [1 2 3 4 5 6]"); }
#[test] fn c01_holds_div_len_mismatch_rejected() { must_be_rejected("[1 2 3 4 5] / [1 2 3 4 5 6]"); }
#[test] fn c01_holds_matrix_with_wrong_row_vector_rejected() { must_be_rejected("[1 2; 3 4; 5 6] - [1 2 3]"); }
#[test] fn c01_holds_matrix_with_wrong_col_vector_rejected() { must_be_rejected("[1 2; 3 4; 5 6] * [1; 2]"); }
#[test] fn c01_holds_col_with_row_vector_rejected() { must_be_rejected("[1;2] + [1 2]"); }
#[test] fn c01_holds_shorter_rhs_rejected() { must_be_rejected("[1 2 3 4 5 6 7] == [1 2 3]"); }

#[test]
fn c01_holds_scalar_semantics() {
  quiet();
  for (p, e) in [
    ("7u8 / 2u8", "3"), ("a<i8> := -7; a / 2<i8>", "-3"), ("a<i8> := -7; a % 2<i8>", "-1"),
    ("a<u8> := 15; b<u8> := 17; a * b", "255"), ("2u8 ^ 7u8", "128"), ("a<u32> := 0; b<u32> := 0; a ^ b", "1"),
    ("a<u64> := 18446744073709551615; b<u64> := 1; a - b", "18446744073709551614"),
    ("7 / 0", "inf"), ("0 / 0", "NaN"), ("7 % 0", "NaN"), ("0.1 + 0.2", "0.30000000000000004"), ("-0.0 == 0.0", "true"),
    ("a := 0 / 0; a == a", "false"), ("a := 0 / 0; a != a", "true"), ("a := 0 / 0; a >= a", "false"),
    ("1/2 + 1/3", "5/6"), ("1/2 - 1/3", "1/6"), ("1/2 * 2/3", "1/3"), ("(1/2) / (1/4)", "2/1"), ("1/2 == 2/4", "true"), ("1/2 < 2/3", "true"),
    ("(1+2i) * (3+4i)", "-5+10i"), ("(1+2i) - (3+4i)", "-2-2i"),
    ("true ⊕ true", "false"), ("true && false", "false"), ("false || true", "true"), ("!true", "false"),
    ("\"a\" == \"a\"", "true"), ("\"a\" != \"b\"", "true"),
  ] {
    let r = run(p);
    assert_eq!(r.as_ref().map(text), Ok(e.to_string()), "{}", p);
  }
  // inexact / unrepresentable results are errors, not values
  for p in ["200u8 + 100u8", "a<u8> := 3; b<u8> := 5; a - b", "7u8 / 0u8", "7u8 % 0u8", "2u8 ^ 8u8", "a<i8> := -128; -a", "a<i8> := -128; b<i8> := -1; a / b"] {
    assert!(run(p).is_err(), "{}", p);
  }
}

// differential harness: M op N (every broadcast form) == the operator applied to the corresponding scalars
fn lit(vals: &[Vec<String>]) -> String { format!("[{}]", vals.iter().map(|r| r.join(" ")).collect::<Vec<_>>().join("; ")) }
fn mk(r: usize, c: usize, seed: usize, pool: &[&str]) -> Vec<Vec<String>> {
  (0..r).map(|i| (0..c).map(|j| pool[(seed + i * c * 7 + j * 3 + i) % pool.len()].to_string()).collect()).collect()
}
fn diff_one(op: &str, a: &Vec<Vec<String>>, b: &Vec<Vec<String>>, a_scalar: bool, b_scalar: bool) -> Option<String> {
  let (ar, ac) = (a.len(), a[0].len());
  let (br, bc) = (b.len(), b[0].len());
  let (rr, rc) = (ar.max(br), ac.max(bc));
  let ls = if a_scalar { a[0][0].clone() } else { lit(a) };
  let rs = if b_scalar { b[0][0].clone() } else { lit(b) };
  let prog = format!("{} {} {}", ls, op, rs);
  let mut exp: Vec<Vec<Result<String, String>>> = vec![];
  for i in 0..rr { let mut row = vec![]; for j in 0..rc {
    let x = &a[if ar == 1 { 0 } else { i }][if ac == 1 { 0 } else { j }];
    let y = &b[if br == 1 { 0 } else { i }][if bc == 1 { 0 } else { j }];
    row.push(run(&format!("{} {} {}", x, op, y)).map(|v| text(&v)));
  } exp.push(row); }
  let any_err = exp.iter().flatten().any(|e| e.is_err());
  match run(&prog) {
    Err(e) => if any_err { None } else { Some(format!("{} => ERR {} but the scalars give {:?}", prog, e, exp)) },
    Ok(v) => {
      if any_err { return Some(format!("{} => {} but some scalar pair is rejected {:?}", prog, show(&v), exp)); }
      if a_scalar && b_scalar { return None; }
      if v.shape() != vec![rr, rc] { return Some(format!("{} => shape {:?}, expected {:?}", prog, v.shape(), (rr, rc))); }
      for i in 0..rr { for j in 0..rc {
        let e = run(&format!("q := {}; q[{},{}]", prog, i + 1, j + 1)).map(|v| text(&v));
        if e.as_ref().ok() != exp[i][j].as_ref().ok() { return Some(format!("{} => element ({},{}) = {:?}, expected {:?}", prog, i + 1, j + 1, e, exp[i][j])); }
      }}
      None
    }
  }
}
fn diff_kind(ops: &[&str], pool: &[&str]) {
  quiet();
  let shapes: &[((usize, usize), (usize, usize))] = &[
    ((2,3),(2,3)), ((2,3),(1,1)), ((1,1),(2,3)), ((2,3),(2,1)), ((2,1),(2,3)), ((2,3),(1,3)), ((1,3),(2,3)),
    ((1,5),(1,5)), ((3,1),(3,1)), ((3,3),(3,1)), ((3,3),(1,3)), ((3,1),(3,3)), ((1,3),(3,3)), ((3,2),(3,1)), ((3,2),(1,2)),
    ((1,3),(1,1)), ((1,1),(3,1)), ((5,5),(5,5)), ((5,2),(1,2)), ((2,5),(2,1)), ((1,2),(5,2)), ((2,1),(2,5)), ((1,1),(1,1)),
  ];
  let mut bad = vec![];
  for op in ops { for (k, ((ar, ac), (br, bc))) in shapes.iter().enumerate() {
    let a = mk(*ar, *ac, k + 1, pool); let b = mk(*br, *bc, k + 4, pool);
    if let Some(msg) = diff_one(op, &a, &b, (*ar, *ac) == (1, 1), (*br, *bc) == (1, 1)) { bad.push(msg); }
  }}
  assert!(bad.is_empty(), "{:#?}", bad);
}
#[test] fn c01_holds_diff_f64()  { diff_kind(&["+","-","*","/","%","^",">",">=","<","<=","==","!="], &["1","2","3","4","5","6","7","0.5","2.5","9"]); }
#[test] fn c01_holds_diff_u8()   { diff_kind(&["+","-","*","/","%","^",">",">=","<","<=","==","!="], &["1u8","2u8","3u8","4u8","5u8","3u8","2u8","1u8","2u8","3u8"]); }
#[test] fn c01_holds_diff_bool() { diff_kind(&["&&","||","⊕","==","!="], &["true","false","false","true","true","false","true"]); }
#[test] fn c01_holds_diff_r64()  { diff_kind(&["+","-","*","/",">",">=","<","<=","==","!="], &["1/2","1/3","2/3","3/4","5/2","1/2","7/3"]); }
#[test] fn c01_holds_diff_str()  { diff_kind(&["==","!="], &["\"a\"","\"b\"","\"c\"","\"a\"","\"b\""]); }

// ------------------------------------------------------------------------------------------------
// C19
// ------------------------------------------------------------------------------------------------

fn snap(intrp: &Interpreter) -> Vec<(String, String)> {
  let syms = intrp.symbols();
  let syms = syms.borrow();
  let dict = syms.dictionary.borrow();
  let mut out = vec![];
  for (k, v) in syms.symbols.iter() {
    let name = dict.get(k).cloned().unwrap_or(format!("{}", k));
    out.push((name, show(&v.borrow())));
  }
  out.sort();
  out
}
fn has_assign(s: &str) -> bool {
  let t = s.replace(":=", "  ").replace("==", "  ").replace("!=", "  ").replace(">=", "  ").replace("<=", "  ").replace("=>", "  ");
  t.contains('=')
}
/// returns (no-op under 3 single steps, deterministic & 3 single steps == one request for 3 steps), None if it does not parse/evaluate
fn c19(s: &str) -> Option<(bool, bool, Vec<(String, String)>, Vec<(String, String)>)> {
  let r = std::panic::catch_unwind(|| {
    let tree = parser::parse(s).ok()?;
    let mut i1 = Interpreter::new(0);
    i1.interpret(&tree).ok()?;
    let s0 = snap(&i1);
    let mut snaps = vec![];
    for _ in 0..3 { i1.step(0, 1); snaps.push(snap(&i1)); }
    let mut i2 = Interpreter::new(0);
    i2.interpret(&tree);
    let t0 = snap(&i2);
    i2.step(0, 3);
    let t3 = snap(&i2);
    let noop = snaps.iter().all(|x| *x == s0);
    let det = s0 == t0 && snaps[2] == t3;
    Some((noop, det, s0, snaps[2].clone()))
  });
  r.ok().flatten()
}
fn check_c19(progs: &[&str]) {
  quiet();
  let mut bad = vec![];
  let mut n = 0;
  for s in progs {
    if let Some((noop, det, s0, s3)) = c19(s) {
      n += 1;
      if !det { bad.push(format!("NOT DETERMINISTIC / n single steps != n steps: {:?}", s)); }
      if !noop && !has_assign(s) { bad.push(format!("NOT A NO-OP: {:?}\n   before {:?}\n   after  {:?}", s, s0, s3)); }
    }
  }
  println!("{} programs checked", n);
  assert!(bad.is_empty(), "{:#?}", bad);
}

#[test]
fn c19_holds_sweep_interpreter_tests() {
  let path = format!("{}/audit_progs.txt", env!("CARGO_MANIFEST_DIR"));
  let Ok(all) = std::fs::read_to_string(&path) else { println!("{} not found, skipped", path); return; };
  let progs: Vec<&str> = all.split("\n=====PROG=====\n").collect();
  check_c19(&progs);   // 575 programs: all deterministic, all no-assignment programs are no-ops
}

#[test]
fn c19_holds_sweep_docs_and_examples() {
  quiet();
  let root = env!("CARGO_MANIFEST_DIR");
  let mut files = vec![];
  for dir in ["docs", "examples"] {
    let mut stack = vec![std::path::PathBuf::from(format!("{}/{}", root, dir))];
    while let Some(d) = stack.pop() {
      let Ok(rd) = std::fs::read_dir(&d) else { continue };
      for e in rd { let e = e.unwrap().path();
        if e.is_dir() { stack.push(e); } else if e.extension().map(|x| x == "mec").unwrap_or(false) { files.push(e); } }
    }
  }
  let mut progs: Vec<String> = vec![];
  for f in files {
    let s = std::fs::read_to_string(&f).unwrap();
    let mut rest = s.as_str();
    while let Some(i) = rest.find("```mech") {
      let after = &rest[i..];
      let Some(nl) = after.find('\n') else { break };
      let body = &after[nl + 1..];
      let Some(end) = body.find("```") else { break };
      progs.push(body[..end].to_string());
      rest = &body[end + 3..];
    }
    progs.push(s.clone());
  }
  let refs: Vec<&str> = progs.iter().map(|x| x.as_str()).collect();
  check_c19(&refs);
}

#[test]
fn c19_holds_targeted() {
  check_c19(&[
    "x := 1; y := x + 1", "x := 1..5; y := x * 2", "x := 1..=5; y := 1..2..9", "x := 250u8..=255u8", "x := 0..0.1..=1", "x := 1u8..2u8..=255u8",
    "a := [1 2 3]; b := [4 5 6]; c := [a b]; d := [a; b]",
    "m := [1 2 3; 4 5 6]; a := m[1,2]; b := m[:,1]; c := m[2,:]; d := m[m > 2]",
    "m := [1 2 3; 4 5 6]; d := m[m > 10]", "m := [1 2 3; 4 5 6]; d := m[[true true], [true false true]]",
    "x := {1,2,3}; y := {3,4}; z := x ∪ y; w := x ∩ y", "x := {1,2,3}; y := set/powerset(x); z := set/cartesian-product(x, x)",
    "s := {1,2,3}; t := set/insert(s, 4); u := set/size(t)",
    "x := (1,2,\"a\"); y := x.1", "x := {a: 1, b: \"z\"}; y := x.a", "x := |a<f64> b<f64>| 1 2 | 3 4 |; y := x.a",
    "a := |id<u64> v<u8>| 1 10 | 2 20 |; b := |id<u64> w<u8>| 2 200 | 3 30 |; x := a ⟗ b; y := a ⋈ b",
    "x := 5; y := x", "x := \"a\"; y := x + \"b\"", "a := [1 2; 3 4]; b := a ** a; c := a \\ [1; 2]",
    "x := [1 2 3; 4 5 6]; y := stats/sum/row(x); z := stats/sum/column(x)", "x := math/sin(1); y := math/sqrt([4 9])",
    "x := 300; y<u8> := 200; z<f32> := y", "x<u8> := 300; y<u8> := -1; z<i8> := 200", "x := [300 -1 3.7]; y<[u8]> := x; z<[i8]> := x",
    "x<r64> := 0.5; y<f64> := 1/3; z<u8> := 3.7; w<i8> := -3.7", "x := 5; z<[u8]> := [1 2 3]; w<[f64]:1,3> := 1",
    "add(a<f64>, b<f64>) => <f64>\n  ├ (a, b) => a + b.\n\nx := add(1, 2)",
    "x<u64?> := 4u64; y := x? | x > 3u64 => x | * => 0u64.", "x := [1 2 _ 5]; y := x? | x => x | * => 0.",
    "x := {a * 2 | a <- {1,2,3}}", "x := [a * 2 | a <- [1 2 3]]", "x := 1 / 0; y := x - x", "x := combinatorics/n-choose-k(5,2)",
    "m := {\"a\": 1, \"b\": 2}; y := m{\"a\"}", "x := (1, [1 2 3], {a: 1}); (a, b, c) := x; d := b + 1",
    // with assignments: deterministic, and 3 single steps == one request for 3 steps
    "~x := 1; y := x + 1", "~x := 1; x = x + 1", "~x := 1; x += 1", "~x := [1 2 3]; x[1] = x[2] + x[3]; x[2] += 1",
    "~x := 1; ~y := 2; x = y + 1; y = x + 1", "~x := 1; y := x; x = 5", "~x := [1 2 3]; y := x; z := x[1]; x[1] = 10",
    "~x := 1; s := {a + x | a <- {1,2}}; x = x + 1", "~x := |a<u64> b<u8>| 1 2 | 3 4 |;y := |a<u64> b<u8>| 5 6 | 7 8 |; x += y; x[4]",
  ]);
}

// Observation (not demanded by the letter of C19, which only asks for determinism): evaluating a set/matrix comprehension wipes
// the evaluation plan built so far — comprehension_environments() (src/interpreter/src/expressions.rs l.105-107) does
// `let mut new_p = p.clone(); new_p.clear_plan();` but Plan::clone (src/core/src/functions.rs l.250-252) shares the Rc, so the
// *parent's* plan is cleared.  A trailing, unrelated, assignment-free statement therefore changes what re-evaluation does.
#[test]
fn obs_comprehension_clears_the_plan_of_earlier_statements() {
  quiet();
  let stepped = |s: &str| { let tree = parser::parse(s).unwrap(); let mut i = Interpreter::new(0); i.interpret(&tree).unwrap(); i.step(0, 3);
                            snap(&i).into_iter().find(|(n, _)| n == "x").unwrap().1 };
  let a = stepped("~x := 1; x = x + 1");                          // x == 5 after 3 steps
  let b = stepped("~x := 1; x = x + 1; s := {a | a <- {1,2}}");  // x == 2: the assignment is no longer in the plan
  assert_eq!(a, b);
}
// Observation: re-evaluation of `x += 1` accumulates for a scalar but not for a matrix literal, because the variable aliases the
// output of the literal's horzcat step, which resets it on every step (deterministic, so C19 itself holds).
#[test]
fn obs_matrix_op_assign_does_not_accumulate_on_step() {
  quiet();
  let stepped = |s: &str| { let tree = parser::parse(s).unwrap(); let mut i = Interpreter::new(0); i.interpret(&tree).unwrap(); i.step(0, 3);
                            snap(&i).into_iter().find(|(n, _)| n == "x").unwrap().1 };
  assert!(stepped("~x := 1; x += 1").starts_with("5"));
  assert!(stepped("~x := [1 2 3]; x += 1").contains("5"), "{}", stepped("~x := [1 2 3]; x += 1")); // stays [2 3 4]
}
