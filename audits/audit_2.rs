#![allow(warnings)]
extern crate mech_syntax;
extern crate mech_core;
extern crate nalgebra as na;
use std::cell::RefCell;
use std::rc::Rc;
use mech_core::matrix::Matrix;
use mech_syntax::*;
use mech_core::*;
use mech_interpreter::*;
use indexmap::set::IndexSet;

/// Outcome of running a Mech program: a value, an interpreter error, a parse error or a panic.
#[derive(Debug)]
enum Out { Val(Value), Err(String), ParseErr(String), Panic(String) }

fn run(s: &str) -> Out {
  let s = s.to_string();
  let r = std::panic::catch_unwind(move || {
    match parser::parse(&s) {
      Ok(tree) => {
        let mut intrp = Interpreter::new(0);
        match intrp.interpret(&tree) {
          Ok(v) => Out::Val(v),
          Err(e) => Out::Err(format!("{:?}", e)),
        }
      }
      Err(e) => Out::ParseErr(format!("{:?}", e)),
    }
  });
  match r {
    Ok(o) => o,
    Err(p) => {
      let msg = if let Some(s) = p.downcast_ref::<String>() { s.clone() }
        else if let Some(s) = p.downcast_ref::<&str>() { s.to_string() } else { "<panic>".to_string() };
      Out::Panic(msg)
    }
  }
}

fn compact(o: &Out) -> String { format!("{:?}", o).split_whitespace().collect::<Vec<_>>().join(" ") }

fn expect_val(s: &str, expected: Value) {
  let out = run(s);
  println!("PROGRAM: {:?}\nOUTCOME: {}", s, compact(&out));
  match out {
    Out::Val(v) => assert_eq!(v, expected, "program {:?}", s),
    o => panic!("program {:?} expected {:?} got {:?}", s, expected, o),
  }
}

/// The property allows "an error or the empty vector" -- a panic is not a MechError, report separately
fn expect_err_or_empty(s: &str) {
  let out = run(s);
  println!("PROGRAM: {:?}\nOUTCOME: {}", s, compact(&out));
  match out {
    Out::Err(_) => {}
    Out::Val(v) => { let sh = v.shape(); assert!(sh[0]*sh[1] == 0, "program {:?} gave non-empty {:?}", s, v); }
    o => panic!("program {:?} expected error/empty, got {:?}", s, o),
  }
}

fn expect_err(s: &str) {
  let out = run(s);
  println!("PROGRAM: {:?}\nOUTCOME: {}", s, compact(&out));
  match out {
    Out::Err(_) => {}
    o => panic!("program {:?} expected error, got {:?}", s, o),
  }
}

fn f64row(v: Vec<f64>) -> Value { let n = v.len(); Value::MatrixF64(Matrix::from_vec(v, 1, n)) }

// ============================ C15: ranges ====================================

// float exclusive range with fractional span: 1.5, 2.5, 3.5 are all < 4.2
#[test] fn c15_excl_float_fractional_span() { expect_val("1.5..4.2", f64row(vec![1.5, 2.5, 3.5])); }
#[test] fn c15_excl_float_fractional_span2() { expect_val("0..2.5", f64row(vec![0.0, 1.0, 2.0])); }
// float inclusive range with fractional span: 1,2,3 <= 3.5  (diff+1 = 3.5 -> 3 ok?) and 0.5..=3 -> .5,1.5,2.5
#[test] fn c15_incl_float_fractional_span() { expect_val("0.5..=3", f64row(vec![0.5, 1.5, 2.5])); }
#[test] fn c15_incl_float_fractional_span2() { expect_val("1..=3.9", f64row(vec![1.0, 2.0, 3.0])); }
#[test] fn c15_excl_float_tiny() { expect_val("0..0.5", f64row(vec![0.0])); }

// signed: span does not fit the kind although all elements do
#[test] fn c15_incl_u8_full() {
  let v: Vec<u8> = (0u8..=255u8).collect(); let n = v.len();
  expect_val("0u8..=255u8", Value::MatrixU8(Matrix::from_vec(v, 1, n)));
}
#[test] fn c15_incl_u8_top() { expect_val("250u8..=255u8", Value::MatrixU8(Matrix::from_vec(vec![250,251,252,253,254,255], 1, 6))); }
#[test] fn c15_excl_u8_top() { expect_val("250u8..255u8", Value::MatrixU8(Matrix::from_vec(vec![250,251,252,253,254], 1, 5))); }

// unsigned bounds in the wrong order: error or empty, not panic / wrapped vector
#[test] fn c15_excl_u8_reversed() { expect_err_or_empty("5u8..3u8"); }
#[test] fn c15_incl_u8_reversed() { expect_err_or_empty("5u8..=3u8"); }
#[test] fn c15_step_excl_u8_reversed() { expect_err_or_empty("5u8..1u8..3u8"); }
#[test] fn c15_step_incl_u8_reversed() { expect_err_or_empty("5u8..1u8..=3u8"); }
#[test] fn c15_excl_f64_reversed() { expect_err_or_empty("5..3"); }
#[test] fn c15_excl_empty() { expect_err_or_empty("3..3"); }
#[test] fn c15_zero_step() { expect_err_or_empty("1..0..5"); }
#[test] fn c15_zero_step_incl() { expect_err_or_empty("1..0..=5"); }

// stepped ranges
#[test] fn c15_step_excl_basic() { expect_val("1..2..8", f64row(vec![1.0,3.0,5.0,7.0])); }
#[test] fn c15_step_excl_hits_end() { expect_val("1..2..7", f64row(vec![1.0,3.0,5.0])); }
#[test] fn c15_step_incl_hits_end() { expect_val("1..2..=7", f64row(vec![1.0,3.0,5.0,7.0])); }
#[test] fn c15_step_incl_misses_end() { expect_val("1..2..=8", f64row(vec![1.0,3.0,5.0,7.0])); }
#[test] fn c15_step_float() { expect_val("0..0.25..1", f64row(vec![0.0,0.25,0.5,0.75])); }
#[test] fn c15_step_float_incl() { expect_val("0..0.25..=1", f64row(vec![0.0,0.25,0.5,0.75,1.0])); }
#[test] fn c15_step_u8_top_incl() { expect_val("200u8..50u8..=255u8", Value::MatrixU8(Matrix::from_vec(vec![200,250], 1, 2))); }
#[test] fn c15_step_u8_top_excl() { expect_val("200u8..50u8..255u8", Value::MatrixU8(Matrix::from_vec(vec![200,250], 1, 2))); }
// descending progression with a negative step
#[test] fn c15_step_descending() { expect_val("10..-2..0", f64row(vec![10.0,8.0,6.0,4.0,2.0])); }
#[test] fn c15_step_descending_incl() { expect_val("10..-2..=0", f64row(vec![10.0,8.0,6.0,4.0,2.0,0.0])); }
// wrong sign of step for the bounds: error or empty
#[test] fn c15_step_wrong_sign() { expect_err_or_empty("0..-1..5"); }
#[test] fn c15_step_wrong_sign_incl() { expect_err_or_empty("0..-1..=5"); }

// 64-bit integers above 2^53: size computed through f64
#[test] fn c15_step_i64_above_2p53_missing() {
  expect_val("x<i64> := 0d9007199254740992; y<i64> := 0d9007199254740993; s<i64> := 0d1; x..s..y",
    Value::MatrixI64(Matrix::from_vec(vec![9007199254740992i64], 1, 1)));
}
#[test] fn c15_step_i64_above_2p53_extra() {
  expect_val("x<i64> := 0d9007199254740993; y<i64> := 0d9007199254740995; s<i64> := 0d1; x..s..y",
    Value::MatrixI64(Matrix::from_vec(vec![9007199254740993i64, 9007199254740994i64], 1, 2)));
}
#[test] fn c15_step_i64_above_2p53_incl() {
  expect_val("x<i64> := 0d9007199254740993; y<i64> := 0d9007199254740995; s<i64> := 0d1; x..s..=y",
    Value::MatrixI64(Matrix::from_vec(vec![9007199254740993i64, 9007199254740994i64, 9007199254740995i64], 1, 3)));
}
#[test] fn c15_plain_i64_above_2p53() {
  expect_val("x<i64> := 0d9007199254740993; y<i64> := 0d9007199254740995; x..y",
    Value::MatrixI64(Matrix::from_vec(vec![9007199254740993i64, 9007199254740994i64], 1, 2)));
}
// mixed kinds: error
#[test] fn c15_mixed_kinds() { expect_err("1u8..4"); }
// f32
#[test] fn c15_f32() { expect_val("1<f32>..4<f32>", Value::MatrixF32(Matrix::from_vec(vec![1.0f32,2.0,3.0], 1, 3))); }
// ranges from variables
#[test] fn c15_vars() { expect_val("a := 2; b := 5; a..=b", f64row(vec![2.0,3.0,4.0,5.0])); }
// negative float bounds
#[test] fn c15_neg_bounds() { expect_val("-2..2", f64row(vec![-2.0,-1.0,0.0,1.0])); }
#[test] fn c15_neg_frac_bounds() { expect_val("-2.5..0", f64row(vec![-2.5,-1.5,-0.5])); }

// ============================ C12: conversions ===============================

#[test] fn c12_float_to_u8_trunc() { expect_val("x<u8> := 3.9", Value::U8(Ref::new(3))); }
#[test] fn c12_float_to_i8_trunc_neg() { expect_val("x<i8> := -3.9", Value::I8(Ref::new(-3))); }
#[test] fn c12_float_to_u8_clamp_hi() { expect_val("x<u8> := 300.5", Value::U8(Ref::new(255))); }
#[test] fn c12_float_to_u8_clamp_lo() { expect_val("x<u8> := -5.5", Value::U8(Ref::new(0))); }
#[test] fn c12_float_to_i8_clamp_lo() { expect_val("x<i8> := -500", Value::I8(Ref::new(-128))); }
#[test] fn c12_i8_min_literal_annot() { expect_val("x<i8> := -128", Value::I8(Ref::new(-128))); }
#[test] fn c12_u64_literal_above_2p53() { expect_val("9007199254740993u64", Value::U64(Ref::new(9007199254740993u64))); }
#[test] fn c12_u64_annot_above_2p53() { expect_val("9007199254740993<u64>", Value::U64(Ref::new(9007199254740993u64))); }
#[test] fn c12_i64_to_u64_above_2p53() { expect_val("x<u64> := 0d9007199254740993", Value::U64(Ref::new(9007199254740993u64))); }
#[test] fn c12_widen_narrow_u8() { expect_val("x<u8> := 200; y<u64> := x; z<u8> := y", Value::U8(Ref::new(200))); }
#[test] fn c12_widen_narrow_i8() { expect_val("x<i8> := -100; y<i128> := x; z<i8> := y", Value::I8(Ref::new(-100))); }
#[test] fn c12_widen_narrow_f32() { expect_val("x<f32> := 0.1; y<f64> := x; z<f32> := y", Value::F32(Ref::new(0.1f32))); }
#[test] fn c12_u8_to_i16() { expect_val("x<u8> := 200; y<i16> := x", Value::I16(Ref::new(200))); }
#[test] fn c12_string_to_number_err() { expect_err(r#"x<f64> := "hello""#); }
#[test] fn c12_string_to_u8_err() { expect_err(r#"x<u8> := "1""#); }
#[test] fn c12_string_matrix_to_number_err() { expect_err(r#"x<[f64]> := ["a" "b"]"#); }
#[test] fn c12_bool_to_number() { expect_err("x<u8> := true"); }

// matrices
#[test] fn c12_mat_convert_keeps_shape() {
  expect_val("x<[u8]> := [1.9 2.2; 300 -4]", Value::MatrixU8(Matrix::from_vec(vec![1, 255, 2, 0], 2, 2)));
}
#[test] fn c12_mat_convert_2x3() {
  expect_val("x<[i16]> := [1 2 3; 4 5 6]", Value::MatrixI16(Matrix::from_vec(vec![1, 4, 2, 5, 3, 6], 2, 3)));
}
#[test] fn c12_mat_convert_2x4_dynamic() {
  expect_val("x<[i16]> := [1 2 3 4; 5 6 7 8]", Value::MatrixI16(Matrix::from_vec(vec![1, 5, 2, 6, 3, 7, 4, 8], 2, 4)));
}
#[test] fn c12_reshape_2x3_to_3x2() {
  expect_val("x<[f64]:3,2> := [1 2 3; 4 5 6]", Value::MatrixF64(Matrix::from_vec(vec![1.0, 4.0, 2.0, 5.0, 3.0, 6.0], 3, 2)));
}
#[test] fn c12_reshape_2x2_to_1x4() {
  expect_val("x<[f64]:1,4> := [1 2; 3 4]", Value::MatrixF64(Matrix::from_vec(vec![1.0, 3.0, 2.0, 4.0], 1, 4)));
}
#[test] fn c12_reshape_1x4_to_2x2() {
  expect_val("x<[f64]:2,2> := [1 2 3 4]", Value::MatrixF64(Matrix::from_vec(vec![1.0, 2.0, 3.0, 4.0], 2, 2)));
}
#[test] fn c12_reshape_1x6_to_2x3_u8() {
  expect_val("x<[u8]:2,3> := [1 2 3 4 5 6]", Value::MatrixU8(Matrix::from_vec(vec![1, 2, 3, 4, 5, 6], 2, 3)));
}
#[test] fn c12_reshape_4x4_to_2x8() {
  expect_val("x<[f64]:2,8> := [1 2 3 4; 5 6 7 8; 9 10 11 12; 13 14 15 16]",
    Value::MatrixF64(Matrix::from_vec(vec![1.0,5.0,9.0,13.0,2.0,6.0,10.0,14.0,3.0,7.0,11.0,15.0,4.0,8.0,12.0,16.0], 2, 8)));
}
#[test] fn c12_reshape_4x4_to_8x2() {
  expect_val("x<[f64]:8,2> := [1 2 3 4; 5 6 7 8; 9 10 11 12; 13 14 15 16]",
    Value::MatrixF64(Matrix::from_vec(vec![1.0,5.0,9.0,13.0,2.0,6.0,10.0,14.0,3.0,7.0,11.0,15.0,4.0,8.0,12.0,16.0], 8, 2)));
}
#[test] fn c12_reshape_2x4_to_4x2() {
  expect_val("x<[f64]:4,2> := [1 2 3 4; 5 6 7 8]",
    Value::MatrixF64(Matrix::from_vec(vec![1.0,5.0,2.0,6.0,3.0,7.0,4.0,8.0], 4, 2)));
}
#[test] fn c12_reshape_2x4_to_1x8() {
  expect_val("x<[f64]:1,8> := [1 2 3 4; 5 6 7 8]",
    Value::MatrixF64(Matrix::from_vec(vec![1.0,5.0,2.0,6.0,3.0,7.0,4.0,8.0], 1, 8)));
}
#[test] fn c12_reshape_3x1_to_1x3() {
  expect_val("x<[f64]:1,3> := [1;2;3]", Value::MatrixF64(Matrix::from_vec(vec![1.0,2.0,3.0], 1, 3)));
}
#[test] fn c12_reshape_2x1_to_1x2() {
  expect_val("x<[f64]:1,2> := [1;2]", Value::MatrixF64(Matrix::from_vec(vec![1.0,2.0], 1, 2)));
}
#[test] fn c12_reshape_1x2_to_2x1() {
  expect_val("x<[f64]:2,1> := [1 2]", Value::MatrixF64(Matrix::from_vec(vec![1.0,2.0], 2, 1)));
}
#[test] fn c12_reshape_4x1_to_2x2() {
  expect_val("x<[f64]:2,2> := [1;2;3;4]", Value::MatrixF64(Matrix::from_vec(vec![1.0,2.0,3.0,4.0], 2, 2)));
}
#[test] fn c12_reshape_3x3_to_1x9() {
  expect_val("x<[f64]:1,9> := [1 2 3; 4 5 6; 7 8 9]", Value::MatrixF64(Matrix::from_vec(vec![1.0,4.0,7.0,2.0,5.0,8.0,3.0,6.0,9.0], 1, 9)));
}
#[test] fn c12_reshape_5x1_to_1x5() {
  expect_val("x<[f64]:1,5> := [1;2;3;4;5]", Value::MatrixF64(Matrix::from_vec(vec![1.0,2.0,3.0,4.0,5.0], 1, 5)));
}
#[test] fn c12_reshape_6x1_to_2x3() {
  expect_val("x<[f64]:2,3> := [1;2;3;4;5;6]", Value::MatrixF64(Matrix::from_vec(vec![1.0,2.0,3.0,4.0,5.0,6.0], 2, 3)));
}
#[test] fn c12_reshape_1x1() {
  expect_val("x<[f64]:1,1> := [7]", Value::MatrixF64(Matrix::from_vec(vec![7.0], 1, 1)));
}
#[test] fn c12_reshape_count_mismatch_err() { expect_err("x<[f64]:2,2> := [1 2 3]"); }
#[test] fn c12_reshape_count_mismatch_err2() { expect_err("x<[f64]:2,3> := [1 2; 3 4]"); }
#[test] fn c12_reshape_count_mismatch_err_u8() { expect_err("x<[u8]:3,3> := [1 2; 3 4]"); }
// one-dimensional shape annotation: same element count -> must not panic
#[test] fn c12_shape_1d_same_count() {
  let out = run("x<[f64]:3> := [1 2 3]");
  println!("{:?}", out);
  match out { Out::Val(_) | Out::Err(_) => {}, o => panic!("got {:?}", o) }
}
#[test] fn c12_shape_1d_diff_count() { expect_err("x<[f64]:4> := [1 2 3]"); }

// reshape via a variable (MutableReference source)
#[test] fn c12_reshape_var() {
  expect_val("a := [1 2 3; 4 5 6]; x<[u8]:3,2> := a", Value::MatrixU8(Matrix::from_vec(vec![1, 4, 2, 5, 3, 6], 3, 2)));
}
#[test] fn c12_reshape_var_mismatch() { expect_err("a := [1 2 3; 4 5 6]; x<[u8]:4,2> := a"); }

// sets
#[test] fn c12_set_distinct() {
  expect_val("x<{f64}> := [1 2 2 1 3]", Value::Set(Ref::new(MechSet::from_vec(vec![
    Value::F64(Ref::new(1.0)), Value::F64(Ref::new(2.0)), Value::F64(Ref::new(3.0))]))));
}
#[test] fn c12_set_distinct_2d() {
  expect_val("x<{f64}> := [1 2; 2 1]", Value::Set(Ref::new(MechSet::from_vec(vec![
    Value::F64(Ref::new(1.0)), Value::F64(Ref::new(2.0))]))));
}
#[test] fn c12_set_u8_from_u8() {
  expect_val("x<{u8}> := [1u8 2u8 1u8]", Value::Set(Ref::new(MechSet::from_vec(vec![
    Value::U8(Ref::new(1)), Value::U8(Ref::new(2))]))));
}
#[test] fn c12_set_u8_from_f64() {
  expect_val("x<{u8}> := [1 2 1]", Value::Set(Ref::new(MechSet::from_vec(vec![
    Value::U8(Ref::new(1)), Value::U8(Ref::new(2))]))));
}
#[test] fn c12_set_u8_from_u16() {
  expect_val("x<{u8}> := [1u16 2u16 1u16]", Value::Set(Ref::new(MechSet::from_vec(vec![
    Value::U8(Ref::new(1)), Value::U8(Ref::new(2))]))));
}
#[test] fn c12_set_size_reports_distinct() {
  let out = run("x<{f64}> := [1 1 1 1]");
  println!("{:?}", out);
  match out { Out::Val(Value::Set(s)) => { let s = s.borrow(); assert_eq!(s.num_elements, 1); assert_eq!(s.set.len(), 1); }, o => panic!("{:?}", o) }
}
#[test] fn c12_set_var() {
  expect_val("a := [3 3 4]; x<{f64}> := a", Value::Set(Ref::new(MechSet::from_vec(vec![
    Value::F64(Ref::new(3.0)), Value::F64(Ref::new(4.0))]))));
}
#[test] fn c12_set_string_to_number_err() { expect_err(r#"x<{f64}> := ["a" "b"]"#); }

// ============================ round 2 ========================================
fn i8row(v: Vec<i8>) -> Value { let n = v.len(); Value::MatrixI8(Matrix::from_vec(v, 1, n)) }
#[test] fn r2_c12_i8_min_literal_assign() { expect_val("x := -128<i8>", Value::I8(Ref::new(-128))); }
#[test] fn r2_c12_i8_min_literal_paren() { expect_val("x := -(128<i8>)", Value::I8(Ref::new(-128))); }
#[test] fn r2_c15_incl_i8_full() { expect_val("a<i8> := 0; b<i8> := 127; a..=b", i8row((0i8..=127).collect())); }
#[test] fn r2_c15_incl_i8_top() { expect_val("a<i8> := 120; b<i8> := 127; a..=b", i8row((120i8..=127).collect())); }
#[test] fn r2_c15_incl_u8_top_full() { expect_val("1u8..=255u8", Value::MatrixU8(Matrix::from_vec((1u8..=255).collect(), 1, 255))); }
#[test] fn r2_c15_excl_i8_wide() { expect_val("a<i8> := -100; b<i8> := 100; a..b", i8row((-100i8..100).collect())); }
#[test] fn r2_c15_incl_i8_wide() { expect_val("a<i8> := -100; b<i8> := 100; a..=b", i8row((-100i8..=100).collect())); }
#[test] fn r2_c15_step_i8_wide() { expect_val("a<i8> := -100; s<i8> := 50; b<i8> := 100; a..s..b", i8row(vec![-100,-50,0,50])); }
#[test] fn r2_c15_step_i8_wide_incl() { expect_val("a<i8> := -100; s<i8> := 50; b<i8> := 100; a..s..=b", i8row(vec![-100,-50,0,50,100])); }
#[test] fn r2_c15_step_desc_i8() { expect_val("a<i8> := 10; s<i8> := -2; b<i8> := 0; a..s..b", i8row(vec![10,8,6,4,2])); }
#[test] fn r2_c15_step_desc_f64_vars() { expect_val("a := 10; s := -2; b := 0; a..s..b", f64row(vec![10.0,8.0,6.0,4.0,2.0])); }
#[test] fn r2_c15_excl_neg_i8() { expect_val("a<i8> := -3; b<i8> := 2; a..b", i8row(vec![-3,-2,-1,0,1])); }
#[test] fn r2_c15_incl_frac() { expect_val("0..=0.5", f64row(vec![0.0])); }
#[test] fn r2_c15_excl_frac_small() { expect_val("2..2.5", f64row(vec![2.0])); }
#[test] fn r2_c15_excl_f32_frac() { expect_val("a<f32> := 1.5; b<f32> := 4.2; a..b", Value::MatrixF32(Matrix::from_vec(vec![1.5f32,2.5,3.5], 1, 3))); }
#[test] fn r2_c15_step_excl_u64_above_2p53() {
  expect_val("x<u64> := 0d9007199254740993; y<u64> := 0d9007199254740995; s<u64> := 0d1; x..s..y",
    Value::MatrixU64(Matrix::from_vec(vec![9007199254740993u64, 9007199254740994u64], 1, 2)));
}
#[test] fn r2_c15_step_i64_big_step() {
  // step 2 from 2^53+1 up to (excl) 2^53+7 : 3 elements
  expect_val("x<i64> := 0d9007199254740993; y<i64> := 0d9007199254740999; s<i64> := 0d2; x..s..y",
    Value::MatrixI64(Matrix::from_vec(vec![9007199254740993i64, 9007199254740995, 9007199254740997], 1, 3)));
}
#[test] fn r2_c15_step_u8_float_literals() { expect_val("1u8..2u8..8u8", Value::MatrixU8(Matrix::from_vec(vec![1,3,5,7], 1, 4))); }
#[test] fn r2_c15_step_f32() { expect_val("a<f32> := 0; s<f32> := 0.5; b<f32> := 2; a..s..=b", Value::MatrixF32(Matrix::from_vec(vec![0.0f32,0.5,1.0,1.5,2.0], 1, 5))); }
#[test] fn r2_c15_incl_single() { expect_val("3..=3", f64row(vec![3.0])); }
#[test] fn r2_c15_incl_reversed() { expect_err_or_empty("4..=3"); }
#[test] fn r2_c15_incl_reversed_by_one_u8() { expect_err_or_empty("4u8..=3u8"); }
#[test] fn r2_c15_incl_reversed_by_two_f64() { expect_err_or_empty("5..=3"); }
#[test] fn r2_c15_incl_reversed_frac() { expect_err_or_empty("3.5..=3"); }
#[test] fn r2_c15_step_incl_reversed_f64() { expect_err_or_empty("5..1..=3"); }

// same-rule for matrix vs scalar
#[test] fn r2_c12_bool_matrix_to_u8() { expect_err("x<[u8]> := [true false]"); }
#[test] fn r2_c12_rational_scalar_to_f64() { expect_val("x<f64> := 1/2", Value::F64(Ref::new(0.5))); }
#[test] fn r2_c12_rational_matrix_to_f64() { expect_val("x<[f64]> := [1/2 1/4]", f64row(vec![0.5, 0.25])); }
#[test] fn r2_c12_f64_matrix_to_rational() {
  let o = run("x<[r64]> := [0.5 0.25]"); println!("{}", compact(&o));
  let o2 = run("x<r64> := 0.5"); println!("{}", compact(&o2));
  match (o, o2) { (Out::Val(_), Out::Val(_)) | (Out::Err(_), Out::Err(_)) => {}, (a,b) => panic!("matrix {:?} scalar {:?}", compact(&a), compact(&b)) }
}
#[test] fn r2_c12_u16_matrix_to_u8() { expect_val("x<[u8]> := [1u16 2u16 3u16]", Value::MatrixU8(Matrix::from_vec(vec![1,2,3], 1, 3))); }
#[test] fn r2_c12_matrix_string() { expect_val("x<[string]> := [1 2]", Value::MatrixString(Matrix::from_vec(vec!["1".to_string(),"2".to_string()], 1, 2))); }
#[test] fn r2_c12_scalar_string() { expect_val("x<string> := 1", Value::String(Ref::new("1".to_string()))); }
#[test] fn r2_c12_typed_elements() { expect_val("[1<u8> 300<u8>]", Value::MatrixU8(Matrix::from_vec(vec![1,255], 1, 2))); }
#[test] fn r2_c12_mat_neg_to_u8() { expect_val("x<[u8]> := [-1.5 2.5]", Value::MatrixU8(Matrix::from_vec(vec![0,2], 1, 2))); }
#[test] fn r2_c12_mat_i8() { expect_val("x<[i8]> := [-1.9 200; -200 1.9]", Value::MatrixI8(Matrix::from_vec(vec![-1,-128,127,1], 2, 2))); }
#[test] fn r2_c12_mat_widen_narrow() { expect_val("x<[u8]> := [1 200 255]; y<[u64]> := x; z<[u8]> := y", Value::MatrixU8(Matrix::from_vec(vec![1,200,255], 1, 3))); }
#[test] fn r2_c12_mat_i64_to_u64_big() {
  expect_val("x<[u64]> := [0d9007199254740993 0d2]", Value::MatrixU64(Matrix::from_vec(vec![9007199254740993u64, 2], 1, 2)));
}
#[test] fn r2_c12_reshape_and_convert_colmajor() {
  expect_val("x<[u8]:4,1> := [1 2; 3 4]", Value::MatrixU8(Matrix::from_vec(vec![1,3,2,4], 4, 1)));
}
#[test] fn r2_c12_reshape_3x2_to_2x3() {
  expect_val("x<[f64]:2,3> := [1 2; 3 4; 5 6]", Value::MatrixF64(Matrix::from_vec(vec![1.0,3.0,5.0,2.0,4.0,6.0], 2, 3)));
}
#[test] fn r2_c12_reshape_3x2_to_6x1() {
  expect_val("x<[f64]:6,1> := [1 2; 3 4; 5 6]", Value::MatrixF64(Matrix::from_vec(vec![1.0,3.0,5.0,2.0,4.0,6.0], 6, 1)));
}
#[test] fn r2_c12_reshape_range() {
  expect_val("x<[f64]:2,3> := 1..=6", Value::MatrixF64(Matrix::from_vec(vec![1.0,2.0,3.0,4.0,5.0,6.0], 2, 3)));
}
#[test] fn r2_c12_reshape_3x4_to_2x6() {
  expect_val("x<[f64]:2,6> := [1 2 3 4; 5 6 7 8; 9 10 11 12]", Value::MatrixF64(Matrix::from_vec(vec![1.0,5.0,9.0,2.0,6.0,10.0,3.0,7.0,11.0,4.0,8.0,12.0], 2, 6)));
}
#[test] fn r2_c12_reshape_mismatch_1d() { expect_err("x<[f64]:2> := [1 2 3]"); }
#[test] fn r2_c12_shape_3d() { let o = run("x<[f64]:1,3,1> := [1 2 3]"); println!("{}", compact(&o)); }
#[test] fn r2_c12_shape_zero() { expect_err("x<[f64]:0,0> := [1 2 3]"); }
#[test] fn r2_c12_shape_wild() { let o = run("x<[f64]:_,3> := [1 2 3]"); println!("{}", compact(&o)); }
#[test] fn r2_c12_mutable_reshape() { expect_val("~x<[f64]:2,2> := [1 2 3 4]", Value::MatrixF64(Matrix::from_vec(vec![1.0,2.0,3.0,4.0], 2, 2))); }
#[test] fn r2_c12_set_neg_zero() {
  let out = run("x<{f64}> := [0 -0.0 0]"); println!("{}", compact(&out));
  match out { Out::Val(Value::Set(s)) => assert_eq!(s.borrow().set.len(), 1), o => panic!("{:?}", compact(&o)) }
}
#[test] fn r2_c12_set_u8_collide() {
  expect_val("x<{u8}> := [1.2 1.7 2]", Value::Set(Ref::new(MechSet::from_vec(vec![Value::U8(Ref::new(1)), Value::U8(Ref::new(2))]))));
}
#[test] fn r2_c12_set_sized() { let o = run("x<{f64}:2> := [1 2 3]"); println!("{}", compact(&o)); }
#[test] fn r2_c12_set_from_bool() { expect_val("x<{bool}> := [true false true]", Value::Set(Ref::new(MechSet::from_vec(vec![Value::Bool(Ref::new(true)), Value::Bool(Ref::new(false))])))); }
#[test] fn r2_c12_set_from_string() { expect_val(r#"x<{string}> := ["a" "b" "a"]"#, Value::Set(Ref::new(MechSet::from_vec(vec![Value::String(Ref::new("a".to_string())), Value::String(Ref::new("b".to_string()))])))); }
#[test] fn r2_c12_set_kind_field() {
  let out = run("x<{u8}> := [1 2 1]"); println!("{}", compact(&out));
  match out { Out::Val(Value::Set(s)) => { assert_eq!(s.borrow().kind, ValueKind::U8); }, o => panic!("{:?}", compact(&o)) }
}

// ============================ round 3 ========================================
#[test] fn r3_c12_shape_3d_diff_count() { expect_err("x<[f64]:1,2,5> := [1 2]"); }
#[test] fn r3_c12_shape_3d_diff_count_reshape() { expect_err("x<[f64]:2,1,7> := [1 2]"); }
#[test] fn r3_c12_shape_1d_col() {
  let out = run("x<[f64]:3> := [1;2;3]"); println!("{}", compact(&out));
  match out { Out::Val(v) => assert_eq!(v, Value::MatrixF64(Matrix::from_vec(vec![1.0,2.0,3.0], 3, 1))), o => panic!("{}", compact(&o)) }
}
#[test] fn r3_c15_var_and_literal() { expect_val("a := 2; a..=5", f64row(vec![2.0,3.0,4.0,5.0])); }
#[test] fn r3_c15_literal_and_var() { expect_val("b := 5; 2..b", f64row(vec![2.0,3.0,4.0])); }
#[test] fn r3_c15_step_vars_mixed() { expect_val("s := 2; 1..s..=7", f64row(vec![1.0,3.0,5.0,7.0])); }
#[test] fn r3_c15_expr_bounds() { expect_val("(1+1)..(2*3)", f64row(vec![2.0,3.0,4.0,5.0])); }
#[test] fn r3_c15_u16_incl_full_top() { expect_val("65530u16..=65535u16", Value::MatrixU16(Matrix::from_vec(vec![65530,65531,65532,65533,65534,65535], 1, 6))); }
#[test] fn r3_c15_u64_top_incl() {
  expect_val("a<u64> := 18446744073709551615; b<u64> := 18446744073709551615; a..=b", Value::MatrixU64(Matrix::from_vec(vec![u64::MAX], 1, 1)));
}
#[test] fn r3_c15_u64_full_incl_overflow() {
  // 0..=u64::MAX cannot be materialised: must be an error, not a wrong vector
  expect_err_or_empty("a<u64> := 0; b<u64> := 18446744073709551615; a..=b");
}
#[test] fn r3_c15_step_incl_u8_frac_literal() { expect_val("0u8..100u8..=255u8", Value::MatrixU8(Matrix::from_vec(vec![0,100,200], 1, 3))); }
#[test] fn r3_c15_step_u64_huge_span() {
  // from 0 to u64::MAX step 2^62 : 0, 2^62, 2^63, 3*2^62  (exclusive)
  expect_val("a<u64> := 0; s<u64> := 4611686018427387904; b<u64> := 18446744073709551615; a..s..b",
    Value::MatrixU64(Matrix::from_vec(vec![0u64, 4611686018427387904, 9223372036854775808, 13835058055282163712], 1, 4)));
}
#[test] fn r3_c15_step_u64_huge_span_incl() {
  expect_val("a<u64> := 0; s<u64> := 4611686018427387904; b<u64> := 18446744073709551615; a..s..=b",
    Value::MatrixU64(Matrix::from_vec(vec![0u64, 4611686018427387904, 9223372036854775808, 13835058055282163712], 1, 4)));
}
#[test] fn r3_c15_step_float_third() { expect_val("0..0.3..0.9", f64row(vec![0.0, 0.3, 0.6])); }
#[test] fn r3_c15_step_f32_tenth() {
  // f32: 0, 0.1, ..., 0.9 (10 terms < 1)
  let out = run("a<f32> := 0; s<f32> := 0.1; b<f32> := 1; a..s..b"); println!("{}", compact(&out));
  match out { Out::Val(v) => assert_eq!(v.shape(), vec![1,10]), o => panic!("{}", compact(&o)) }
}

// ============================ round 4 ========================================
#[test] fn r4_c12_option_matrix_reshape_row() {
  let out = run("x<[u64?]:2,3> := [_ 2u64 _ 3u64 _ 4u64]"); println!("{}", compact(&out));
  match out { Out::Val(v) => { assert_eq!(v.shape(), vec![2,3]);
      if let Value::MatrixValue(m) = &v { let e = m.as_vec(); assert_eq!(e[1], Value::U64(Ref::new(2))); assert_eq!(e[3], Value::U64(Ref::new(3))); assert_eq!(e[5], Value::U64(Ref::new(4))); assert_eq!(e[0], Value::Empty); } else { panic!("not matrixvalue") } },
    o => panic!("{}", compact(&o)) }
}
#[test] fn r4_c12_option_matrix_reshape_row_mismatch() { expect_err("x<[u64?]:2,2> := [_ 2u64 _ 3u64 _ 4u64]"); }
#[test] fn r4_c12_option_matrix_shape_1d() { let o = run("x<[u64?]:6> := [_ 2u64 _ 3u64 _ 4u64]"); println!("{}", compact(&o)); match o { Out::Val(_) => {}, o => panic!("{}", compact(&o)) } }
