// Audit of C06 (bytecode == interpreter) and C07 (bytecode file round trip / corruption rejection).
// Every test asserts what the property DEMANDS. Tests named `violation_*` FAIL on the unmodified
// code (each one is a confirmed violation); tests named `holds_*` pass.
// Run: cp audit.rs tests/audit.rs && cargo test --offline --test audit -- --test-threads=1
#![allow(warnings)]
extern crate mech_syntax;
extern crate mech_core;
use std::panic::{catch_unwind, AssertUnwindSafe};
use mech_core::matrix::Matrix;
use mech_syntax::*;
use mech_core::*;
use mech_interpreter::*;

// ---------------------------------------------------------------------------------------------
// helpers
// ---------------------------------------------------------------------------------------------

// records the largest single allocation request, to observe "allocates without bound"
use std::alloc::{GlobalAlloc, Layout, System};
use std::sync::atomic::{AtomicUsize, Ordering};
struct Tracking;
static MAX_REQ: AtomicUsize = AtomicUsize::new(0);
unsafe impl GlobalAlloc for Tracking {
  unsafe fn alloc(&self, l: Layout) -> *mut u8 { MAX_REQ.fetch_max(l.size(), Ordering::Relaxed); System.alloc(l) }
  unsafe fn dealloc(&self, p: *mut u8, l: Layout) { System.dealloc(p, l) }
  unsafe fn realloc(&self, p: *mut u8, l: Layout, n: usize) -> *mut u8 { MAX_REQ.fetch_max(n, Ordering::Relaxed); System.realloc(p, l, n) }
  unsafe fn alloc_zeroed(&self, l: Layout) -> *mut u8 { MAX_REQ.fetch_max(l.size(), Ordering::Relaxed); System.alloc_zeroed(l) }
}
#[global_allocator]
static GLOBAL: Tracking = Tracking;

#[derive(Debug)]
enum Outcome {
  InterpErr(String),
  CompileErr(String),
  CompilePanic,
  LoadErr(String),
  LoadPanic,
  RunErr(String),
  RunPanic,
  Ok(Value, Value), // (interpreter result, bytecode result)
}

// interpret -> compile -> from_bytes -> run_program in a FRESH interpreter
fn both(code: &str) -> Outcome {
  let mut intrp = Interpreter::new(0);
  let tree = match parser::parse(code) { Ok(t) => t, Err(e) => return Outcome::InterpErr(format!("parse: {:?}", e)) };
  let expected = match intrp.interpret(&tree) { Ok(v) => v, Err(e) => return Outcome::InterpErr(format!("{:?}", e)) };
  let bytecode = match catch_unwind(AssertUnwindSafe(|| intrp.compile())) {
    Ok(Ok(b)) => b,
    Ok(Err(e)) => return Outcome::CompileErr(format!("{:?}", e)),
    Err(_) => return Outcome::CompilePanic,
  };
  let prog = match catch_unwind(AssertUnwindSafe(|| ParsedProgram::from_bytes(&bytecode))) {
    Ok(Ok(p)) => p,
    Ok(Err(e)) => return Outcome::LoadErr(format!("{:?}", e)),
    Err(_) => return Outcome::LoadPanic,
  };
  let mut fresh = Interpreter::new(1);
  let got = match catch_unwind(AssertUnwindSafe(|| fresh.run_program(&prog))) {
    Ok(Ok(v)) => v,
    Ok(Err(e)) => return Outcome::RunErr(format!("{:?}", e)),
    Err(_) => return Outcome::RunPanic,
  };
  Outcome::Ok(expected, got)
}

fn deref(v: &Value) -> Value {
  match v { Value::MutableReference(r) => deref(&r.borrow()), x => x.clone() }
}

// C06, second sentence: a program of the core fragment must compile, load, run and reproduce the result.
fn assert_fragment_reproduces(code: &str) {
  match both(code) {
    Outcome::Ok(a, b) => {
      let (a, b) = (deref(&a), deref(&b));
      assert!(a.kind() == b.kind() && a == b, "{:?}: interpreter = {:?}, bytecode = {:?}", code, a, b);
    }
    other => panic!("{:?}: the bytecode did not run: {:?}", code, other),
  }
}

// C06, first sentence: never a panic, never a silently different result (errors are allowed).
fn assert_no_silent_difference(code: &str) {
  match both(code) {
    Outcome::Ok(a, b) => {
      let (a, b) = (deref(&a), deref(&b));
      assert!(a.kind() == b.kind() && a == b, "{:?}: interpreter = {:?}, bytecode = {:?}", code, a, b);
    }
    Outcome::CompilePanic | Outcome::LoadPanic | Outcome::RunPanic => panic!("{:?}: panicked", code),
    Outcome::InterpErr(e) => panic!("{:?}: bad test, the interpreter failed: {}", code, e),
    _ => {}
  }
}

fn emit(code: &str) -> Vec<u8> {
  let mut intrp = Interpreter::new(0);
  let tree = parser::parse(code).unwrap();
  intrp.interpret(&tree).unwrap();
  intrp.compile().unwrap()
}

fn crc32(data: &[u8]) -> u32 {
  let mut crc = 0xFFFF_FFFFu32;
  for &b in data {
    crc ^= b as u32;
    for _ in 0..8 { crc = if crc & 1 == 1 { (crc >> 1) ^ 0xEDB8_8320 } else { crc >> 1 }; }
  }
  !crc
}

fn fix_crc(bytes: &mut Vec<u8>) {
  let n = bytes.len() - 4;
  let crc = crc32(&bytes[..n]);
  bytes[n..].copy_from_slice(&crc.to_le_bytes());
}

// blob-relative offset of the first constant whose type tag is `tag`
fn find_const(prog: &ParsedProgram, tag: TypeTag) -> usize {
  for e in &prog.const_entries {
    if prog.types.entries[e.type_id as usize].tag == tag { return e.offset as usize; }
  }
  panic!("no const with tag {:?}", tag);
}

// compile `code`, overwrite `patch` at byte `rel` of the payload of the first `tag` constant, repair the CRC
fn craft(code: &str, tag: TypeTag, rel: usize, patch: &[u8]) -> Vec<u8> {
  let mut bytes = emit(code);
  let prog = ParsedProgram::from_bytes(&bytes).unwrap();
  let at = prog.header.const_blob_off as usize + find_const(&prog, tag) + rel;
  bytes[at..at + patch.len()].copy_from_slice(patch);
  fix_crc(&mut bytes);
  bytes
}

// C07: loading + decoding the constants of ANY byte sequence must return (Ok or Err), not panic
fn assert_decode_does_not_panic(what: &str, bytes: &[u8]) {
  let r = catch_unwind(AssertUnwindSafe(|| {
    ParsedProgram::from_bytes(bytes).and_then(|p| p.decode_const_entries()).map(|_| ())
  }));
  assert!(r.is_ok(), "{}: loader / constant decoder panicked", what);
}

// byte offsets of header fields (see ByteCodeHeader::write_to)
const H_REG_COUNT: usize = 9;
const H_INSTR_LEN: usize = 101;

// ---------------------------------------------------------------------------------------------
// C06 violations (all programs are inside the "literals, variables, operators, ranges, indexing,
// assignment over numeric / boolean / string values" fragment unless said otherwise)
// ---------------------------------------------------------------------------------------------

// A program whose value is a bare literal has no plan step: the bytecode has no instruction and
// run_program returns Value::Empty. Silently different result.
#[test] fn violation_c06_bare_number_literal()  { assert_fragment_reproduces("5"); }
#[test] fn violation_c06_bare_string_literal()  { assert_fragment_reproduces("\"hello\""); }
#[test] fn violation_c06_bare_rational_literal(){ assert_fragment_reproduces("1/2"); }

// Last statement is a variable reference: the bytecode returns the out of the last plan step,
// i.e. the value of y (2), the interpreter returns x (1). Silently different VALUE.
#[test] fn violation_c06_trailing_variable_reference() { assert_fragment_reproduces("x := 1; y := 2; x"); }

// `x = v` compiles to "Assign<T>" for which no MechFunctionFactory/FunctionDescriptor exists.
#[test] fn violation_c06_scalar_assignment() { assert_fragment_reproduces("~x := 10; x = 20"); }
#[test] fn violation_c06_matrix_assignment() { assert_fragment_reproduces("~x := [1 2 3]; x = [4 5 6]"); }

// Typed literals compile to "ConvertScalarToScalarBasic<f64,u8>", never registered.
#[test] fn violation_c06_typed_literal() { assert_fragment_reproduces("x := 255u8"); }
#[test] fn violation_c06_typed_range()   { assert_fragment_reproduces("1u8..=5u8"); }

// Unary operators on matrices: NegateV / NotV names emitted by compile() are not the registered names.
#[test] fn violation_c06_negate_matrix() { assert_fragment_reproduces("-[1 2 3]"); }
#[test] fn violation_c06_not_matrix()    { assert_fragment_reproduces("![true false]"); }

// x[:] : compile() panics with todo!("CompileConst not implemented for IndexAll")
#[test] fn violation_c06_index_all_panics_in_compile() { assert_fragment_reproduces("x := [1 2 3; 4 5 6]; x[:]"); }

// logical index selecting nothing: the compiler writes a 0x1 matrix constant, the constant decoder panics at run
#[test] fn violation_c06_empty_logical_index_panics_in_run() { assert_fragment_reproduces("x := [1 2 3]; x[[false false false]]"); }

// [x] with x a row vector: compile emits a NullOp but the registered factory wants Unary args
#[test] fn violation_c06_matrix_of_one_row_vector() { assert_fragment_reproduces("x := [1 2 3]; y := [x]"); }
#[test] fn violation_c06_vertical_concat_of_variables() { assert_fragment_reproduces("x := [1 2 3]; y := [4 5 6]; [x; y]"); }

// matrices of complex / rational numbers: run_program panics (value.rs get_copyable_matrix_unchecked)
#[test] fn violation_c06_complex_matrix_panics_in_run()  { assert_fragment_reproduces("x := [1+2i 3+4i]"); }
#[test] fn violation_c06_rational_matrix_panics_in_run() { assert_fragment_reproduces("x := [1/2 3/4]"); }

// Outside the fragment, first sentence of C06 ("reports an error or emits bytecode"): a tuple makes
// Interpreter::compile() recurse forever and the process dies with SIGABRT (stack overflow).
// The child test is run in a subprocess because the abort cannot be caught.
#[test] #[ignore]
fn child_compile_tuple() {
  let mut intrp = Interpreter::new(0);
  let tree = parser::parse("x := (1, 2)").unwrap();
  intrp.interpret(&tree).unwrap();
  let _ = intrp.compile();
}
#[test]
fn violation_c06_tuple_compile_aborts_process() {
  let exe = std::env::current_exe().unwrap();
  let out = std::process::Command::new(exe)
    .args(["child_compile_tuple", "--exact", "--ignored", "--test-threads=1"])
    .output().unwrap();
  assert!(out.status.success(), "compile() of `x := (1, 2)` killed the process: {:?}\n{}", out.status, String::from_utf8_lossy(&out.stderr));
}

// Outside the fragment: compile panics instead of reporting an error
#[test] fn violation_c06_empty_value_compile_panics()  { assert_no_silent_difference("x := _"); }
#[test] fn violation_c06_empty_matrix_compile_panics() { assert_no_silent_difference("x := []"); }

// Borderline (state rather than result): the compiler never calls CompileCtx::define_symbol, so
// no symbol and no dictionary entry is emitted; after running the bytecode in a fresh interpreter
// the variables the interpreter had defined do not exist.
#[test]
fn violation_c06_variables_are_not_restored() {
  let b = emit("x := 1 + 2; y := x + 4");
  let p = ParsedProgram::from_bytes(&b).unwrap();
  assert!(p.symbols.len() == 2 && p.dictionary.len() == 2, "emitted symbols: {}, dictionary entries: {}", p.symbols.len(), p.dictionary.len());
  let mut fresh = Interpreter::new(1);
  fresh.run_program(&p).unwrap();
  let t = parser::parse("y").unwrap();
  assert_eq!(deref(&fresh.interpret(&t).unwrap()), Value::F64(Ref::new(7.0)));
}

// ---------------------------------------------------------------------------------------------
// C07 violations
// ---------------------------------------------------------------------------------------------

// "decoding yields the same ... constants ... the compiler wrote": the decoder PANICS on a file the
// compiler itself emitted (0-row matrix constant).
#[test]
fn violation_c07_compiler_emits_constant_the_decoder_panics_on() {
  let bytes = emit("x := [1 2 3]; y := x[[false false false]]");
  assert_decode_does_not_panic("emitted file with an empty matrix constant", &bytes);
}

// ... and rejects constants of kinds the compiler happily writes (record here; also atom, map).
#[test]
fn violation_c07_compiler_emits_constant_the_decoder_rejects() {
  let bytes = emit("x := {a: 1, b: 2}");
  let prog = ParsedProgram::from_bytes(&bytes).unwrap();
  let consts = prog.decode_const_entries();
  assert!(consts.is_ok(), "decoder cannot decode what the compiler wrote: {:?}", consts.err().map(|e| e.kind_name()));
}

// Crafted files (valid CRC): the constant decoder panics.
#[test] fn violation_c07_matrix_dims_exceed_payload() {
  assert_decode_does_not_panic("cols = 1000", &craft("x := [1 2 3]", TypeTag::MatrixF64, 4, &1000u32.to_le_bytes()));
}
#[test] fn violation_c07_matrix_zero_rows() {
  assert_decode_does_not_panic("rows = 0", &craft("x := [1 2 3]", TypeTag::MatrixF64, 0, &0u32.to_le_bytes()));
}
#[test] fn violation_c07_matrix_dims_capacity_overflow() {
  assert_decode_does_not_panic("rows = cols = u32::MAX", &craft("x := [1 2 3]", TypeTag::MatrixF64, 0, &[0xFF; 8]));
}
#[test] fn violation_c07_string_length_exceeds_payload() {
  assert_decode_does_not_panic("string len = 1000", &craft("x := \"hello\"", TypeTag::String, 0, &1000u32.to_le_bytes()));
}
#[test] fn violation_c07_string_invalid_utf8() {
  assert_decode_does_not_panic("string bytes FF FE", &craft("x := \"hello\"", TypeTag::String, 4, &[0xFF, 0xFE]));
}
#[test] fn violation_c07_rational_zero_denominator() {
  assert_decode_does_not_panic("r64 denominator 0", &craft("x := 1/2", TypeTag::R64, 8, &0i64.to_le_bytes()));
}
#[test] fn violation_c07_set_unknown_kind_tag() {
  assert_decode_does_not_panic("set elem kind tag 99", &craft("x := {1 2 3}", TypeTag::Set, 0, &[99]));
}
#[test] fn violation_c07_set_count_exceeds_payload() {
  assert_decode_does_not_panic("set count 1000", &craft("x := {1 2 3}", TypeTag::Set, 1, &1000u32.to_le_bytes()));
}

// "allocate without bound": a 628 byte file makes the decoder request 800 MB (Vec::with_capacity(rows*cols))
#[test]
fn violation_c07_decoder_allocation_not_bounded_by_file() {
  let f = craft("x := [1 2 3]", TypeTag::MatrixF64, 4, &100_000_000u32.to_le_bytes());
  MAX_REQ.store(0, Ordering::Relaxed);
  let _ = catch_unwind(AssertUnwindSafe(|| ParsedProgram::from_bytes(&f).and_then(|p| p.decode_const_entries()).map(|_| ())));
  let max = MAX_REQ.load(Ordering::Relaxed);
  assert!(max <= 1024 * f.len(), "file of {} bytes made the decoder request a single allocation of {} bytes", f.len(), max);
}

// Re-encoding: ParsedProgram::to_bytes writes symbols and dictionary in HashMap iteration order.
// The interpreter's compiler never emits symbols (see above), so this needs the compiler API.
#[test]
fn violation_c07_reencoding_with_symbols_changes_bytes() {
  let mut ctx = CompileCtx::new();
  for (i, name) in ["a","b","c","d","e","f","g","h"].iter().enumerate() {
    ctx.define_symbol(i, i as u32, name, i % 2 == 0);
  }
  let bytes = ctx.compile().unwrap();
  let prog = ParsedProgram::from_bytes(&bytes).unwrap();
  let again = prog.to_bytes().unwrap();
  assert!(bytes == again, "from_bytes -> to_bytes does not reproduce the emitted bytes");
}

// run_program on crafted files (valid CRC, accepted by from_bytes). These are in the "run" half of the
// loader: listed separately because C07 names "the loader or the constant decoder".
#[test]
fn violation_c07_run_const_id_out_of_range_panics() {
  let mut b = emit("1 + 2");
  let io = ParsedProgram::from_bytes(&b).unwrap().header.instr_off as usize;
  b[io + 5..io + 9].copy_from_slice(&0xFFFFu32.to_le_bytes()); // ConstLoad { dst: 0, const_id: 0xFFFF }
  fix_crc(&mut b);
  let p = ParsedProgram::from_bytes(&b).unwrap();
  let mut fresh = Interpreter::new(1);
  let r = catch_unwind(AssertUnwindSafe(|| fresh.run_program(&p).map(|_| ())));
  assert!(r.is_ok(), "run_program panicked on ConstLoad with const_id out of range");
}
#[test]
fn violation_c07_run_return_opcode_panics() {
  let mut b = emit("1 + 2");
  let io = ParsedProgram::from_bytes(&b).unwrap().header.instr_off as usize;
  b[H_INSTR_LEN..H_INSTR_LEN + 8].copy_from_slice(&5u64.to_le_bytes());
  b[io] = 0xFF; // OpCode::Return
  fix_crc(&mut b);
  let p = ParsedProgram::from_bytes(&b).unwrap();
  assert_eq!(p.instrs, vec![DecodedInstr::Ret { src: 0 }]);
  let mut fresh = Interpreter::new(1);
  let r = catch_unwind(AssertUnwindSafe(|| fresh.run_program(&p).map(|_| ())));
  assert!(r.is_ok(), "run_program panicked on a Return instruction (todo!())");
}
#[test]
fn violation_c07_run_register_file_sized_from_header() {
  let mut b = emit("1 + 2");
  b[H_REG_COUNT..H_REG_COUNT + 4].copy_from_slice(&4_000_000u32.to_le_bytes());
  fix_crc(&mut b);
  let p = ParsedProgram::from_bytes(&b).unwrap();
  assert_eq!(p.header.reg_count, 4_000_000);
  MAX_REQ.store(0, Ordering::Relaxed);
  let mut fresh = Interpreter::new(1);
  let _ = catch_unwind(AssertUnwindSafe(|| fresh.run_program(&p).map(|_| ())));
  let max = MAX_REQ.load(Ordering::Relaxed);
  assert!(max <= 1024 * b.len(), "file of {} bytes made run_program allocate {} bytes at once", b.len(), max);
}

// ---------------------------------------------------------------------------------------------
// Hypotheses that HOLD
// ---------------------------------------------------------------------------------------------

#[test]
fn holds_c06_fragment_programs_that_reproduce() {
  for code in [
    "x := 5", "x := 1 + 2; y := x + 4", "-5", "x := 5; -x", "2 ^ 3", "7 % 3", "1 != 2", "\"a\" != \"b\"", "true != false",
    "x := 0xFF", "1..5", "1..=3", "1..=1", "1..2..10", "[1 2 3] + [4 5 6]", "[1 2 3] + 1", "1 + [1 2 3]",
    "[1 2;3 4] ** [1 2; 3 4]", "[true false] && [true true]", "[1 2 3] > 2", "[\"a\" \"b\"] == [\"a\" \"c\"]",
    "x := [1 2 3; 4 5 6]; x[1,2]", "x := [1 2 3; 4 5 6]; x[:,1]", "x := [1 2 3; 4 5 6]; x[1,:]", "x := [1 2; 3 4]; x[3]",
    "x := [1 2 3]; x[[true false true]]", "x := [1 2 3]; x[[1 1 2 2]]", "x := 1..=5; x[1..=3]",
    "x := [1 2 3; 4 5 6; 7 8 9]; x[1..=2, 2..=3]", "x := [1 2 3; 4 5 6; 7 8 9]; x[:,[1 2]]",
    "~x := [1 2 3]; x[2] = 5", "~x := [1 2; 3 4]; x[:,1] = [7;8]", "~x := [1 2 3 4]; x[1..=2] = 0", "~x := [1 2 3]; x[1] = x[2]",
    "~x := [\"a\" \"b\" \"c\"]; x[2] = \"z\"", "~x := [true false true]; x[2] = true", "~x := 10; x += 20",
    "x := 1 + 2i", "x := 1/2 + 1/3", "x := \"a\" + \"b\"", "x := [\"\" \"é\" \"日本\"]", "x := 1.0 / 0.0", "x := -0.0",
    "[1 2 3]'", "[1 2 3] ^ 2", "x := true; !x", "x := 1; y := 2; [x y]", "x := [1 2 3]; y := [4 5 6]; [x y]",
    "x := 3; y := x > 2 && x < 5",
  ] {
    assert_fragment_reproduces(code);
  }
}

#[test]
fn holds_c06_structured_values_error_or_agree() {
  for code in ["x := {a: 1, b: 2}", "x := :foo", "x := {\"a\": 1}", "x := {\"a\" \"b\"}", "x := {1.5 2.5}",
               "x := |a<f64> b<string>| 1 \"x\" | 2 \"y\" |", "x<f32> := 5"] {
    assert_no_silent_difference(code);
  }
}

#[test]
fn holds_c07_reencoding_emitted_files_reproduces_bytes() {
  for code in ["x := 1", "x := 1; y := 2", "a := 1; b := 2; c := 3; d := 4; e := a + b", "1 + 2",
               "x := [1 2 3]; y := \"hi\"; z := true", "x := {1 2 3}", "~x := [1 2 3]; x[2] = 5"] {
    let bytes = emit(code);
    let prog = ParsedProgram::from_bytes(&bytes).unwrap();
    assert_eq!(prog.to_bytes().unwrap(), bytes, "{}", code);
  }
}

#[test]
fn holds_c07_every_truncation_bit_flip_and_burst_is_rejected() {
  let bytes = emit("x := [1 2 3]; y := x + 1");
  for n in 0..bytes.len() {
    assert!(matches!(catch_unwind(AssertUnwindSafe(|| ParsedProgram::from_bytes(&bytes[..n]).map(|_| ()))), Ok(Err(_))), "truncation to {}", n);
  }
  for i in 0..bytes.len() * 8 {
    let mut b = bytes.clone();
    b[i / 8] ^= 1 << (i % 8);
    assert!(matches!(catch_unwind(AssertUnwindSafe(|| ParsedProgram::from_bytes(&b).map(|_| ()))), Ok(Err(_))), "bit flip {}", i);
  }
  let mut seed = 0x12345678u64;
  for i in 0..(bytes.len() * 8 - 32) {
    seed = seed.wrapping_mul(6364136223846793005).wrapping_add(1442695040888963407);
    let width = (2 + (seed >> 59) as usize).min(32);
    let pat = (((seed >> 16) as u32) | 1 | (1 << (width - 1))) & (u32::MAX >> (32 - width));
    let mut b = bytes.clone();
    for k in 0..width { if (pat >> k) & 1 == 1 { let bit = i + k; b[bit / 8] ^= 1 << (bit % 8); } }
    assert!(matches!(catch_unwind(AssertUnwindSafe(|| ParsedProgram::from_bytes(&b).map(|_| ()))), Ok(Err(_))), "burst at {}", i);
  }
}

#[test]
fn holds_c07_from_bytes_never_panics_and_allocates_little() {
  // mutated headers / bodies / truncations with a REPAIRED CRC: from_bytes itself returns Ok or Err
  let base = emit("x := [1 2 3]; y := x + 1; z := \"hi\"");
  let mut seed = 0x9E3779B97F4A7C15u64;
  let mut next = || { seed ^= seed << 13; seed ^= seed >> 7; seed ^= seed << 17; seed };
  let hs = ByteCodeHeader::HEADER_SIZE;
  for _ in 0..50000 {
    let mut b = base.clone();
    for _ in 0..(1 + next() % 4) {
      let pos = if next() % 3 == 0 { (next() as usize) % hs } else { (next() as usize) % (b.len() - 4) };
      b[pos] = match next() % 4 { 0 => 0, 1 => 0xFF, 2 => (next() & 0xFF) as u8, _ => b[pos] ^ (1 << (next() % 8)) };
    }
    if next() % 8 == 0 { let n = 4 + (next() as usize) % (b.len() - 4); b.truncate(n); }
    fix_crc(&mut b);
    MAX_REQ.store(0, Ordering::Relaxed);
    let r = catch_unwind(AssertUnwindSafe(|| ParsedProgram::from_bytes(&b).map(|_| ())));
    assert!(r.is_ok(), "from_bytes panicked");
    assert!(MAX_REQ.load(Ordering::Relaxed) <= 64 * base.len());
  }
}
