// Audit of C03 (indexing reads), C04 (indexed assignment), C11 (matrix concatenation)
// against the UNMODIFIED mech interpreter.
//
// Run with:  cp audit.rs tests/audit.rs && cargo test --offline --test audit
//
// Tests whose name starts with `violation_` assert what the property demands and
// FAIL on the current code (each one is a confirmed violation).
// Tests whose name starts with `holds_` assert what the property demands and PASS.
#![allow(warnings)]
extern crate mech_syntax;
extern crate mech_core;
use mech_core::matrix::Matrix;
use mech_syntax::*;
use mech_core::*;
use mech_interpreter::*;
use std::panic;

// ---------------------------------------------------------------------------
// helpers
// ---------------------------------------------------------------------------

/// Parse + interpret one program in a fresh interpreter.
fn run(s: &str) -> Result<Value, String> {
  let s2 = s.to_string();
  let r = panic::catch_unwind(move || {
    let tree = match parser::parse(&s2) { Ok(t) => t, Err(_) => return Err("PARSE-ERR".to_string()) };
    let mut intrp = Interpreter::new(0);
    intrp.interpret(&tree).map_err(|e| format!("ERR {}", e.kind_name()))
  });
  match r { Ok(x) => x, Err(_) => Err("PANIC".to_string()) }
}

/// Interpret several programs one after the other in the SAME interpreter.
fn run_seq(progs: &[&str]) -> Vec<Result<Value, String>> {
  let progs: Vec<String> = progs.iter().map(|s| s.to_string()).collect();
  let r = panic::catch_unwind(move || {
    let mut intrp = Interpreter::new(0);
    let mut out = vec![];
    for p in progs.iter() {
      let tree = match parser::parse(p) { Ok(t) => t, Err(_) => { out.push(Err("PARSE-ERR".to_string())); continue; } };
      out.push(intrp.interpret(&tree).map_err(|e| format!("ERR {}", e.kind_name())));
    }
    out
  });
  match r { Ok(x) => x, Err(_) => vec![Err("PANIC".to_string())] }
}

/// Compact debug rendering (no whitespace, no addresses).
fn compact(v: &Value) -> String {
  let d: String = format!("{:?}", v).split_whitespace().collect::<Vec<_>>().join("");
  let b: Vec<char> = d.chars().collect();
  let mut res = String::new();
  let mut i = 0;
  while i < b.len() {
    if b[i] == '@' { while i < b.len() && b[i] != ':' { i += 1; } i += 1; continue; }
    res.push(b[i]); i += 1;
  }
  res
}

fn describe(r: &Result<Value, String>) -> String {
  match r { Ok(v) => format!("OK {} shape {:?}", compact(v), v.shape()), Err(e) => e.clone() }
}

/// The program must evaluate to an f64 scalar/matrix with exactly this column-major data and shape.
fn expect_f64(prog: &str, data: &[f64], rows: usize, cols: usize) {
  let r = run(prog);
  match &r {
    Ok(v) => {
      let got = v.as_vecf64().unwrap_or_else(|_| panic!("`{}`: not an f64 value: {}", prog, describe(&r)));
      assert!(got == data.to_vec() && v.shape() == vec![rows, cols],
        "`{}`\n  expected {:?} shape [{}, {}]\n  got      {:?} shape {:?}", prog, data, rows, cols, got, v.shape());
    }
    Err(e) => panic!("`{}`\n  expected {:?} shape [{}, {}]\n  got      {}", prog, data, rows, cols, e),
  }
}

/// Same, but only the elements (the shape is not checked).
fn expect_f64_elems(prog: &str, data: &[f64]) {
  let r = run(prog);
  match &r {
    Ok(v) => {
      let got = v.as_vecf64().unwrap_or_else(|_| panic!("`{}`: not an f64 value: {}", prog, describe(&r)));
      assert!(got == data.to_vec(), "`{}`\n  expected {:?}\n  got      {:?} shape {:?}", prog, data, got, v.shape());
    }
    Err(e) => panic!("`{}`\n  expected {:?}\n  got      {}", prog, data, e),
  }
}

/// The program must be rejected with an error.
fn expect_err(prog: &str) {
  let r = run(prog);
  assert!(r.is_err(), "`{}`\n  expected an error\n  got      {}", prog, describe(&r));
}

/// The program must evaluate to a value whose compact rendering contains all the given fragments.
fn expect_contains(prog: &str, frags: &[&str], shape: &[usize]) {
  let r = run(prog);
  match &r {
    Ok(v) => {
      let c = compact(v);
      for f in frags { assert!(c.contains(f), "`{}`\n  expected to contain {:?}\n  got      {}", prog, f, c); }
      assert!(v.shape() == shape.to_vec(), "`{}`\n  expected shape {:?}\n  got      {:?}", prog, shape, v.shape());
    }
    Err(e) => panic!("`{}`\n  expected a value containing {:?}\n  got      {}", prog, frags, e),
  }
}

/// Silence the (caught) panics raised inside the interpreter; keep the assertion messages of this file.
fn quiet() {
  panic::set_hook(Box::new(|info| {
    if let Some(loc) = info.location() {
      if loc.file().ends_with("audit.rs") {
        let msg = if let Some(s) = info.payload().downcast_ref::<String>() { s.clone() }
                  else if let Some(s) = info.payload().downcast_ref::<&str>() { s.to_string() } else { "?".to_string() };
        eprintln!("ASSERTION FAILED at {}:{}\n{}", loc.file(), loc.line(), msg);
      }
    }
  }));
}

// ===========================================================================
// C03  -- confirmed violations
// ===========================================================================

// A logical mask LONGER than the indexed vector is accepted; the surplus `true`s
// produce fabricated default elements (0.0).
#[test]
fn violation_c03_mask_longer_than_vector_returns_fabricated_zeros() {
  quiet();
  // actual: OK [1,3,0,0] shape [4,1]
  expect_err("x := [1 2 3]; x[[true false true true true]]");
}

// Same for a matrix indexed linearly.
#[test]
fn violation_c03_mask_longer_than_matrix_numel() {
  quiet();
  // actual: OK [1,3,5,2,4,6,0] shape [7,1]
  expect_err("x := [1 2; 3 4; 5 6]; x[[true true true true true true true]]");
}

// x[:, mask] with a mask longer than the number of columns: extra zero column.
#[test]
fn violation_c03_all_rows_column_mask_longer_than_ncols() {
  quiet();
  // actual: OK 3x3 [1,4,7,3,6,9,0,0,0]
  expect_err("x := [1 2 3; 4 5 6; 7 8 9]; x[:,[true false true true]]");
}

// A mask SHORTER than the indexed dimension is accepted in every 2-D form.
#[test]
fn violation_c03_row_scalar_column_mask_shorter_than_ncols() {
  quiet();
  // actual: OK [4] shape [1,1]
  expect_err("x := [1 2 3; 4 5 6; 7 8 9]; x[2,[true false]]");
}
#[test]
fn violation_c03_row_mask_shorter_than_nrows_column_scalar() {
  quiet();
  // actual: OK [2] shape [1,1]
  expect_err("x := [1 2 3; 4 5 6; 7 8 9]; x[[true false],2]");
}
#[test]
fn violation_c03_row_mask_shorter_than_nrows_all_columns() {
  quiet();
  // actual: OK [1,2,3] shape [1,3]
  expect_err("x := [1 2 3; 4 5 6; 7 8 9]; x[[true false],:]");
}
#[test]
fn violation_c03_mask_mask_both_shorter() {
  quiet();
  // actual: OK [1,2] shape [1,2]
  expect_err("x := [1 2 3; 4 5 6; 7 8 9]; x[[true false],[true true]]");
}
#[test]
fn violation_c03_index_vector_mask_shorter() {
  quiet();
  // actual: OK 2x2 [1,4,2,5]
  expect_err("x := [1 2 3; 4 5 6; 7 8 9]; x[[1 2],[true true]]");
}

// A wide integer index is truncated modulo 2^64 (`as usize`): 2^64+2 reads element 2.
#[test]
fn violation_c03_u128_index_beyond_last_element_wraps_to_other_element() {
  quiet();
  // actual: OK F64(2.0)
  expect_err("x := [1 2 3]; ix := 18446744073709551616<u128> + 2<u128>; x[ix]");
}
#[test]
fn violation_c03_u128_index_vector_wraps() {
  quiet();
  // actual: OK [4096, 1]
  expect_err("x := 1..=5000; x[[18446744073709555712<u128> 1<u128>]]");
}

// A fractional index addresses no element, yet it is truncated and some element is returned.
#[test]
fn violation_c03_fractional_index_is_truncated() {
  quiet();
  // actual: OK F64(2.0)
  expect_err("x := [1 2 3]; x[2.999]");
}

// An index vector / range with exactly ONE element is rejected (valid read -> error).
#[test]
fn violation_c03_singleton_index_vector_is_rejected() {
  quiet();
  // actual: ERR UnhandledFunctionArgumentIxesMono
  expect_f64_elems("x := [1 2 3]; x[[2]]", &[2.0]);
}
#[test]
fn violation_c03_singleton_range_is_rejected() {
  quiet();
  // actual: ERR UnhandledFunctionArgumentIxesMono
  expect_f64_elems("x := [1 2 3]; x[2..=2]", &[2.0]);
}
#[test]
fn violation_c03_singleton_range_2d_is_rejected() {
  quiet();
  // actual: ERR UnhandledFunctionArgumentIxesMono
  expect_f64_elems("x := [1 2 3; 4 5 6]; x[2..=2,1..=3]", &[4.0, 5.0, 6.0]);
}

// `:` on row / column vectors is rejected although the 2-D scalar form works on them.
#[test]
fn violation_c03_colon_on_row_vector_is_rejected() {
  quiet();
  // actual: ERR UnhandledFunctionArgumentIxesMono
  expect_f64("x := [1 2 3]; x[:]", &[1.0, 2.0, 3.0], 3, 1);
}
#[test]
fn violation_c03_row_colon_on_row_vector_is_rejected() {
  quiet();
  // actual: ERR UnhandledFunctionArgumentIxesMono
  expect_f64_elems("x := [1 2 3]; x[1,:]", &[1.0, 2.0, 3.0]);
}

// ===========================================================================
// C04  -- confirmed violations
// ===========================================================================

// `x[i] op= v` with a SCALAR index compiles the plain assignment: the old value is discarded.
#[test]
fn violation_c04_add_assign_scalar_index_overwrites() {
  quiet();
  // actual: [1,10,3]
  expect_f64("~x := [1 2 3]; x[2] += 10; x", &[1.0, 12.0, 3.0], 1, 3);
}
#[test]
fn violation_c04_sub_mul_div_assign_scalar_index_overwrite() {
  quiet();
  // actual: [1,10,3] for each
  expect_f64("~x := [1 2 3]; x[2] -= 10; x", &[1.0, -8.0, 3.0], 1, 3);
  expect_f64("~x := [1 2 3]; x[2] *= 10; x", &[1.0, 20.0, 3.0], 1, 3);
  expect_f64("~x := [1 2 3]; x[2] /= 10; x", &[1.0, 0.2, 3.0], 1, 3);
}
#[test]
fn violation_c04_op_assign_scalar_row_all_columns_overwrites() {
  quiet();
  // actual: row 2 becomes [1 1 1]
  expect_f64("~x := [1 2 3; 4 5 6]; x[2,:] -= 1; x", &[1.0, 3.0, 2.0, 4.0, 3.0, 5.0], 2, 3);
}

// op-assign through an index vector with a repeated index applies the operator twice.
#[test]
fn violation_c04_add_assign_repeated_index_applied_twice() {
  quiet();
  // actual: [21,2,3]
  expect_f64("~x := [1 2 3]; x[[1 1]] += 10; x", &[11.0, 2.0, 3.0], 1, 3);
}
#[test]
fn violation_c04_add_assign_repeated_row_index_applied_twice() {
  quiet();
  // actual: row 1 = [3 4 5]
  expect_f64("~x := [1 2 3; 4 5 6]; x[[1 1],:] += 1; x", &[2.0, 4.0, 3.0, 5.0, 4.0, 6.0], 2, 3);
}

// Vector source through a mask: the i-th ADDRESSED element must get the i-th source element.
// The kernel uses the mask POSITION as source index instead.
#[test]
fn violation_c04_mask_vector_source_uses_mask_position() {
  quiet();
  // actual: ERR (source[3] out of bounds)
  expect_f64("~x := [1 2 3 4]; x[[false true false true]] = [10 20]; x", &[1.0, 10.0, 3.0, 20.0], 1, 4);
}
#[test]
fn violation_c04_mask_vector_source_uses_mask_position_2() {
  quiet();
  // with a 4-element source the 2nd and 4th SOURCE elements are written: [1,20,3,40]
  // (the property demands the 1st and 2nd: 10 and 20, or an error for the length mismatch)
  let r = run("~x := [1 2 3 4]; x[[false true false true]] = [10 20 30 40]; x");
  match &r {
    Err(_) => {}
    Ok(v) => assert!(v.as_vecf64().unwrap() == vec![1.0, 10.0, 3.0, 20.0], "got {}", describe(&r)),
  }
}

// x[index-vector, mask] = scalar: the index vector is treated as a mask (`ix1[r] != 0`) and the
// loop position is used as row -> the wrong rows are written.
#[test]
fn violation_c04_index_vector_times_mask_scalar_writes_wrong_rows() {
  quiet();
  // expected rows 2 and 3 of column 1 -> col-major [1,0,0,2,5,8,3,6,9]
  // actual: rows 1 and 2 -> [0,0,7,2,5,8,3,6,9]
  expect_f64("~x := [1 2 3; 4 5 6; 7 8 9]; x[[2 3],[true false false]] = 0; x",
             &[1.0, 0.0, 0.0, 2.0, 5.0, 8.0, 3.0, 6.0, 9.0], 3, 3);
}

// A failing assignment (out-of-range target) leaves x partially modified.
#[test]
fn violation_c04_failed_assign_leaves_x_modified() {
  quiet();
  let r = run_seq(&["~x := [1 2 3]", "x[[1 5]] = 0", "x"]);
  assert!(r[1].is_err(), "out of range target must be an error, got {}", describe(&r[1]));
  let x = r[2].as_ref().unwrap().as_vecf64().unwrap();
  // actual: [0,2,3]
  assert!(x == vec![1.0, 2.0, 3.0], "x must be unchanged after the error, got {:?}", x);
}
#[test]
fn violation_c04_failed_op_assign_leaves_x_modified() {
  quiet();
  let r = run_seq(&["~x := [1 2 3]", "x[[1 5]] += 1", "x"]);
  assert!(r[1].is_err());
  let x = r[2].as_ref().unwrap().as_vecf64().unwrap();
  // actual: [2,2,3]
  assert!(x == vec![1.0, 2.0, 3.0], "x must be unchanged after the error, got {:?}", x);
}
#[test]
fn violation_c04_failed_2d_assign_leaves_x_modified() {
  quiet();
  let r = run_seq(&["~x := [1 2 3; 4 5 6]", "x[:,[1 4]] = 0", "x"]);
  assert!(r[1].is_err());
  let x = r[2].as_ref().unwrap().as_vecf64().unwrap();
  // actual: column 1 zeroed
  assert!(x == vec![1.0, 4.0, 2.0, 5.0, 3.0, 6.0], "x must be unchanged after the error, got {:?}", x);
}
#[test]
fn violation_c04_failed_mask_assign_leaves_x_modified() {
  quiet();
  let r = run_seq(&["~x := [1 2 3 4]", "x[[true true true true true]] = 0", "x"]);
  assert!(r[1].is_err());
  let x = r[2].as_ref().unwrap().as_vecf64().unwrap();
  // actual: all four elements zeroed
  assert!(x == vec![1.0, 2.0, 3.0, 4.0], "x must be unchanged after the error, got {:?}", x);
}

// A mask shorter than x is accepted as an assignment target.
#[test]
fn violation_c04_mask_shorter_than_target_accepted() {
  quiet();
  // actual: OK, x = [0,0,3,4]
  expect_err("~x := [1 2 3 4]; x[[true true]] = 0; x");
}
#[test]
fn violation_c04_column_mask_shorter_than_ncols_accepted() {
  quiet();
  // actual: OK, column 1 zeroed
  expect_err("~x := [1 2 3; 4 5 6; 7 8 9]; x[:,[true false]] = 0; x");
}

// Wide integer index wraps modulo 2^64 on assignment too.
#[test]
fn violation_c04_u128_target_beyond_last_element_wraps() {
  quiet();
  let r = run_seq(&["~x := [1 2 3]", "ix := 18446744073709551616<u128> + 2<u128>", "x[ix] = 0", "x"]);
  // actual: OK, x = [1,0,3]
  assert!(r[2].is_err(), "out of range target must be an error, got {}", describe(&r[2]));
}

// Writing a block through two index vectors and reading the same index back does not
// return what was written: the source is consumed row-major (`rix*len(ix2)+cix`) although
// matrices are column-major -> the block is transposed / scrambled.
#[test]
fn violation_c04_block_assign_read_back_differs_square() {
  quiet();
  // expected col-major [10,30,20,40]; actual [10,20,30,40]
  expect_f64("~x := [1 2 3; 4 5 6; 7 8 9]; x[[2 3],[2 3]] = [10 20; 30 40]; x[[2 3],[2 3]]",
             &[10.0, 30.0, 20.0, 40.0], 2, 2);
}
#[test]
fn violation_c04_block_assign_scrambles_non_square() {
  quiet();
  // expected x == source; actual col-major [10,50,40,30,20,60]
  expect_f64("~x := [1 2 3; 4 5 6]; x[[1 2],[1 2 3]] = [10 20 30; 40 50 60]; x",
             &[10.0, 40.0, 20.0, 50.0, 30.0, 60.0], 2, 3);
}

// x[:, cols] = M picks source column `i % nrows(M)` instead of `i`.
#[test]
fn violation_c04_all_rows_column_vector_matrix_source_wraps_on_nrows() {
  quiet();
  // expected x == source; actual third column = first source column: [10,40,20,50,10,40]
  expect_f64("~x := [1 2 3; 4 5 6]; x[:,[1 2 3]] = [10 20 30; 40 50 60]; x",
             &[10.0, 40.0, 20.0, 50.0, 30.0, 60.0], 2, 3);
}
// x[rows, :] = M wraps around silently when M has fewer rows than addressed.
#[test]
fn violation_c04_row_vector_all_matrix_source_wraps_silently() {
  quiet();
  // actual: OK, row 3 := row 1 of the source
  expect_err("~x := [1 2 3; 4 5 6; 7 8 9]; x[[1 2 3],:] = [10 20 30; 40 50 60]; x");
}
// x[rows, :] = column vector: only the first column of the addressed rows is written.
#[test]
fn violation_c04_rows_all_column_vector_source_partial_write() {
  quiet();
  let r = run("~x := [1 2 3; 4 5 6; 7 8 9]; x[[1 3],:] = [10 20 30]'; x");
  // actual: OK, x = [10 2 3; 4 5 6; 20 8 9]  (neither an error nor a full write of the rows)
  match &r {
    Err(_) => {}
    Ok(v) => {
      let x = v.as_vecf64().unwrap();
      assert!(x[3] != 2.0 && x[6] != 3.0, "rows 1 and 3 only partially written: {:?}", x);
    }
  }
}

// Source longer than the index vector is silently truncated.
#[test]
fn violation_c04_vector_source_longer_than_index_vector_truncated() {
  quiet();
  // actual: OK [1,10,3,20]
  expect_err("~x := [1 2 3 4]; x[[2 4]] = [10 20 30]; x");
}

// Valid op-assign forms that are rejected.
#[test]
fn violation_c04_add_assign_through_mask_rejected() {
  quiet();
  // actual: ERR UnhandledFunctionArgumentIxes
  expect_f64("~x := [1 2 3]; x[[true false true]] += 10; x", &[11.0, 2.0, 13.0], 1, 3);
}
#[test]
fn violation_c04_add_assign_2d_scalar_scalar_rejected() {
  quiet();
  // actual: ERR UnknownPanic (todo!())
  expect_f64("~x := [1 2 3; 4 5 6]; x[1,2] += 10; x", &[1.0, 4.0, 12.0, 5.0, 3.0, 6.0], 2, 3);
}
#[test]
fn violation_c04_add_assign_all_rejected() {
  quiet();
  // actual: ERR UnknownPanic (todo!())
  expect_f64("~x := [1 2 3; 4 5 6]; x[:] += 10; x", &[11.0, 14.0, 12.0, 15.0, 13.0, 16.0], 2, 3);
}
#[test]
fn violation_c04_add_assign_i128_index_vector_rejected() {
  quiet();
  // actual: ERR UnhandledFunctionArgumentIxes (i64 works)
  expect_contains("~x := [1<i128> 2<i128> 3<i128>]; x[[1 3]] += 9<i128>; x", &["MatrixI128", "[10,2,12,]"], &[1, 3]);
}
#[test]
fn violation_c04_singleton_index_vector_target_rejected() {
  quiet();
  // actual: ERR UnhandledFunctionArgumentIxes
  expect_f64("~x := [1 2 3]; x[[2]] = 0; x", &[1.0, 0.0, 3.0], 1, 3);
}
#[test]
fn violation_c04_colon_vector_source_rejected() {
  quiet();
  // actual: ERR UnhandledFunctionArgumentIxes
  expect_f64("~x := [1 2 3]; x[:] = [7 8 9]; x", &[7.0, 8.0, 9.0], 1, 3);
}

// ===========================================================================
// C11  -- confirmed violations
// ===========================================================================

// Vertical concatenation is missing for every signed integer kind
// (horizontal concatenation of the same kinds works).
#[test]
fn violation_c11_vertcat_signed_integer_scalars() {
  quiet();
  for (k, name) in [("i8","MatrixI8"),("i16","MatrixI16"),("i32","MatrixI32"),("i64","MatrixI64"),("i128","MatrixI128")] {
    // actual: ERR UnhandledFunctionArgumentKindVarg
    expect_contains(&format!("[1<{k}>; 2<{k}>]"), &[name, "[1,2,]"], &[2, 1]);
  }
}
#[test]
fn violation_c11_matrix_literal_2x2_signed_integers() {
  quiet();
  // actual: ERR UnhandledFunctionArgumentKindVarg
  expect_contains("[1<i64> 2<i64>; 3<i64> 4<i64>]", &["MatrixI64", "[1,3,2,4,]"], &[2, 2]);
}
#[test]
fn violation_c11_vertcat_signed_integer_blocks() {
  quiet();
  // actual: ERR UnhandledFunctionArgumentKindVarg
  expect_contains("a := [1<i32> 2<i32>]; [a; a]", &["MatrixI32", "[1,1,2,2,]"], &[2, 2]);
  expect_contains("a := [1<i8> 2<i8>]'; [a; 3<i8>]", &["MatrixI8", "[1,2,3,]"], &[3, 1]);
}

// ===========================================================================
// Hypotheses that HOLD
// ===========================================================================

#[test]
fn holds_c03_out_of_range_and_zero_scalar_indices_error() {
  quiet();
  for p in ["x := [1 2 3]; x[0]", "x := [1 2 3]; x[4]", "x := [1 2 3]; x[-1]", "x := [1 2 3]; x[-1<i64>]",
            "x := [1 2 3; 4 5 6]; x[3,1]", "x := [1 2 3; 4 5 6]; x[1,4]", "x := [1 2 3; 4 5 6]; x[0,1]",
            "x := [1 2 3; 4 5 6]; x[7]", "x := [1 2 3; 4 5 6]; x[[1 7]]", "x := [1 2 3; 4 5 6]; x[[0 1]]",
            "x := [1 2 3; 4 5 6]; x[:,4]", "x := [1 2 3; 4 5 6]; x[3,:]", "x := [1 2 3; 4 5 6]; x[2..=3,1]",
            "x := [1 2 3; 4 5 6]; x[5..=7]", "x := [1 2 3]; x[2,1]", "x := [1 2 3]'; x[1,2]",
            "x := [1 2 3]; x[[true false]]", "x := [1 2 3; 4 5 6; 7 8 9]; x[:,[true false]]",
            "x := [1 2 3; 4 5 6; 7 8 9]; x[[true false true true],2]", "x := [5]; x[2]", "x := [1 2 3]; x[0.5]"] {
    expect_err(p);
  }
}

#[test]
fn holds_c03_reads_are_column_major_with_documented_shapes() {
  quiet();
  expect_f64("x := [1 2 3; 4 5 6]; x[:]", &[1.0, 4.0, 2.0, 5.0, 3.0, 6.0], 6, 1);
  expect_f64("x := [1 2 3; 4 5 6]; x[5]", &[3.0], 1, 1);
  expect_f64("x := [1 2 3; 4 5 6]; x[1..=3]", &[1.0, 4.0, 2.0], 3, 1);
  expect_f64("x := [1 2 3; 4 5 6]; x[2,:]", &[4.0, 5.0, 6.0], 1, 3);
  expect_f64("x := [1 2 3; 4 5 6]; x[:,3]", &[3.0, 6.0], 2, 1);
  expect_f64("x := [1 2 3; 4 5 6]; x[[2 1],[3 1]]", &[6.0, 3.0, 4.0, 1.0], 2, 2);
  expect_f64("x := [1 2 3; 4 5 6]; x[[2 1],:]", &[4.0, 1.0, 5.0, 2.0, 6.0, 3.0], 2, 3);
  expect_f64("x := [1 2 3; 4 5 6]; x[:,[3 3]]", &[3.0, 6.0, 3.0, 6.0], 2, 2);
  expect_f64("x := [1 2 3; 4 5 6]; x[2,[3 1]]", &[6.0, 4.0], 1, 2);
  expect_f64("x := [1 2 3; 4 5 6]; x[[2 1],3]", &[6.0, 3.0], 2, 1);
  expect_f64("x := [1 2 3; 4 5 6]; x[[1 2; 1 2]]", &[1.0, 1.0, 4.0, 4.0], 4, 1);
  expect_f64("x := [1 2 3]; x[2<u8>]", &[2.0], 1, 1);
  expect_f64("x := [1 2 3]; x[[3<i8> 1<i8>]]", &[3.0, 1.0], 2, 1);
}

#[test]
fn holds_c03_masks_of_the_right_length() {
  quiet();
  expect_f64("x := [1 2 3; 4 5 6]; x[[true false true false true false]]", &[1.0, 2.0, 3.0], 3, 1);
  expect_f64("x := [1 2 3; 4 5 6]; x[[true false true; false true false]]", &[1.0, 5.0, 3.0], 3, 1);
  expect_f64("x := [1 2 3; 4 5 6]; x[x > 2]", &[4.0, 5.0, 3.0, 6.0], 4, 1);
  expect_f64("x := [1 2; 3 4; 5 6]; x[[true false true],[true true]]", &[1.0, 5.0, 2.0, 6.0], 2, 2);
  expect_f64("x := [1 2; 3 4; 5 6]; x[[3 1 3],[true true]]", &[5.0, 1.0, 5.0, 6.0, 2.0, 6.0], 3, 2);
  expect_f64("x := [1 2; 3 4; 5 6]; x[[true true false],[2 1 2]]", &[2.0, 4.0, 1.0, 3.0, 2.0, 4.0], 2, 3);
  expect_f64("x := [1 2; 3 4; 5 6]; x[[false true true],:]", &[3.0, 5.0, 4.0, 6.0], 2, 2);
  expect_f64("x := [1 2; 3 4; 5 6]; x[:,[false true]]", &[2.0, 4.0, 6.0], 3, 1);
  expect_f64("x := [1 2; 3 4; 5 6]; x[3,[false true]]", &[6.0], 1, 1);
  expect_f64("x := [1 2; 3 4; 5 6]; x[[false false false],:]", &[], 0, 2);
  expect_f64("x := [1 2 3]; x[[false false false]]", &[], 0, 1);
}

#[test]
fn holds_c03_other_kinds_and_mutable_source() {
  quiet();
  expect_contains("x := [1<u8> 2<u8> 3<u8>]; x[[3 1 1]]", &["MatrixU8", "[3,1,1,]"], &[3, 1]);
  expect_contains("x := [\"a\" \"b\" \"c\"]; x[[false false true]]", &["MatrixString", "[\"c\",]"], &[1, 1]);
  expect_contains("x := [true false; false true]; x[2,:]", &["MatrixBool", "[false,true,]"], &[1, 2]);
  expect_contains("x := [1<i128> 2<i128> 3<i128>]; x[[3 1]]", &["MatrixI128", "[3,1,]"], &[2, 1]);
  expect_f64("~x := [1 2 3; 4 5 6]; x[[2 1],[3 1]]", &[6.0, 3.0, 4.0, 1.0], 2, 2);
}

#[test]
fn holds_c03_read_does_not_modify_x() {
  quiet();
  expect_f64("x := [1 2 3; 4 5 6]; y := x[[2 1],[3 1]]; z := x[x > 2]; x", &[1.0, 4.0, 2.0, 5.0, 3.0, 6.0], 2, 3);
}

#[test]
fn holds_c04_scalar_assign_exact_elements() {
  quiet();
  expect_f64("~x := [1 2 3]; x[2] = 10; x", &[1.0, 10.0, 3.0], 1, 3);
  expect_f64("~x := [1 2 3; 4 5 6]; x[5] = 0; x", &[1.0, 4.0, 2.0, 5.0, 0.0, 6.0], 2, 3);
  expect_f64("~x := [1 2 3; 4 5 6]; x[2,3] = 0; x", &[1.0, 4.0, 2.0, 5.0, 3.0, 0.0], 2, 3);
  expect_f64("~x := [1 2 3; 4 5 6; 7 8 9]; x[[2 3],[2 3]] = 0; x", &[1.0, 4.0, 7.0, 2.0, 0.0, 0.0, 3.0, 0.0, 0.0], 3, 3);
  expect_f64("~x := [1 2 3; 4 5 6; 7 8 9]; x[[true false true],[true false true]] = 0; x", &[0.0, 4.0, 0.0, 2.0, 5.0, 8.0, 0.0, 6.0, 0.0], 3, 3);
  expect_f64("~x := [1 2 3; 4 5 6; 7 8 9]; x[[true false false],[2 3]] = 0; x", &[1.0, 4.0, 7.0, 0.0, 5.0, 8.0, 0.0, 6.0, 9.0], 3, 3);
  expect_f64("~x := [1 2 3; 4 5 6; 7 8 9]; x[2,[true false true]] = 0; x", &[1.0, 0.0, 7.0, 2.0, 5.0, 8.0, 3.0, 0.0, 9.0], 3, 3);
  expect_f64("~x := [1 2 3; 4 5 6; 7 8 9]; x[[true false true],2] = 0; x", &[1.0, 4.0, 7.0, 0.0, 5.0, 0.0, 3.0, 6.0, 9.0], 3, 3);
  expect_f64("~x := [1 2 3; 4 5 6; 7 8 9]; x[:,2] = 0; x", &[1.0, 4.0, 7.0, 0.0, 0.0, 0.0, 3.0, 6.0, 9.0], 3, 3);
  expect_f64("~x := [1 2 3; 4 5 6; 7 8 9]; x[2,:] = 0; x", &[1.0, 0.0, 7.0, 2.0, 0.0, 8.0, 3.0, 0.0, 9.0], 3, 3);
  expect_f64("~x := [1 2 3; 4 5 6; 7 8 9]; x[:,[1 3]] = 0; x", &[0.0, 0.0, 0.0, 2.0, 5.0, 8.0, 0.0, 0.0, 0.0], 3, 3);
  expect_f64("~x := [1 2 3; 4 5 6; 7 8 9]; x[[1 3],:] = 0; x", &[0.0, 4.0, 0.0, 0.0, 5.0, 0.0, 0.0, 6.0, 0.0], 3, 3);
  expect_f64("~x := [1 2 3; 4 5 6; 7 8 9]; x[:,[true false true]] = 0; x", &[0.0, 0.0, 0.0, 2.0, 5.0, 8.0, 0.0, 0.0, 0.0], 3, 3);
  expect_f64("~x := [1 2 3; 4 5 6; 7 8 9]; x[[true false true],:] = 0; x", &[0.0, 4.0, 0.0, 0.0, 5.0, 0.0, 0.0, 6.0, 0.0], 3, 3);
  expect_f64("~x := [1 2 3; 4 5 6; 7 8 9]; x[:] = 0; x", &[0.0; 9], 3, 3);
  expect_f64("~x := [1 2 3; 4 5 6]; x[x > 2] = 0; x", &[1.0, 0.0, 2.0, 0.0, 0.0, 0.0], 2, 3);
  expect_f64("~x := [1 2 3; 4 5 6]; x[2,[3 3 1]] = 0; x", &[1.0, 0.0, 2.0, 5.0, 3.0, 0.0], 2, 3);
}

#[test]
fn holds_c04_vector_source_through_distinct_linear_indices() {
  quiet();
  expect_f64("~x := [1 2 3 4]; x[[2 4]] = [10 20]; x", &[1.0, 10.0, 3.0, 20.0], 1, 4);
  expect_f64("~x := [1 2 3]; x[[3 2 1]] = [10 20 30]; x", &[30.0, 20.0, 10.0], 1, 3);
  expect_f64("~x := [1 2 3; 4 5 6]; x[[2 3]] = [10 20]; x", &[1.0, 10.0, 20.0, 5.0, 3.0, 6.0], 2, 3);
  expect_f64("~x := [1 2 3]'; x[[1 3]] = [7 9]; x", &[7.0, 2.0, 9.0], 3, 1);
  expect_f64("~x := [1 2 3; 4 5 6; 7 8 9]; x[2,[1 3]] = [10 20]; x", &[1.0, 10.0, 7.0, 2.0, 5.0, 8.0, 3.0, 20.0, 9.0], 3, 3);
  expect_f64("~x := [1 2 3; 4 5 6; 7 8 9]; x[[1 3],2] = [10 20]; x", &[1.0, 4.0, 7.0, 10.0, 5.0, 20.0, 3.0, 6.0, 9.0], 3, 3);
  expect_f64("~x := [1 2 3; 4 5 6; 7 8 9]; x[:,2] = [10 20 30]; x", &[1.0, 4.0, 7.0, 10.0, 20.0, 30.0, 3.0, 6.0, 9.0], 3, 3);
  expect_f64("~x := [1 2 3; 4 5 6; 7 8 9]; x[2,:] = [10 20 30]; x", &[1.0, 10.0, 7.0, 2.0, 20.0, 8.0, 3.0, 30.0, 9.0], 3, 3);
}

#[test]
fn holds_c04_op_assign_through_index_vectors_and_ranges() {
  quiet();
  expect_f64("~x := [1 2 3]; x[[1 3]] += 10; x", &[11.0, 2.0, 13.0], 1, 3);
  expect_f64("~x := [1 2 3]; x[1..=2] += 10; x", &[11.0, 12.0, 3.0], 1, 3);
  expect_f64("~x := [1 2 3]; x[[1 3]] += [10 20]; x", &[11.0, 2.0, 23.0], 1, 3);
  expect_f64("~x := [2 4 6 8]; x[[1 2]] -= 1; x", &[1.0, 3.0, 6.0, 8.0], 1, 4);
  expect_f64("~x := [2 4 6 8]; x[[1 2]] *= 3; x", &[6.0, 12.0, 6.0, 8.0], 1, 4);
  expect_f64("~x := [2 4 6 8]; x[[1 2]] /= 2; x", &[1.0, 2.0, 6.0, 8.0], 1, 4);
  expect_f64("~x := [2 4 6 8]; x[[1 2]] /= [2 4]; x", &[1.0, 1.0, 6.0, 8.0], 1, 4);
  expect_f64("~x := [1 2 3; 4 5 6]; x[[1 2],:] += 10; x", &[11.0, 14.0, 12.0, 15.0, 13.0, 16.0], 2, 3);
  expect_f64("~x := [1 2 3; 4 5 6]; x[[2 1],:] += [10 20 30; 40 50 60]; x", &[41.0, 14.0, 52.0, 25.0, 63.0, 36.0], 2, 3);
  expect_f64("~x := [1 2 3; 4 5 6]; x[[1 2],:] /= 2; x", &[0.5, 2.0, 1.0, 2.5, 1.5, 3.0], 2, 3);
}

#[test]
fn holds_c04_kind_mismatch_and_out_of_range_scalar_targets_error_and_leave_x() {
  quiet();
  for (stmt, _) in [("x[2] = 1<u8>", 0), ("x[2] = true", 0), ("x[2] = \"a\"", 0), ("x[[1 3]] = 9<u8>", 0),
                    ("x[4] = 1", 0), ("x[0] = 1", 0), ("x[4] += 1", 0)] {
    let r = run_seq(&["~x := [1 2 3]", stmt, "x"]);
    assert!(r[1].is_err(), "`{}` must be an error, got {}", stmt, describe(&r[1]));
    assert!(r[2].as_ref().unwrap().as_vecf64().unwrap() == vec![1.0, 2.0, 3.0], "`{}` modified x", stmt);
  }
  let r = run_seq(&["~x := [1<u8> 2<u8> 3<u8>]", "x[2] = 300", "x"]);
  assert!(r[1].is_err());
  assert!(compact(r[2].as_ref().unwrap()).contains("[1,2,3,]"));
}

#[test]
fn holds_c04_other_kinds() {
  quiet();
  expect_contains("~x := [1<u8> 2<u8> 3<u8>]; x[[true false true]] = 9<u8>; x", &["MatrixU8", "[9,2,9,]"], &[1, 3]);
  expect_contains("~x := [\"a\" \"b\" \"c\"]; x[[1 3]] = \"z\"; x", &["MatrixString", "[\"z\",\"b\",\"z\",]"], &[1, 3]);
  expect_contains("~x := [true false true]; x[[1 3]] = false; x", &["MatrixBool", "[false,false,false,]"], &[1, 3]);
  expect_contains("~x := [1<i128> 2<i128> 3<i128>]; x[[1 3]] = 9<i128>; x", &["MatrixI128", "[9,2,9,]"], &[1, 3]);
  expect_contains("~x := [1<i64> 2<i64> 3<i64>]; x[[1 3]] += 9<i64>; x", &["MatrixI64", "[10,2,12,]"], &[1, 3]);
}

#[test]
fn holds_c11_f64_block_placement() {
  quiet();
  expect_f64("a := [1 2; 3 4]; b := [5; 6]; [a b]", &[1.0, 3.0, 2.0, 4.0, 5.0, 6.0], 2, 3);
  expect_f64("a := [1 2; 3 4]; b := [5; 6]; [b a]", &[5.0, 6.0, 1.0, 3.0, 2.0, 4.0], 2, 3);
  expect_f64("a := [1 2; 3 4]; b := [5 6]; [a; b]", &[1.0, 3.0, 5.0, 2.0, 4.0, 6.0], 3, 2);
  expect_f64("a := [1 2; 3 4]; b := [5 6]; [b; a]", &[5.0, 1.0, 3.0, 6.0, 2.0, 4.0], 3, 2);
  expect_f64("a := [1 2; 3 4]; b := [5; 6]; c := [7 8 9]; [a b; c]", &[1.0, 3.0, 7.0, 2.0, 4.0, 8.0, 5.0, 6.0, 9.0], 3, 3);
  expect_f64("a := [1 2; 3 4]; b := [5; 6]; c := [7 8 9]; [c; b a]", &[7.0, 5.0, 6.0, 8.0, 1.0, 3.0, 9.0, 2.0, 4.0], 3, 3);
  expect_f64("a := [1 2; 3 4]; [a [5;6]; 9 [7 8]]", &[1.0, 3.0, 9.0, 2.0, 4.0, 7.0, 5.0, 6.0, 8.0], 3, 3);
  expect_f64("a := [1 2 3; 4 5 6]; b := [7 8; 9 10]; [b a b a b]",
    &[7.0,9.0,8.0,10.0,1.0,4.0,2.0,5.0,3.0,6.0,7.0,9.0,8.0,10.0,1.0,4.0,2.0,5.0,3.0,6.0,7.0,9.0,8.0,10.0], 2, 12);
  expect_f64("a := [1 2 3; 4 5 6]; b := [7 8 9]; [a; b; a; b; a]",
    &[1.0,4.0,7.0,1.0,4.0,7.0,1.0,4.0,2.0,5.0,8.0,2.0,5.0,8.0,2.0,5.0,3.0,6.0,9.0,3.0,6.0,9.0,3.0,6.0], 8, 3);
  expect_f64("a := [1; 2]; b := [3; 4; 5]; [9; a; b; 8; a]", &[9.0, 1.0, 2.0, 3.0, 4.0, 5.0, 8.0, 1.0, 2.0], 9, 1);
  expect_f64("a := [1 2]; b := [3 4 5]; [9 a b 8 a 7]", &[9.0, 1.0, 2.0, 3.0, 4.0, 5.0, 8.0, 1.0, 2.0, 7.0], 1, 10);
  expect_f64("a := [1 2; 3 4; 5 6]; b := [7 8]; [b; b; a; b; b]", &[7.0,7.0,1.0,3.0,5.0,7.0,7.0,8.0,8.0,2.0,4.0,6.0,8.0,8.0], 7, 2);
  expect_f64("a := [1 2; 3 4; 5 6]; b := [7 8 9]'; [b b a b b]", &[7.0,8.0,9.0,7.0,8.0,9.0,1.0,3.0,5.0,2.0,4.0,6.0,7.0,8.0,9.0,7.0,8.0,9.0], 3, 6);
  expect_f64("a := [1 2; 3 4]; [a a; a a]", &[1.0,3.0,1.0,3.0,2.0,4.0,2.0,4.0,1.0,3.0,1.0,3.0,2.0,4.0,2.0,4.0], 4, 4);
  expect_f64("~a := [1 2; 3 4]; b := [5 6]; [a; b]", &[1.0, 3.0, 5.0, 2.0, 4.0, 6.0], 3, 2);
  expect_f64("~s := 5; [s 1; 2 s]", &[5.0, 2.0, 1.0, 5.0], 2, 2);
}

#[test]
fn holds_c11_shape_and_kind_mismatch_rejected() {
  quiet();
  for p in ["a := [1 2; 3 4]; b := [5 6]; [a b]", "a := [1 2; 3 4]; b := [5; 6]; [a; b]",
            "a := [1; 2]; [a 9]", "a := [1 2]; [a; 9]", "a := [1 2; 3 4]; [a 9]", "a := [1 2; 3 4]; [a; 9]",
            "a := [1 2; 3 4]; b := [5 6 7]; [a; b]", "a := [1 2; 3 4]; b := [5; 6; 7]; [a b]",
            "a := [1 2]; b := [3; 4]; [a b]", "a := [1 2]; b := [3; 4]; [a; b]", "a := [1 2; 3 4]; [a [5;6]; 7 8]",
            "[1<u8> 2]", "[1<u8>; 2]", "[1 2<u8>]", "[1 true]", "[1 \"a\"]", "[1 2; 3<u8> 4<u8>]",
            "a := [1 2]; b := [3<u8> 4<u8>]; [a; b]", "a := [1 2]; b := [3<u8> 4<u8>]; [a b]",
            "a := [1 2; 3 4]; b := [true false; true false]; [a b]", "a := [1 2; 3 4]; b := [true false; true false]; [a; b]",
            "a := [1 2; 3 4]; b := [1<f32> 2<f32>; 3<f32> 4<f32>]; [b; a]"] {
    expect_err(p);
  }
}

#[test]
fn holds_c11_kinds_preserved_unsigned_float_bool_string_rational_complex() {
  quiet();
  for (k, name) in [("u8","MatrixU8"),("u16","MatrixU16"),("u32","MatrixU32"),("u64","MatrixU64"),("u128","MatrixU128")] {
    expect_contains(&format!("a := [1<{k}> 2<{k}>]; [a; a]"), &[name, "[1,1,2,2,]"], &[2, 2]);
    expect_contains(&format!("a := [1<{k}> 2<{k}>]'; [a a]"), &[name, "[1,2,1,2,]"], &[2, 2]);
    expect_contains(&format!("a := [1<{k}> 2<{k}>]'; [a; 3<{k}>]"), &[name, "[1,2,3,]"], &[3, 1]);
  }
  for (k, name) in [("i8","MatrixI8"),("i16","MatrixI16"),("i32","MatrixI32"),("i64","MatrixI64"),("i128","MatrixI128")] {
    // horizontal concatenation of signed kinds works
    expect_contains(&format!("a := [1<{k}> 2<{k}>]; [a a 3<{k}>]"), &[name, "[1,2,1,2,3,]"], &[1, 5]);
    expect_contains(&format!("a := [1<{k}> 2<{k}>]'; [a a]"), &[name, "[1,2,1,2,]"], &[2, 2]);
  }
  expect_contains("a := [1<f32> 2<f32>]; [a; a]", &["MatrixF32", "[1.0,1.0,2.0,2.0,]"], &[2, 2]);
  expect_contains("a := [true false]; [a; a]", &["MatrixBool", "[true,true,false,false,]"], &[2, 2]);
  expect_contains("a := [\"x\" \"y\"]'; [a a]", &["MatrixString", "[\"x\",\"y\",\"x\",\"y\",]"], &[2, 2]);
  expect_contains("[1/2 1/3; 1/4 1/5]", &["MatrixR64"], &[2, 2]);
  expect_contains("[1+2i 3+4i; 5+6i 7+8i]", &["MatrixC64"], &[2, 2]);
}
