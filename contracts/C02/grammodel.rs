// Verus model for the formula grammar functions of src/syntax/src/expressions.rs (`formula`, `l1` .. `l7`, `factor`,
// `parenthetical_term`, `negate_factor`, `not_factor`, the `*_operator` class parsers).
//
// A parser is identified by the NAME of the function that implements it (`A::L2`, `A::PowerOperator`, ..; the enum is
// generated from the names the extracted text mentions plus the names the contract mentions).  What a named parser does on
// an input is an uninterpreted function of (name, input): `pf` for parsers that yield a Factor, `pfo` for the operator-class
// parsers (FormulaOperator), `pt` for token parsers (an opaque Op).  The nom combinators are ASSUMED to behave as nom
// documents them and are given names here, not definitions:
//   many(ops, operand, input)  = nom::multi::many0(nom::sequence::pair(alt(ops), [cut] operand))(input): applies `alt(ops)` then
//                                `operand` repeatedly, left to right, until `alt(ops)` fails; yields the pairs in source order
//   alt_t(seq, input)          = nom::branch::alt((..)): the first alternative, in the order written, that succeeds
//   opt_t(a, input)            = nom::combinator::opt(a)
//   best(table, input)         = mech_syntax::alt_best(input, table)
// The contracts of the level functions are stated over these names, so they hold for every behaviour of the leaf parsers.

pub struct Input { pub id: u64 }
pub struct Op { pub id: u64 }
pub struct SrcRange { pub id: u64 }
pub struct PairList { pub id: u64 }          // the Vec<(FormulaOperator, Factor)> many0 returns; opaque, only emptiness is observed
pub uninterp spec fn pl_empty(l: PairList) -> bool;
impl PairList {
  #[verifier::external_body]
  pub fn is_empty(&self) -> (b: bool) ensures b == pl_empty(*self), { unimplemented!() }
  #[verifier::external_body]
  pub fn len(&self) -> (n: usize) ensures (n == 0) == pl_empty(*self), { unimplemented!() }
}

pub enum FormulaOperator { Logic(Op), Comparison(Op), AddSub(Op), MulDiv(Op), Vec(Op), Power(Op), Table(Op), Set(Op) }
pub struct Term { pub lhs: Factor, pub rhs: PairList }
pub enum Factor {
  Term(Box<Term>), Parenthetical(Box<Factor>), Negate(Box<Factor>), Not(Box<Factor>), Transpose(Box<Factor>), Expression(u64),
}

pub uninterp spec fn pf(a: A, i: Input) -> Option<(Input, Factor)>;
pub uninterp spec fn pfo(a: A, i: Input) -> Option<(Input, FormulaOperator)>;
pub uninterp spec fn pt(a: A, i: Input) -> Option<(Input, Op)>;
pub uninterp spec fn many(ops: Seq<A>, operand: A, i: Input) -> Option<(Input, PairList)>;
pub uninterp spec fn alt_t(alts: Seq<A>, i: Input) -> Option<(Input, Op)>;
pub uninterp spec fn opt_t(a: A, i: Input) -> Option<(Input, Option<Op>)>;
pub uninterp spec fn best(table: Seq<A>, i: Input) -> Option<(Input, Factor)>;
pub uninterp spec fn rng(a: A, i: Input) -> Option<(Input, (Op, SrcRange))>;

#[verifier::external_body]
pub fn run_f(a: A, i: Input) -> (r: Option<(Input, Factor)>) ensures r == pf(a, i), { unimplemented!() }
#[verifier::external_body]
pub fn run_fo(a: A, i: Input) -> (r: Option<(Input, FormulaOperator)>) ensures r == pfo(a, i), { unimplemented!() }
#[verifier::external_body]
pub fn run_t(a: A, i: Input) -> (r: Option<(Input, Op)>) ensures r == pt(a, i), { unimplemented!() }
#[verifier::external_body]
pub fn many0_pair(ops: Vec<A>, operand: A, i: Input) -> (r: Option<(Input, PairList)>) ensures r == many(ops@, operand, i), { unimplemented!() }
#[verifier::external_body]
pub fn alt_of(alts: Vec<A>, i: Input) -> (r: Option<(Input, Op)>) ensures r == alt_t(alts@, i), { unimplemented!() }
#[verifier::external_body]
pub fn opt_of(a: A, i: Input) -> (r: Option<(Input, Option<Op>)>) ensures r == opt_t(a, i), { unimplemented!() }
#[verifier::external_body]
pub fn alt_best(i: Input, table: &Vec<A>) -> (r: Option<(Input, Factor)>) ensures r == best(table@, i), { unimplemented!() }
#[verifier::external_body]
pub fn range_of(a: A, i: Input) -> (r: Option<(Input, (Op, SrcRange))>) ensures r == rng(a, i), { unimplemented!() }

// ---------------------------------------------------------------------------------------------------------------------
// THE CONTRACT, written from the property statement (C02): "unary minus/not and transpose bind tightest, then ^, then
// * / % and the matrix operators, then + and -, then comparisons, then logical operators, with left-to-right grouping
// among operators of one level".  Level k's operands are parsed by level k+1 (the next tighter one); the table and set
// operators, which the property does not rank, sit between ^ and the factor as the grammar documents (l6, l7).
pub open spec fn operand_of(k: int) -> A {
  if k == 1 { A::L2 } else if k == 2 { A::L3 } else if k == 3 { A::L4 } else if k == 4 { A::L5 }
  else if k == 5 { A::L6 } else if k == 6 { A::L7 } else { A::Factor }
}
pub open spec fn ops_of(k: int) -> Seq<A> {
  if k == 1 { seq![A::LogicOperator] } else if k == 2 { seq![A::ComparisonOperator] } else if k == 3 { seq![A::AddSubOperator] }
  else if k == 4 { seq![A::MulDivOperator, A::MatrixOperator] } else if k == 5 { seq![A::PowerOperator] }
  else if k == 6 { seq![A::TableOperator] } else { seq![A::SetOperator] }
}
// one grammar level: an operand of the next tighter level, then every (operator of THIS level, operand of the next level)
// that follows; the flat list is what term() folds from the left (C02.term.left_fold)
pub open spec fn level(k: int, i: Input) -> Option<(Input, Factor)> {
  match pf(operand_of(k), i) {
    None => None,
    Some((i1, lhs)) => match many(ops_of(k), operand_of(k), i1) {
      None => None,
      Some((i2, rhs)) => Some((i2, if pl_empty(rhs) { lhs } else { Factor::Term(Box::new(Term { lhs: lhs, rhs: rhs })) })),
    },
  }
}
// a factor: one of the primaries -- among them a parenthesised formula, `-factor`, `!factor` -- with an optional postfix transpose.
// WHICH other primaries exist (literals, calls, slices, ..) is the grammar's business, not the property's: the table is read from the code on every
// run (`table` below); that it CONTAINS the three primaries the property speaks of is a separate obligation (required_primaries)
pub open spec fn factor_spec_of(table: Seq<A>, i: Input) -> Option<(Input, Factor)> {
  match best(table, i) {
    None => None,
    Some((i1, f)) => match opt_t(A::Transpose, i1) {
      None => None,
      Some((i2, t)) => Some((i2, if t is Some { Factor::Transpose(Box::new(f)) } else { f })),
    },
  }
}
pub open spec fn has_required_primaries(table: Seq<A>) -> bool {
  table.contains(A::ParentheticalTerm) && table.contains(A::NegateFactor) && table.contains(A::NotFactor)
}
// prefix operators apply to a FACTOR (so they bind tighter than every binary operator)
pub open spec fn prefix_spec(tok: A, i: Input, neg: bool) -> Option<(Input, Factor)> {
  match pt(tok, i) {
    None => None,
    Some((i1, _x)) => match pf(A::Factor, i1) {
      None => None,
      Some((i2, e)) => Some((i2, if neg { Factor::Negate(Box::new(e)) } else { Factor::Not(Box::new(e)) })),
    },
  }
}
// parentheses enclose a whole FORMULA (the loosest level), whatever surrounds them
pub open spec fn paren_spec(i: Input) -> Option<(Input, Factor)> {
  match rng(A::LeftParenthesis, i) { None => None, Some((i1, _l)) =>
  match pt(A::SpaceTab0, i1) { None => None, Some((i2, _s)) =>
  match pf(A::Formula, i2) { None => None, Some((i3, f)) =>
  match pt(A::SpaceTab0, i3) { None => None, Some((i4, _t)) =>
  match pt(A::RightParenthesis, i4) { None => None, Some((i5, _r)) => Some((i5, Factor::Parenthetical(Box::new(f)))) } } } } }
}
// operator classes: which tokens belong to which level
pub open spec fn class_spec(alts: Seq<A>, i: Input) -> Option<(Input, Op)> { alt_t(alts, i) }
