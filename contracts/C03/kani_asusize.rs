// C03/C04 — index conversion (in-module harness appended to src/core/src/value.rs): `Value::as_usize`, the scalar arms of
// `Value::as_vecusize` and `Value::as_index` must never turn an integer index into a DIFFERENT position that a matrix could
// have: the result is the index itself, or an error, or a number above isize::MAX (which no matrix dimension reaches, so
// the kernels' bounds checks reject it).  Loop-free, full value domain per kind.
#![allow(unused, non_snake_case)]
use super::*;
include!("/verif/contracts/common/vk.rs");
const FAR: usize = isize::MAX as usize;
// error paths build a MechError with a caller location and a formatted message: both are irrelevant here and not supported / costly under Kani
#[cfg(kani)]
fn fmt_stub(_args: core::fmt::Arguments<'_>) -> String { String::new() }
#[cfg(kani)]
fn here_stub() -> CompilerSourceRange { CompilerSourceRange { file: "", line: 0 } }

#[cfg_attr(kani, kani::proof)]
#[cfg_attr(kani, kani::stub(alloc::fmt::format, fmt_stub))]
#[cfg_attr(kani, kani::stub(CompilerSourceRange::here, here_stub))]
#[cfg_attr(kani, kani::unwind(4))]
pub(crate) fn vkc03_as_usize_u8() {
  let v: u8 = vk::any();
  vk::reach();
  let val = Value::U8(Ref::new(v));
  if let Ok(n) = val.as_usize() { assert!(((n as u128) == (v as u128)) || n > FAR, "VK: as_usize turned an index into a different position"); }
}

#[cfg_attr(kani, kani::proof)]
#[cfg_attr(kani, kani::stub(alloc::fmt::format, fmt_stub))]
#[cfg_attr(kani, kani::stub(CompilerSourceRange::here, here_stub))]
#[cfg_attr(kani, kani::unwind(4))]
pub(crate) fn vkc03_as_vecusize_u8() {
  let v: u8 = vk::any();
  vk::reach();
  let val = Value::U8(Ref::new(v));
  if let Ok(ns) = val.as_vecusize() { assert!(ns.len() == 1, "VK: a scalar index converts to one position"); let n = ns[0]; assert!(((n as u128) == (v as u128)) || n > FAR, "VK: as_vecusize turned an index into a different position"); }
}

#[cfg_attr(kani, kani::proof)]
#[cfg_attr(kani, kani::stub(alloc::fmt::format, fmt_stub))]
#[cfg_attr(kani, kani::stub(CompilerSourceRange::here, here_stub))]
#[cfg_attr(kani, kani::unwind(4))]
pub(crate) fn vkc03_as_index_u8() {
  let v: u8 = vk::any();
  vk::reach();
  let val = Value::U8(Ref::new(v));
  if let Ok(Value::Index(ix)) = val.as_index() { let n = *ix.borrow(); assert!(((n as u128) == (v as u128)) || n > FAR, "VK: as_index turned an index into a different position"); }
}

#[cfg_attr(kani, kani::proof)]
#[cfg_attr(kani, kani::stub(alloc::fmt::format, fmt_stub))]
#[cfg_attr(kani, kani::stub(CompilerSourceRange::here, here_stub))]
#[cfg_attr(kani, kani::unwind(4))]
pub(crate) fn vkc03_as_usize_u16() {
  let v: u16 = vk::any();
  vk::reach();
  let val = Value::U16(Ref::new(v));
  if let Ok(n) = val.as_usize() { assert!(((n as u128) == (v as u128)) || n > FAR, "VK: as_usize turned an index into a different position"); }
}

#[cfg_attr(kani, kani::proof)]
#[cfg_attr(kani, kani::stub(alloc::fmt::format, fmt_stub))]
#[cfg_attr(kani, kani::stub(CompilerSourceRange::here, here_stub))]
#[cfg_attr(kani, kani::unwind(4))]
pub(crate) fn vkc03_as_vecusize_u16() {
  let v: u16 = vk::any();
  vk::reach();
  let val = Value::U16(Ref::new(v));
  if let Ok(ns) = val.as_vecusize() { assert!(ns.len() == 1, "VK: a scalar index converts to one position"); let n = ns[0]; assert!(((n as u128) == (v as u128)) || n > FAR, "VK: as_vecusize turned an index into a different position"); }
}

#[cfg_attr(kani, kani::proof)]
#[cfg_attr(kani, kani::stub(alloc::fmt::format, fmt_stub))]
#[cfg_attr(kani, kani::stub(CompilerSourceRange::here, here_stub))]
#[cfg_attr(kani, kani::unwind(4))]
pub(crate) fn vkc03_as_index_u16() {
  let v: u16 = vk::any();
  vk::reach();
  let val = Value::U16(Ref::new(v));
  if let Ok(Value::Index(ix)) = val.as_index() { let n = *ix.borrow(); assert!(((n as u128) == (v as u128)) || n > FAR, "VK: as_index turned an index into a different position"); }
}

#[cfg_attr(kani, kani::proof)]
#[cfg_attr(kani, kani::stub(alloc::fmt::format, fmt_stub))]
#[cfg_attr(kani, kani::stub(CompilerSourceRange::here, here_stub))]
#[cfg_attr(kani, kani::unwind(4))]
pub(crate) fn vkc03_as_usize_u32() {
  let v: u32 = vk::any();
  vk::reach();
  let val = Value::U32(Ref::new(v));
  if let Ok(n) = val.as_usize() { assert!(((n as u128) == (v as u128)) || n > FAR, "VK: as_usize turned an index into a different position"); }
}

#[cfg_attr(kani, kani::proof)]
#[cfg_attr(kani, kani::stub(alloc::fmt::format, fmt_stub))]
#[cfg_attr(kani, kani::stub(CompilerSourceRange::here, here_stub))]
#[cfg_attr(kani, kani::unwind(4))]
pub(crate) fn vkc03_as_vecusize_u32() {
  let v: u32 = vk::any();
  vk::reach();
  let val = Value::U32(Ref::new(v));
  if let Ok(ns) = val.as_vecusize() { assert!(ns.len() == 1, "VK: a scalar index converts to one position"); let n = ns[0]; assert!(((n as u128) == (v as u128)) || n > FAR, "VK: as_vecusize turned an index into a different position"); }
}

#[cfg_attr(kani, kani::proof)]
#[cfg_attr(kani, kani::stub(alloc::fmt::format, fmt_stub))]
#[cfg_attr(kani, kani::stub(CompilerSourceRange::here, here_stub))]
#[cfg_attr(kani, kani::unwind(4))]
pub(crate) fn vkc03_as_index_u32() {
  let v: u32 = vk::any();
  vk::reach();
  let val = Value::U32(Ref::new(v));
  if let Ok(Value::Index(ix)) = val.as_index() { let n = *ix.borrow(); assert!(((n as u128) == (v as u128)) || n > FAR, "VK: as_index turned an index into a different position"); }
}

#[cfg_attr(kani, kani::proof)]
#[cfg_attr(kani, kani::stub(alloc::fmt::format, fmt_stub))]
#[cfg_attr(kani, kani::stub(CompilerSourceRange::here, here_stub))]
#[cfg_attr(kani, kani::unwind(4))]
pub(crate) fn vkc03_as_usize_u64() {
  let v: u64 = vk::any();
  vk::reach();
  let val = Value::U64(Ref::new(v));
  if let Ok(n) = val.as_usize() { assert!(((n as u128) == (v as u128)) || n > FAR, "VK: as_usize turned an index into a different position"); }
}

#[cfg_attr(kani, kani::proof)]
#[cfg_attr(kani, kani::stub(alloc::fmt::format, fmt_stub))]
#[cfg_attr(kani, kani::stub(CompilerSourceRange::here, here_stub))]
#[cfg_attr(kani, kani::unwind(4))]
pub(crate) fn vkc03_as_vecusize_u64() {
  let v: u64 = vk::any();
  vk::reach();
  let val = Value::U64(Ref::new(v));
  if let Ok(ns) = val.as_vecusize() { assert!(ns.len() == 1, "VK: a scalar index converts to one position"); let n = ns[0]; assert!(((n as u128) == (v as u128)) || n > FAR, "VK: as_vecusize turned an index into a different position"); }
}

#[cfg_attr(kani, kani::proof)]
#[cfg_attr(kani, kani::stub(alloc::fmt::format, fmt_stub))]
#[cfg_attr(kani, kani::stub(CompilerSourceRange::here, here_stub))]
#[cfg_attr(kani, kani::unwind(4))]
pub(crate) fn vkc03_as_index_u64() {
  let v: u64 = vk::any();
  vk::reach();
  let val = Value::U64(Ref::new(v));
  if let Ok(Value::Index(ix)) = val.as_index() { let n = *ix.borrow(); assert!(((n as u128) == (v as u128)) || n > FAR, "VK: as_index turned an index into a different position"); }
}

#[cfg_attr(kani, kani::proof)]
#[cfg_attr(kani, kani::stub(alloc::fmt::format, fmt_stub))]
#[cfg_attr(kani, kani::stub(CompilerSourceRange::here, here_stub))]
#[cfg_attr(kani, kani::unwind(4))]
pub(crate) fn vkc03_as_usize_u128() {
  let v: u128 = vk::any();
  vk::reach();
  let val = Value::U128(Ref::new(v));
  if let Ok(n) = val.as_usize() { assert!(((n as u128) == (v as u128)) || n > FAR, "VK: as_usize turned an index into a different position"); }
}

#[cfg_attr(kani, kani::proof)]
#[cfg_attr(kani, kani::stub(alloc::fmt::format, fmt_stub))]
#[cfg_attr(kani, kani::stub(CompilerSourceRange::here, here_stub))]
#[cfg_attr(kani, kani::unwind(4))]
pub(crate) fn vkc03_as_vecusize_u128() {
  let v: u128 = vk::any();
  vk::reach();
  let val = Value::U128(Ref::new(v));
  if let Ok(ns) = val.as_vecusize() { assert!(ns.len() == 1, "VK: a scalar index converts to one position"); let n = ns[0]; assert!(((n as u128) == (v as u128)) || n > FAR, "VK: as_vecusize turned an index into a different position"); }
}

#[cfg_attr(kani, kani::proof)]
#[cfg_attr(kani, kani::stub(alloc::fmt::format, fmt_stub))]
#[cfg_attr(kani, kani::stub(CompilerSourceRange::here, here_stub))]
#[cfg_attr(kani, kani::unwind(4))]
pub(crate) fn vkc03_as_index_u128() {
  let v: u128 = vk::any();
  vk::reach();
  let val = Value::U128(Ref::new(v));
  if let Ok(Value::Index(ix)) = val.as_index() { let n = *ix.borrow(); assert!(((n as u128) == (v as u128)) || n > FAR, "VK: as_index turned an index into a different position"); }
}

#[cfg_attr(kani, kani::proof)]
#[cfg_attr(kani, kani::stub(alloc::fmt::format, fmt_stub))]
#[cfg_attr(kani, kani::stub(CompilerSourceRange::here, here_stub))]
#[cfg_attr(kani, kani::unwind(4))]
pub(crate) fn vkc03_as_usize_i8() {
  let v: i8 = vk::any();
  vk::reach();
  let val = Value::I8(Ref::new(v));
  if let Ok(n) = val.as_usize() { assert!((v >= 0 && (n as i128) == (v as i128)) || n > FAR, "VK: as_usize turned an index into a different position"); }
}

#[cfg_attr(kani, kani::proof)]
#[cfg_attr(kani, kani::stub(alloc::fmt::format, fmt_stub))]
#[cfg_attr(kani, kani::stub(CompilerSourceRange::here, here_stub))]
#[cfg_attr(kani, kani::unwind(4))]
pub(crate) fn vkc03_as_vecusize_i8() {
  let v: i8 = vk::any();
  vk::reach();
  let val = Value::I8(Ref::new(v));
  if let Ok(ns) = val.as_vecusize() { assert!(ns.len() == 1, "VK: a scalar index converts to one position"); let n = ns[0]; assert!((v >= 0 && (n as i128) == (v as i128)) || n > FAR, "VK: as_vecusize turned an index into a different position"); }
}

#[cfg_attr(kani, kani::proof)]
#[cfg_attr(kani, kani::stub(alloc::fmt::format, fmt_stub))]
#[cfg_attr(kani, kani::stub(CompilerSourceRange::here, here_stub))]
#[cfg_attr(kani, kani::unwind(4))]
pub(crate) fn vkc03_as_index_i8() {
  let v: i8 = vk::any();
  vk::reach();
  let val = Value::I8(Ref::new(v));
  if let Ok(Value::Index(ix)) = val.as_index() { let n = *ix.borrow(); assert!((v >= 0 && (n as i128) == (v as i128)) || n > FAR, "VK: as_index turned an index into a different position"); }
}

#[cfg_attr(kani, kani::proof)]
#[cfg_attr(kani, kani::stub(alloc::fmt::format, fmt_stub))]
#[cfg_attr(kani, kani::stub(CompilerSourceRange::here, here_stub))]
#[cfg_attr(kani, kani::unwind(4))]
pub(crate) fn vkc03_as_usize_i16() {
  let v: i16 = vk::any();
  vk::reach();
  let val = Value::I16(Ref::new(v));
  if let Ok(n) = val.as_usize() { assert!((v >= 0 && (n as i128) == (v as i128)) || n > FAR, "VK: as_usize turned an index into a different position"); }
}

#[cfg_attr(kani, kani::proof)]
#[cfg_attr(kani, kani::stub(alloc::fmt::format, fmt_stub))]
#[cfg_attr(kani, kani::stub(CompilerSourceRange::here, here_stub))]
#[cfg_attr(kani, kani::unwind(4))]
pub(crate) fn vkc03_as_vecusize_i16() {
  let v: i16 = vk::any();
  vk::reach();
  let val = Value::I16(Ref::new(v));
  if let Ok(ns) = val.as_vecusize() { assert!(ns.len() == 1, "VK: a scalar index converts to one position"); let n = ns[0]; assert!((v >= 0 && (n as i128) == (v as i128)) || n > FAR, "VK: as_vecusize turned an index into a different position"); }
}

#[cfg_attr(kani, kani::proof)]
#[cfg_attr(kani, kani::stub(alloc::fmt::format, fmt_stub))]
#[cfg_attr(kani, kani::stub(CompilerSourceRange::here, here_stub))]
#[cfg_attr(kani, kani::unwind(4))]
pub(crate) fn vkc03_as_index_i16() {
  let v: i16 = vk::any();
  vk::reach();
  let val = Value::I16(Ref::new(v));
  if let Ok(Value::Index(ix)) = val.as_index() { let n = *ix.borrow(); assert!((v >= 0 && (n as i128) == (v as i128)) || n > FAR, "VK: as_index turned an index into a different position"); }
}

#[cfg_attr(kani, kani::proof)]
#[cfg_attr(kani, kani::stub(alloc::fmt::format, fmt_stub))]
#[cfg_attr(kani, kani::stub(CompilerSourceRange::here, here_stub))]
#[cfg_attr(kani, kani::unwind(4))]
pub(crate) fn vkc03_as_usize_i32() {
  let v: i32 = vk::any();
  vk::reach();
  let val = Value::I32(Ref::new(v));
  if let Ok(n) = val.as_usize() { assert!((v >= 0 && (n as i128) == (v as i128)) || n > FAR, "VK: as_usize turned an index into a different position"); }
}

#[cfg_attr(kani, kani::proof)]
#[cfg_attr(kani, kani::stub(alloc::fmt::format, fmt_stub))]
#[cfg_attr(kani, kani::stub(CompilerSourceRange::here, here_stub))]
#[cfg_attr(kani, kani::unwind(4))]
pub(crate) fn vkc03_as_vecusize_i32() {
  let v: i32 = vk::any();
  vk::reach();
  let val = Value::I32(Ref::new(v));
  if let Ok(ns) = val.as_vecusize() { assert!(ns.len() == 1, "VK: a scalar index converts to one position"); let n = ns[0]; assert!((v >= 0 && (n as i128) == (v as i128)) || n > FAR, "VK: as_vecusize turned an index into a different position"); }
}

#[cfg_attr(kani, kani::proof)]
#[cfg_attr(kani, kani::stub(alloc::fmt::format, fmt_stub))]
#[cfg_attr(kani, kani::stub(CompilerSourceRange::here, here_stub))]
#[cfg_attr(kani, kani::unwind(4))]
pub(crate) fn vkc03_as_index_i32() {
  let v: i32 = vk::any();
  vk::reach();
  let val = Value::I32(Ref::new(v));
  if let Ok(Value::Index(ix)) = val.as_index() { let n = *ix.borrow(); assert!((v >= 0 && (n as i128) == (v as i128)) || n > FAR, "VK: as_index turned an index into a different position"); }
}

#[cfg_attr(kani, kani::proof)]
#[cfg_attr(kani, kani::stub(alloc::fmt::format, fmt_stub))]
#[cfg_attr(kani, kani::stub(CompilerSourceRange::here, here_stub))]
#[cfg_attr(kani, kani::unwind(4))]
pub(crate) fn vkc03_as_usize_i64() {
  let v: i64 = vk::any();
  vk::reach();
  let val = Value::I64(Ref::new(v));
  if let Ok(n) = val.as_usize() { assert!((v >= 0 && (n as i128) == (v as i128)) || n > FAR, "VK: as_usize turned an index into a different position"); }
}

#[cfg_attr(kani, kani::proof)]
#[cfg_attr(kani, kani::stub(alloc::fmt::format, fmt_stub))]
#[cfg_attr(kani, kani::stub(CompilerSourceRange::here, here_stub))]
#[cfg_attr(kani, kani::unwind(4))]
pub(crate) fn vkc03_as_vecusize_i64() {
  let v: i64 = vk::any();
  vk::reach();
  let val = Value::I64(Ref::new(v));
  if let Ok(ns) = val.as_vecusize() { assert!(ns.len() == 1, "VK: a scalar index converts to one position"); let n = ns[0]; assert!((v >= 0 && (n as i128) == (v as i128)) || n > FAR, "VK: as_vecusize turned an index into a different position"); }
}

#[cfg_attr(kani, kani::proof)]
#[cfg_attr(kani, kani::stub(alloc::fmt::format, fmt_stub))]
#[cfg_attr(kani, kani::stub(CompilerSourceRange::here, here_stub))]
#[cfg_attr(kani, kani::unwind(4))]
pub(crate) fn vkc03_as_index_i64() {
  let v: i64 = vk::any();
  vk::reach();
  let val = Value::I64(Ref::new(v));
  if let Ok(Value::Index(ix)) = val.as_index() { let n = *ix.borrow(); assert!((v >= 0 && (n as i128) == (v as i128)) || n > FAR, "VK: as_index turned an index into a different position"); }
}

#[cfg_attr(kani, kani::proof)]
#[cfg_attr(kani, kani::stub(alloc::fmt::format, fmt_stub))]
#[cfg_attr(kani, kani::stub(CompilerSourceRange::here, here_stub))]
#[cfg_attr(kani, kani::unwind(4))]
pub(crate) fn vkc03_as_usize_i128() {
  let v: i128 = vk::any();
  vk::reach();
  let val = Value::I128(Ref::new(v));
  if let Ok(n) = val.as_usize() { assert!((v >= 0 && (n as i128) == (v as i128)) || n > FAR, "VK: as_usize turned an index into a different position"); }
}

#[cfg_attr(kani, kani::proof)]
#[cfg_attr(kani, kani::stub(alloc::fmt::format, fmt_stub))]
#[cfg_attr(kani, kani::stub(CompilerSourceRange::here, here_stub))]
#[cfg_attr(kani, kani::unwind(4))]
pub(crate) fn vkc03_as_vecusize_i128() {
  let v: i128 = vk::any();
  vk::reach();
  let val = Value::I128(Ref::new(v));
  if let Ok(ns) = val.as_vecusize() { assert!(ns.len() == 1, "VK: a scalar index converts to one position"); let n = ns[0]; assert!((v >= 0 && (n as i128) == (v as i128)) || n > FAR, "VK: as_vecusize turned an index into a different position"); }
}

#[cfg_attr(kani, kani::proof)]
#[cfg_attr(kani, kani::stub(alloc::fmt::format, fmt_stub))]
#[cfg_attr(kani, kani::stub(CompilerSourceRange::here, here_stub))]
#[cfg_attr(kani, kani::unwind(4))]
pub(crate) fn vkc03_as_index_i128() {
  let v: i128 = vk::any();
  vk::reach();
  let val = Value::I128(Ref::new(v));
  if let Ok(Value::Index(ix)) = val.as_index() { let n = *ix.borrow(); assert!((v >= 0 && (n as i128) == (v as i128)) || n > FAR, "VK: as_index turned an index into a different position"); }
}

vk_registry!{ vkreplay_c03ix; vkc03_as_usize_u8, vkc03_as_vecusize_u8, vkc03_as_index_u8, vkc03_as_usize_u16, vkc03_as_vecusize_u16, vkc03_as_index_u16, vkc03_as_usize_u32, vkc03_as_vecusize_u32, vkc03_as_index_u32, vkc03_as_usize_u64, vkc03_as_vecusize_u64, vkc03_as_index_u64, vkc03_as_usize_u128, vkc03_as_vecusize_u128, vkc03_as_index_u128, vkc03_as_usize_i8, vkc03_as_vecusize_i8, vkc03_as_index_i8, vkc03_as_usize_i16, vkc03_as_vecusize_i16, vkc03_as_index_i16, vkc03_as_usize_i32, vkc03_as_vecusize_i32, vkc03_as_index_i32, vkc03_as_usize_i64, vkc03_as_vecusize_i64, vkc03_as_index_i64, vkc03_as_usize_i128, vkc03_as_vecusize_i128, vkc03_as_index_i128 }
