// Verus model for the container constant WRITERS of src/core/src/program/compiler/constants.rs (MechTable, MechSet, MechTuple: both
// `ConstElem::write_le` and the payload built by `CompileConst::compile_const`).  The byte buffer is a stream of TOKENS: each primitive
// writer appends one token (its bytes are the subject of the scalar codec obligations C06.codec.*).  The contract of every writer is the
// layout the READER (`from_le`) consumes, written here from the reader's order of reads.
#[derive(Clone, Copy, PartialEq, Eq, Structural)]
pub struct ValueKind { pub id: u64 }
#[derive(Clone, Copy, PartialEq, Eq, Structural)]
pub struct Value { pub id: u64 }
#[derive(Clone, Copy, PartialEq, Eq, Structural)]
pub struct MatrixValue { pub id: u64 }
#[derive(Clone, Copy, PartialEq, Eq, Structural)]
pub struct Str { pub id: u64 }
pub enum Tok { U32(u32), U64(u64), Kind(ValueKind), Mat(MatrixValue), Text(Str), Val(Value) }
pub struct Out { pub toks: Ghost<Seq<Tok>> }
impl Out {
  #[verifier::external_body]
  pub fn new() -> (o: Out) ensures o.toks@ == Seq::<Tok>::empty(), { unimplemented!() }
}
#[verifier::external_body]
pub fn write_u32(out: &mut Out, v: u32) ensures final(out).toks@ == old(out).toks@.push(Tok::U32(v)), { unimplemented!() }
#[verifier::external_body]
pub fn write_u64(out: &mut Out, v: u64) ensures final(out).toks@ == old(out).toks@.push(Tok::U64(v)), { unimplemented!() }
impl ValueKind {
  #[verifier::external_body]
  pub fn write_le(&self, out: &mut Out) ensures final(out).toks@ == old(out).toks@.push(Tok::Kind(*self)), { unimplemented!() }
  pub fn clone(&self) -> (r: ValueKind) ensures r == *self, { *self }
}
impl Value {
  #[verifier::external_body]
  pub fn write_le(&self, out: &mut Out) ensures final(out).toks@ == old(out).toks@.push(Tok::Val(*self)), { unimplemented!() }
}
impl MatrixValue {
  #[verifier::external_body]
  pub fn write_le(&self, out: &mut Out) ensures final(out).toks@ == old(out).toks@.push(Tok::Mat(*self)), { unimplemented!() }
}
pub uninterp spec fn empty_text() -> Str;
impl Str {
  #[verifier::external_body]
  pub fn write_le(&self, out: &mut Out) ensures final(out).toks@ == old(out).toks@.push(Tok::Text(*self)), { unimplemented!() }
}
#[verifier::external_body]
pub fn empty_string() -> (s: Str) ensures s == empty_text(), { unimplemented!() }     // String::from("")
pub struct ColNames { pub id: u64 }
pub uninterp spec fn cn(names: ColNames, col: u64) -> Option<Str>;
impl ColNames {
  #[verifier::external_body]
  pub fn get(&self, col: &u64) -> (r: Option<&Str>) ensures (match r { Some(s) => cn(*self, *col) == Some(*s), None => cn(*self, *col) is None }), { unimplemented!() }
}
// IndexMap<u64, (ValueKind, Matrix<Value>)> / IndexSet<Value> / Vec<Box<Value>> iterate in insertion order: modelled as vectors
pub struct MechTable { pub rows: usize, pub cols: usize, pub data: Vec<(u64, (ValueKind, MatrixValue))>, pub col_names: ColNames, pub k: ValueKind }
pub struct MechSet { pub kind: ValueKind, pub num_elements: usize, pub set: Vec<Value> }
pub struct MechTuple { pub elements: Vec<Value>, pub k: ValueKind }
impl MechTable { pub fn value_kind(&self) -> (r: ValueKind) ensures r == self.k, { self.k } }
impl MechTuple { pub fn value_kind(&self) -> (r: ValueKind) ensures r == self.k, { self.k } }

// ---- the layouts, in the order the readers (`from_le`) consume them ----------------------------------------------------------------
pub open spec fn col_toks(t: MechTable, i: int) -> Seq<Tok> {
  seq![Tok::U64(t.data@[i].0), Tok::Kind(t.data@[i].1.0), Tok::Mat(t.data@[i].1.1),
       Tok::Text(match cn(t.col_names, t.data@[i].0) { Some(s) => s, None => empty_text() })]
}
pub open spec fn cols_toks(t: MechTable, n: int) -> Seq<Tok> decreases n { if n <= 0 { Seq::<Tok>::empty() } else { cols_toks(t, n - 1) + col_toks(t, n - 1) } }
// table: kind, ROWS, COLS, then per column: id, kind, data, name
pub open spec fn table_toks(t: MechTable) -> Seq<Tok> { seq![Tok::Kind(t.k), Tok::U32(t.rows as u32), Tok::U32(t.cols as u32)] + cols_toks(t, t.data@.len() as int) }
pub open spec fn vals_toks(v: Seq<Value>, n: int) -> Seq<Tok> decreases n { if n <= 0 { Seq::<Tok>::empty() } else { vals_toks(v, n - 1).push(Tok::Val(v[n - 1])) } }
// set: kind, element count, elements;  tuple: kind, element count, elements
pub open spec fn set_toks(s: MechSet) -> Seq<Tok> { seq![Tok::Kind(s.kind), Tok::U32(s.num_elements as u32)] + vals_toks(s.set@, s.set@.len() as int) }
pub open spec fn tuple_toks(t: MechTuple) -> Seq<Tok> { seq![Tok::Kind(t.k), Tok::U32(t.elements@.len() as u32)] + vals_toks(t.elements@, t.elements@.len() as int) }
