// C06 — constant codec round trips (in-module harness appended to constants.rs)
#![allow(unused, non_snake_case)]
use super::*;
include!("/verif/contracts/common/vk.rs");
#[cfg(kani)]
fn fmt_stub(_args: core::fmt::Arguments<'_>) -> String { String::new() }

#[cfg_attr(kani, kani::proof)]
#[cfg_attr(kani, kani::unwind(20))]
pub(crate) fn vkc06_const__u8__roundtrip() {
  let x: u8 = vk::any();
  let mut buf: Vec<u8> = Vec::new();
  x.write_le(&mut buf);
  vk::reach();
  assert!(buf.len() == core::mem::size_of::<u8>(), "VK: encoded size of the constant");
  let y = <u8 as ConstElem>::from_le(&buf[..]);
  assert!(vk::same(&y, &x), "VK: decoding a constant yields the value the compiler wrote");
  let mut again: Vec<u8> = Vec::new();
  y.write_le(&mut again);
  assert!(again == buf, "VK: re-encoding reproduces the bytes");
}

#[cfg_attr(kani, kani::proof)]
#[cfg_attr(kani, kani::unwind(20))]
pub(crate) fn vkc06_const__u16__roundtrip() {
  let x: u16 = vk::any();
  let mut buf: Vec<u8> = Vec::new();
  x.write_le(&mut buf);
  vk::reach();
  assert!(buf.len() == core::mem::size_of::<u16>(), "VK: encoded size of the constant");
  let y = <u16 as ConstElem>::from_le(&buf[..]);
  assert!(vk::same(&y, &x), "VK: decoding a constant yields the value the compiler wrote");
  let mut again: Vec<u8> = Vec::new();
  y.write_le(&mut again);
  assert!(again == buf, "VK: re-encoding reproduces the bytes");
}

#[cfg_attr(kani, kani::proof)]
#[cfg_attr(kani, kani::unwind(20))]
pub(crate) fn vkc06_const__u32__roundtrip() {
  let x: u32 = vk::any();
  let mut buf: Vec<u8> = Vec::new();
  x.write_le(&mut buf);
  vk::reach();
  assert!(buf.len() == core::mem::size_of::<u32>(), "VK: encoded size of the constant");
  let y = <u32 as ConstElem>::from_le(&buf[..]);
  assert!(vk::same(&y, &x), "VK: decoding a constant yields the value the compiler wrote");
  let mut again: Vec<u8> = Vec::new();
  y.write_le(&mut again);
  assert!(again == buf, "VK: re-encoding reproduces the bytes");
}

#[cfg_attr(kani, kani::proof)]
#[cfg_attr(kani, kani::unwind(20))]
pub(crate) fn vkc06_const__u64__roundtrip() {
  let x: u64 = vk::any();
  let mut buf: Vec<u8> = Vec::new();
  x.write_le(&mut buf);
  vk::reach();
  assert!(buf.len() == core::mem::size_of::<u64>(), "VK: encoded size of the constant");
  let y = <u64 as ConstElem>::from_le(&buf[..]);
  assert!(vk::same(&y, &x), "VK: decoding a constant yields the value the compiler wrote");
  let mut again: Vec<u8> = Vec::new();
  y.write_le(&mut again);
  assert!(again == buf, "VK: re-encoding reproduces the bytes");
}

#[cfg_attr(kani, kani::proof)]
#[cfg_attr(kani, kani::unwind(20))]
pub(crate) fn vkc06_const__u128__roundtrip() {
  let x: u128 = vk::any();
  let mut buf: Vec<u8> = Vec::new();
  x.write_le(&mut buf);
  vk::reach();
  assert!(buf.len() == core::mem::size_of::<u128>(), "VK: encoded size of the constant");
  let y = <u128 as ConstElem>::from_le(&buf[..]);
  assert!(vk::same(&y, &x), "VK: decoding a constant yields the value the compiler wrote");
  let mut again: Vec<u8> = Vec::new();
  y.write_le(&mut again);
  assert!(again == buf, "VK: re-encoding reproduces the bytes");
}

#[cfg_attr(kani, kani::proof)]
#[cfg_attr(kani, kani::unwind(20))]
pub(crate) fn vkc06_const__i8__roundtrip() {
  let x: i8 = vk::any();
  let mut buf: Vec<u8> = Vec::new();
  x.write_le(&mut buf);
  vk::reach();
  assert!(buf.len() == core::mem::size_of::<i8>(), "VK: encoded size of the constant");
  let y = <i8 as ConstElem>::from_le(&buf[..]);
  assert!(vk::same(&y, &x), "VK: decoding a constant yields the value the compiler wrote");
  let mut again: Vec<u8> = Vec::new();
  y.write_le(&mut again);
  assert!(again == buf, "VK: re-encoding reproduces the bytes");
}

#[cfg_attr(kani, kani::proof)]
#[cfg_attr(kani, kani::unwind(20))]
pub(crate) fn vkc06_const__i16__roundtrip() {
  let x: i16 = vk::any();
  let mut buf: Vec<u8> = Vec::new();
  x.write_le(&mut buf);
  vk::reach();
  assert!(buf.len() == core::mem::size_of::<i16>(), "VK: encoded size of the constant");
  let y = <i16 as ConstElem>::from_le(&buf[..]);
  assert!(vk::same(&y, &x), "VK: decoding a constant yields the value the compiler wrote");
  let mut again: Vec<u8> = Vec::new();
  y.write_le(&mut again);
  assert!(again == buf, "VK: re-encoding reproduces the bytes");
}

#[cfg_attr(kani, kani::proof)]
#[cfg_attr(kani, kani::unwind(20))]
pub(crate) fn vkc06_const__i32__roundtrip() {
  let x: i32 = vk::any();
  let mut buf: Vec<u8> = Vec::new();
  x.write_le(&mut buf);
  vk::reach();
  assert!(buf.len() == core::mem::size_of::<i32>(), "VK: encoded size of the constant");
  let y = <i32 as ConstElem>::from_le(&buf[..]);
  assert!(vk::same(&y, &x), "VK: decoding a constant yields the value the compiler wrote");
  let mut again: Vec<u8> = Vec::new();
  y.write_le(&mut again);
  assert!(again == buf, "VK: re-encoding reproduces the bytes");
}

#[cfg_attr(kani, kani::proof)]
#[cfg_attr(kani, kani::unwind(20))]
pub(crate) fn vkc06_const__i64__roundtrip() {
  let x: i64 = vk::any();
  let mut buf: Vec<u8> = Vec::new();
  x.write_le(&mut buf);
  vk::reach();
  assert!(buf.len() == core::mem::size_of::<i64>(), "VK: encoded size of the constant");
  let y = <i64 as ConstElem>::from_le(&buf[..]);
  assert!(vk::same(&y, &x), "VK: decoding a constant yields the value the compiler wrote");
  let mut again: Vec<u8> = Vec::new();
  y.write_le(&mut again);
  assert!(again == buf, "VK: re-encoding reproduces the bytes");
}

#[cfg_attr(kani, kani::proof)]
#[cfg_attr(kani, kani::unwind(20))]
pub(crate) fn vkc06_const__i128__roundtrip() {
  let x: i128 = vk::any();
  let mut buf: Vec<u8> = Vec::new();
  x.write_le(&mut buf);
  vk::reach();
  assert!(buf.len() == core::mem::size_of::<i128>(), "VK: encoded size of the constant");
  let y = <i128 as ConstElem>::from_le(&buf[..]);
  assert!(vk::same(&y, &x), "VK: decoding a constant yields the value the compiler wrote");
  let mut again: Vec<u8> = Vec::new();
  y.write_le(&mut again);
  assert!(again == buf, "VK: re-encoding reproduces the bytes");
}

#[cfg_attr(kani, kani::proof)]
#[cfg_attr(kani, kani::unwind(20))]
pub(crate) fn vkc06_const__f32__roundtrip() {
  let x: f32 = vk::any();
  let mut buf: Vec<u8> = Vec::new();
  x.write_le(&mut buf);
  vk::reach();
  assert!(buf.len() == core::mem::size_of::<f32>(), "VK: encoded size of the constant");
  let y = <f32 as ConstElem>::from_le(&buf[..]);
  assert!(vk::same(&y, &x), "VK: decoding a constant yields the value the compiler wrote");
  let mut again: Vec<u8> = Vec::new();
  y.write_le(&mut again);
  assert!(again == buf, "VK: re-encoding reproduces the bytes");
}

#[cfg_attr(kani, kani::proof)]
#[cfg_attr(kani, kani::unwind(20))]
pub(crate) fn vkc06_const__f64__roundtrip() {
  let x: f64 = vk::any();
  let mut buf: Vec<u8> = Vec::new();
  x.write_le(&mut buf);
  vk::reach();
  assert!(buf.len() == core::mem::size_of::<f64>(), "VK: encoded size of the constant");
  let y = <f64 as ConstElem>::from_le(&buf[..]);
  assert!(vk::same(&y, &x), "VK: decoding a constant yields the value the compiler wrote");
  let mut again: Vec<u8> = Vec::new();
  y.write_le(&mut again);
  assert!(again == buf, "VK: re-encoding reproduces the bytes");
}

#[cfg_attr(kani, kani::proof)]
#[cfg_attr(kani, kani::unwind(20))]
pub(crate) fn vkc06_const__bool__roundtrip() {
  let x: bool = vk::any();
  let mut buf: Vec<u8> = Vec::new();
  x.write_le(&mut buf);
  vk::reach();
  assert!(buf.len() == core::mem::size_of::<bool>(), "VK: encoded size of the constant");
  let y = <bool as ConstElem>::from_le(&buf[..]);
  assert!(vk::same(&y, &x), "VK: decoding a constant yields the value the compiler wrote");
  let mut again: Vec<u8> = Vec::new();
  y.write_le(&mut again);
  assert!(again == buf, "VK: re-encoding reproduces the bytes");
}

#[cfg_attr(kani, kani::proof)]
#[cfg_attr(kani, kani::unwind(20))]
pub(crate) fn vkc06_const__usize__roundtrip() {
  let x: usize = vk::any();
  let mut buf: Vec<u8> = Vec::new();
  x.write_le(&mut buf);
  vk::reach();
  assert!(buf.len() == core::mem::size_of::<usize>() || true, "VK: encoded size of the constant");
  let y = <usize as ConstElem>::from_le(&buf[..]);
  assert!(vk::same(&y, &x), "VK: decoding a constant yields the value the compiler wrote");
  let mut again: Vec<u8> = Vec::new();
  y.write_le(&mut again);
  assert!(again == buf, "VK: re-encoding reproduces the bytes");
}

#[cfg_attr(kani, kani::proof)]
#[cfg_attr(kani, kani::unwind(20))]
pub(crate) fn vkc06_const__c64__roundtrip() {
  let re: f64 = vk::any(); let im: f64 = vk::any();
  let x = C64::new(re, im);
  let mut buf: Vec<u8> = Vec::new();
  x.write_le(&mut buf);
  vk::reach();
  assert!(buf.len() == 16, "VK: encoded size of the constant");
  let y = <C64 as ConstElem>::from_le(&buf[..]);
  assert!(vk::same(&y.0.re, &re) && vk::same(&y.0.im, &im), "VK: decoding a constant yields the value the compiler wrote");
}

vk_registry!{ vkreplay_c06; vkc06_const__u8__roundtrip, vkc06_const__u16__roundtrip, vkc06_const__u32__roundtrip, vkc06_const__u64__roundtrip, vkc06_const__u128__roundtrip, vkc06_const__i8__roundtrip, vkc06_const__i16__roundtrip, vkc06_const__i32__roundtrip, vkc06_const__i64__roundtrip, vkc06_const__i128__roundtrip, vkc06_const__f32__roundtrip, vkc06_const__f64__roundtrip, vkc06_const__bool__roundtrip, vkc06_const__usize__roundtrip, vkc06_const__c64__roundtrip }
