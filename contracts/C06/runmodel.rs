// Verus model for the instruction loop of `Interpreter::run_program` (src/interpreter/src/interpreter.rs): from
// `while self.ip < program.instrs.len()` to the end of that loop.  `self` is `self_` (ip, registers, constants, out); the function table
// lookup yields an opaque factory; applying a factory to FunctionArgs yields an opaque function object `built(factory, args)` (or an
// error); every `add_plan_step` is recorded in a ghost log.  Values are identities (`clone` is the identity).
#[derive(Clone, Copy, PartialEq, Eq, Structural)]
pub struct Value { pub id: u64 }
impl Value { pub fn clone(&self) -> (r: Value) ensures r == *self, { *self } }
pub enum DecodedInstr {
  ConstLoad { dst: u32, const_id: u32 },
  NullOp { fxn_id: u64, dst: u32 },
  UnOp { fxn_id: u64, dst: u32, src: u32 },
  BinOp { fxn_id: u64, dst: u32, lhs: u32, rhs: u32 },
  TernOp { fxn_id: u64, dst: u32, a: u32, b: u32, c: u32 },
  QuadOp { fxn_id: u64, dst: u32, a: u32, b: u32, c: u32, d: u32 },
  VarArg { fxn_id: u64, dst: u32, args: Vec<u32> },
  Ret { src: u32 },
  Unknown { opcode: u8, rest: Vec<u8> },
}
pub enum FunctionArgs {
  Nullary(Value), Unary(Value, Value), Binary(Value, Value, Value), Ternary(Value, Value, Value, Value),
  Quaternary(Value, Value, Value, Value, Value), Variadic(Value, Vec<Value>),
}
// the arguments as a flat list (out first): what the factory sees
pub open spec fn flat(a: FunctionArgs) -> Seq<Value> {
  match a {
    FunctionArgs::Nullary(o) => seq![o], FunctionArgs::Unary(o, x) => seq![o, x], FunctionArgs::Binary(o, x, y) => seq![o, x, y],
    FunctionArgs::Ternary(o, x, y, z) => seq![o, x, y, z], FunctionArgs::Quaternary(o, x, y, z, w) => seq![o, x, y, z, w],
    FunctionArgs::Variadic(o, v) => seq![o] + v@,
  }
}
pub open spec fn arity_tag(a: FunctionArgs) -> int {
  match a { FunctionArgs::Nullary(_) => 0, FunctionArgs::Unary(..) => 1, FunctionArgs::Binary(..) => 2, FunctionArgs::Ternary(..) => 3, FunctionArgs::Quaternary(..) => 4, FunctionArgs::Variadic(..) => 5 }
}
#[derive(Clone, Copy)]
pub struct Factory { pub id: u64 }
pub struct Fxn { pub id: u64 }
pub struct MechError { pub id: u64 }
pub struct FunctionTable { pub id: u64 }
pub struct Functions { pub functions: FunctionTable }
pub uninterp spec fn lookup(t: FunctionTable, fxn_id: u64) -> Option<Factory>;
pub uninterp spec fn build(f: Factory, tag: int, args: Seq<Value>) -> Option<Fxn>;   // None = the factory rejects the arguments
pub uninterp spec fn fout(f: Fxn) -> Value;
impl FunctionTable {
  #[verifier::external_body]
  pub fn get(&self, fxn_id: &u64) -> (r: Option<Factory>) ensures r == lookup(*self, *fxn_id), { unimplemented!() }
}
#[verifier::external_body]
pub fn call_factory(f: Factory, args: FunctionArgs) -> (r: Result<Fxn, MechError>)
  ensures (match r { Ok(x) => build(f, arity_tag(args), flat(args)) == Some(x), Err(_) => build(f, arity_tag(args), flat(args)) is None }),
{ unimplemented!() }
impl Fxn {
  #[verifier::external_body]
  pub fn out(&self) -> (v: Value) ensures v == fout(*self), { unimplemented!() }
}
pub struct PlanLog { pub steps: Ghost<Seq<Fxn>> }
impl PlanLog {
  #[verifier::external_body]
  pub fn add_plan_step(&mut self, f: Fxn) ensures final(self).steps@ == old(self).steps@.push(f), { unimplemented!() }
}
pub struct ParsedProgram { pub instrs: Vec<DecodedInstr> }
pub struct Interp { pub ip: usize, pub registers: Vec<Value>, pub constants: Vec<Value>, pub out: Value }
// `args.iter().map(|r| self.registers[*r as usize].clone()).collect()`
#[verifier::external_body]
pub fn registers_of(registers: &Vec<Value>, args: &Vec<u32>) -> (r: Vec<Value>)
  requires forall|i: int| 0 <= i < args@.len() ==> (#[trigger] args@[i] as int) < registers@.len(),
  ensures r@.len() == args@.len(), forall|i: int| 0 <= i < args@.len() ==> #[trigger] r@[i] == registers@[args@[i] as int],
{ unimplemented!() }
#[verifier::external_body]
pub fn unknown_function_error(fxn_id: u64) -> (e: MechError) { unimplemented!() }

// ---- what the COMPILER guarantees of an emitted program (requires of the loop): every register operand is below the register count, every
// constant id below the constant count, and there is no Ret / Unknown instruction
pub open spec fn instr_ok(i: DecodedInstr, nregs: int, nconsts: int) -> bool {
  match i {
    DecodedInstr::ConstLoad { dst, const_id } => dst < nregs && const_id < nconsts,
    DecodedInstr::NullOp { fxn_id, dst } => dst < nregs,
    DecodedInstr::UnOp { fxn_id, dst, src } => dst < nregs && src < nregs,
    DecodedInstr::BinOp { fxn_id, dst, lhs, rhs } => dst < nregs && lhs < nregs && rhs < nregs,
    DecodedInstr::TernOp { fxn_id, dst, a, b, c } => dst < nregs && a < nregs && b < nregs && c < nregs,
    DecodedInstr::QuadOp { fxn_id, dst, a, b, c, d } => dst < nregs && a < nregs && b < nregs && c < nregs && d < nregs,
    DecodedInstr::VarArg { fxn_id, dst, args } => dst < nregs && forall|k: int| 0 <= k < args@.len() ==> (#[trigger] args@[k] as int) < nregs,
    DecodedInstr::Ret { src } => false,
    DecodedInstr::Unknown { opcode, rest } => true,
  }
}
// ---- THE CONTRACT (C06): the loaded plan is built instruction by instruction, in order; each step is the function the table registers under
// the instruction's id, applied to (the output register, then the operand registers IN THE ORDER THE INSTRUCTION LISTS THEM) -- the same
// order the emitters write (C06.emitter.*); a ConstLoad copies the constant into the register
pub open spec fn step_args(i: DecodedInstr, regs: Seq<Value>) -> (int, Seq<Value>) {
  match i {
    DecodedInstr::NullOp { fxn_id, dst } => (0, seq![regs[dst as int]]),
    DecodedInstr::UnOp { fxn_id, dst, src } => (1, seq![regs[dst as int], regs[src as int]]),
    DecodedInstr::BinOp { fxn_id, dst, lhs, rhs } => (2, seq![regs[dst as int], regs[lhs as int], regs[rhs as int]]),
    DecodedInstr::TernOp { fxn_id, dst, a, b, c } => (3, seq![regs[dst as int], regs[a as int], regs[b as int], regs[c as int]]),
    DecodedInstr::QuadOp { fxn_id, dst, a, b, c, d } => (4, seq![regs[dst as int], regs[a as int], regs[b as int], regs[c as int], regs[d as int]]),
    DecodedInstr::VarArg { fxn_id, dst, args } => (5, seq![regs[dst as int]] + Seq::new(args@.len(), |k: int| regs[args@[k] as int])),
    _ => (-1, Seq::empty()),
  }
}
pub open spec fn fxn_id_of(i: DecodedInstr) -> u64 {
  match i {
    DecodedInstr::NullOp { fxn_id, .. } => fxn_id, DecodedInstr::UnOp { fxn_id, .. } => fxn_id, DecodedInstr::BinOp { fxn_id, .. } => fxn_id,
    DecodedInstr::TernOp { fxn_id, .. } => fxn_id, DecodedInstr::QuadOp { fxn_id, .. } => fxn_id, DecodedInstr::VarArg { fxn_id, .. } => fxn_id, _ => 0,
  }
}
// state after running instrs[k..]: (registers, plan steps, out) or None = an error is returned
pub open spec fn exec(instrs: Seq<DecodedInstr>, k: int, regs: Seq<Value>, consts: Seq<Value>, steps: Seq<Fxn>, out: Value, t: FunctionTable) -> Option<(Seq<Value>, Seq<Fxn>, Value)>
  decreases instrs.len() - k,
{
  if k < 0 || k >= instrs.len() { Some((regs, steps, out)) } else {
    match instrs[k] {
      DecodedInstr::ConstLoad { dst, const_id } => exec(instrs, k + 1, regs.update(dst as int, consts[const_id as int]), consts, steps, out, t),
      DecodedInstr::Unknown { .. } => None,
      DecodedInstr::Ret { .. } => None,
      i => match lookup(t, fxn_id_of(i)) {
        None => None,
        Some(f) => match build(f, step_args(i, regs).0, step_args(i, regs).1) {
          None => None,
          Some(fx) => exec(instrs, k + 1, regs, consts, steps.push(fx), fout(fx), t),
        },
      },
    }
  }
}
