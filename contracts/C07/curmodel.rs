// Verus model of `std::io::Cursor<&[u8]>` as used by the bytecode loader, with byteorder's ReadBytesExt:
// a read succeeds iff enough bytes remain and then advances the position; a failed read (io::ErrorKind::UnexpectedEof,
// propagated with `?` in the real code) is `None`.  The decoded numbers are left unspecified (arbitrary): the obligations
// proved on this model are panic-freedom, termination and the allocation bound, not the decoded values (those are the
// Kani codec round trips).  ASSUMED: Cursor / byteorder behave like this.
global size_of usize == 8;

pub struct Cur { pub buf: Vec<u8>, pub pos: u64 }
// the little-endian u32 at a position: a function of the bytes (which four-byte combination it is, is byteorder's business)
pub uninterp spec fn le32(buf: Seq<u8>, pos: int) -> u32;

impl Cur {
  pub fn position(&self) -> (p: u64) ensures p == self.pos { self.pos }
  // `cur.get_ref().len()`
  pub fn len(&self) -> (n: usize) ensures n == self.buf@.len() { self.buf.len() }
  pub open spec fn rem(&self) -> int { if self.pos as int <= self.buf@.len() { self.buf@.len() - self.pos as int } else { 0 } }

  #[verifier::external_body]
  pub fn read_u8(&mut self) -> (o: Option<u8>)
    ensures old(self).rem() >= 1 ==> o.is_some() && final(self).pos == old(self).pos + 1 && o == Some(old(self).buf@[old(self).pos as int]),
            old(self).rem() < 1 ==> o.is_none() && final(self).pos == old(self).pos,
            final(self).buf == old(self).buf,
  { unimplemented!() }
  #[verifier::external_body]
  pub fn read_u16(&mut self) -> (o: Option<u16>)
    ensures old(self).rem() >= 2 ==> o.is_some() && final(self).pos == old(self).pos + 2,
            old(self).rem() < 2 ==> o.is_none() && old(self).pos <= final(self).pos <= old(self).pos + old(self).rem(),
            final(self).buf == old(self).buf,
  { unimplemented!() }
  #[verifier::external_body]
  pub fn read_u32(&mut self) -> (o: Option<u32>)
    ensures old(self).rem() >= 4 ==> o.is_some() && final(self).pos == old(self).pos + 4 && o == Some(le32(old(self).buf@, old(self).pos as int)),
            old(self).rem() < 4 ==> o.is_none() && old(self).pos <= final(self).pos <= old(self).pos + old(self).rem(),
            final(self).buf == old(self).buf,
  { unimplemented!() }
  #[verifier::external_body]
  pub fn read_u64(&mut self) -> (o: Option<u64>)
    ensures old(self).rem() >= 8 ==> o.is_some() && final(self).pos == old(self).pos + 8,
            old(self).rem() < 8 ==> o.is_none() && old(self).pos <= final(self).pos <= old(self).pos + old(self).rem(),
            final(self).buf == old(self).buf,
  { unimplemented!() }
}

// `Vec::with_capacity(n)` for u32 elements, with the allocation-bound obligation attached: the loader may only ask for
// memory proportional to the bytes it was given (`limit` = length of the input in bytes); requesting more is the
// "allocates without bound" clause of the property.
#[verifier::external_body]
pub fn vec_u32_with_capacity(n: usize, limit: Ghost<int>) -> (v: Vec<u32>)
  requires n as int * 4 <= limit@,
  ensures v@.len() == 0,
{ Vec::with_capacity(n) }

// ---- the reader `r: impl Read + Seek` over the whole file is the same model
impl Cur {
  // `r.seek(SeekFrom::Start(p))`: a Cursor accepts any position
  #[verifier::external_body]
  pub fn seek_start(&mut self, p: u64) -> (o: Option<()>)
    ensures o.is_some(), final(self).pos == p, final(self).buf == old(self).buf,
  { unimplemented!() }
  // `r.read_exact(&mut b)`: succeeds iff b.len() bytes remain
  #[verifier::external_body]
  pub fn read_exact(&mut self, b: &mut Vec<u8>) -> (o: Option<()>)
    ensures final(b)@.len() == old(b)@.len(), final(self).buf == old(self).buf,
            old(self).rem() >= old(b)@.len() ==> o.is_some() && final(self).pos == old(self).pos + old(b)@.len(),
            old(self).rem() < old(b)@.len() ==> o.is_none() && old(self).pos <= final(self).pos <= old(self).pos + old(self).rem(),
  { unimplemented!() }
  // `Cursor::new(&v[..])`
  #[verifier::external_body]
  pub fn of(v: &Vec<u8>) -> (c: Cur)
    ensures c.buf@ == v@, c.pos == 0,
  { unimplemented!() }
}

// `vec![0u8; n]` / `v.resize(n, 0)` on an empty vector, with the allocation-bound obligation (limit = file length in bytes)
#[verifier::external_body]
pub fn vec_u8_zeroed(n: usize, limit: Ghost<int>) -> (v: Vec<u8>)
  requires n as int <= limit@,
  ensures v@.len() == n,
{ vec![0u8; n] }
// a buffer of a compile-time constant size (the header)
#[verifier::external_body]
pub fn vec_u8_fixed() -> (v: Vec<u8>) { unimplemented!() }
// `Vec::with_capacity(n)` for 24-byte constant-table entries
#[verifier::external_body]
pub fn vec_entries_with_capacity(n: usize, limit: Ghost<int>) -> (v: Vec<ParsedConstEntry>)
  requires n as int * 24 <= limit@,
  ensures v@.len() == 0,
{ Vec::with_capacity(n) }
// `a.saturating_sub(b)`
pub fn sat_sub(a: u64, b: u64) -> (r: u64) ensures r == (if a >= b { a - b } else { 0 }), { if a >= b { a - b } else { 0 } }
// `a.checked_add(b)`
pub fn checked_add_u64(a: u64, b: u64) -> (r: Option<u64>)
  ensures a + b <= u64::MAX ==> r == Some((a + b) as u64), a + b > u64::MAX ==> r.is_none(),
{ if a <= u64::MAX - b { Some(a + b) } else { None } }
// `count.min(x)`
pub fn min_usize(a: usize, b: usize) -> (r: usize) ensures r == (if a <= b { a } else { b }), { if a <= b { a } else { b } }
// `ByteCodeHeader::read_from(&mut cur)`: fixed-size reads; the decoded fields are arbitrary
#[verifier::external_body]
pub fn read_header(c: &mut Cur) -> (o: Option<ByteCodeHeader>) ensures final(c).buf == old(c).buf, { unimplemented!() }
#[verifier::external_body]
pub fn string_from_utf8(b: Vec<u8>) -> (o: Option<String>) { unimplemented!() }
pub struct TypeSection { pub entries: Vec<TypeEntry> }
impl TypeSection { pub fn new() -> (s: TypeSection) { TypeSection { entries: Vec::new() } } }
impl ByteCodeHeader {
  #[verifier::external_body]
  pub fn validate_magic_mech(&self) -> (b: bool) { unimplemented!() }
}
