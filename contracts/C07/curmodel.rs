// Verus model of `std::io::Cursor<&[u8]>` as used by the bytecode loader, with byteorder's ReadBytesExt:
// a read succeeds iff enough bytes remain and then advances the position; a failed read (io::ErrorKind::UnexpectedEof,
// propagated with `?` in the real code) is `None`.  The decoded numbers are left unspecified (arbitrary): the obligations
// proved on this model are panic-freedom, termination and the allocation bound, not the decoded values (those are the
// Kani codec round trips).  ASSUMED: Cursor / byteorder behave like this.
global size_of usize == 8;

pub struct Cur { pub buf: Vec<u8>, pub pos: u64 }

impl Cur {
  pub fn position(&self) -> (p: u64) ensures p == self.pos { self.pos }
  // `cur.get_ref().len()`
  pub fn len(&self) -> (n: usize) ensures n == self.buf@.len() { self.buf.len() }
  pub open spec fn rem(&self) -> int { if self.pos as int <= self.buf@.len() { self.buf@.len() - self.pos as int } else { 0 } }

  #[verifier::external_body]
  pub fn read_u8(&mut self) -> (o: Option<u8>)
    ensures old(self).rem() >= 1 ==> o.is_some() && final(self).pos == old(self).pos + 1,
            old(self).rem() < 1 ==> o.is_none() && final(self).pos == old(self).pos,
            final(self).buf == old(self).buf,
  { unimplemented!() }
  #[verifier::external_body]
  pub fn read_u16(&mut self) -> (o: Option<u16>)
    ensures old(self).rem() >= 2 ==> o.is_some() && final(self).pos == old(self).pos + 2,
            old(self).rem() < 2 ==> o.is_none() && old(self).pos <= final(self).pos <= old(self).pos + old(self).rem(),
            final(self).buf == old(self).buf,
  { unimplemented!() }
  #[verifier::external_body]
  pub fn read_u32(&mut self) -> (o: Option<u32>)
    ensures old(self).rem() >= 4 ==> o.is_some() && final(self).pos == old(self).pos + 4,
            old(self).rem() < 4 ==> o.is_none() && old(self).pos <= final(self).pos <= old(self).pos + old(self).rem(),
            final(self).buf == old(self).buf,
  { unimplemented!() }
  #[verifier::external_body]
  pub fn read_u64(&mut self) -> (o: Option<u64>)
    ensures old(self).rem() >= 8 ==> o.is_some() && final(self).pos == old(self).pos + 8,
            old(self).rem() < 8 ==> o.is_none() && old(self).pos <= final(self).pos <= old(self).pos + old(self).rem(),
            final(self).buf == old(self).buf,
  { unimplemented!() }
}

// `Vec::with_capacity(n)` for u32 elements, with the allocation-bound obligation attached: the loader may only ask for
// memory proportional to the bytes it was given (`limit` = length of the input in bytes); requesting more is the
// "allocates without bound" clause of the property.
#[verifier::external_body]
pub fn vec_u32_with_capacity(n: usize, limit: Ghost<int>) -> (v: Vec<u32>)
  requires n as int * 4 <= limit@,
  ensures v@.len() == 0,
{ Vec::with_capacity(n) }
