// C07 — in-module harnesses on src/core/src/program/program.rs (appended by the
// mirror generator as `mod verif_c07;`, so private items are reachable).
#![allow(unused, non_snake_case)]
use super::*;
include!("/verif/contracts/common/vk.rs");

// ---- reference CRC-32/ISO-HDLC (bitwise), the contract's definition of "the CRC"
fn crc32_ref(data: &[u8]) -> u32 {
    let mut crc: u32 = 0xFFFF_FFFF;
    let mut i = 0;
    while i < data.len() {
        crc ^= data[i] as u32;
        let mut k = 0;
        while k < 8 {
            let mask = (!(crc & 1)).wrapping_add(1);
            crc = (crc >> 1) ^ (0xEDB8_8320 & mask);
            k += 1;
        }
        i += 1;
    }
    !crc
}
// crc32fast::hash reaches cpuid feature detection, which Kani cannot execute;
// under Kani it is replaced by the reference (assumed equal: trusted base).
#[cfg(kani)]
fn crc32fast_hash_stub(buf: &[u8]) -> u32 { crc32_ref(buf) }
#[cfg(kani)]
fn fmt_stub(_args: core::fmt::Arguments<'_>) -> String { String::new() }
// `#[track_caller]` / Location::caller() is not supported by Kani; the recorded compiler
// location is irrelevant to every obligation here.
#[cfg(kani)]
fn here_stub() -> CompilerSourceRange { CompilerSourceRange { file: "", line: 0 } }

// ---------------------------------------------------------------- opcode / type tags
#[cfg_attr(kani, kani::proof)]
pub(crate) fn vkc07_opcode_from_u8() {
    let b: u8 = vk::any();
    // the discriminants the enum OpCode DECLARES in the current source (substituted by units/C07.py on every run)
    let is_known = /*@OPCODE_KNOWN@*/;
    vk::reach();
    match OpCode::from_u8(b) {
        Some(op) => { assert!(is_known, "VK: a byte that is no declared opcode must map to None"); assert!(op as u8 == b, "VK: OpCode::from_u8(op as u8) == Some(op)"); }
        None => assert!(!is_known, "VK: every declared opcode byte decodes"),
    }
}

#[cfg_attr(kani, kani::proof)]
pub(crate) fn vkc07_typetag_from_u16() {
    let t: u16 = vk::any();
    let is_known = /*@TYPETAG_KNOWN@*/;
    vk::reach();
    match TypeTag::from_u16(t) {
        Some(tag) => { assert!(tag as u16 == t, "VK: TypeTag::from_u16(t) == Some(tag) implies tag as u16 == t"); assert!(is_known, "VK: a number that is no declared type tag must map to None"); }
        None => assert!(!is_known, "VK: every declared type tag decodes"),
    }
}

// ---------------------------------------------------------------- instruction codec
fn enc_dec_roundtrip(ins: EncodedInstr, expect: DecodedInstr) {
    let mut buf: Vec<u8> = Vec::new();
    let r = ins.write_to(&mut buf);
    assert!(r.is_ok(), "VK: encoding succeeds");
    assert!(buf.len() as u64 == ins.byte_len(), "VK: byte_len() equals the bytes written");
    vk::reach();
    let dec = decode_instructions(Cursor::new(&buf[..]));
    match dec {
        Ok(v) => {
            assert!(v.len() == 1, "VK: one instruction decoded");
            assert!(v[0] == expect, "VK: decoding yields the instruction the compiler wrote");
            let mut again: Vec<u8> = Vec::new();
            assert!(v[0].write_to(&mut again).is_ok(), "VK: re-encoding succeeds");
            assert!(again == buf, "VK: re-encoding the decoded instruction reproduces the bytes");
        }
        Err(_) => assert!(false, "VK: an emitted instruction must decode"),
    }
}

#[cfg_attr(kani, kani::proof)]
#[cfg_attr(kani, kani::unwind(40))]
#[cfg_attr(kani, kani::stub(alloc::fmt::format, fmt_stub))]
#[cfg_attr(kani, kani::stub(CompilerSourceRange::here, here_stub))]
pub(crate) fn vkc07_instr_constload() {
    let (dst, const_id): (u32, u32) = (vk::any(), vk::any());
    enc_dec_roundtrip(EncodedInstr::ConstLoad { dst, const_id }, DecodedInstr::ConstLoad { dst, const_id });
}
#[cfg_attr(kani, kani::proof)]
#[cfg_attr(kani, kani::unwind(40))]
#[cfg_attr(kani, kani::stub(alloc::fmt::format, fmt_stub))]
#[cfg_attr(kani, kani::stub(CompilerSourceRange::here, here_stub))]
pub(crate) fn vkc07_instr_nullop() {
    let fxn_id: u64 = vk::any(); let dst: u32 = vk::any();
    enc_dec_roundtrip(EncodedInstr::NullOp { fxn_id, dst }, DecodedInstr::NullOp { fxn_id, dst });
}
#[cfg_attr(kani, kani::proof)]
#[cfg_attr(kani, kani::unwind(40))]
#[cfg_attr(kani, kani::stub(alloc::fmt::format, fmt_stub))]
#[cfg_attr(kani, kani::stub(CompilerSourceRange::here, here_stub))]
pub(crate) fn vkc07_instr_unop() {
    let fxn_id: u64 = vk::any(); let (dst, src): (u32, u32) = (vk::any(), vk::any());
    enc_dec_roundtrip(EncodedInstr::UnOp { fxn_id, dst, src }, DecodedInstr::UnOp { fxn_id, dst, src });
}
#[cfg_attr(kani, kani::proof)]
#[cfg_attr(kani, kani::unwind(40))]
#[cfg_attr(kani, kani::stub(alloc::fmt::format, fmt_stub))]
#[cfg_attr(kani, kani::stub(CompilerSourceRange::here, here_stub))]
pub(crate) fn vkc07_instr_binop() {
    let fxn_id: u64 = vk::any(); let (dst, lhs, rhs): (u32, u32, u32) = (vk::any(), vk::any(), vk::any());
    enc_dec_roundtrip(EncodedInstr::BinOp { fxn_id, dst, lhs, rhs }, DecodedInstr::BinOp { fxn_id, dst, lhs, rhs });
}
#[cfg_attr(kani, kani::proof)]
#[cfg_attr(kani, kani::unwind(40))]
#[cfg_attr(kani, kani::stub(alloc::fmt::format, fmt_stub))]
#[cfg_attr(kani, kani::stub(CompilerSourceRange::here, here_stub))]
pub(crate) fn vkc07_instr_ternop() {
    let fxn_id: u64 = vk::any(); let (dst, a, b, c): (u32, u32, u32, u32) = (vk::any(), vk::any(), vk::any(), vk::any());
    enc_dec_roundtrip(EncodedInstr::TernOp { fxn_id, dst, a, b, c }, DecodedInstr::TernOp { fxn_id, dst, a, b, c });
}
#[cfg_attr(kani, kani::proof)]
#[cfg_attr(kani, kani::unwind(40))]
#[cfg_attr(kani, kani::stub(alloc::fmt::format, fmt_stub))]
#[cfg_attr(kani, kani::stub(CompilerSourceRange::here, here_stub))]
pub(crate) fn vkc07_instr_quadop() {
    let fxn_id: u64 = vk::any(); let (dst, a, b, c, d): (u32, u32, u32, u32, u32) = (vk::any(), vk::any(), vk::any(), vk::any(), vk::any());
    enc_dec_roundtrip(EncodedInstr::QuadOp { fxn_id, dst, a, b, c, d }, DecodedInstr::QuadOp { fxn_id, dst, a, b, c, d });
}
#[cfg_attr(kani, kani::proof)]
#[cfg_attr(kani, kani::unwind(40))]
#[cfg_attr(kani, kani::stub(alloc::fmt::format, fmt_stub))]
#[cfg_attr(kani, kani::stub(CompilerSourceRange::here, here_stub))]
pub(crate) fn vkc07_instr_vararg() {
    let fxn_id: u64 = vk::any(); let dst: u32 = vk::any();
    let args: Vec<u32> = vec![vk::any::<u32>(), vk::any::<u32>()];
    enc_dec_roundtrip(EncodedInstr::VarArg { fxn_id, dst, args: args.clone() }, DecodedInstr::VarArg { fxn_id, dst, args });
}
// Ret is 5 bytes; a Ret that is followed by another instruction decodes; the
// case "Ret is the last instruction" is the separate obligation below.
#[cfg_attr(kani, kani::proof)]
#[cfg_attr(kani, kani::unwind(40))]
#[cfg_attr(kani, kani::stub(alloc::fmt::format, fmt_stub))]
#[cfg_attr(kani, kani::stub(CompilerSourceRange::here, here_stub))]
pub(crate) fn vkc07_instr_ret_then_constload() {
    let src: u32 = vk::any(); let (dst, const_id): (u32, u32) = (vk::any(), vk::any());
    let mut buf: Vec<u8> = Vec::new();
    assert!(EncodedInstr::Ret { src }.write_to(&mut buf).is_ok());
    assert!(buf.len() == 5, "VK: byte_len of Ret");
    assert!(EncodedInstr::ConstLoad { dst, const_id }.write_to(&mut buf).is_ok());
    vk::reach();
    match decode_instructions(Cursor::new(&buf[..])) {
        Ok(v) => assert!(v.len() == 2 && v[0] == DecodedInstr::Ret { src } && v[1] == DecodedInstr::ConstLoad { dst, const_id }, "VK: decoding yields the instructions written"),
        Err(_) => assert!(false, "VK: an emitted instruction stream must decode"),
    }
}
#[cfg_attr(kani, kani::proof)]
#[cfg_attr(kani, kani::unwind(40))]
#[cfg_attr(kani, kani::stub(alloc::fmt::format, fmt_stub))]
#[cfg_attr(kani, kani::stub(CompilerSourceRange::here, here_stub))]
pub(crate) fn vkc07_instr_ret_last() {
    let src: u32 = vk::any();
    enc_dec_roundtrip(EncodedInstr::Ret { src }, DecodedInstr::Ret { src });
}

// truncated instruction stream => Err, never a panic, never a wrong instruction
fn truncated_binop_at(cut: usize) {
    let fxn_id: u64 = vk::any(); let (dst, lhs, rhs): (u32, u32, u32) = (vk::any(), vk::any(), vk::any());
    let mut buf: Vec<u8> = Vec::new();
    assert!(EncodedInstr::BinOp { fxn_id, dst, lhs, rhs }.write_to(&mut buf).is_ok());
    vk::reach();
    let r = decode_instructions(Cursor::new(&buf[..cut]));
    assert!(r.is_err(), "VK: a truncated instruction is rejected");
}
#[cfg_attr(kani, kani::proof)]
#[cfg_attr(kani, kani::unwind(40))]
#[cfg_attr(kani, kani::stub(alloc::fmt::format, fmt_stub))]
#[cfg_attr(kani, kani::stub(CompilerSourceRange::here, here_stub))]
pub(crate) fn vkc07_instr_truncated_binop_cut5() { truncated_binop_at(5); }
#[cfg_attr(kani, kani::proof)]
#[cfg_attr(kani, kani::unwind(40))]
#[cfg_attr(kani, kani::stub(alloc::fmt::format, fmt_stub))]
#[cfg_attr(kani, kani::stub(CompilerSourceRange::here, here_stub))]
pub(crate) fn vkc07_instr_truncated_binop_cut12() { truncated_binop_at(12); }
#[cfg_attr(kani, kani::proof)]
#[cfg_attr(kani, kani::unwind(40))]
#[cfg_attr(kani, kani::stub(alloc::fmt::format, fmt_stub))]
#[cfg_attr(kani, kani::stub(CompilerSourceRange::here, here_stub))]
pub(crate) fn vkc07_instr_truncated_binop_cut20() { truncated_binop_at(20); }

// arbitrary bytes: no panic, and Ok(v) re-encodes to exactly the input
#[cfg_attr(kani, kani::proof)]
#[cfg_attr(kani, kani::unwind(14))]
#[cfg_attr(kani, kani::stub(alloc::fmt::format, fmt_stub))]
#[cfg_attr(kani, kani::stub(CompilerSourceRange::here, here_stub))]
pub(crate) fn vkc07_decode_instructions_any_bytes() {
    const N: usize = 10;
    let mut bytes = [0u8; N];
    let mut i = 0; while i < N { bytes[i] = vk::any(); i += 1; }
    let n: usize = N;
    vk::reach();
    let r = decode_instructions(Cursor::new(&bytes[..n]));
    if let Ok(v) = r {
        let mut again: Vec<u8> = Vec::new();
        let mut k = 0;
        while k < v.len() { assert!(v[k].write_to(&mut again).is_ok()); k += 1; }
        assert!(again.len() == n, "VK: decoded instructions account for every input byte");
        let mut j = 0; while j < n { assert!(again[j] == bytes[j], "VK: re-encoding reproduces the bytes"); j += 1; }
    }
}

// ---------------------------------------------------------------- const table codec
#[cfg_attr(kani, kani::proof)]
#[cfg_attr(kani, kani::unwind(30))]
#[cfg_attr(kani, kani::stub(alloc::fmt::format, fmt_stub))]
#[cfg_attr(kani, kani::stub(CompilerSourceRange::here, here_stub))]
pub(crate) fn vkc07_const_entry_roundtrip() {
    let e = ConstEntry { type_id: vk::any(), enc: ConstEncoding::Inline, align: vk::any(), flags: vk::any(), reserved: 0,
                         offset: vk::any(), length: vk::any() };
    let mut buf: Vec<u8> = Vec::new();
    assert!(e.write_to(&mut buf).is_ok());
    assert!(buf.len() as u64 == ConstEntry::byte_len(), "VK: ConstEntry::byte_len() equals the bytes written");
    vk::reach();
    let p = parse_const_entries(Cursor::new(&buf[..]), 1);
    match p {
        Ok(v) => {
            assert!(v.len() == 1, "VK: one entry parsed");
            let q = &v[0];
            assert!(q.type_id == e.type_id && q.enc == ConstEncoding::Inline as u8 && q.align == e.align && q.flags == e.flags
                    && q.offset == e.offset && q.length == e.length, "VK: parsed constant entry equals the entry written");
            let mut again: Vec<u8> = Vec::new();
            assert!(q.write_to(&mut again).is_ok());
            assert!(again == buf, "VK: re-encoding the parsed entry reproduces the bytes");
        }
        Err(_) => assert!(false, "VK: an emitted constant entry must parse"),
    }
}

#[cfg_attr(kani, kani::proof)]
#[cfg_attr(kani, kani::unwind(60))]
#[cfg_attr(kani, kani::stub(alloc::fmt::format, fmt_stub))]
#[cfg_attr(kani, kani::stub(CompilerSourceRange::here, here_stub))]
pub(crate) fn vkc07_parse_const_entries_short_input() {
    // count says 2 entries, table holds fewer than 48 bytes => Err (no panic, no partial result)
    const N: usize = 47;
    let mut bytes = [0u8; N];
    let mut i = 0; while i < N { bytes[i] = vk::any(); i += 1; }
    let n: usize = vk::any(); vk::assume(n <= N);
    vk::reach();
    let r = parse_const_entries(Cursor::new(&bytes[..n]), 2);
    assert!(r.is_err(), "VK: a constant table shorter than its count is rejected");
}

// ---------------------------------------------------------------- header codec
fn any_header() -> ByteCodeHeader {
    ByteCodeHeader {
        magic: [vk::any(), vk::any(), vk::any(), vk::any()], version: vk::any(), mech_ver: vk::any(), flags: vk::any(),
        reg_count: vk::any(), instr_count: vk::any(), feature_count: vk::any(), feature_off: vk::any(),
        types_count: vk::any(), types_off: vk::any(), const_count: vk::any(), const_tbl_off: vk::any(), const_tbl_len: vk::any(),
        const_blob_off: vk::any(), const_blob_len: vk::any(), symbols_len: vk::any(), symbols_off: vk::any(),
        instr_off: vk::any(), instr_len: vk::any(), dict_off: vk::any(), dict_len: vk::any(), reserved: vk::any(),
    }
}

#[cfg_attr(kani, kani::proof)]
#[cfg_attr(kani, kani::unwind(130))]
#[cfg_attr(kani, kani::stub(alloc::fmt::format, fmt_stub))]
#[cfg_attr(kani, kani::stub(CompilerSourceRange::here, here_stub))]
pub(crate) fn vkc07_header_roundtrip() {
    let h = any_header();
    let mut buf: Vec<u8> = Vec::new();
    assert!(h.write_to(&mut buf).is_ok());
    assert!(buf.len() == ByteCodeHeader::HEADER_SIZE, "VK: write_to writes exactly HEADER_SIZE bytes");
    vk::reach();
    let mut cur = Cursor::new(&buf[..]);
    match ByteCodeHeader::read_from(&mut cur) {
        Ok(h2) => {
            assert!(h2 == h, "VK: decoding yields the header the compiler wrote");
            assert!(cur.position() as usize == ByteCodeHeader::HEADER_SIZE, "VK: read_from consumes exactly HEADER_SIZE bytes");
            let mut again: Vec<u8> = Vec::new();
            assert!(h2.write_to(&mut again).is_ok());
            assert!(again == buf, "VK: re-encoding the decoded header reproduces the bytes");
        }
        Err(_) => assert!(false, "VK: an emitted header must decode"),
    }
}

// ---------------------------------------------------------------- CRC gate
fn crc_gate_len<const N: usize>() {
    let mut bytes = [0u8; N];
    let mut i = 0; while i < N { bytes[i] = vk::any(); i += 1; }
    let mut cur = Cursor::new(&bytes[..]);
    vk::reach();
    let r = verify_crc_trailer_seek(&mut cur, N as u64);
    if N < 4 {
        assert!(r.is_err(), "VK: a file shorter than the trailer is rejected");
    } else {
        let want = crc32_ref(&bytes[..N - 4]);
        let got = u32::from_le_bytes([bytes[N - 4], bytes[N - 3], bytes[N - 2], bytes[N - 1]]);
        assert!(r.is_ok() == (want == got), "VK: accepted iff CRC-32 of everything before the trailer equals the little-endian trailer");
    }
}
#[cfg_attr(kani, kani::proof)]
#[cfg_attr(kani, kani::unwind(12))]
#[cfg_attr(kani, kani::stub(alloc::fmt::format, fmt_stub))]
#[cfg_attr(kani, kani::stub(CompilerSourceRange::here, here_stub))]
#[cfg_attr(kani, kani::stub(crc32fast::hash, crc32fast_hash_stub))]
pub(crate) fn vkc07_crc_gate_len3() { crc_gate_len::<3>(); }
#[cfg_attr(kani, kani::proof)]
#[cfg_attr(kani, kani::unwind(12))]
#[cfg_attr(kani, kani::stub(alloc::fmt::format, fmt_stub))]
#[cfg_attr(kani, kani::stub(CompilerSourceRange::here, here_stub))]
#[cfg_attr(kani, kani::stub(crc32fast::hash, crc32fast_hash_stub))]
pub(crate) fn vkc07_crc_gate_len4() { crc_gate_len::<4>(); }
#[cfg_attr(kani, kani::proof)]
#[cfg_attr(kani, kani::unwind(12))]
#[cfg_attr(kani, kani::stub(alloc::fmt::format, fmt_stub))]
#[cfg_attr(kani, kani::stub(CompilerSourceRange::here, here_stub))]
#[cfg_attr(kani, kani::stub(crc32fast::hash, crc32fast_hash_stub))]
pub(crate) fn vkc07_crc_gate_len5() { crc_gate_len::<5>(); }

// every flipped bit / burst of <= 32 bits changes acceptance: machine-checked
// on the reference CRC for payloads <= 6 bytes (bounded), mathematics beyond.
#[cfg_attr(kani, kani::proof)]
#[cfg_attr(kani, kani::unwind(12))]
pub(crate) fn vkc07_crc_burst_detected() {
    const N: usize = 10; // 6 payload + 4 trailer
    let mut good = [0u8; N];
    let mut i = 0; while i < N - 4 { good[i] = vk::any(); i += 1; }
    let c = crc32_ref(&good[..N - 4]).to_le_bytes();
    good[N - 4] = c[0]; good[N - 3] = c[1]; good[N - 2] = c[2]; good[N - 1] = c[3];
    // burst: a non-zero 32-bit pattern xor-ed in at an arbitrary bit offset
    let pat: u32 = vk::any(); vk::assume(pat != 0);
    let off: usize = vk::any(); vk::assume(off <= N * 8 - 32);
    let mut all: u128 = 0; // 80 bits of file, little end first
    let mut k = 0; while k < N { all |= (good[k] as u128) << (8 * k); k += 1; }
    let bad_all = all ^ ((pat as u128) << off);
    let mut bad = [0u8; N];
    let mut k = 0; while k < N { bad[k] = (bad_all >> (8 * k)) as u8; k += 1; }
    vk::reach();
    let want = crc32_ref(&bad[..N - 4]);
    let got = u32::from_le_bytes([bad[N - 4], bad[N - 3], bad[N - 2], bad[N - 1]]);
    assert!(want != got, "VK: any burst of <= 32 bits changes payload CRC xor trailer");
}

// load_program_from_bytes accepts only files whose CRC verifies (the gate is
// really in front of the parser).  File = header with every section empty.
#[cfg_attr(kani, kani::proof)]
#[cfg_attr(kani, kani::unwind(140))]
#[cfg_attr(kani, kani::stub(alloc::fmt::format, fmt_stub))]
#[cfg_attr(kani, kani::stub(CompilerSourceRange::here, here_stub))]
#[cfg_attr(kani, kani::stub(crc32fast::hash, crc32fast_hash_stub))]
pub(crate) fn vkc07_load_requires_crc() {
    const H: usize = ByteCodeHeader::HEADER_SIZE;
    // every section empty; a few fields symbolic so that the CRC is not a constant
    let mut h = ByteCodeHeader { magic: *b"MECH", version: vk::any(), mech_ver: vk::any(), flags: 0, reg_count: vk::any(), instr_count: 0,
        feature_count: 0, feature_off: 0, types_count: 0, types_off: 0, const_count: 0, const_tbl_off: 0, const_tbl_len: 0,
        const_blob_off: 0, const_blob_len: 0, symbols_len: 0, symbols_off: 0, instr_off: 0, instr_len: 0, dict_off: 0, dict_len: 0, reserved: 0 };
    let mut file: Vec<u8> = Vec::new();
    assert!(h.write_to(&mut file).is_ok());
    let t = [vk::any::<u8>(), vk::any::<u8>(), vk::any::<u8>(), vk::any::<u8>()];
    file.extend_from_slice(&t);
    vk::reach();
    let r = load_program_from_bytes(&file[..]);
    let want = crc32_ref(&file[..H]);
    let got = u32::from_le_bytes(t);
    if r.is_ok() { assert!(want == got, "VK: a program is loaded only if its CRC trailer verifies"); }
    if want == got { assert!(r.is_ok(), "VK: an emitted (empty) program with a correct trailer loads"); }
}

vk_registry!{ vkreplay_c07_program;
  vkc07_opcode_from_u8, vkc07_typetag_from_u16, vkc07_instr_constload, vkc07_instr_nullop, vkc07_instr_unop, vkc07_instr_binop,
  vkc07_instr_ternop, vkc07_instr_quadop, vkc07_instr_vararg, vkc07_instr_ret_then_constload, vkc07_instr_ret_last,
  vkc07_instr_truncated_binop_cut5, vkc07_instr_truncated_binop_cut12, vkc07_instr_truncated_binop_cut20, vkc07_decode_instructions_any_bytes, vkc07_const_entry_roundtrip,
  vkc07_parse_const_entries_short_input, vkc07_header_roundtrip, vkc07_crc_gate_len3, vkc07_crc_gate_len4, vkc07_crc_gate_len5, vkc07_crc_burst_detected, vkc07_load_requires_crc }
