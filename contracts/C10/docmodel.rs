// Verus model for the Mechdown evaluators of src/interpreter/src/mechdown.rs: `eval_fenced_code_block`, the
// `SectionElement::FencedMechCode` arm of `section_element`, `body`, `section`.
// Syntax nodes are opaque identities.  An interpreter is (id, function table, HISTORY): the history is the ghost log of every
// evaluator call made on it, and the outcome of an evaluator call is an arbitrary function of (node, history) -- so every
// contract holds for every behaviour of `mech_code` / `comment`.  The real `p: &Interpreter` (interior mutability) is
// `&mut Interpreter`; `p.sub_interpreters` (an Rc<RefCell<HashMap<u64, Box<Interpreter>>>>: a separate shared heap object) is the
// separate parameter `subs: &mut SubMap`, whose `entry(k).or_insert(v).as_mut()` returns the `&mut` entry (vstd has no entry API).

#[derive(Clone, Copy)]
pub struct MechCode { pub id: u64 }
#[derive(Clone, Copy)]
pub struct Comment { pub id: u64 }
#[derive(Clone, Copy)]
pub struct MechError { pub id: u64 }
#[derive(Clone, Copy)]
pub enum Value { Empty, Other(u64) }
#[derive(Clone, Copy)]
pub struct FunctionsRef { pub id: u64 }
impl FunctionsRef { pub fn clone(&self) -> (r: FunctionsRef) ensures r == *self, { *self } }
pub struct BlockConfig { pub namespace: u64, pub disabled: bool, pub hidden: bool, pub output: bool }
pub struct FencedMechCode { pub code: Vec<(MechCode, Option<Comment>)>, pub config: BlockConfig }

pub enum Ev { Code(MechCode), Cmt(Comment) }
pub struct Interpreter { pub id: u64, pub fns: FunctionsRef, pub log: Ghost<Seq<Ev>>, pub outs: Ghost<Map<u64, Value>> }
pub uninterp spec fn default_fns() -> FunctionsRef;
pub open spec fn fresh(id: u64, fns: FunctionsRef) -> Interpreter { Interpreter { id: id, fns: fns, log: Ghost(Seq::empty()), outs: Ghost(Map::empty()) } }
impl Interpreter {
  #[verifier::external_body]
  pub fn new(id: u64) -> (r: Interpreter) ensures r == fresh(id, default_fns()), { unimplemented!() }
  #[verifier::external_body]
  pub fn functions(&self) -> (r: FunctionsRef) ensures r == self.fns, { unimplemented!() }
  #[verifier::external_body]
  pub fn set_functions(&mut self, f: FunctionsRef) ensures *final(self) == (Interpreter { fns: f, ..*old(self) }), { unimplemented!() }
  // p.out_values.borrow_mut().insert(k, v): touches the table of displayed outputs only
  #[verifier::external_body]
  pub fn out_values_insert(&mut self, k: u64, v: Value) ensures *final(self) == (Interpreter { outs: Ghost(old(self).outs@.insert(k, v)), ..*old(self) }), { unimplemented!() }
}
pub struct SubMap { pub m: Ghost<Map<u64, Interpreter>> }
impl SubMap {
  // HashMap::entry(k).or_insert(Box::new(v)).as_mut()
  #[verifier::external_body]
  pub fn entry_or_insert<'a>(&'a mut self, k: u64, v: Interpreter) -> (r: &'a mut Interpreter)
    ensures *r == (if old(self).m@.contains_key(k) { old(self).m@[k] } else { v }),
            final(self).m@ == old(self).m@.insert(k, *final(r)),
  { unimplemented!() }
}

// outcomes of the evaluators: arbitrary functions of the node and of the interpreter's history
pub uninterp spec fn mc(c: MechCode, log: Seq<Ev>) -> Result<Value, MechError>;
pub uninterp spec fn cm(c: Comment, log: Seq<Ev>) -> Result<Value, MechError>;
pub uninterp spec fn report(e: MechError) -> Value;             // the value that shows an isolated error
pub uninterp spec fn debug_id(c: MechCode) -> u64;              // hash_str(&format!("{:?}", code))
#[verifier::external_body]
pub fn mech_code(c: &MechCode, p: &mut Interpreter) -> (r: Result<Value, MechError>)
  ensures r == mc(*c, old(p).log@), *final(p) == (Interpreter { log: Ghost(old(p).log@.push(Ev::Code(*c))), ..*old(p) }),
{ unimplemented!() }
#[verifier::external_body]
pub fn comment(c: &Comment, p: &mut Interpreter) -> (r: Result<Value, MechError>)
  ensures r == cm(*c, old(p).log@), *final(p) == (Interpreter { log: Ghost(old(p).log@.push(Ev::Cmt(*c))), ..*old(p) }),
{ unimplemented!() }
#[verifier::external_body]
pub fn error_report(e: &MechError) -> (v: Value) ensures v == report(*e), { unimplemented!() }
#[verifier::external_body]
pub fn debug_hash(c: &MechCode) -> (r: u64) ensures r == debug_id(*c), { unimplemented!() }

// ---- THE CONTRACT (from the property, C10): a fence's items are evaluated in document order on ONE interpreter; the first error ends
// the fence; with isolation the error becomes a displayed value and the fence still "succeeds" ------------------------------------
pub open spec fn run(code: Seq<(MechCode, Option<Comment>)>, k: int, log: Seq<Ev>, out: Value, isolate: bool) -> (Seq<Ev>, Result<Value, MechError>)
  decreases code.len() - k,
{
  if k < 0 || k >= code.len() { (log, Ok(out)) } else {
    let log1 = log.push(Ev::Code(code[k].0));
    match mc(code[k].0, log) {
      Err(e) => (log1, if isolate { Ok(report(e)) } else { Err(e) }),
      Ok(v) => match code[k].1 {
        None => run(code, k + 1, log1, v, isolate),
        Some(c) => {
          let log2 = log1.push(Ev::Cmt(c));
          match cm(c, log1) {
            Err(e) => (log2, if isolate { Ok(report(e)) } else { Err(e) }),
            Ok(_x) => run(code, k + 1, log2, v, isolate),
          }
        },
      },
    }
  }
}
pub proof fn lemma_isolated_run_succeeds(code: Seq<(MechCode, Option<Comment>)>, k: int, log: Seq<Ev>, out: Value)
  ensures run(code, k, log, out, true).1 is Ok,
  decreases code.len() - k,
{
  if 0 <= k < code.len() {
    let log1 = log.push(Ev::Code(code[k].0));
    match mc(code[k].0, log) {
      Err(e) => {},
      Ok(v) => match code[k].1 {
        None => lemma_isolated_run_succeeds(code, k + 1, log1, v),
        Some(c) => { let log2 = log1.push(Ev::Cmt(c)); match cm(c, log1) { Err(e) => {}, Ok(_x) => lemma_isolated_run_succeeds(code, k + 1, log2, v) } },
      },
    }
  }
}
