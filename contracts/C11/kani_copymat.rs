// C11 — CopyMat::{copy_into, copy_into_v, copy_into_r, copy_into_row_major}
// (in-module harness appended to src/core/src/structures/matrix.rs)
#![allow(unused, non_snake_case)]
use super::*;
include!("/verif/contracts/common/vk.rs");
use nalgebra::{DMatrix, DVector, RowDVector};

fn anyv(n: usize) -> Vec<u8> { vk::any_vec::<u8>(n) }

// copy_into(dst, off): dst'[off + i] == src[i] (column-major linear), nothing else changes, returns src.len()
#[cfg_attr(kani, kani::proof)]
#[cfg_attr(kani, kani::unwind(9))]
pub(crate) fn vkc11_copy_into_md() {
  let s = anyv(4); let d = anyv(6);
  let src: Ref<DMatrix<u8>> = Ref::new(DMatrix::from_vec(2, 2, s.clone()));
  let dst: Ref<DMatrix<u8>> = Ref::new(DMatrix::from_vec(2, 3, d.clone()));
  let off: usize = vk::any(); vk::assume(off <= 2);
  vk::reach();
  let adv = src.copy_into(&dst, off);
  assert!(adv == 4, "VK: copy_into returns the number of elements copied");
  let o = dst.borrow(); let os = o.as_slice();
  assert!(o.nrows() == 2 && o.ncols() == 3, "VK: destination shape unchanged");
  let mut p = 0;
  while p < 6 {
    if p >= off && p < off + 4 { assert!(os[p] == s[p - off], "VK: block copied to consecutive column-major positions from the offset"); }
    else { assert!(os[p] == d[p], "VK: nothing outside the block changes"); }
    p += 1;
  }
  let x = src.borrow(); let xs = x.as_slice(); let mut k = 0; while k < 4 { assert!(xs[k] == s[k], "VK: source unchanged"); k += 1; }
}

#[cfg_attr(kani, kani::proof)]
#[cfg_attr(kani, kani::unwind(9))]
pub(crate) fn vkc11_copy_into_v() {
  let s = anyv(2); let d = anyv(4);
  let src: Ref<DVector<u8>> = Ref::new(DVector::from_vec(s.clone()));
  let dst: Ref<DVector<u8>> = Ref::new(DVector::from_vec(d.clone()));
  let off: usize = vk::any(); vk::assume(off <= 2);
  vk::reach();
  let adv = src.copy_into_v(&dst, off);
  assert!(adv == 2, "VK: copy_into_v returns the number of elements copied");
  let o = dst.borrow(); let os = o.as_slice();
  let mut p = 0;
  while p < 4 {
    if p >= off && p < off + 2 { assert!(os[p] == s[p - off], "VK: block copied from the offset"); } else { assert!(os[p] == d[p], "VK: nothing outside the block changes"); }
    p += 1;
  }
}

#[cfg_attr(kani, kani::proof)]
#[cfg_attr(kani, kani::unwind(9))]
pub(crate) fn vkc11_copy_into_r() {
  let s = anyv(2); let d = anyv(4);
  let src: Ref<RowDVector<u8>> = Ref::new(RowDVector::from_vec(s.clone()));
  let dst: Ref<RowDVector<u8>> = Ref::new(RowDVector::from_vec(d.clone()));
  let off: usize = vk::any(); vk::assume(off <= 2);
  vk::reach();
  let adv = src.copy_into_r(&dst, off);
  assert!(adv == 2, "VK: copy_into_r returns the number of elements copied");
  let o = dst.borrow(); let os = o.as_slice();
  let mut p = 0;
  while p < 4 {
    if p >= off && p < off + 2 { assert!(os[p] == s[p - off], "VK: block copied from the offset"); } else { assert!(os[p] == d[p], "VK: nothing outside the block changes"); }
    p += 1;
  }
}

// copy_into_row_major(dst, row_off): the src block (r x c) lands at rows row_off.., all columns; returns src rows
#[cfg_attr(kani, kani::proof)]
#[cfg_attr(kani, kani::unwind(11))]
pub(crate) fn vkc11_copy_into_row_major() {
  let s = anyv(4); let d = anyv(8);
  // src 2x2 into dst 4x2 at row offset 0, 1 or 2 (destination taller than the block by more than one row)
  let src: Ref<DMatrix<u8>> = Ref::new(DMatrix::from_vec(2, 2, s.clone()));
  let dst: Ref<DMatrix<u8>> = Ref::new(DMatrix::from_vec(4, 2, d.clone()));
  let off: usize = vk::any(); vk::assume(off <= 2);
  vk::reach();
  let adv = src.copy_into_row_major(&dst, off);
  assert!(adv == 2, "VK: copy_into_row_major returns the number of rows of the block");
  let o = dst.borrow();
  assert!(o.nrows() == 4 && o.ncols() == 2, "VK: destination shape unchanged");
  let mut c = 0;
  while c < 2 {
    let mut r = 0;
    while r < 4 {
      if r >= off && r < off + 2 { assert!(o[(r, c)] == s[(r - off) + c * 2], "VK: block placed at the row offset, all columns"); }
      else { assert!(o[(r, c)] == d[r + c * 4], "VK: nothing outside the block changes"); }
      r += 1;
    }
    c += 1;
  }
}

vk_registry!{ vkreplay_c11_core; vkc11_copy_into_md, vkc11_copy_into_v, vkc11_copy_into_r, vkc11_copy_into_row_major }
