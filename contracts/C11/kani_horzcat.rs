// C11 — dynamic horizontal concatenation kernels (in-module harness appended to
// src/interpreter/src/stdlib/horzcat.rs)
#![allow(unused, non_snake_case)]
use super::*;
include!("/verif/contracts/common/vk.rs");
use nalgebra::{DMatrix, DVector, RowDVector};

fn anyv(n: usize) -> Vec<u8> { vk::any_vec::<u8>(n) }
fn check_block(o: &DMatrix<u8>, r0: usize, c0: usize, rows: usize, cols: usize, s: &[u8]) {
  let mut c = 0;
  while c < cols { let mut r = 0; while r < rows { assert!(o[(r0 + r, c0 + c)] == s[r + c * rows], "VK: every block is placed where it is written"); r += 1; } c += 1; }
}

// [A B] with A 2x1 (column vector) and B 2x2
#[cfg_attr(kani, kani::proof)]
#[cfg_attr(kani, kani::unwind(9))]
pub(crate) fn vkc11_horzcat_two_args() {
  let a = anyv(2); let b = anyv(4);
  let e0: Ref<DVector<u8>> = Ref::new(DVector::from_vec(a.clone()));
  let e1: Ref<DMatrix<u8>> = Ref::new(DMatrix::from_vec(2, 2, b.clone()));
  let out: Ref<DMatrix<u8>> = Ref::new(DMatrix::from_element(2, 3, 0u8));
  let f = HorizontalConcatenateTwoArgs::<u8> { e0: Box::new(e0.clone()), e1: Box::new(e1.clone()), out: out.clone() };
  f.solve();
  vk::reach();
  { let o = out.borrow(); assert!(o.nrows() == 2 && o.ncols() == 3, "VK: result shape"); check_block(&o, 0, 0, 2, 1, &a); check_block(&o, 0, 1, 2, 2, &b); }
  f.solve();
  { let o = out.borrow(); check_block(&o, 0, 0, 2, 1, &a); check_block(&o, 0, 1, 2, 2, &b); }
  { let x = e1.borrow(); let xs = x.as_slice(); let mut k = 0; while k < 4 { assert!(xs[k] == b[k], "VK: operands unchanged"); k += 1; } }
}

// [A B C] with 2x1, 2x2, 2x1
#[cfg_attr(kani, kani::proof)]
#[cfg_attr(kani, kani::unwind(10))]
pub(crate) fn vkc11_horzcat_three_args() {
  let a = anyv(2); let b = anyv(4); let c = anyv(2);
  let e0: Ref<DVector<u8>> = Ref::new(DVector::from_vec(a.clone()));
  let e1: Ref<DMatrix<u8>> = Ref::new(DMatrix::from_vec(2, 2, b.clone()));
  let e2: Ref<DVector<u8>> = Ref::new(DVector::from_vec(c.clone()));
  let out: Ref<DMatrix<u8>> = Ref::new(DMatrix::from_element(2, 4, 0u8));
  let f = HorizontalConcatenateThreeArgs::<u8> { e0: Box::new(e0.clone()), e1: Box::new(e1.clone()), e2: Box::new(e2.clone()), out: out.clone() };
  f.solve();
  vk::reach();
  let o = out.borrow(); assert!(o.nrows() == 2 && o.ncols() == 4, "VK: result shape");
  check_block(&o, 0, 0, 2, 1, &a); check_block(&o, 0, 1, 2, 2, &b); check_block(&o, 0, 3, 2, 1, &c);
}

// N blocks
#[cfg_attr(kani, kani::proof)]
#[cfg_attr(kani, kani::unwind(10))]
pub(crate) fn vkc11_horzcat_n_args() {
  let a = anyv(2); let b = anyv(2); let c = anyv(4);
  let e0: Ref<DVector<u8>> = Ref::new(DVector::from_vec(a.clone()));
  let e1: Ref<DVector<u8>> = Ref::new(DVector::from_vec(b.clone()));
  let e2: Ref<DMatrix<u8>> = Ref::new(DMatrix::from_vec(2, 2, c.clone()));
  let out: Ref<DMatrix<u8>> = Ref::new(DMatrix::from_element(2, 4, 0u8));
  let v: Vec<Box<dyn CopyMat<u8>>> = vec![Box::new(e0.clone()), Box::new(e1.clone()), Box::new(e2.clone())];
  let f = HorizontalConcatenateNArgs::<u8> { e0: v, out: out.clone() };
  f.solve();
  vk::reach();
  let o = out.borrow(); assert!(o.nrows() == 2 && o.ncols() == 4, "VK: result shape");
  check_block(&o, 0, 0, 2, 1, &a); check_block(&o, 0, 1, 2, 1, &b); check_block(&o, 0, 2, 2, 2, &c);
}

// row of scalars and row vectors: [s0 R s1] with R 1x2, positions as the dispatch computes them
#[cfg_attr(kani, kani::proof)]
#[cfg_attr(kani, kani::unwind(10))]
pub(crate) fn vkc11_horzcat_rdn() {
  let s0: u8 = vk::any(); let s1: u8 = vk::any(); let r = anyv(2);
  let m: Ref<RowDVector<u8>> = Ref::new(RowDVector::from_vec(r.clone()));
  let out: Ref<RowDVector<u8>> = Ref::new(RowDVector::from_element(4, 0u8));
  let f = HorizontalConcatenateRDN::<u8> { scalar: vec![(Ref::new(s0), 0), (Ref::new(s1), 3)], matrix: vec![(Box::new(m.clone()), 1)], out: out.clone() };
  f.solve();
  vk::reach();
  let o = out.borrow(); assert!(o.nrows() == 1 && o.ncols() == 4, "VK: result shape");
  assert!(o[0] == s0 && o[1] == r[0] && o[2] == r[1] && o[3] == s1, "VK: every block is placed where it is written");
}

vk_registry!{ vkreplay_c11_horzcat; vkc11_horzcat_two_args, vkc11_horzcat_three_args, vkc11_horzcat_n_args, vkc11_horzcat_rdn }
