// C11 — dynamic vertical concatenation kernels (in-module harness appended to
// src/interpreter/src/stdlib/vertcat.rs)
#![allow(unused, non_snake_case)]
use super::*;
include!("/verif/contracts/common/vk.rs");
use nalgebra::{DMatrix, DVector, RowDVector};

fn anyv(n: usize) -> Vec<u8> { vk::any_vec::<u8>(n) }
fn check_block(o: &DMatrix<u8>, r0: usize, c0: usize, rows: usize, cols: usize, s: &[u8]) {
  let mut c = 0;
  while c < cols { let mut r = 0; while r < rows { assert!(o[(r0 + r, c0 + c)] == s[r + c * rows], "VK: every block is placed where it is written"); r += 1; } c += 1; }
}

// [A; B] with A 1x2 (row vector) and B 2x2
#[cfg_attr(kani, kani::proof)]
#[cfg_attr(kani, kani::unwind(9))]
pub(crate) fn vkc11_vertcat_two_args() {
  let a = anyv(2); let b = anyv(4);
  let e0: Ref<RowDVector<u8>> = Ref::new(RowDVector::from_vec(a.clone()));
  let e1: Ref<DMatrix<u8>> = Ref::new(DMatrix::from_vec(2, 2, b.clone()));
  let out: Ref<DMatrix<u8>> = Ref::new(DMatrix::from_element(3, 2, 0u8));
  let f = VerticalConcatenateTwoArgs::<u8> { e0: Box::new(e0.clone()), e1: Box::new(e1.clone()), out: out.clone() };
  f.solve();
  vk::reach();
  { let o = out.borrow(); assert!(o.nrows() == 3 && o.ncols() == 2, "VK: result shape"); check_block(&o, 0, 0, 1, 2, &a); check_block(&o, 1, 0, 2, 2, &b); }
  f.solve();
  { let o = out.borrow(); check_block(&o, 0, 0, 1, 2, &a); check_block(&o, 1, 0, 2, 2, &b); }
}

// [A; B; C] with 1x2, 2x2, 1x2
#[cfg_attr(kani, kani::proof)]
#[cfg_attr(kani, kani::unwind(10))]
pub(crate) fn vkc11_vertcat_three_args() {
  let a = anyv(2); let b = anyv(4); let c = anyv(2);
  let e0: Ref<RowDVector<u8>> = Ref::new(RowDVector::from_vec(a.clone()));
  let e1: Ref<DMatrix<u8>> = Ref::new(DMatrix::from_vec(2, 2, b.clone()));
  let e2: Ref<RowDVector<u8>> = Ref::new(RowDVector::from_vec(c.clone()));
  let out: Ref<DMatrix<u8>> = Ref::new(DMatrix::from_element(4, 2, 0u8));
  let f = VerticalConcatenateThreeArgs::<u8> { e0: Box::new(e0.clone()), e1: Box::new(e1.clone()), e2: Box::new(e2.clone()), out: out.clone() };
  f.solve();
  vk::reach();
  let o = out.borrow(); assert!(o.nrows() == 4 && o.ncols() == 2, "VK: result shape");
  check_block(&o, 0, 0, 1, 2, &a); check_block(&o, 1, 0, 2, 2, &b); check_block(&o, 3, 0, 1, 2, &c);
}

#[cfg_attr(kani, kani::proof)]
#[cfg_attr(kani, kani::unwind(10))]
pub(crate) fn vkc11_vertcat_n_args() {
  let a = anyv(2); let b = anyv(2); let c = anyv(4);
  let e0: Ref<RowDVector<u8>> = Ref::new(RowDVector::from_vec(a.clone()));
  let e1: Ref<RowDVector<u8>> = Ref::new(RowDVector::from_vec(b.clone()));
  let e2: Ref<DMatrix<u8>> = Ref::new(DMatrix::from_vec(2, 2, c.clone()));
  let out: Ref<DMatrix<u8>> = Ref::new(DMatrix::from_element(4, 2, 0u8));
  let v: Vec<Box<dyn CopyMat<u8>>> = vec![Box::new(e0.clone()), Box::new(e1.clone()), Box::new(e2.clone())];
  let f = VerticalConcatenateNArgs::<u8> { e0: v, out: out.clone() };
  f.solve();
  vk::reach();
  let o = out.borrow(); assert!(o.nrows() == 4 && o.ncols() == 2, "VK: result shape");
  check_block(&o, 0, 0, 1, 2, &a); check_block(&o, 1, 0, 1, 2, &b); check_block(&o, 2, 0, 2, 2, &c);
}

vk_registry!{ vkreplay_c11_vertcat; vkc11_vertcat_two_args, vkc11_vertcat_three_args, vkc11_vertcat_n_args }
