// Verus model for the shape checks of the matrix-literal evaluators `matrix` and `matrix_row` (src/interpreter/src/structures.rs).
// Values are opaque identities with a shape (Value::shape() returns [rows, cols]); evaluating a row / an element is an arbitrary
// function; the concatenation compilers are stand-ins whose PRECONDITION is what the C11 kernel contracts assume of their
// operands: all blocks handed to a horizontal concatenation have the same height, all rows handed to a vertical one the same
// width -- an empty (0x0) block contributes nothing and is exempt.  The obligation is therefore the precondition at the call site.
pub struct Value { pub id: u64 }
impl Value {
  #[verifier::external_body]
  pub fn shape(&self) -> (r: Vec<usize>) ensures r@ == seq![rows(*self), cols(*self)], { unimplemented!() }
  #[verifier::external_body]
  pub fn kind(&self) -> (r: ValueKind) ensures r == kind_of(*self), { unimplemented!() }
  #[verifier::external_body]
  pub fn clone(&self) -> (r: Value) ensures r == *self, { unimplemented!() }
}
#[derive(Clone, Copy)]
pub enum ValueKind { Empty, Other(u64) }
pub struct MatrixRow { pub columns: Vec<MatrixColumn> }
pub struct MatrixColumn { pub id: u64 }
pub struct Mat { pub rows: Vec<MatrixRow> }
pub struct Environment { pub id: u64 }
pub struct Interpreter { pub id: u64 }
pub struct Plan { pub id: u64 }
pub struct MechError { pub id: u64 }
pub struct Fxn { pub id: u64 }
pub uninterp spec fn rows(v: Value) -> usize;
pub uninterp spec fn cols(v: Value) -> usize;
pub uninterp spec fn kind_of(v: Value) -> ValueKind;
pub open spec fn is_empty_block(v: Value) -> bool { rows(v) == 0 && cols(v) == 0 }
// what the concatenation kernels require of their operands (C11): equal heights within a row / equal widths across rows
pub open spec fn heights_agree(s: Seq<Value>) -> bool {
  forall|i: int, j: int| #![auto] 0 <= i < s.len() && 0 <= j < s.len() && !is_empty_block(s[i]) && !is_empty_block(s[j]) ==> rows(s[i]) == rows(s[j])
}
pub open spec fn widths_agree(s: Seq<Value>) -> bool {
  forall|i: int, j: int| #![auto] 0 <= i < s.len() && 0 <= j < s.len() && !is_empty_block(s[i]) && !is_empty_block(s[j]) ==> cols(s[i]) == cols(s[j])
}
#[verifier::external_body]
pub fn matrix_row(r: &MatrixRow, env: Option<&Environment>, p: &Interpreter) -> (o: Result<Value, MechError>) { unimplemented!() }
#[verifier::external_body]
pub fn matrix_column(c: &MatrixColumn, env: Option<&Environment>, p: &Interpreter) -> (o: Result<Value, MechError>) { unimplemented!() }
#[verifier::external_body]
pub fn horzcat_compile(blocks: &Vec<Value>) -> (o: Result<Fxn, MechError>) requires heights_agree(blocks@), { unimplemented!() }
#[verifier::external_body]
pub fn vertcat_compile(rows_: &Vec<Value>) -> (o: Result<Fxn, MechError>) requires widths_agree(rows_@), { unimplemented!() }
#[verifier::external_body]
pub fn is_zero_shape(shape: &Vec<usize>) -> (b: bool) ensures b == (shape@ == seq![0usize, 0usize]), { unimplemented!() }   // `shape == vec![0,0]`
#[verifier::external_body]
pub fn all_unit_shape(v: &Vec<Value>) -> (b: bool) ensures b ==> forall|i: int| 0 <= i < v@.len() ==> rows(#[trigger] v@[i]) == 1 && cols(v@[i]) == 1, { unimplemented!() }
#[verifier::external_body]
pub fn is_empty_kind(k: ValueKind) -> (b: bool) { unimplemented!() }     // matches!(k, ValueKind::Empty)
#[verifier::external_body]
pub fn matrix_value_from_vec(v: Vec<Value>, r: usize, c: usize) -> (o: Value)      // Value::MatrixValue(Matrix::from_vec(v, r, c))
  requires r * c == v@.len(), forall|i: int| 0 <= i < v@.len() ==> rows(#[trigger] v@[i]) == 1 && cols(v@[i]) == 1,
{ unimplemented!() }
impl Interpreter {
  #[verifier::external_body]
  pub fn plan(&self) -> (r: Plan) { unimplemented!() }
}
impl Fxn {
  #[verifier::external_body]
  pub fn solve(&self) { unimplemented!() }
  #[verifier::external_body]
  pub fn out(&self) -> (r: Value) { unimplemented!() }
}
#[verifier::external_body]
pub fn plan_push(plan: &Plan, f: Fxn) { unimplemented!() }
