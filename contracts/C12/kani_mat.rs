// C12 — matrix conversion and reshape (in-module harness appended to
// src/interpreter/src/stdlib/convert/mat_to_mat.rs; the two constructors are private)
#![allow(unused, non_snake_case)]
use super::*;
include!("/verif/contracts/common/vk.rs");
use nalgebra::{DMatrix, DVector, RowDVector};
#[cfg(kani)]
fn fmt_stub(_args: core::fmt::Arguments<'_>) -> String { String::new() }
#[cfg(kani)]
fn here_stub() -> CompilerSourceRange { CompilerSourceRange { file: "", line: 0 } }

fn src_2x3() -> (Vec<u8>, Matrix<u8>) {
  let s: Vec<u8> = vk::any_vec::<u8>(6);
  let m = Matrix::DMatrix(Ref::new(DMatrix::from_vec(2, 3, s.clone())));
  (s, m)
}
fn expect_u16(v: &Value, rows: usize, cols: usize, s: &[u8]) {
  match v {
    Value::MatrixU16(m) => {
      let sh = m.shape();
      assert!(sh[0] == rows && sh[1] == cols, "VK: converted matrix has the annotated shape");
      let e = m.as_vec();
      assert!(e.len() == s.len(), "VK: element count preserved");
      let mut k = 0;
      while k < s.len() { assert!(e[k] == s[k] as u16, "VK: every element converted by the scalar rule, in column-major order"); k += 1; }
    }
    _ => assert!(false, "VK: conversion yields a matrix of the target kind"),
  }
}

// <[u16]> on a 2x3 u8 matrix: every element converted, shape kept
#[cfg_attr(kani, kani::proof)]
#[cfg_attr(kani, kani::unwind(9))]
#[cfg_attr(kani, kani::stub(alloc::fmt::format, fmt_stub))]
#[cfg_attr(kani, kani::stub(mech_core::CompilerSourceRange::here, here_stub))]
pub(crate) fn vkc12_mat_convert_same_shape() {
  let (s, m) = src_2x3();
  vk::reach();
  match create_convert_mat_to_mat::<u8, u16>(m, &[2, 3]) {
    Ok(f) => { f.solve(); let out = f.out(); expect_u16(&out, 2, 3, &s); }
    Err(_) => assert!(false, "VK: a supported conversion must succeed"),
  }
}

// <[u16]:3,2> on a 2x3 matrix: same elements in column-major order
#[cfg_attr(kani, kani::proof)]
#[cfg_attr(kani, kani::unwind(9))]
#[cfg_attr(kani, kani::stub(alloc::fmt::format, fmt_stub))]
#[cfg_attr(kani, kani::stub(mech_core::CompilerSourceRange::here, here_stub))]
pub(crate) fn vkc12_mat_reshape_3x2() {
  let (s, m) = src_2x3();
  vk::reach();
  match create_reshape_mat_to_mat::<u8, u16>(m, &[3, 2]) {
    Ok(f) => { f.solve(); let out = f.out(); expect_u16(&out, 3, 2, &s); }
    Err(_) => assert!(false, "VK: an equal-count reshape must succeed"),
  }
}

// <[u16]:1,6> and <[u16]:6,1>
#[cfg_attr(kani, kani::proof)]
#[cfg_attr(kani, kani::unwind(9))]
#[cfg_attr(kani, kani::stub(alloc::fmt::format, fmt_stub))]
#[cfg_attr(kani, kani::stub(mech_core::CompilerSourceRange::here, here_stub))]
pub(crate) fn vkc12_mat_reshape_1x6() {
  let (s, m) = src_2x3();
  vk::reach();
  match create_reshape_mat_to_mat::<u8, u16>(m, &[1, 6]) {
    Ok(f) => { f.solve(); let out = f.out(); expect_u16(&out, 1, 6, &s); }
    Err(_) => assert!(false, "VK: an equal-count reshape must succeed"),
  }
}
#[cfg_attr(kani, kani::proof)]
#[cfg_attr(kani, kani::unwind(9))]
#[cfg_attr(kani, kani::stub(alloc::fmt::format, fmt_stub))]
#[cfg_attr(kani, kani::stub(mech_core::CompilerSourceRange::here, here_stub))]
pub(crate) fn vkc12_mat_reshape_6x1() {
  let (s, m) = src_2x3();
  vk::reach();
  match create_reshape_mat_to_mat::<u8, u16>(m, &[6, 1]) {
    Ok(f) => { f.solve(); let out = f.out(); expect_u16(&out, 6, 1, &s); }
    Err(_) => assert!(false, "VK: an equal-count reshape must succeed"),
  }
}

// a DMatrix source that is none of the fixed shapes: the catch-all `(Matrix::DMatrix(v), n, m)` arm of create_reshape_mat_to_mat
#[cfg_attr(kani, kani::proof)]
#[cfg_attr(kani, kani::unwind(11))]
#[cfg_attr(kani, kani::stub(alloc::fmt::format, fmt_stub))]
#[cfg_attr(kani, kani::stub(mech_core::CompilerSourceRange::here, here_stub))]
pub(crate) fn vkc12_mat_reshape_dyn_2x4_to_4x2() {
  let s: Vec<u8> = vk::any_vec::<u8>(8);
  let m = Matrix::DMatrix(Ref::new(DMatrix::from_vec(2, 4, s.clone())));
  vk::reach();
  match create_reshape_mat_to_mat::<u8, u16>(m, &[4, 2]) {
    Ok(f) => { f.solve(); let out = f.out(); expect_u16(&out, 4, 2, &s); }
    Err(_) => assert!(false, "VK: an equal-count reshape must succeed"),
  }
}

// element-wise float -> integer conversion of a matrix: every element by the scalar rule (truncate toward zero, clamp, NaN -> 0)
#[cfg_attr(kani, kani::proof)]
#[cfg_attr(kani, kani::unwind(9))]
#[cfg_attr(kani, kani::stub(alloc::fmt::format, fmt_stub))]
#[cfg_attr(kani, kani::stub(mech_core::CompilerSourceRange::here, here_stub))]
pub(crate) fn vkc12_mat_convert_f32_to_i8() {
  let s: Vec<f32> = vk::any_vec::<f32>(6);
  let m = Matrix::DMatrix(Ref::new(DMatrix::from_vec(2, 3, s.clone())));
  vk::reach();
  match create_convert_mat_to_mat::<f32, i8>(m, &[2, 3]) {
    Ok(f) => {
      f.solve();
      match f.out() {
        Value::MatrixI8(o) => {
          let sh = o.shape();
          assert!(sh[0] == 2 && sh[1] == 3, "VK: converted matrix keeps its shape");
          let e = o.as_vec();
          assert!(e.len() == 6, "VK: element count preserved");
          let mut k = 0;
          while k < 6 {
            let x = s[k];
            if x.is_nan() { assert!(e[k] == 0, "VK: NaN converts to 0"); }
            else {
              let t = (x as f64).trunc();
              if t >= 127.0 { assert!(e[k] == i8::MAX, "VK: float to integer clamps to the target maximum"); }
              else if t <= -128.0 { assert!(e[k] == i8::MIN, "VK: float to integer clamps to the target minimum"); }
              else { assert!((e[k] as f64) == t, "VK: every element truncates toward zero, like the scalar conversion"); }
            }
            k += 1;
          }
        }
        _ => assert!(false, "VK: conversion yields a matrix of the target kind"),
      }
    }
    Err(_) => assert!(false, "VK: a supported conversion must succeed"),
  }
}

vk_registry!{ vkreplay_c12_mat; vkc12_mat_convert_same_shape, vkc12_mat_reshape_3x2, vkc12_mat_reshape_1x6, vkc12_mat_reshape_6x1, vkc12_mat_reshape_dyn_2x4_to_4x2, vkc12_mat_convert_f32_to_i8 }
