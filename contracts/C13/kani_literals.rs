// C13 — based integer literals and rationals (in-module harness appended to
// src/interpreter/src/literals.rs).  Tokens carry up to 3 symbolic digit characters.
#![allow(unused, non_snake_case)]
use super::*;
include!("/verif/contracts/common/vk.rs");
#[cfg(kani)]
fn fmt_stub(_args: core::fmt::Arguments<'_>) -> String { String::new() }

fn digit_char(d: u8, radix: u8, upper: bool) -> char {
  // d < radix
  if d < 10 { (b'0' + d) as char } else if upper { (b'A' + (d - 10)) as char } else { (b'a' + (d - 10)) as char }
}
fn mk_token(chars: Vec<char>) -> Token { Token { kind: TokenKind::Number, chars, src_range: SourceRange::default() } }

// digits d[0..n) (most significant first) denote sum d[i] * radix^(n-1-i)
fn denote(d: &[u8], radix: i64) -> i64 { let mut v: i64 = 0; let mut i = 0; while i < d.len() { v = v * radix + d[i] as i64; i += 1; } v }

fn based_literal(radix: u8) {
  let n: usize = vk::any(); vk::assume(n >= 1 && n <= 3);
  let d = [vk::any::<u8>(), vk::any::<u8>(), vk::any::<u8>()];
  let up = [vk::any::<bool>(), vk::any::<bool>(), vk::any::<bool>()];
  let mut chars: Vec<char> = Vec::new();
  let mut i = 0;
  while i < n { vk::assume(d[i] < radix); chars.push(digit_char(d[i], radix, up[i])); i += 1; }
  let tkn = mk_token(chars);
  vk::reach();
  let v = match radix { 2 => binary(&tkn), 8 => oct(&tkn), 10 => dec(&tkn), _ => hex(&tkn) };
  match v {
    Value::I64(r) => assert!(*r.borrow() == denote(&d[..n], radix as i64), "VK: a based literal evaluates to the number its digits denote"),
    _ => assert!(false, "VK: a based literal is an integer"),
  }
}

#[cfg_attr(kani, kani::proof)]
#[cfg_attr(kani, kani::unwind(6))]
#[cfg_attr(kani, kani::stub(alloc::fmt::format, fmt_stub))]
pub(crate) fn vkc13_literal_binary() { based_literal(2); }
#[cfg_attr(kani, kani::proof)]
#[cfg_attr(kani, kani::unwind(6))]
#[cfg_attr(kani, kani::stub(alloc::fmt::format, fmt_stub))]
pub(crate) fn vkc13_literal_octal() { based_literal(8); }
#[cfg_attr(kani, kani::proof)]
#[cfg_attr(kani, kani::unwind(6))]
#[cfg_attr(kani, kani::stub(alloc::fmt::format, fmt_stub))]
pub(crate) fn vkc13_literal_decimal() { based_literal(10); }
#[cfg_attr(kani, kani::proof)]
#[cfg_attr(kani, kani::unwind(6))]
#[cfg_attr(kani, kani::stub(alloc::fmt::format, fmt_stub))]
pub(crate) fn vkc13_literal_hex() { based_literal(16); }

vk_registry!{ vkreplay_c13; vkc13_literal_binary, vkc13_literal_octal, vkc13_literal_decimal, vkc13_literal_hex }
