// Model of the environment of the literal evaluators (src/interpreter/src/literals.rs) for Verus.
// Everything marked external_body is an ASSUMED contract of std / num_rational, listed in evidence.
//
//  * a Token is its character vector (the only field the evaluators read)
//  * Ref<T> is the identity (`Ref::new(x)` -> `mk(x)`, `*v.borrow()` -> `rd(&v)`)
//  * F is an opaque IEEE double: the evaluators only move doubles around, negate, multiply and powf them;
//    `nearest(s)` is "the double nearest to the decimal number spelled by s" = std's documented contract of
//    <f64 as FromStr>::from_str (correctly rounded), which is what the property demands of a float literal
//  * a panic (unwrap of Err, panic!, arithmetic overflow) is an early `None`: Interpreter::interpret turns it into an error

pub struct Token { pub chars: Vec<char> }

#[verifier::external_body]
pub struct F { v: f64 }

#[verifier::external_body]
pub struct R { v: (i64, i64) }                        // num_rational::Ratio<i64>
pub uninterp spec fn r_num(r: R) -> int;
pub uninterp spec fn r_den(r: R) -> int;
pub struct Cx { pub re: F, pub im: F }

pub enum Value {
  I8(i8), I16(i16), I32(i32), I64(i64), I128(i128),
  U8(u8), U16(u16), U32(u32), U64(u64), U128(u128),
  F32(F), F64(F), R64(R), C64(Cx), Bool(bool), Empty,
}

// ---- what the digits of a based literal denote
pub open spec fn digit_val(c: char) -> int {
  if '0' <= c && c <= '9' { c as int - '0' as int }
  else if 'a' <= c && c <= 'z' { c as int - 'a' as int + 10 }
  else if 'A' <= c && c <= 'Z' { c as int - 'A' as int + 10 }
  else { 99 }
}
pub open spec fn radix_val(s: Seq<char>, radix: int) -> int decreases s.len() {
  if s.len() == 0 { 0 } else { radix_val(s.drop_last(), radix) * radix + digit_val(s.last()) }
}
pub open spec fn radix_ok(s: Seq<char>, radix: int) -> bool {
  s.len() > 0 && (forall|i: int| 0 <= i < s.len() ==> digit_val(#[trigger] s[i]) < radix) && radix_val(s, radix) <= i64::MAX
}

// ---- std: Iterator::collect::<String>() over chars, format!, str::parse, i64::from_str_radix (ASSUMED contracts)
#[verifier::external_body]
fn collect_string(v: &Vec<char>) -> (s: String) ensures s@ == v@ { unimplemented!() }
#[verifier::external_body]
fn all_zero(v: &Vec<char>) -> (r: bool) ensures r == (forall|i: int| 0 <= i < v@.len() ==> v@[i] == '0') { unimplemented!() }
#[verifier::external_body]
fn fmt_dot(a: &String, b: &String) -> (s: String) ensures s@ == a@ + seq!['.'] + b@ { unimplemented!() }
#[verifier::external_body]
fn fmt_sci(a: &String, b: &String, s: &str, c: &String) -> (r: String) ensures r@ == a@ + seq!['.'] + b@ + seq!['e'] + s@ + c@ { unimplemented!() }
#[verifier::external_body]
fn i64_from_str_radix(s: &String, radix: u32) -> (r: Option<i64>)
  ensures r matches Some(n) ==> radix_ok(s@, radix as int) && n == radix_val(s@, radix as int),
          radix_ok(s@, radix as int) ==> r.is_some(),
{ unimplemented!() }
#[verifier::external_body]
fn parse_i64(s: &String) -> (r: Option<i64>)
  ensures r matches Some(n) ==> radix_ok(s@, 10) && n == radix_val(s@, 10),
          radix_ok(s@, 10) ==> r.is_some(),
{ unimplemented!() }
pub uninterp spec fn nearest(s: Seq<char>) -> F;          // the double nearest to the decimal number s spells
pub uninterp spec fn dec_ok(s: Seq<char>) -> bool;        // s is a decimal spelling std accepts
#[verifier::external_body]
fn parse_f64(s: &String) -> (r: Option<F>)
  ensures r matches Some(x) ==> x == nearest(s@), dec_ok(s@) ==> r.is_some(),
{ unimplemented!() }

// ---- IEEE operations used by `scientific` (opaque: only which operation is applied to what is tracked)
pub uninterp spec fn f_neg(a: F) -> F;
pub uninterp spec fn f_mul(a: F, b: F) -> F;
pub uninterp spec fn f_pow10(e: F) -> F;
pub uninterp spec fn f_zero() -> F;
#[verifier::external_body]
fn fneg(a: F) -> (r: F) ensures r == f_neg(a) { unimplemented!() }
#[verifier::external_body]
fn fmul(a: F, b: F) -> (r: F) ensures r == f_mul(a, b) { unimplemented!() }
#[verifier::external_body]
fn fpow10(e: F) -> (r: F) ensures r == f_pow10(e) { unimplemented!() }
#[verifier::external_body]
fn fzero() -> (r: F) ensures r == f_zero() { unimplemented!() }

// ---- num_rational::Ratio::new (ASSUMED: reduces to lowest terms with a positive denominator, panics on zero)
pub open spec fn lowest_terms(r: R, n: int, d: int) -> bool {
  r_den(r) > 0 && r_num(r) * d == n * r_den(r)
  && (forall|k: int| k > 1 ==> !(#[trigger] (r_num(r) % k) == 0 && r_den(r) % k == 0))
}
#[verifier::external_body]
fn r64_new(n: i64, d: i64) -> (r: R)
  requires d != 0,
  ensures lowest_terms(r, n as int, d as int),
{ unimplemented!() }
#[verifier::external_body]
fn c64_new(re: F, im: F) -> (r: Cx) ensures r.re == re, r.im == im { unimplemented!() }

// ---- Ref<T> as the identity
fn mk<T>(x: T) -> (r: T) ensures r == x { x }
fn rd<T: Copy>(x: &T) -> (r: T) ensures r == *x { *x }
