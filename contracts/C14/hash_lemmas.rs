// permutation invariance of the (unbounded) sum of element hashes -- proved, not assumed
pub uninterp spec fn eh(id: int) -> int;   // h.finish() of a fresh DefaultHasher fed with element `id` (0 <= eh < 2^64)
pub open spec fn usum(s: Seq<int>) -> int
  decreases s.len(),
{ if s.len() == 0 { 0 } else { usum(s.drop_last()) + eh(s.last()) } }

pub proof fn lemma_usum_push(s: Seq<int>, x: int)
  ensures usum(s.push(x)) == usum(s) + eh(x),
{
  assert(s.push(x).drop_last() =~= s);
}

pub proof fn lemma_usum_remove(s: Seq<int>, i: int)
  requires 0 <= i < s.len(),
  ensures usum(s) == usum(s.remove(i)) + eh(s[i]),
  decreases s.len(),
{
  if i == s.len() - 1 {
    assert(s.remove(i) =~= s.drop_last());
  } else {
    let t = s.drop_last();
    lemma_usum_remove(t, i);
    assert(s.remove(i).drop_last() =~= t.remove(i));
    assert(s.remove(i).last() == s.last());
  }
}

pub proof fn lemma_usum_perm(s: Seq<int>, t: Seq<int>)
  requires s.to_multiset() =~= t.to_multiset(),
  ensures usum(s) == usum(t),
  decreases s.len(),
{
  s.to_multiset_ensures();
  t.to_multiset_ensures();
  if s.len() == 0 {
    assert(t.to_multiset().len() == 0);
    assert(t.len() == 0);
  } else {
    let x = s.last();
    assert(s.to_multiset().count(x) > 0);
    assert(t.to_multiset().count(x) > 0);
    assert(t.contains(x));
    let i = choose|i: int| 0 <= i < t.len() && t[i] == x;
    let s2 = s.drop_last();
    let t2 = t.remove(i);
    assert(s2 =~= s.remove(s.len() - 1));
    to_multiset_remove(s, s.len() - 1);
    to_multiset_remove(t, i);
    assert(s2.to_multiset() =~= t2.to_multiset());
    lemma_usum_perm(s2, t2);
    lemma_usum_remove(t, i);
  }
}

// ---- model for `impl Hash for MechSet`: the IndexSet is iterated in insertion order (`order`, element identities);
// a fresh DefaultHasher fed with one element finishes with eh(id) (deterministic: DefaultHasher::new() has fixed keys);
// the outer hasher `state` records what it is fed.
pub struct Elem { pub id: int }
pub enum Fed { Element(int), Word(u64) }
pub struct OuterHasher { pub fed: Ghost<Seq<Fed>> }
pub struct ElemHasher { pub fed: Ghost<Seq<int>> }
impl ElemHasher {
  #[verifier::external_body] pub fn new() -> (h: ElemHasher) ensures h.fed@.len() == 0 { unimplemented!() }
  #[verifier::external_body] pub fn finish(&self) -> (r: u64) ensures self.fed@.len() == 1 ==> r as int == eh(self.fed@[0]) { unimplemented!() }
}
impl Elem {
  #[verifier::external_body] pub fn hash_into(&self, h: &mut ElemHasher) ensures final(h).fed@ == old(h).fed@.push(self.id) { unimplemented!() }
  #[verifier::external_body] pub fn hash_outer(&self, h: &mut OuterHasher) ensures final(h).fed@ == old(h).fed@.push(Fed::Element(self.id)) { unimplemented!() }
}
impl OuterHasher {
  #[verifier::external_body] pub fn write_u64(&mut self, v: u64) ensures final(self).fed@ == old(self).fed@.push(Fed::Word(v)) { unimplemented!() }
}
pub open spec fn ids(order: Seq<Elem>) -> Seq<int> { order.map(|i: int, e: Elem| e.id) }
pub open spec fn wsum(s: Seq<int>) -> int { usum(s) % 0x1_0000_0000_0000_0000 }
#[verifier::external_body]
pub fn wadd(a: u64, b: u64) -> (r: u64) ensures r as int == (a as int + b as int) % 0x1_0000_0000_0000_0000 { a.wrapping_add(b) }
pub proof fn axiom_eh_range(id: int) ensures 0 <= eh(id) < 0x1_0000_0000_0000_0000 { admit(); }
pub proof fn lemma_wsum_step(s: Seq<int>, x: int)
  ensures wsum(s.push(x)) == (wsum(s) + eh(x)) % 0x1_0000_0000_0000_0000,
{
  lemma_usum_push(s, x);
  vstd::arithmetic::div_mod::lemma_add_mod_noop(usum(s), eh(x), 0x1_0000_0000_0000_0000);
  axiom_eh_range(x);
  vstd::arithmetic::div_mod::lemma_small_mod(eh(x) as nat, 0x1_0000_0000_0000_0000);
}
// THE LAW: two insertion orders of the same elements are fed the same word
pub proof fn lemma_hash_order_independent(s: Seq<int>, t: Seq<int>)
  requires s.to_multiset() =~= t.to_multiset(),
  ensures wsum(s) == wsum(t),
{ lemma_usum_perm(s, t); }
