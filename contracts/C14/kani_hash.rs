// C14 — Hash/Eq law of Value (in-module harness appended to src/core/src/value.rs).
// A recording hasher is used, so no hash table is involved: the law
// `a == b  ==>  the byte sequences fed to the hasher are equal` is what makes
// IndexSet<Value> keep "no two equal elements".
#![allow(unused, non_snake_case)]
use super::*;
include!("/verif/contracts/common/vk.rs");

struct Rec { bytes: Vec<u8> }
impl core::hash::Hasher for Rec {
  fn finish(&self) -> u64 { 0 }
  fn write(&mut self, b: &[u8]) { let mut i = 0; while i < b.len() { self.bytes.push(b[i]); i += 1; } }
}
fn fed(v: &Value) -> Vec<u8> { let mut h = Rec { bytes: Vec::new() }; v.hash(&mut h); h.bytes }
fn law(va: Value, vb: Value) {
  vk::reach();
  if va == vb {
    let (ha, hb) = (fed(&va), fed(&vb));
    assert!(ha == hb, "VK: equal values hash equally (Hash/Eq law)");
  }
}

#[cfg_attr(kani, kani::proof)]
#[cfg_attr(kani, kani::unwind(20))]
pub(crate) fn vkc14_hasheq_u8() { let a: u8 = vk::any(); let b: u8 = vk::any(); law(Value::U8(Ref::new(a)), Value::U8(Ref::new(b))); }

#[cfg_attr(kani, kani::proof)]
#[cfg_attr(kani, kani::unwind(20))]
pub(crate) fn vkc14_hasheq_u16() { let a: u16 = vk::any(); let b: u16 = vk::any(); law(Value::U16(Ref::new(a)), Value::U16(Ref::new(b))); }

#[cfg_attr(kani, kani::proof)]
#[cfg_attr(kani, kani::unwind(20))]
pub(crate) fn vkc14_hasheq_u32() { let a: u32 = vk::any(); let b: u32 = vk::any(); law(Value::U32(Ref::new(a)), Value::U32(Ref::new(b))); }

#[cfg_attr(kani, kani::proof)]
#[cfg_attr(kani, kani::unwind(20))]
pub(crate) fn vkc14_hasheq_u64() { let a: u64 = vk::any(); let b: u64 = vk::any(); law(Value::U64(Ref::new(a)), Value::U64(Ref::new(b))); }

#[cfg_attr(kani, kani::proof)]
#[cfg_attr(kani, kani::unwind(20))]
pub(crate) fn vkc14_hasheq_u128() { let a: u128 = vk::any(); let b: u128 = vk::any(); law(Value::U128(Ref::new(a)), Value::U128(Ref::new(b))); }

#[cfg_attr(kani, kani::proof)]
#[cfg_attr(kani, kani::unwind(20))]
pub(crate) fn vkc14_hasheq_i8() { let a: i8 = vk::any(); let b: i8 = vk::any(); law(Value::I8(Ref::new(a)), Value::I8(Ref::new(b))); }

#[cfg_attr(kani, kani::proof)]
#[cfg_attr(kani, kani::unwind(20))]
pub(crate) fn vkc14_hasheq_i16() { let a: i16 = vk::any(); let b: i16 = vk::any(); law(Value::I16(Ref::new(a)), Value::I16(Ref::new(b))); }

#[cfg_attr(kani, kani::proof)]
#[cfg_attr(kani, kani::unwind(20))]
pub(crate) fn vkc14_hasheq_i32() { let a: i32 = vk::any(); let b: i32 = vk::any(); law(Value::I32(Ref::new(a)), Value::I32(Ref::new(b))); }

#[cfg_attr(kani, kani::proof)]
#[cfg_attr(kani, kani::unwind(20))]
pub(crate) fn vkc14_hasheq_i64() { let a: i64 = vk::any(); let b: i64 = vk::any(); law(Value::I64(Ref::new(a)), Value::I64(Ref::new(b))); }

#[cfg_attr(kani, kani::proof)]
#[cfg_attr(kani, kani::unwind(20))]
pub(crate) fn vkc14_hasheq_i128() { let a: i128 = vk::any(); let b: i128 = vk::any(); law(Value::I128(Ref::new(a)), Value::I128(Ref::new(b))); }

// main region: everything except the pair (+0.0, -0.0)
#[cfg_attr(kani, kani::proof)]
#[cfg_attr(kani, kani::unwind(20))]
pub(crate) fn vkc14_hasheq_f32() { let a: f32 = vk::any(); let b: f32 = vk::any(); vk::assume(!(a == 0.0 && b == 0.0 && a.to_bits() != b.to_bits())); law(Value::F32(Ref::new(a)), Value::F32(Ref::new(b))); }

// pinned region: +0.0 == -0.0 but the bits differ
#[cfg_attr(kani, kani::proof)]
#[cfg_attr(kani, kani::unwind(20))]
pub(crate) fn vkc14_hasheq_f32_signed_zero() { let a: f32 = vk::any(); let b: f32 = vk::any(); vk::assume(a == 0.0 && b == 0.0 && a.to_bits() != b.to_bits()); law(Value::F32(Ref::new(a)), Value::F32(Ref::new(b))); }

// main region: everything except the pair (+0.0, -0.0)
#[cfg_attr(kani, kani::proof)]
#[cfg_attr(kani, kani::unwind(20))]
pub(crate) fn vkc14_hasheq_f64() { let a: f64 = vk::any(); let b: f64 = vk::any(); vk::assume(!(a == 0.0 && b == 0.0 && a.to_bits() != b.to_bits())); law(Value::F64(Ref::new(a)), Value::F64(Ref::new(b))); }

// pinned region: +0.0 == -0.0 but the bits differ
#[cfg_attr(kani, kani::proof)]
#[cfg_attr(kani, kani::unwind(20))]
pub(crate) fn vkc14_hasheq_f64_signed_zero() { let a: f64 = vk::any(); let b: f64 = vk::any(); vk::assume(a == 0.0 && b == 0.0 && a.to_bits() != b.to_bits()); law(Value::F64(Ref::new(a)), Value::F64(Ref::new(b))); }

#[cfg_attr(kani, kani::proof)]
#[cfg_attr(kani, kani::unwind(20))]
pub(crate) fn vkc14_hasheq_bool() { let a: bool = vk::any(); let b: bool = vk::any(); law(Value::Bool(Ref::new(a)), Value::Bool(Ref::new(b))); }

// values of different kinds are never equal, so they may coexist only in a mixed set (kind clause is separate)
#[cfg_attr(kani, kani::proof)]
#[cfg_attr(kani, kani::unwind(20))]
pub(crate) fn vkc14_hasheq_cross_kind() { let a: u8 = vk::any(); let b: i8 = vk::any(); vk::reach(); assert!(Value::U8(Ref::new(a)) != Value::I8(Ref::new(b)), "VK: values of different kinds are different elements"); }

vk_registry!{ vkreplay_c14; vkc14_hasheq_u8, vkc14_hasheq_u16, vkc14_hasheq_u32, vkc14_hasheq_u64, vkc14_hasheq_u128, vkc14_hasheq_i8, vkc14_hasheq_i16, vkc14_hasheq_i32, vkc14_hasheq_i64, vkc14_hasheq_i128, vkc14_hasheq_f32, vkc14_hasheq_f32_signed_zero, vkc14_hasheq_f64, vkc14_hasheq_f64_signed_zero, vkc14_hasheq_bool, vkc14_hasheq_cross_kind }
