// Verus model for the arm loop of `execute_function_match_arms` (src/interpreter/src/functions.rs).
// Syntax-tree nodes are opaque identities; pattern matching, expression evaluation, detaching and output coercion are
// uninterpreted (any functions), but every call of the two evaluators is RECORDED in a ghost log carried by the
// interpreter handle, so that "no later arm runs" is a statement about the log.  The real code takes `p: &Interpreter`
// (interior mutability); the model takes `p: &mut Interpreter` so that the log can be updated -- call sites are unchanged.

pub struct Identifier { pub h: u64 }
impl Identifier { pub fn hash(&self) -> (r: u64) ensures r == self.h, { self.h } }
pub struct Pattern { pub id: u64 }
pub struct FunctionCall { pub name: Identifier, pub args: Vec<(Option<Identifier>, Expression)> }
pub enum Expression { FunctionCall(FunctionCall), Other(u64) }
pub struct FunctionMatchArm { pub pattern: Pattern, pub expression: Expression }
pub struct FunctionDefine { pub name: Identifier, pub match_arms: Vec<FunctionMatchArm> }
pub struct FunctionDefinition { pub code: FunctionDefine, pub input: Vec<u64>, pub id: u64 }
pub struct Value { pub id: u64 }
pub struct Environment { pub id: u64 }
pub uninterp spec fn empty_env() -> Environment;
impl Environment {
  #[verifier::external_body]
  pub fn new() -> (e: Environment) ensures e == empty_env(), { unimplemented!() }
}
pub enum FunctionCallStep { Return(Value), TailCall(Vec<Value>) }

pub enum Event { Test(Pattern), Eval(Expression) }
pub struct Interpreter { pub log: Ghost<Seq<Event>> }

// the matcher reads and extends the environment it is given (a name bound earlier turns a pattern variable into an equality test)
pub uninterp spec fn pmf(pattern: Pattern, args: Seq<Value>, env: Environment) -> Option<bool>;      // None = the matcher reports an error
pub uninterp spec fn bindf(pattern: Pattern, args: Seq<Value>, env: Environment) -> Environment;     // the bindings a match leaves in `env`
// what the property means by "the pattern matches the arguments": matching in a FRESH environment
pub open spec fn pm(pattern: Pattern, args: Seq<Value>) -> Option<bool> { pmf(pattern, args, empty_env()) }
pub open spec fn bind(pattern: Pattern, args: Seq<Value>) -> Environment { bindf(pattern, args, empty_env()) }
pub uninterp spec fn ev(e: Expression, env: Option<&Environment>) -> Option<Value>;
pub uninterp spec fn dv(v: Value) -> Value;
pub uninterp spec fn co(v: Value) -> Option<Value>;

#[verifier::external_body]
pub fn pattern_matches_arguments(pattern: &Pattern, args: &Vec<Value>, env: &mut Environment, p: &mut Interpreter) -> (o: Option<bool>)
  ensures final(p).log@ == old(p).log@.push(Event::Test(*pattern)), o == pmf(*pattern, args@, *old(env)), *final(env) == bindf(*pattern, args@, *old(env)),
{ unimplemented!() }
#[verifier::external_body]
pub fn expression(e: &Expression, env: Option<&Environment>, p: &mut Interpreter) -> (o: Option<Value>)
  ensures final(p).log@ == old(p).log@.push(Event::Eval(*e)), o == ev(*e, env),
{ unimplemented!() }
#[verifier::external_body]
pub fn detach_value(v: &Value) -> (r: Value) ensures r == dv(*v), { unimplemented!() }
#[verifier::external_body]
pub fn coerce_function_output_kind(value: Value, fxn_def: &FunctionDefinition, p: &mut Interpreter) -> (o: Option<Value>)
  ensures final(p).log@ == old(p).log@, o == co(value),
{ unimplemented!() }

// `log` extends `before` by (at least) the tests of arms 0..n, in source order, each once
pub open spec fn tested_in_order(log: Seq<Event>, before: Seq<Event>, arms: Seq<FunctionMatchArm>, n: int) -> bool {
  &&& log.len() >= before.len() + n
  &&& (forall|m: int| 0 <= m < before.len() ==> #[trigger] log[m] == before[m])
  &&& (forall|j: int| 0 <= j < n ==> log[before.len() + j] == Event::Test((#[trigger] arms[j]).pattern))
}
// e is (an evaluation of) the expression of `arm` or of one of the arguments of its call
pub open spec fn belongs(e: Event, arm: FunctionMatchArm) -> bool {
  match e {
    Event::Eval(x) => x == arm.expression || (match arm.expression {
      Expression::FunctionCall(c) => exists|i: int| 0 <= i < c.args@.len() && (#[trigger] c.args@[i]).1 == x,
      _ => false,
    }),
    _ => false,
  }
}

// index of the first arm whose pattern does not answer "no match" (a match, or an error of the matcher); len if none
pub open spec fn first_hit(arms: Seq<FunctionMatchArm>, args: Seq<Value>, i: int) -> int
  decreases arms.len() - i,
{
  if i < 0 || i >= arms.len() { arms.len() as int } else if pm(arms[i].pattern, args) == Some(false) { first_hit(arms, args, i + 1) } else { i }
}
pub proof fn lemma_first_hit(arms: Seq<FunctionMatchArm>, args: Seq<Value>, i: int)
  requires 0 <= i <= arms.len(),
  ensures i <= first_hit(arms, args, i) <= arms.len(),
    forall|j: int| i <= j < first_hit(arms, args, i) ==> pm((#[trigger] arms[j]).pattern, args) == Some(false),
    first_hit(arms, args, i) < arms.len() ==> pm(arms[first_hit(arms, args, i)].pattern, args) != Some(false),
  decreases arms.len() - i,
{
  if i < arms.len() && pm(arms[i].pattern, args) == Some(false) { lemma_first_hit(arms, args, i + 1); }
}
