// Verus model for `try_broadcast_user_function` (src/interpreter/src/functions.rs, whole body).  Values, kinds and syntax nodes are opaque;
// applying the user function to one element (`execute_user_function(fxn_def, &vec![element], p)`) is an arbitrary function of the element
// and of the calls made before (ghost log on the interpreter handle); detaching, the matrix test, the element list, the shape, kind
// resolution and the final assembly are uninterpreted.
#[derive(Clone, Copy, PartialEq, Eq, Structural)]
pub struct Value { pub id: u64 }
#[derive(Clone, Copy, PartialEq, Eq, Structural)]
pub enum ValueKind { Matrix(u64, u64), Other(u64) }
pub struct KindAnnotation { pub id: u64 }
pub struct KindAnnotationNode { pub kind: KindAnnotation }
pub struct FunctionArgument { pub kind: KindAnnotationNode }
pub struct FunctionDefine { pub input: Vec<FunctionArgument>, pub output: Vec<FunctionArgument> }
pub struct FunctionDefinition { pub code: FunctionDefine, pub id: u64 }
pub struct MechError { pub id: u64 }
pub struct Interpreter { pub log: Ghost<Seq<Value>> }      // the elements the function has been applied to, in order

pub uninterp spec fn dv(v: Value) -> Value;
pub uninterp spec fn is_mat(v: Value) -> bool;
pub uninterp spec fn shp(v: Value) -> (usize, usize);
pub uninterp spec fn mlv(v: Value) -> Option<Seq<Value>>;                    // crate::patterns::matrix_like_values
pub uninterp spec fn ka(a: KindAnnotation) -> Option<ValueKind>;             // kind_annotation(..)?.to_value_kind(..)?  (None = error)
pub uninterp spec fn fx(f: u64, e: Value, before: Seq<Value>) -> Option<Value>;   // the user function on one element (None = error)
pub uninterp spec fn assemble(k: ValueKind, outs: Seq<Value>, rows: usize, cols: usize) -> Value;   // build_typed_matrix_from_values

#[verifier::external_body]
pub fn detach_value(v: &Value) -> (r: Value) ensures r == dv(*v), { unimplemented!() }
impl Value {
  #[verifier::external_body]
  pub fn is_matrix(&self) -> (b: bool) ensures b == is_mat(*self), { unimplemented!() }
  #[verifier::external_body]
  pub fn shape(&self) -> (r: Vec<usize>) ensures r@ == seq![shp(*self).0, shp(*self).1], { unimplemented!() }
}
#[verifier::external_body]
pub fn matrix_like_values(v: &Value) -> (r: Option<Vec<Value>>) ensures (match r { Some(x) => mlv(*v) == Some(x@), None => mlv(*v) is None }), { unimplemented!() }
#[verifier::external_body]
pub fn expected_kind_of(a: &KindAnnotation, p: &Interpreter) -> (r: Result<ValueKind, MechError>)
  ensures (match r { Ok(k) => ka(*a) == Some(k), Err(_) => ka(*a) is None }),
{ unimplemented!() }
#[verifier::external_body]
pub fn execute_user_function(fxn_def: &FunctionDefinition, args: &Vec<Value>, p: &mut Interpreter) -> (r: Result<Value, MechError>)
  requires args@.len() == 1,
  ensures final(p).log@ == old(p).log@.push(args@[0]),
    (match r { Ok(v) => fx(fxn_def.id, args@[0], old(p).log@) == Some(v), Err(_) => fx(fxn_def.id, args@[0], old(p).log@) is None }),
{ unimplemented!() }
#[verifier::external_body]
pub fn build_typed_matrix_from_values(k: &ValueKind, outs: Vec<Value>, rows: usize, cols: usize) -> (v: Value) ensures v == assemble(*k, outs@, rows, cols), { unimplemented!() }
#[verifier::external_body]
pub fn vec_take(v: &Vec<Value>, i: usize) -> (r: Value) requires i < v@.len(), ensures r == v@[i as int], { unimplemented!() }

// ---- THE CONTRACT (C16): a single-argument scalar function called with a matrix returns the matrix (same shape) of the function applied to
// each element, in element order, each once
pub open spec fn applicable(f: FunctionDefinition, args: Seq<Value>) -> bool {
  args.len() == 1 && f.code.output@.len() == 1 && f.code.input@.len() == 1 && is_mat(dv(args[0]))
}
// outputs of applying f to els[0..n), threading the call log; None = some application failed
pub open spec fn map_f(f: u64, els: Seq<Value>, n: int, log0: Seq<Value>) -> Option<Seq<Value>> decreases n {
  if n <= 0 { Some(Seq::<Value>::empty()) } else {
    match map_f(f, els, n - 1, log0) {
      None => None,
      Some(outs) => match fx(f, els[n - 1], log0 + els.subrange(0, n - 1)) { None => None, Some(o) => Some(outs.push(o)) },
    }
  }
}
pub proof fn lemma_map_f_none(f: u64, els: Seq<Value>, n: int, m: int, log0: Seq<Value>)
  requires 0 <= n <= m,
  ensures map_f(f, els, n, log0) is None ==> map_f(f, els, m, log0) is None,
  decreases m - n,
{
  if n < m { lemma_map_f_none(f, els, n, m - 1, log0); }
}
