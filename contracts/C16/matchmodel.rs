// Verus model for the arm loop of `match_expression` (src/interpreter/src/expressions.rs), from
// `for (arm_ix, arm) in match_expr.arms.iter().enumerate()` to the end of the function.
// Syntax nodes are opaque identities; the pattern matcher, the guard evaluator, the expression evaluator and the arm-kind validation
// are uninterpreted functions of their arguments; every call of the matcher / a guard / an evaluation is RECORDED in a ghost log carried
// by the interpreter handle (`p: &Interpreter` is `&mut Interpreter`), so that "no later arm runs" is a statement about the log.

#[derive(PartialEq, Eq, Structural, Clone, Copy)]
pub struct Expression { pub id: u64 }
#[derive(PartialEq, Eq, Structural, Clone, Copy)]
pub enum Pattern { Wildcard, Other(u64) }
pub struct MatchArm { pub pattern: Pattern, pub guard: Option<Expression>, pub expression: Expression }
pub struct MatchExpression { pub source: Expression, pub arms: Vec<MatchArm> }
#[derive(Clone, Copy)]
pub struct Value { pub id: u64 }
#[derive(Clone, Copy)]
pub struct ValueKind { pub id: u64 }
impl Value {
  #[verifier::external_body]
  pub fn kind(&self) -> (k: ValueKind) ensures k == kind_of(*self), { unimplemented!() }
}
#[derive(Clone, Copy)]
pub struct Environment { pub id: u64 }
impl Environment { pub fn clone(&self) -> (r: Environment) ensures r == *self, { *self } }
pub struct MechError { pub id: u64 }
pub enum PatternMatchSemantics { OptionGuard, Other }

pub enum Event { Test(Pattern), Guard(Expression), Eval(Expression) }
pub struct Interpreter { pub log: Ghost<Seq<Event>> }

pub uninterp spec fn kind_of(v: Value) -> ValueKind;
pub uninterp spec fn pmv(pattern: Pattern, source: Value, env: Environment) -> Option<bool>;     // None = the matcher reports an error
pub uninterp spec fn bindv(pattern: Pattern, source: Value, env: Environment) -> Environment;    // the bindings a match leaves in the environment
pub uninterp spec fn gt(guard: Expression, env: Environment) -> Option<bool>;                    // None = the guard is not a boolean / fails
pub uninterp spec fn ev(e: Expression, env: Environment) -> Option<Value>;
pub uninterp spec fn kinds_ok(m: Seq<MatchArm>, ix: int, k: ValueKind, source: Value, env: Environment) -> bool;
pub uninterp spec fn special(source: Value, arm: MatchArm) -> bool;     // value_contains_empty(source) && is_identity_option_matrix_arm(arm): the option/matrix coalescing case

#[verifier::external_body]
pub fn pattern_matches_value_with_semantics(pattern: &Pattern, source: &Value, env: &mut Environment, p: &mut Interpreter, sem: PatternMatchSemantics) -> (o: Result<bool, MechError>)
  ensures final(p).log@ == old(p).log@.push(Event::Test(*pattern)),
    (match o { Ok(b) => pmv(*pattern, *source, *old(env)) == Some(b), Err(_) => pmv(*pattern, *source, *old(env)) is None }),
    *final(env) == bindv(*pattern, *source, *old(env)),
{ unimplemented!() }
#[verifier::external_body]
pub fn guard_expression_true(guard: &Expression, env: &Environment, p: &mut Interpreter) -> (o: Result<bool, MechError>)
  ensures final(p).log@ == old(p).log@.push(Event::Guard(*guard)),
    (match o { Ok(b) => gt(*guard, *env) == Some(b), Err(_) => gt(*guard, *env) is None }),
{ unimplemented!() }
#[verifier::external_body]
pub fn expression(e: &Expression, env: Option<&Environment>, p: &mut Interpreter) -> (o: Result<Value, MechError>)
  requires env is Some,
  ensures final(p).log@ == old(p).log@.push(Event::Eval(*e)),
    (match o { Ok(v) => ev(*e, *env.unwrap()) == Some(v), Err(_) => ev(*e, *env.unwrap()) is None }),
{ unimplemented!() }
#[verifier::external_body]
pub fn match_validate_arm_kinds(m: &MatchExpression, ix: usize, k: &ValueKind, source: &Value, env: &Environment, p: &mut Interpreter) -> (o: Result<(), MechError>)
  ensures final(p).log@ == old(p).log@, o is Ok == kinds_ok(m.arms@, ix as int, *k, *source, *env),
{ unimplemented!() }
#[verifier::external_body]
pub fn is_special(source: &Value, arm: &MatchArm) -> (b: bool) ensures b == special(*source, *arm), { unimplemented!() }
#[verifier::external_body]
pub fn no_arm_matched_error() -> (e: MechError) { unimplemented!() }

// ---- THE CONTRACT (from the property, C16): the body of the FIRST arm in source order whose pattern matches and whose guard is true,
// with the pattern's bindings, and no later arm
pub open spec fn arm_env(arm: MatchArm, source: Value, base: Environment) -> Environment {
  if arm.pattern == Pattern::Wildcard { base } else { bindv(arm.pattern, source, base) }
}
// Some(true): the arm is taken; Some(false): it is not; None: deciding it is an error
pub open spec fn arm_hit(arm: MatchArm, source: Value, base: Environment) -> Option<bool> {
  let matched = if arm.pattern == Pattern::Wildcard { Some(true) } else { pmv(arm.pattern, source, base) };
  match matched {
    None => None,
    Some(false) => Some(false),                       // the guard of an arm whose pattern does not match is irrelevant
    Some(true) => match arm.guard { None => Some(true), Some(g) => gt(g, arm_env(arm, source, base)) },
  }
}
pub open spec fn first_hit(arms: Seq<MatchArm>, source: Value, base: Environment, i: int) -> int
  decreases arms.len() - i,
{
  if i < 0 || i >= arms.len() { arms.len() as int } else if arm_hit(arms[i], source, base) == Some(false) { first_hit(arms, source, base, i + 1) } else { i }
}
// a guard that fails to evaluate on an arm whose pattern does NOT match: the real code evaluates the guards of non-matching arms too and
// reports their failure; the property does not say what happens then, so nothing is claimed when such an arm precedes the first hit
pub open spec fn quirk(arm: MatchArm, source: Value, base: Environment) -> bool {
  arm.pattern != Pattern::Wildcard && pmv(arm.pattern, source, base) == Some(false) && arm.guard is Some && gt(arm.guard.unwrap(), arm_env(arm, source, base)) is None
}
pub open spec fn quirk_before(arms: Seq<MatchArm>, source: Value, base: Environment, k: int) -> bool {
  exists|j: int| 0 <= j < k && j < arms.len() && quirk(#[trigger] arms[j], source, base)
}
// among the log entries from `before` on, the only bodies evaluated are evaluations of `only` (none at all if `only` is None)
pub open spec fn evals_only(log: Seq<Event>, before: int, only: Option<Expression>) -> bool {
  forall|m: int| before <= m < log.len() && (#[trigger] log[m]) is Eval ==> only == Some(log[m]->Eval_0)
}
pub proof fn lemma_first_hit(arms: Seq<MatchArm>, source: Value, base: Environment, i: int)
  requires 0 <= i <= arms.len(),
  ensures i <= first_hit(arms, source, base, i) <= arms.len(),
    first_hit(arms, source, base, i) < arms.len() ==> arm_hit(arms[first_hit(arms, source, base, i)], source, base) != Some(false),
  decreases arms.len() - i,
{
  if i < arms.len() && arm_hit(arms[i], source, base) == Some(false) { lemma_first_hit(arms, source, base, i + 1); }
}
