// Verus model for `apply_transitions` (src/interpreter/src/state_machines.rs).  The three evaluators it calls are
// uninterpreted functions of their arguments AND of the calls made so far (the ghost log = the interpreter's world, so
// that a statement may influence what a later pattern evaluates to); every call is recorded.  Errors are `None`.
pub struct Pattern { pub id: u64 }
pub struct Statement { pub id: u64 }
pub struct MechCode { pub id: u64 }
pub struct Comment { pub id: u64 }
pub enum Transition { Async(Pattern), CodeBlock(Vec<(MechCode, Option<Comment>)>), Next(Pattern), Output(Pattern), Statement(Statement) }
pub struct Value { pub id: u64 }
pub struct Environment { pub id: u64 }
pub enum Event { Ptv(Pattern), Stmt(Statement), Code(MechCode) }
pub struct Interpreter { pub log: Ghost<Seq<Event>> }

pub uninterp spec fn ptvw(pattern: Pattern, env: Environment, w: Seq<Event>) -> Option<Value>;
pub uninterp spec fn stw(stmt: Statement, env: Option<&Environment>, w: Seq<Event>) -> Option<Value>;
pub uninterp spec fn mcw(code: MechCode, w: Seq<Event>) -> Option<Value>;

#[verifier::external_body]
pub fn pattern_to_value(pattern: &Pattern, env: &Environment, p: &mut Interpreter) -> (o: Option<Value>)
  ensures o == ptvw(*pattern, *env, old(p).log@), final(p).log@ == old(p).log@.push(Event::Ptv(*pattern)),
{ unimplemented!() }
#[verifier::external_body]
pub fn statement(stmt: &Statement, env: Option<&Environment>, p: &mut Interpreter) -> (o: Option<Value>)
  ensures o == stw(*stmt, env, old(p).log@), final(p).log@ == old(p).log@.push(Event::Stmt(*stmt)),
{ unimplemented!() }
#[verifier::external_body]
pub fn mech_code(code: &MechCode, p: &mut Interpreter) -> (o: Option<Value>)
  ensures o == mcw(*code, old(p).log@), final(p).log@ == old(p).log@.push(Event::Code(*code)),
{ unimplemented!() }

pub struct Out { pub res: Option<Option<Value>>, pub state: Value, pub log: Seq<Event> }

// the lines of a code block run in order until one fails: (all succeeded, log afterwards)
pub open spec fn code_spec(code: Seq<(MechCode, Option<Comment>)>, j: int, w: Seq<Event>) -> (bool, Seq<Event>)
  decreases code.len() - j,
{
  if j < 0 || j >= code.len() { (true, w) }
  else if mcw(code[j].0, w) is None { (false, w.push(Event::Code(code[j].0))) }
  else { code_spec(code, j + 1, w.push(Event::Code(code[j].0))) }
}
// the transitions of one arm, in source order: `-> next` / `~> next` replace the state, a statement or code block runs for
// its effect, the first `=> output` ends the list with its value and nothing after it runs; any failure ends it with an error
pub open spec fn at_spec(ts: Seq<Transition>, i: int, s: Value, e: Environment, w: Seq<Event>) -> Out
  decreases ts.len() - i,
{
  if i < 0 || i >= ts.len() { Out { res: Some(None), state: s, log: w } } else {
    match ts[i] {
      Transition::Next(pat) | Transition::Async(pat) => match ptvw(pat, e, w) {
        None => Out { res: None, state: s, log: w.push(Event::Ptv(pat)) },
        Some(v) => at_spec(ts, i + 1, v, e, w.push(Event::Ptv(pat))),
      },
      Transition::Output(pat) => match ptvw(pat, e, w) {
        None => Out { res: None, state: s, log: w.push(Event::Ptv(pat)) },
        Some(v) => Out { res: Some(Some(v)), state: s, log: w.push(Event::Ptv(pat)) },
      },
      Transition::Statement(st) => match stw(st, Some(&e), w) {
        None => Out { res: None, state: s, log: w.push(Event::Stmt(st)) },
        Some(_) => at_spec(ts, i + 1, s, e, w.push(Event::Stmt(st))),
      },
      Transition::CodeBlock(code) => {
        let r = code_spec(code@, 0, w);
        if r.0 { at_spec(ts, i + 1, s, e, r.1) } else { Out { res: None, state: s, log: r.1 } }
      },
    }
  }
}
