// Verus model for the argument binding of `execute_fsm_pipe` (src/interpreter/src/state_machines.rs), from
// `if input_decls.len() != args.len()` to the end of the function.  Syntax nodes, kinds and values are opaque identities; the kind
// of an annotation, kind compatibility, detaching, evaluating the start pattern, the coverage validation and the run itself
// (execute_fsm_pipe_impl: C17.verus.execute_fsm_pipe_impl.declared_run) are uninterpreted functions.
pub struct Identifier { pub h: u64 }
impl Identifier { pub fn hash(&self) -> (r: u64) ensures r == self.h, { self.h } }
pub struct KindAnnotation { pub id: u64 }
pub struct KindAnnotationNode { pub kind: KindAnnotation }
pub struct ArgDecl { pub name: Identifier, pub kind: Option<KindAnnotationNode> }
#[derive(Clone, Copy)]
pub struct Value { pub id: u64 }
#[derive(Clone, Copy)]
pub struct ValueKind { pub id: u64 }
pub struct Pattern { pub id: u64 }
pub struct FsmImplementation { pub start: Pattern, pub id: u64 }
pub struct FsmPipe { pub id: u64 }
pub struct Interpreter { pub id: u64 }
pub struct Environment { pub map: Ghost<Map<u64, Value>> }
impl Environment {
  #[verifier::external_body]
  pub fn new() -> (e: Environment) ensures e.map@ == Map::<u64, Value>::empty(), { unimplemented!() }
  #[verifier::external_body]
  pub fn insert(&mut self, k: u64, v: Value) ensures final(self).map@ == old(self).map@.insert(k, v), { unimplemented!() }
}
impl Value {
  #[verifier::external_body]
  pub fn kind(&self) -> (k: ValueKind) ensures k == kind_of(*self), { unimplemented!() }
}
pub uninterp spec fn kind_of(v: Value) -> ValueKind;
pub uninterp spec fn ek(a: KindAnnotation) -> Option<ValueKind>;          // kind_annotation(..)?.to_value_kind(..)?   (None = error)
pub uninterp spec fn km(expected: ValueKind, actual: ValueKind) -> bool;  // fsm_argument_kind_matches
pub uninterp spec fn dv(v: Value) -> Value;                               // detach_value
pub uninterp spec fn ptv(pt: Pattern, env: Map<u64, Value>) -> Option<Value>;   // pattern_to_value
pub uninterp spec fn cov(fsm: FsmImplementation, pipe: FsmPipe) -> bool;       // validate_fsm_state_coverage accepts
pub uninterp spec fn run_impl(fsm: FsmImplementation, state: Value, env: Map<u64, Value>) -> Option<Value>;   // execute_fsm_pipe_impl
#[verifier::external_body]
pub fn expected_kind_of(a: &KindAnnotation, p: &Interpreter) -> (o: Option<ValueKind>) ensures o == ek(*a), { unimplemented!() }
#[verifier::external_body]
pub fn fsm_argument_kind_matches(e: &ValueKind, a: &ValueKind) -> (b: bool) ensures b == km(*e, *a), { unimplemented!() }
#[verifier::external_body]
pub fn detach_value(v: &Value) -> (r: Value) ensures r == dv(*v), { unimplemented!() }
#[verifier::external_body]
pub fn pattern_to_value(pt: &Pattern, env: &Environment, p: &Interpreter) -> (o: Option<Value>) ensures o == ptv(*pt, env.map@), { unimplemented!() }
#[verifier::external_body]
pub fn validate_fsm_state_coverage(fsm: &FsmImplementation, pipe: &FsmPipe) -> (o: Option<()>) ensures o is Some == cov(*fsm, *pipe), { unimplemented!() }
#[verifier::external_body]
pub fn execute_fsm_pipe_impl(fsm: &FsmImplementation, state: &mut Value, call_env: &mut Environment, p: &Interpreter) -> (o: Option<Value>)
  ensures o == run_impl(*fsm, *old(state), old(call_env).map@),
{ unimplemented!() }

// ---- THE CONTRACT (C17): the machine starts in its declared start state with the GIVEN arguments bound to the declared input names;
// a wrong number of arguments or an argument of the wrong kind is rejected
pub open spec fn arg_ok(d: ArgDecl, v: Value) -> bool {
  match d.kind { None => true, Some(node) => ek(node.kind) matches Some(e) && km(e, kind_of(v)) }
}
pub open spec fn args_ok(decls: Seq<ArgDecl>, args: Seq<Value>) -> bool {
  decls.len() == args.len() && forall|i: int| 0 <= i < decls.len() ==> arg_ok(#[trigger] decls[i], args[i])
}
// the call environment: input name i is bound to (the detached) argument i
pub open spec fn bound(decls: Seq<ArgDecl>, args: Seq<Value>, n: int) -> Map<u64, Value>
  decreases n,
{
  if n <= 0 { Map::<u64, Value>::empty() } else { bound(decls, args, n - 1).insert(decls[n - 1].name.h, dv(args[n - 1])) }
}
