// Verus model for `execute_fsm_pipe_impl` (src/interpreter/src/state_machines.rs).  Syntax-tree nodes are opaque;
// pattern matching, binding, pattern evaluation and the application of a transition list are uninterpreted functions of
// their inputs (any functions).  What is verified is the CONTROL: which arm / guard is taken for the current state, how
// the state and environment are threaded, when the run stops, and the transition limit.  MResult errors are `None`.

pub enum Pattern { Wildcard, Other(u64) }
pub struct Transition { pub id: u64 }
pub struct Guard { pub condition: Pattern, pub transitions: Vec<Transition> }
pub struct Comment { pub id: u64 }
pub enum FsmArm { Guard(Pattern, Vec<Guard>), Transition(Pattern, Vec<Transition>), Comment(Comment) }
pub struct FsmImplementation { pub arms: Vec<FsmArm> }
pub struct RefBool { pub b: bool }
impl RefBool { pub fn borrow(&self) -> (r: &bool) ensures *r == self.b, { &self.b } }
pub enum Value { Bool(RefBool), Other(u64) }
pub struct Environment { pub id: u64 }
pub struct Interpreter { pub max_steps: usize }
pub struct Summary { pub id: u64 }

impl Clone for Environment { fn clone(&self) -> (r: Self) ensures r == *self, { Environment { id: self.id } } }
impl Clone for Value {
  #[verifier::external_body]
  fn clone(&self) -> (r: Self) ensures r == *self, { unimplemented!() }
}

pub uninterp spec fn cl(pattern: Pattern, env: Environment) -> Environment;                       // clear_pattern_bindings
pub uninterp spec fn pmv(pattern: Pattern, value: Value, env: Environment) -> Option<bool>;       // pattern_matches_value: None = error
pub uninterp spec fn bindv(pattern: Pattern, value: Value, env: Environment) -> Environment;      // .. and the bindings it leaves
pub uninterp spec fn ptv(pattern: Pattern, env: Environment) -> Option<Value>;                    // pattern_to_value
pub uninterp spec fn at(ts: Seq<Transition>, state: Value, env: Environment) -> Option<Option<Value>>;   // apply_transitions: None = error, Some(Some(v)) = output
pub uninterp spec fn ns(ts: Seq<Transition>, state: Value, env: Environment) -> Value;            // .. the state it leaves
pub uninterp spec fn ne(ts: Seq<Transition>, state: Value, env: Environment) -> Environment;      // .. the environment it leaves

#[verifier::external_body]
pub fn clear_pattern_bindings(pattern: &Pattern, env: &mut Environment)
  ensures *final(env) == cl(*pattern, *old(env)),
{ unimplemented!() }
#[verifier::external_body]
pub fn pattern_matches_value(pattern: &Pattern, value: &Value, env: &mut Environment, p: &Interpreter) -> (o: Option<bool>)
  ensures o == pmv(*pattern, *value, *old(env)), *final(env) == bindv(*pattern, *value, *old(env)),
{ unimplemented!() }
#[verifier::external_body]
pub fn pattern_to_value(pattern: &Pattern, env: &Environment, p: &Interpreter) -> (o: Option<Value>)
  ensures o == ptv(*pattern, *env),
{ unimplemented!() }
#[verifier::external_body]
pub fn apply_transitions(transitions: &Vec<Transition>, state: &mut Value, env: &mut Environment, p: &Interpreter) -> (o: Option<Option<Value>>)
  ensures o == at(transitions@, *old(state), *old(env)), *final(state) == ns(transitions@, *old(state), *old(env)), *final(env) == ne(transitions@, *old(state), *old(env)),
{ unimplemented!() }
#[verifier::external_body]
pub fn summarize_value(v: &Value) -> (s: Summary) { unimplemented!() }

// ---- the semantics the declaration determines -----------------------------------------------------------------------
pub enum Step { Error, Halt, Output(Value), Next(Value, Environment) }

pub open spec fn fire(ts: Seq<Transition>, s: Value, ae: Environment) -> Step {
  match at(ts, s, ae) { None => Step::Error, Some(Some(v)) => Step::Output(v), Some(None) => Step::Next(ns(ts, s, ae), ne(ts, s, ae)) }
}
// does guard g hold under the arm's bindings?  None = error (condition not a boolean / evaluation failed)
pub open spec fn guard_holds(g: Guard, ae: Environment) -> Option<bool> {
  match g.condition {
    Pattern::Wildcard => Some(true),
    _ => match ptv(g.condition, ae) { None => None, Some(Value::Bool(x)) => Some(x.b), Some(_) => None },
  }
}
// the first guard (source order) from j on that holds fires; None = no guard holds (fall through to the next arm)
pub open spec fn gstep(gs: Seq<Guard>, j: int, s: Value, ae: Environment) -> Option<Step>
  decreases gs.len() - j,
{
  if j < 0 || j >= gs.len() { None } else {
    match guard_holds(gs[j], ae) {
      None => Some(Step::Error),
      Some(true) => Some(fire(gs[j].transitions@, s, ae)),
      Some(false) => gstep(gs, j + 1, s, ae),
    }
  }
}
// one step from state s: the first arm (source order) from i on whose pattern matches the state -- and, for a guarded
// arm, one of whose guards holds -- fires; Halt = no arm applies (terminal state)
pub open spec fn step_from(arms: Seq<FsmArm>, i: int, s: Value, e: Environment) -> Step
  decreases arms.len() - i,
{
  if i < 0 || i >= arms.len() { Step::Halt } else {
    match arms[i] {
      FsmArm::Comment(_) => step_from(arms, i + 1, s, e),
      FsmArm::Transition(pat, ts) => match pmv(pat, s, cl(pat, e)) {
        None => Step::Error,
        Some(false) => step_from(arms, i + 1, s, e),
        Some(true) => fire(ts@, s, bindv(pat, s, cl(pat, e))),
      },
      FsmArm::Guard(pat, gs) => match pmv(pat, s, cl(pat, e)) {
        None => Step::Error,
        Some(false) => step_from(arms, i + 1, s, e),
        Some(true) => match gstep(gs@, 0, s, bindv(pat, s, cl(pat, e))) { Some(r) => r, None => step_from(arms, i + 1, s, e) },
      },
    }
  }
}
// the run with a budget of n transitions: None = error (evaluation error, or the budget is used up)
pub open spec fn run(arms: Seq<FsmArm>, n: int, s: Value, e: Environment) -> Option<Value>
  decreases n,
{
  if n <= 0 { None } else {
    match step_from(arms, 0, s, e) {
      Step::Error => None,
      Step::Halt => Some(s),
      Step::Output(v) => Some(v),
      Step::Next(s2, e2) => run(arms, n - 1, s2, e2),
    }
  }
}
