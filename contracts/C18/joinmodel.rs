// Verus model for the row-selection skeleton of `TableJoinFxn::build_joined_table`
// (src/interpreter/src/stdlib/table_ops.rs).  Rows are 1-based (`Matrix::index1d`).  The three row builders of the
// real code are replaced by constructors that record WHICH rows were combined; the real builders' bodies (HashMap
// filling per column) are outside this contract.  `rm(l, r)` -- "lhs row l and rhs row r agree on every common
// column" -- is uninterpreted: the contract holds for every relation.

pub uninterp spec fn rm(l: int, r: int) -> bool;

#[derive(PartialEq, Eq, Structural)]
pub enum Row {
  Pair(usize, usize),       // merge_rows(lhs, l, rhs, r, .., false) with r >= 1: the combined row
  LeftPadded(usize),        // merge_rows(lhs, l, rhs, 0, .., true): lhs row l, the rhs-only columns empty
  RightPadded(usize),       // the block after the main loop: rhs row r, the lhs-only columns empty
  Left(usize),              // lhs_only_row(lhs, l)
}

// `rows_match(lhs, lhs_row, rhs, rhs_row, &common_cols)`: pure comparison (reads only)
#[verifier::external_body]
pub fn rows_match(lhs_row: usize, rhs_row: usize) -> (b: bool)
  ensures b == rm(lhs_row as int, rhs_row as int),
{ unimplemented!() }

// `merge_rows(lhs, lhs_row, rhs, rhs_row, &common_rhs, rhs_empty)`: the rhs-only columns are empty iff
// `rhs_empty || rhs_row == 0` (that test is in the real body)
pub fn merge_rows(lhs_row: usize, rhs_row: usize, rhs_empty: bool) -> (row: Row)
  ensures row == (if rhs_empty || rhs_row == 0 { Row::LeftPadded(lhs_row) } else { Row::Pair(lhs_row, rhs_row) }),
{ if rhs_empty || rhs_row == 0 { Row::LeftPadded(lhs_row) } else { Row::Pair(lhs_row, rhs_row) } }

pub fn lhs_only_row(lhs_row: usize) -> (row: Row) ensures row == Row::Left(lhs_row), { Row::Left(lhs_row) }
pub fn rhs_padded_row(rhs_row: usize) -> (row: Row) ensures row == Row::RightPadded(rhs_row), { Row::RightPadded(rhs_row) }

// `vec![false; n]`
#[verifier::external_body]
pub fn vec_false(n: usize) -> (v: Vec<bool>)
  ensures v@.len() == n, forall|i: int| 0 <= i < n ==> !#[trigger] v@[i],
{ vec![false; n] }

// ---- reference semantics (relational algebra, in the order the rows are listed) ------------------------------------
// rhs rows 1..=n matching lhs row l, ascending
pub open spec fn matches_of(l: int, n: int) -> Seq<usize>
  decreases n,
{
  if n <= 0 { Seq::empty() } else if rm(l, n) { matches_of(l, n - 1).push(n as usize) } else { matches_of(l, n - 1) }
}
// some lhs row in 1..=i matches rhs row r
pub open spec fn any_match(i: int, r: int) -> bool
  decreases i,
{
  if i <= 0 { false } else { any_match(i - 1, r) || rm(i, r) }
}
// Pair(l, s[0]), .., Pair(l, s[k-1])
pub open spec fn pairs(l: usize, s: Seq<usize>, k: int) -> Seq<Row>
  decreases k,
{
  if k <= 0 { Seq::empty() } else { pairs(l, s, k - 1).push(Row::Pair(l, s[k - 1])) }
}
pub open spec fn keeps_unmatched_left(mode: JoinMode) -> bool { mode is LeftOuter || mode is FullOuter }
pub open spec fn keeps_unmatched_right(mode: JoinMode) -> bool { mode is RightOuter || mode is FullOuter }
// the rows lhs row l contributes
pub open spec fn rows_for(mode: JoinMode, l: usize, nr: int) -> Seq<Row> {
  let s = matches_of(l as int, nr);
  match mode {
    JoinMode::LeftSemi => if s.len() > 0 { seq![Row::Left(l)] } else { Seq::empty() },
    JoinMode::LeftAnti => if s.len() == 0 { seq![Row::Left(l)] } else { Seq::empty() },
    _ => if s.len() == 0 { if keeps_unmatched_left(mode) { seq![Row::LeftPadded(l)] } else { Seq::empty() } } else { pairs(l, s, s.len() as int) },
  }
}
pub open spec fn left_part(mode: JoinMode, i: int, nr: int) -> Seq<Row>
  decreases i,
{
  if i <= 0 { Seq::empty() } else { left_part(mode, i - 1, nr) + rows_for(mode, i as usize, nr) }
}
// rhs rows 1..=j that no lhs row in 1..=nl matches, ascending
pub open spec fn right_part(nl: int, j: int) -> Seq<Row>
  decreases j,
{
  if j <= 0 { Seq::empty() } else if any_match(nl, j) { right_part(nl, j - 1) } else { right_part(nl, j - 1).push(Row::RightPadded(j as usize)) }
}
pub open spec fn join_rows(mode: JoinMode, nl: int, nr: int) -> Seq<Row> {
  if keeps_unmatched_right(mode) { left_part(mode, nl, nr) + right_part(nl, nr) } else { left_part(mode, nl, nr) }
}

pub proof fn lemma_matches_of(l: int, n: int)
  requires n <= usize::MAX,
  ensures
    forall|j: int| 0 <= j < matches_of(l, n).len() ==> 1 <= (#[trigger] matches_of(l, n)[j]) <= n && rm(l, matches_of(l, n)[j] as int),
    forall|r: int| 1 <= r <= n && rm(l, r) && r <= usize::MAX ==> exists|j: int| 0 <= j < matches_of(l, n).len() && #[trigger] matches_of(l, n)[j] == r,
    matches_of(l, n).len() <= (if n <= 0 { 0 } else { n }),
  decreases n,
{
  if n > 0 {
    lemma_matches_of(l, n - 1);
    let p = matches_of(l, n - 1);
    let s = matches_of(l, n);
    if rm(l, n) {
      assert forall|r: int| 1 <= r <= n && rm(l, r) && r <= usize::MAX implies exists|j: int| 0 <= j < s.len() && #[trigger] s[j] == r by {
        if r == n { assert(s[p.len() as int] == n); }
        else { let j = choose|j: int| 0 <= j < p.len() && #[trigger] p[j] == r; assert(s[j] == r); }
      }
    } else {
      assert forall|r: int| 1 <= r <= n && rm(l, r) && r <= usize::MAX implies exists|j: int| 0 <= j < s.len() && #[trigger] s[j] == r by {
        let j = choose|j: int| 0 <= j < p.len() && #[trigger] p[j] == r; assert(s[j] == r);
      }
    }
  }
}
