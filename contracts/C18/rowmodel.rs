// Verus model for the row builders of the table join (src/interpreter/src/stdlib/table_ops.rs): `merge_rows` (whole) and the block of
// `build_joined_table` that builds the padded row of an unmatched rhs row.  A table's `data` (IndexMap<u64, (ValueKind, Matrix<Value>)>,
// iterated in insertion order) is a vector of column ids; reading cell (column, row) -- `t.data.get(id).map(|(_, col)| col.index1d(row))
// .unwrap_or(Value::Empty)` -- is the uninterpreted `cellv(table, id, row)`.  The row being built is a std HashMap<u64, Value> (vstd specs).
#[derive(Clone, Copy, PartialEq, Eq, Structural)]
pub enum Value { Empty, Cell(u64) }
pub struct MechTable { pub data: Vec<u64>, pub id: u64 }
pub uninterp spec fn cellv(t: u64, col: u64, row: usize) -> Value;
#[verifier::external_body]
pub fn cell(t: &MechTable, col: &u64, row: usize) -> (v: Value) ensures v == cellv(t.id, *col, row), { unimplemented!() }
// `common_cols.iter().find(|(l, _)| l == lhs_id)`: the rhs column that carries the same name as lhs column `lhs_id`
pub uninterp spec fn partner(common: u64, lhs_col: u64) -> Option<u64>;
pub struct CommonCols { pub id: u64 }
#[verifier::external_body]
pub fn find_common(common_cols: &CommonCols, lhs_id: &u64) -> (r: Option<u64>) ensures r == partner(common_cols.id, *lhs_id), { unimplemented!() }
pub open spec fn has(v: Seq<u64>, x: u64) -> bool { exists|i: int| 0 <= i < v.len() && v[i] == x }
