// Verus model for `expand_mechdown_includes_recursive` / `expand_mechdown_include_tokens` (src/mechfs.rs).
// Text is a sequence of bytes; `String` is `Str` (a ghost byte sequence with push_str / is_empty / clear); a path is an
// identity (u64).  The std / file-system functions the code calls are NAMED, not defined (uninterpreted spec functions with
// an external_body stand-in each): split_inclusive, strip_suffix, trim, Path::parent / join / canonicalize, File::open +
// read_to_string.  The three line classifiers `code_fence_delimiter` (proved elsewhere: C20.classifier.*),
// `is_code_fence_close`, `standalone_braced_content`, `looks_like_mech_include` are named as well.
// The recursive call is the stand-in `expand_mechdown_includes_recursive_rec`, whose result is the NAME `rec(path, active)`:
// the contract proved for the real function body is its recursion equation  F(path, A) = unfold(path, A)[rec := F].

pub type Txt = Seq<u8>;

pub struct Str { pub v: Ghost<Txt> }
impl Str {
  #[verifier::external_body]
  pub fn new() -> (r: Str) ensures r.v@ == Seq::<u8>::empty(), { unimplemented!() }
  #[verifier::external_body]
  pub fn push_str(&mut self, s: &Str) ensures final(self).v@ == old(self).v@ + s.v@, { unimplemented!() }
  #[verifier::external_body]
  pub fn is_empty(&self) -> (b: bool) ensures b == (self.v@.len() == 0), { unimplemented!() }
  #[verifier::external_body]
  pub fn clear(&mut self) ensures final(self).v@ == Seq::<u8>::empty(), { unimplemented!() }
}
pub open spec fn nl() -> Txt { seq![10u8] }
#[verifier::external_body]
pub fn nl_str() -> (r: &'static Str) ensures r.v@ == nl(), { unimplemented!() }
#[verifier::external_body]
pub fn empty_str() -> (r: &'static Str) ensures r.v@ == Seq::<u8>::empty(), { unimplemented!() }

// ---- std, named -----------------------------------------------------------------------------------------------------
pub uninterp spec fn lines(s: Txt) -> Seq<Txt>;                 // str::split_inclusive('\n')
pub uninterp spec fn strip_nl(l: Txt) -> Option<Txt>;           // str::strip_suffix('\n')
pub uninterp spec fn trimmed(l: Txt) -> Txt;                    // str::trim
pub uninterp spec fn canon(p: u64) -> Option<u64>;              // Path::canonicalize (None = error)
pub uninterp spec fn parent_of(p: u64) -> u64;                     // Path::parent().unwrap_or(Path::new("."))
pub uninterp spec fn pjoin(dir: u64, raw: Txt) -> u64;          // Path::join
pub uninterp spec fn readf(p: u64) -> Option<Txt>;              // File::open + read_to_string (None = error)
// ---- the line classifiers of mechfs.rs, named --------------------------------------------------------------------------
pub uninterp spec fn cfd(l: Txt) -> Option<(char, usize, usize)>;            // code_fence_delimiter
pub uninterp spec fn closes(l: Txt, marker: char, min_len: usize) -> bool;   // is_code_fence_close
pub uninterp spec fn sbc(l: Txt) -> Option<Txt>;                             // standalone_braced_content
pub uninterp spec fn looks(inner: Txt) -> bool;                              // looks_like_mech_include
// ---- the recursive call, named -----------------------------------------------------------------------------------------
pub uninterp spec fn rec(p: u64, active: Set<u64>) -> Option<Txt>;

#[verifier::external_body]
pub fn split_inclusive_nl(s: &Str) -> (r: Vec<Str>)
  ensures r@.len() == lines(s.v@).len(), forall|k: int| 0 <= k < r@.len() ==> (#[trigger] r@[k]).v@ == lines(s.v@)[k],
{ unimplemented!() }
#[verifier::external_body]
pub fn strip_suffix_nl<'a>(l: &'a Str) -> (r: Option<&'a Str>)
  ensures (match r { Some(p) => strip_nl(l.v@) == Some(p.v@), None => strip_nl(l.v@) is None }),
{ unimplemented!() }
#[verifier::external_body]
pub fn trim<'a>(l: &'a Str) -> (r: &'a Str) ensures r.v@ == trimmed(l.v@), { unimplemented!() }
#[verifier::external_body]
pub fn canonicalize(p: &u64) -> (r: Option<u64>) ensures r == canon(*p), { unimplemented!() }
#[verifier::external_body]
pub fn parent_or_dot(p: &u64) -> (r: u64) ensures r == parent_of(*p), { unimplemented!() }
#[verifier::external_body]
pub fn path_join(dir: u64, raw: &Str) -> (r: u64) ensures r == pjoin(dir, raw.v@), { unimplemented!() }
#[verifier::external_body]
pub fn read_to_string(p: &u64, into: &mut Str) -> (r: Option<()>)
  requires old(into).v@.len() == 0,
  ensures (match r { Some(_) => readf(*p) == Some(final(into).v@), None => readf(*p) is None }),
{ unimplemented!() }
#[verifier::external_body]
pub fn code_fence_delimiter(l: &Str) -> (r: Option<(char, usize, usize)>) ensures r == cfd(l.v@), { unimplemented!() }
#[verifier::external_body]
pub fn is_code_fence_close(l: &Str, marker: char, min_len: usize) -> (r: bool) ensures r == closes(l.v@, marker, min_len), { unimplemented!() }
#[verifier::external_body]
pub fn standalone_braced_content<'a>(l: &'a Str) -> (r: Option<&'a Str>)
  ensures (match r { Some(p) => sbc(l.v@) == Some(p.v@), None => sbc(l.v@) is None }),
{ unimplemented!() }
#[verifier::external_body]
pub fn looks_like_mech_include(inner: &Str) -> (r: bool) ensures r == looks(inner.v@), { unimplemented!() }
// modular recursion: the inner call returns what the function returns (the name `rec`), and -- its own contract -- restores the set on success
#[verifier::external_body]
pub fn expand_mechdown_includes_recursive_rec(p: &u64, active_set: &mut HashSet<u64>) -> (r: Option<Str>)
  ensures (match r { Some(t) => rec(*p, old(active_set)@) == Some(t.v@) && final(active_set)@ == old(active_set)@, None => rec(*p, old(active_set)@) is None }),
{ unimplemented!() }

// ---- ASSUMED facts about str::split_inclusive('\n') (std documents: "the matched substring is part of the piece as a terminator") ----
// re-splitting the concatenation of consecutive pieces gives those pieces back; pieces are never empty
#[verifier::external_body]
pub proof fn axiom_lines_of_consecutive_pieces(s: Txt, a: int, b: int)
  requires 0 <= a <= b <= lines(s).len(),
  ensures lines(flat(lines(s).subrange(a, b))) == lines(s).subrange(a, b),
{ }
#[verifier::external_body]
pub proof fn axiom_pieces_nonempty(s: Txt, k: int)
  requires 0 <= k < lines(s).len(),
  ensures lines(s)[k].len() > 0,
{ }

// ---- THE CONTRACT, written from the property statement (C20) -----------------------------------------------------------
pub open spec fn cat(a: Option<Txt>, b: Option<Txt>) -> Option<Txt> {
  match (a, b) { (Some(x), Some(y)) => Some(x + y), _ => None }
}
pub open spec fn flat(ls: Seq<Txt>) -> Txt decreases ls.len() {
  if ls.len() == 0 { Seq::<u8>::empty() } else { flat(ls.drop_last()) + ls.last() }
}
// one line outside every fence: a stand-alone `{path.mec}` line is replaced by the fully expanded contents of that file, resolved
// relative to the including file, followed by the line's own newline; every other line (other brace expressions included) is untouched
pub open spec fn tokline(l: Txt, cp: u64, active: Set<u64>) -> Option<Txt> {
  let (lw, newline) = match strip_nl(l) { Some(p) => (p, nl()), None => (l, Seq::<u8>::empty()) };
  match sbc(lw) {
    Some(inner) => if looks(inner) {
        match canon(pjoin(parent_of(cp), trimmed(inner))) {
          None => None,                                        // a missing file is an error
          Some(ic) => cat(rec(ic, active), Some(newline)),
        }
      } else { Some(l) },
    None => Some(l),
  }
}
pub open spec fn toks(ls: Seq<Txt>, cp: u64, active: Set<u64>) -> Option<Txt> decreases ls.len() {
  if ls.len() == 0 { Some(Seq::<u8>::empty()) } else { cat(toks(ls.drop_last(), cp, active), tokline(ls.last(), cp, active)) }
}
// the document, line by line: inside a code fence every line is copied (the fence ends at its closing delimiter), a fence-opening
// line is copied and opens a fence, every other line is expanded by `tokline`
pub open spec fn doc(ls: Seq<Txt>, k: int, fence: Option<(char, usize)>, cp: u64, active: Set<u64>) -> Option<Txt>
  decreases ls.len() - k,
{
  if k < 0 || k >= ls.len() { Some(Seq::<u8>::empty()) } else {
    let l = ls[k];
    match fence {
      Some((m, n)) => cat(Some(l), doc(ls, k + 1, if closes(l, m, n) { None } else { fence }, cp, active)),
      None => match cfd(l) {
        Some((m, len, _j)) => cat(Some(l), doc(ls, k + 1, Some((m, len)), cp, active)),
        None => cat(tokline(l, cp, active), doc(ls, k + 1, None, cp, active)),
      },
    }
  }
}
// loading a file: a file that is being expanded is a cycle (error); otherwise its lines are expanded with the file in the active set
pub open spec fn unfold(path: u64, active: Set<u64>) -> Option<Txt> {
  match canon(path) {
    None => None,
    Some(cp) => if active.contains(cp) { None } else {
      match readf(cp) { None => None, Some(src) => doc(lines(src), 0, None, cp, active.insert(cp)) }
    },
  }
}

// ---- lemmas -------------------------------------------------------------------------------------------------------------
pub proof fn lemma_cat_assoc(a: Option<Txt>, b: Option<Txt>, c: Option<Txt>)
  ensures cat(cat(a, b), c) == cat(a, cat(b, c)),
{
  if a is Some && b is Some && c is Some { assert((a.unwrap() + b.unwrap()) + c.unwrap() =~= a.unwrap() + (b.unwrap() + c.unwrap())); }
}
pub proof fn lemma_cat_empty(a: Option<Txt>)
  ensures cat(a, Some(Seq::<u8>::empty())) == a, cat(Some(Seq::<u8>::empty()), a) == a,
{
  if a is Some { assert(a.unwrap() + Seq::<u8>::empty() =~= a.unwrap()); assert(Seq::<u8>::empty() + a.unwrap() =~= a.unwrap()); }
}
pub proof fn lemma_toks_push(ls: Seq<Txt>, l: Txt, cp: u64, active: Set<u64>)
  ensures toks(ls.push(l), cp, active) == cat(toks(ls, cp, active), tokline(l, cp, active)),
{
  assert(ls.push(l).drop_last() =~= ls);
}
pub proof fn lemma_flat_push(ls: Seq<Txt>, l: Txt)
  ensures flat(ls.push(l)) == flat(ls) + l,
{
  assert(ls.push(l).drop_last() =~= ls);
}
pub proof fn lemma_flat_empty_means_no_pieces(s: Txt, a: int, b: int)
  requires 0 <= a <= b <= lines(s).len(), flat(lines(s).subrange(a, b)).len() == 0,
  ensures a == b,
{
  if a < b {
    let sub = lines(s).subrange(a, b);
    axiom_pieces_nonempty(s, b - 1);
    assert(sub.last() == lines(s)[b - 1]);
  }
}
