// 1-based, column-major reference model of matrix indexing, shared by the C03
// (reads) and C04 (assignments) harnesses.  A selection is the list of 0-based
// positions an index expression addresses along one dimension.
#[allow(dead_code)]
pub(crate) mod ixm {
    pub const BAD: usize = usize::MAX;
    /// scalar index i (1-based) -> [i-1]; 0 is out of range
    pub fn sel_scalar(ix: usize) -> Vec<usize> { vec![if ix == 0 { BAD } else { ix - 1 }] }
    /// index vector (with repeats)
    pub fn sel_vec(ix: &[usize]) -> Vec<usize> {
        let mut v = Vec::new();
        let mut k = 0;
        while k < ix.len() { v.push(if ix[k] == 0 { BAD } else { ix[k] - 1 }); k += 1; }
        v
    }
    /// logical mask: positions where the mask is true, in increasing order
    pub fn sel_mask(m: &[bool]) -> Vec<usize> {
        let mut v = Vec::new();
        let mut k = 0;
        while k < m.len() { if m[k] { v.push(k); } k += 1; }
        v
    }
    /// `:`
    pub fn sel_all(dim: usize) -> Vec<usize> {
        let mut v = Vec::new();
        let mut k = 0;
        while k < dim { v.push(k); k += 1; }
        v
    }
    /// every addressed position exists
    pub fn in_range(sel: &[usize], dim: usize) -> bool {
        let mut k = 0;
        while k < sel.len() { if sel[k] == BAD || sel[k] >= dim { return false; } k += 1; }
        true
    }
    /// the |rows| x |cols| block src[rows, cols], column-major; src is column-major with `nrows` rows
    pub fn read_block<T: Clone>(src: &[T], nrows: usize, rows: &[usize], cols: &[usize]) -> Vec<T> {
        let mut out = Vec::new();
        let mut b = 0;
        while b < cols.len() {
            let mut a = 0;
            while a < rows.len() { out.push(src[rows[a] + cols[b] * nrows].clone()); a += 1; }
            b += 1;
        }
        out
    }
    /// is linear position p (column-major, `nrows` rows) addressed by rows x cols ?
    pub fn addressed(p: usize, nrows: usize, rows: &[usize], cols: &[usize]) -> bool {
        let (r, c) = (p % nrows, p / nrows);
        let mut hit_r = false; let mut a = 0;
        while a < rows.len() { if rows[a] == r { hit_r = true; } a += 1; }
        let mut hit_c = false; let mut b = 0;
        while b < cols.len() { if cols[b] == c { hit_c = true; } b += 1; }
        hit_r && hit_c
    }
    pub fn distinct(sel: &[usize]) -> bool {
        let mut a = 0;
        while a < sel.len() { let mut b = a + 1; while b < sel.len() { if sel[a] == sel[b] { return false; } b += 1; } a += 1; }
        true
    }
}
