// Verus model of the nalgebra containers the indexing kernels operate on (column-major storage,
// bounds-checked Index/IndexMut, resize_*_mut).  The kernels' macro bodies are transcribed onto
// this model mechanically (see /verif/units/vmat.py for the rewrite rules); a panicking nalgebra
// operation (index out of bounds, `x - 1` on 0) is an early `None` return via `?`.
// ASSUMED (not proved): nalgebra's DMatrix/DVector/RowDVector behave as this model.

pub struct Mat { pub d: Vec<u64>, pub r: usize, pub c: usize }
pub struct IVec { pub d: Vec<usize> }
pub struct BVec { pub d: Vec<bool> }

pub open spec fn cm(r: int, i: int, j: int) -> int { j * r + i }

pub proof fn lemma_cm_bound(r: int, c: int, i: int, j: int)
  requires 0 <= i < r, 0 <= j < c,
  ensures 0 <= j * r, 0 <= cm(r, i, j) < r * c,
{
  assert(j * r + i < (j + 1) * r) by (nonlinear_arith) requires 0 <= i < r, 0 <= j;
  assert((j + 1) * r <= c * r) by (nonlinear_arith) requires j + 1 <= c, r >= 0;
  assert(c * r == r * c) by (nonlinear_arith);
  assert(0 <= j * r) by (nonlinear_arith) requires 0 <= j, 0 <= r;
}

pub proof fn lemma_mul_ge(r: int, c: int)
  requires r >= 0, c >= 1,
  ensures r * c >= r,
{ assert(r * c >= r) by (nonlinear_arith) requires r >= 0, c >= 1; }

pub proof fn lemma_divmod(r: int, i: int, j: int)
  requires 0 <= i < r, 0 <= j,
  ensures (j * r + i) % r == i, (j * r + i) / r == j, (j + 1) * r == j * r + r,
{
  vstd::arithmetic::div_mod::lemma_fundamental_div_mod_converse(j * r + i, r, j, i);
  assert((j + 1) * r == j * r + r) by (nonlinear_arith);
}

// column j of the block that starts at column c0 (horizontal layout), row i of the block that starts at row r0 of a
// matrix with `rr` rows (vertical layout)
pub proof fn lemma_cm_shift_col(r: int, c0: int, i: int, j: int)
  ensures cm(r, i, c0 + j) == c0 * r + cm(r, i, j),
{ assert((c0 + j) * r == c0 * r + j * r) by (nonlinear_arith); }

// cm is injective on the index rectangle
pub proof fn lemma_cm_inj(r: int, i1: int, j1: int, i2: int, j2: int)
  requires 0 <= i1 < r, 0 <= i2 < r, 0 <= j1, 0 <= j2, cm(r, i1, j1) == cm(r, i2, j2),
  ensures i1 == i2 && j1 == j2,
{
  if j1 < j2 {
    assert(j1 * r + i1 < (j1 + 1) * r) by (nonlinear_arith) requires 0 <= i1 < r;
    assert((j1 + 1) * r <= j2 * r) by (nonlinear_arith) requires j1 + 1 <= j2, r >= 0;
  } else if j2 < j1 {
    assert(j2 * r + i2 < (j2 + 1) * r) by (nonlinear_arith) requires 0 <= i2 < r;
    assert((j2 + 1) * r <= j1 * r) by (nonlinear_arith) requires j2 + 1 <= j1, r >= 0;
  }
}

// 1-based index vector addresses only existing positions of a dimension of size dim
pub open spec fn ix_ok(ix: Seq<usize>, dim: int) -> bool {
  forall|k: int| 0 <= k < ix.len() ==> 1 <= #[trigger] ix[k] <= dim
}

// position p (0-based) is addressed by one of the first n entries of a 1-based index vector
pub open spec fn hit(ix: Seq<usize>, n: int, p: int) -> bool {
  exists|k: int| 0 <= k < n && #[trigger] ix[k] == p + 1
}

pub open spec fn distinct(ix: Seq<usize>) -> bool {
  forall|a: int, b: int| 0 <= a < b < ix.len() ==> #[trigger] ix[a] != #[trigger] ix[b]
}

// number of `true` among the first n entries of a mask
pub open spec fn cnt(m: Seq<bool>, n: int) -> int
  decreases n,
{
  if n <= 0 { 0 } else { cnt(m, n - 1) + if m[n - 1] { 1int } else { 0int } }
}

pub proof fn lemma_cnt_bounds(m: Seq<bool>, n: int)
  requires 0 <= n,
  ensures 0 <= cnt(m, n) <= n,
  decreases n,
{
  if n > 0 { lemma_cnt_bounds(m, n - 1); }
}

pub proof fn lemma_cnt_mono(m: Seq<bool>, a: int, b: int)
  requires 0 <= a <= b,
  ensures cnt(m, a) <= cnt(m, b),
  decreases b - a,
{
  if a < b { lemma_cnt_mono(m, a, b - 1); }
}

// a selected position's rank is below the number of selected positions
pub proof fn lemma_cnt_lt(m: Seq<bool>, n: int)
  requires 0 <= n <= m.len(),
  ensures forall|b: int| 0 <= b < n && #[trigger] m[b] ==> 0 <= cnt(m, b) < cnt(m, n),
{
  assert forall|b: int| 0 <= b < n && #[trigger] m[b] implies 0 <= cnt(m, b) < cnt(m, n) by {
    lemma_cnt_bounds(m, b);
    lemma_cnt_mono(m, b + 1, n);
  }
}

impl Mat {
  // spec counterparts of len() / nrows() / ncols() (used for the facts about hoisted dimension locals, see vmat.dimension_facts)
  pub open spec fn ln(&self) -> int { self.d@.len() as int }
  pub open spec fn nr(&self) -> int { self.r as int }
  pub open spec fn nc(&self) -> int { self.c as int }
  pub open spec fn wf(&self) -> bool { self.d@.len() == self.r * self.c }
  pub open spec fn at(&self, i: int, j: int) -> u64 { self.d@[cm(self.r as int, i, j)] }
  pub fn len(&self) -> (n: usize) ensures n == self.d@.len() { self.d.len() }
  pub fn nrows(&self) -> (n: usize) ensures n == self.r { self.r }
  pub fn ncols(&self) -> (n: usize) ensures n == self.c { self.c }
  // nalgebra `m.index(i)` / `m[i]`: linear, column-major, panics when i >= len
  pub fn get1(&self, i: usize) -> (o: Option<u64>)
    ensures i < self.d@.len() ==> o == Some(self.d@[i as int]), i >= self.d@.len() ==> o.is_none(),
  { if i < self.d.len() { Some(self.d[i]) } else { None } }
  // nalgebra `m.index((i, j))` / `m[(i, j)]`: panics when i >= nrows or j >= ncols
  pub fn get2(&self, i: usize, j: usize) -> (o: Option<u64>)
    requires self.wf(),
    ensures (i < self.r && j < self.c) ==> o == Some(self.at(i as int, j as int)), !(i < self.r && j < self.c) ==> o.is_none(),
  {
    if i < self.r && j < self.c {
      let n = self.d.len();
      proof {
        lemma_cm_bound(self.r as int, self.c as int, i as int, j as int);
        assert((j as int) * (self.r as int) + (i as int) < n);
        assert(0 <= (j as int) * (self.r as int) <= (j as int) * (self.r as int) + (i as int));
      }
      Some(self.d[j * self.r + i])
    } else { None }
  }
  // nalgebra `m[i] = v`
  pub fn set1(&mut self, i: usize, v: u64) -> (o: Option<()>)
    ensures i < old(self).d@.len() ==> o.is_some() && final(self).d@ == old(self).d@.update(i as int, v),
            i >= old(self).d@.len() ==> o.is_none() && final(self).d@ == old(self).d@,
            final(self).r == old(self).r, final(self).c == old(self).c,
  { if i < self.d.len() { self.d.set(i, v); Some(()) } else { None } }
  // nalgebra `m[(i, j)] = v`
  pub fn set2(&mut self, i: usize, j: usize, v: u64) -> (o: Option<()>)
    requires old(self).wf(),
    ensures (i < old(self).r && j < old(self).c) ==> o.is_some()
              && (forall|a: int, b: int| 0 <= a < old(self).r && 0 <= b < old(self).c ==>
                    #[trigger] final(self).at(a, b) == (if a == i && b == j { v } else { old(self).at(a, b) })),
            !(i < old(self).r && j < old(self).c) ==> o.is_none() && final(self).d@ == old(self).d@,
            final(self).r == old(self).r, final(self).c == old(self).c, final(self).wf(),
  {
    if i < self.r && j < self.c {
      let n = self.d.len();
      proof {
        lemma_cm_bound(self.r as int, self.c as int, i as int, j as int);
        assert((j as int) * (self.r as int) + (i as int) < n);
        assert(0 <= (j as int) * (self.r as int) <= (j as int) * (self.r as int) + (i as int));
      }
      let k = j * self.r + i;
      self.d.set(k, v);
      proof {
        assert forall|a: int, b: int| 0 <= a < old(self).r && 0 <= b < old(self).c implies
            #[trigger] self.at(a, b) == (if a == i && b == j { v } else { old(self).at(a, b) }) by {
          lemma_cm_bound(self.r as int, self.c as int, a, b);
          if !(a == i && b == j) { if cm(self.r as int, a, b) == cm(self.r as int, i as int, j as int) { lemma_cm_inj(self.r as int, a, b, i as int, j as int); } }
        }
      }
      Some(())
    } else { None }
  }
  // nalgebra `m.column_mut(c)` / `m.row_mut(r)`: panics when the column / row does not exist
  pub fn col_ok(&self, c: usize) -> (o: Option<usize>)
    ensures c < self.c ==> o == Some(c), c >= self.c ==> o.is_none(),
  { if c < self.c { Some(c) } else { None } }
  pub fn row_ok(&self, r: usize) -> (o: Option<usize>)
    ensures r < self.r ==> o == Some(r), r >= self.r ==> o.is_none(),
  { if r < self.r { Some(r) } else { None } }
  // nalgebra resize_vertically_mut / resize_horizontally_mut / resize_mut on dynamic storage: only the
  // resulting shape is assumed (the kernels overwrite every element afterwards; contents left unspecified)
  #[verifier::external_body]
  pub fn resize_vertically_mut(&mut self, n: usize, v: u64)
    requires old(self).wf(),
    ensures final(self).wf(), final(self).r == n, final(self).c == old(self).c,
  { unimplemented!() }
  #[verifier::external_body]
  pub fn resize_horizontally_mut(&mut self, n: usize, v: u64)
    requires old(self).wf(),
    ensures final(self).wf(), final(self).r == old(self).r, final(self).c == n,
  { unimplemented!() }
  #[verifier::external_body]
  pub fn resize_mut(&mut self, n: usize, m: usize, v: u64)
    requires old(self).wf(),
    ensures final(self).wf(), final(self).r == n, final(self).c == m,
  { unimplemented!() }
}

// `x - 1` on an index: panics (debug) / wraps to usize::MAX and then fails the bounds check (release) when x == 0
pub fn dec(x: usize) -> (o: Option<usize>)
  ensures x > 0 ==> o == Some((x - 1) as usize), x == 0 ==> o.is_none(),
{ if x > 0 { Some(x - 1) } else { None } }

impl IVec {
  pub open spec fn ln(&self) -> int { self.d@.len() as int }
  pub open spec fn nr(&self) -> int { self.d@.len() as int }
  pub fn len(&self) -> (n: usize) ensures n == self.d@.len() { self.d.len() }
  pub fn nrows(&self) -> (n: usize) ensures n == self.d@.len() { self.d.len() }
  pub fn get1(&self, i: usize) -> (o: Option<usize>)
    ensures i < self.d@.len() ==> o == Some(self.d@[i as int]), i >= self.d@.len() ==> o.is_none(),
  { if i < self.d.len() { Some(self.d[i]) } else { None } }
}
impl BVec {
  pub open spec fn ln(&self) -> int { self.d@.len() as int }
  pub open spec fn nr(&self) -> int { self.d@.len() as int }
  pub fn len(&self) -> (n: usize) ensures n == self.d@.len() { self.d.len() }
  pub fn nrows(&self) -> (n: usize) ensures n == self.d@.len() { self.d.len() }
  pub fn get1(&self, i: usize) -> (o: Option<bool>)
    ensures i < self.d@.len() ==> o == Some(self.d@[i as int]), i >= self.d@.len() ==> o.is_none(),
  { if i < self.d.len() { Some(self.d[i]) } else { None } }
}

// element arithmetic of the op-assignment kernels: one uninterpreted total function per operator (the kernels are generic
// in the element type; overflow / division by zero of the element type are outside this model)
pub uninterp spec fn opf_add(a: u64, b: u64) -> u64;
pub uninterp spec fn opf_sub(a: u64, b: u64) -> u64;
pub uninterp spec fn opf_mul(a: u64, b: u64) -> u64;
pub uninterp spec fn opf_div(a: u64, b: u64) -> u64;
#[verifier::external_body] pub fn wadd(a: u64, b: u64) -> (o: Option<u64>) ensures o == Some(opf_add(a, b)) { unimplemented!() }
#[verifier::external_body] pub fn wsub(a: u64, b: u64) -> (o: Option<u64>) ensures o == Some(opf_sub(a, b)) { unimplemented!() }
#[verifier::external_body] pub fn wmul(a: u64, b: u64) -> (o: Option<u64>) ensures o == Some(opf_mul(a, b)) { unimplemented!() }
#[verifier::external_body] pub fn wdiv(a: u64, b: u64) -> (o: Option<u64>) ensures o == Some(opf_div(a, b)) { unimplemented!() }

// position, in the column-major destination with `rr` rows, of the k-th element (column-major) of a block with `r` rows
// whose top-left element is at linear position `off`
pub open spec fn rm_pos(off: int, r: int, rr: int, k: int) -> int { off + (k / r) * rr + (k % r) }

pub proof fn lemma_rm_step(off: int, r: int, rr: int, k: int)
  requires r >= 1, k >= 0,
  ensures (k + 1) % r == 0 ==> rm_pos(off, r, rr, k + 1) == rm_pos(off, r, rr, k) + (rr - r) + 1,
          (k + 1) % r != 0 ==> rm_pos(off, r, rr, k + 1) == rm_pos(off, r, rr, k) + 1,
{
  let q = k / r; let m = k % r;
  vstd::arithmetic::div_mod::lemma_fundamental_div_mod(k, r);
  vstd::arithmetic::div_mod::lemma_mod_pos_bound(k, r);
  assert(k == r * q + m);
  assert(r * q == q * r) by (nonlinear_arith);
  if m + 1 < r {
    vstd::arithmetic::div_mod::lemma_fundamental_div_mod_converse(k + 1, r, q, m + 1);
  } else {
    assert((q + 1) * r == q * r + r) by (nonlinear_arith);
    vstd::arithmetic::div_mod::lemma_fundamental_div_mod_converse(k + 1, r, q + 1, 0);
    assert((q + 1) * rr == q * rr + rr) by (nonlinear_arith);
  }
}

pub proof fn lemma_rm_bound(off: int, r: int, c: int, rr: int, k: int)
  requires r >= 1, rr >= r, 0 <= k < r * c,
  ensures off <= rm_pos(off, r, rr, k) <= off + (c - 1) * rr + (r - 1), 0 <= k / r < c, 0 <= k % r < r,
{
  let q = k / r; let m = k % r;
  vstd::arithmetic::div_mod::lemma_fundamental_div_mod(k, r);
  vstd::arithmetic::div_mod::lemma_mod_pos_bound(k, r);
  assert(r * q == q * r) by (nonlinear_arith);
  assert(q >= 0) by (nonlinear_arith) requires k == q * r + m, 0 <= m < r, k >= 0, r >= 1;
  assert(q < c) by (nonlinear_arith) requires k == q * r + m, 0 <= m < r, k < r * c, r >= 1;
  assert(q * rr <= (c - 1) * rr) by (nonlinear_arith) requires q <= c - 1, rr >= 0;
  assert(q * rr >= 0) by (nonlinear_arith) requires q >= 0, rr >= 0;
}

pub proof fn lemma_rm_at(off: int, r: int, rr: int, i: int, j: int)
  requires 0 <= i < r, 0 <= j,
  ensures rm_pos(off, r, rr, j * r + i) == off + j * rr + i,
{
  vstd::arithmetic::div_mod::lemma_fundamental_div_mod_converse(j * r + i, r, j, i);
}

// total number of elements of the first n blocks
pub open spec fn total(es: Seq<Mat>, n: int) -> int
  decreases n,
{
  if n <= 0 { 0 } else { total(es, n - 1) + es[n - 1].d@.len() }
}

pub proof fn lemma_total_mono(es: Seq<Mat>, a: int, b: int)
  requires 0 <= a <= b,
  ensures 0 <= total(es, a) <= total(es, b),
  decreases b,
{
  if b > 0 { if a < b { lemma_total_mono(es, a, b - 1); } else { lemma_total_mono(es, a - 1, b - 1); } }
}

// total number of rows of the first n blocks
pub open spec fn rsum(es: Seq<Mat>, n: int) -> int
  decreases n,
{
  if n <= 0 { 0 } else { rsum(es, n - 1) + es[n - 1].r }
}

pub proof fn lemma_rsum_mono(es: Seq<Mat>, a: int, b: int)
  requires 0 <= a <= b,
  ensures 0 <= rsum(es, a) <= rsum(es, b),
  decreases b,
{
  if b > 0 { if a < b { lemma_rsum_mono(es, a, b - 1); } else { lemma_rsum_mono(es, a - 1, b - 1); } }
}
