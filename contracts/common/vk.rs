// Harness support, `include!`d at the top of every generated in-crate harness
// module.  Under Kani `vk::any` is `kani::any`; in a native replay build
// (`--cfg verif_replay`) it pops the concrete bytes Kani printed for the
// counterexample, so that the *same harness body* runs against the real code.
#[allow(dead_code, unused_imports, unused_macros, unused_variables)]
pub(crate) mod vk {
    #[cfg(not(kani))]
    thread_local! {
        pub static QUEUE: core::cell::RefCell<std::collections::VecDeque<Vec<u8>>> =
            core::cell::RefCell::new(std::collections::VecDeque::new());
    }
    #[cfg(not(kani))]
    pub fn load(vals: &[Vec<u8>]) {
        QUEUE.with(|q| { let mut q = q.borrow_mut(); q.clear(); for v in vals { q.push_back(v.clone()); } });
    }
    #[cfg(not(kani))]
    fn pop(n: usize) -> Vec<u8> {
        QUEUE.with(|q| {
            let mut v = q.borrow_mut().pop_front().unwrap_or_else(|| vec![0u8; n]);
            v.resize(n, 0);
            v
        })
    }
    pub trait VkAny: Sized { fn vk_any() -> Self; }
    macro_rules! prim {
        ($($t:ty),*) => {$(
            impl VkAny for $t {
                #[cfg(kani)] fn vk_any() -> Self { kani::any() }
                #[cfg(not(kani))] fn vk_any() -> Self {
                    let b = pop(core::mem::size_of::<$t>());
                    let mut a = [0u8; core::mem::size_of::<$t>()];
                    a.copy_from_slice(&b);
                    <$t>::from_le_bytes(a)
                }
            }
        )*};
    }
    prim!(u8, u16, u32, u64, u128, usize, i8, i16, i32, i64, i128, isize);
    impl VkAny for f32 {
        #[cfg(kani)] fn vk_any() -> Self { kani::any() }
        #[cfg(not(kani))] fn vk_any() -> Self { f32::from_bits(u32::vk_any()) }
    }
    impl VkAny for f64 {
        #[cfg(kani)] fn vk_any() -> Self { kani::any() }
        #[cfg(not(kani))] fn vk_any() -> Self { f64::from_bits(u64::vk_any()) }
    }
    impl VkAny for bool {
        #[cfg(kani)] fn vk_any() -> Self { kani::any() }
        #[cfg(not(kani))] fn vk_any() -> Self { pop(1)[0] != 0 }
    }
    pub fn any<T: VkAny>() -> T { T::vk_any() }
    pub fn any_vec<T: VkAny>(n: usize) -> Vec<T> {
        let mut v = Vec::with_capacity(n);
        let mut i = 0;
        while i < n { v.push(T::vk_any()); i += 1; }
        v
    }
    #[cfg(kani)]
    pub fn assume(c: bool) { kani::assume(c) }
    #[cfg(not(kani))]
    pub fn assume(c: bool) { if !c { panic!("VK-ASSUME: replay inputs do not satisfy the contract's precondition"); } }
    /// a point that must be reachable (vacuity guard)
    #[cfg(kani)]
    pub fn reach() { kani::cover!(true, "VKCOVER"); }
    #[cfg(not(kani))]
    pub fn reach() {}

    // value identity: `==` for everything except floats, where the bits must
    // agree or both be NaN
    pub trait Same { fn same(&self, o: &Self) -> bool; }
    macro_rules! same_eq { ($($t:ty),*) => {$( impl Same for $t { fn same(&self, o: &Self) -> bool { *self == *o } } )*}; }
    same_eq!(u8, u16, u32, u64, u128, usize, i8, i16, i32, i64, i128, isize, bool, String);
    impl Same for f32 { fn same(&self, o: &Self) -> bool { self.to_bits() == o.to_bits() || (self.is_nan() && o.is_nan()) } }
    impl Same for f64 { fn same(&self, o: &Self) -> bool { self.to_bits() == o.to_bits() || (self.is_nan() && o.is_nan()) } }
    pub fn same<T: Same>(a: &T, b: &T) -> bool { a.same(b) }
}

// Native replay entry: one exported symbol per harness module.
#[allow(unused_macros)]
macro_rules! vk_registry {
    ($export:ident; $($h:ident),* $(,)?) => {
        #[cfg(not(kani))]
        #[unsafe(no_mangle)]
        pub fn $export(name: &str, vals: &[Vec<u8>]) -> i32 {
            vk::load(vals);
            $( if name == stringify!($h) { $h(); return 0; } )*
            -1
        }
    };
}
