// C06 demonstration: compile `x[2] = 10`, load the bytecode into a FRESH interpreter,
// then re-evaluate the loaded plan once (REPL :step).  The loaded Assign1DS struct was built
// by its factory from (out, arg1, arg2) = (sink, ixes, source) although it reads arg1 as the
// source and arg2 as the index.
use mech_core::*;
use mech_syntax::*;
use mech_interpreter::*;

fn main() {
  let code = "~x := [1 2 3]; x[2] = 10";
  let mut a = Interpreter::new(0);
  let tree = parser::parse(code).expect("parse");
  let direct = a.interpret(&tree).expect("interpret");
  let bytes = a.compile().expect("compile");
  let prog = ParsedProgram::from_bytes(&bytes).expect("load");
  let mut b = Interpreter::new(1);
  let loaded = b.run_program(&prog).expect("run");
  println!("interpreter result : {:?}", direct);
  println!("loaded result      : {:?}", loaded);
  let r = std::panic::catch_unwind(std::panic::AssertUnwindSafe(|| b.step(0, 1)));
  match r {
    Ok(Ok(v)) => { println!("after one step     : {:?}", v); if v != direct { println!("DEMO-RESULT: MISMATCH after re-evaluation of the loaded plan"); std::process::exit(1); } }
    Ok(Err(e)) => { println!("DEMO-RESULT: step returned an error: {:?}", e.kind_name()); std::process::exit(1); }
    Err(_) => { println!("DEMO-RESULT: step panicked"); std::process::exit(1); }
  }
  println!("DEMO-RESULT: OK");
}
