// C07 demonstration: valid CRC, constant-table entry whose type_id points past the type section.
use mech_core::*;
use mech_syntax::*;
use mech_interpreter::*;
fn main() {
  let mut intrp = Interpreter::new(0);
  let tree = parser::parse("1 + 2").expect("parse");
  intrp.interpret(&tree).expect("interpret");
  let mut bytes = intrp.compile().expect("compile");
  let prog = ParsedProgram::from_bytes(&bytes).expect("the emitted file loads");
  let off = prog.header.const_tbl_off as usize;
  bytes[off..off + 4].copy_from_slice(&1000u32.to_le_bytes());      // type_id of the first constant
  let n = bytes.len();
  let crc = crc32fast::hash(&bytes[..n - 4]);
  bytes[n - 4..].copy_from_slice(&crc.to_le_bytes());
  let prog2 = ParsedProgram::from_bytes(&bytes).expect("loads (the table is only decoded later)");
  let r = std::panic::catch_unwind(|| prog2.decode_const_entries().is_ok());
  match r {
    Ok(ok) => { println!("decode_const_entries returned {}", if ok { "Ok" } else { "Err" }); println!("DEMO-RESULT: OK"); }
    Err(_) => { println!("DEMO-RESULT: decode_const_entries PANICKED on a well-formed file with a wrong type_id"); std::process::exit(1); }
  }
}
