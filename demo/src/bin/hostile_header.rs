// C07 demonstration: files with a valid CRC whose HEADER announces absurd section lengths / offsets.
// usage: hostile_header <case>   (each case in its own process: the loader may abort)
use std::alloc::{GlobalAlloc, Layout, System};
use std::sync::atomic::{AtomicUsize, Ordering};
use mech_core::*;
use mech_syntax::*;
use mech_interpreter::*;

struct Spy;
static LARGEST: AtomicUsize = AtomicUsize::new(0);
unsafe impl GlobalAlloc for Spy {
  unsafe fn alloc(&self, l: Layout) -> *mut u8 { LARGEST.fetch_max(l.size(), Ordering::Relaxed); unsafe { System.alloc(l) } }
  unsafe fn alloc_zeroed(&self, l: Layout) -> *mut u8 { LARGEST.fetch_max(l.size(), Ordering::Relaxed); unsafe { System.alloc_zeroed(l) } }
  unsafe fn realloc(&self, p: *mut u8, l: Layout, n: usize) -> *mut u8 { LARGEST.fetch_max(n, Ordering::Relaxed); unsafe { System.realloc(p, l, n) } }
  unsafe fn dealloc(&self, p: *mut u8, l: Layout) { unsafe { System.dealloc(p, l) } }
}
#[global_allocator]
static A: Spy = Spy;

fn main() {
  let case = std::env::args().nth(1).unwrap_or("instr_len".to_string());
  let mut intrp = Interpreter::new(0);
  let tree = parser::parse("1 + 2").expect("parse");
  intrp.interpret(&tree).expect("interpret");
  let mut bytes = intrp.compile().expect("compile");
  let prog = ParsedProgram::from_bytes(&bytes).expect("the emitted file loads");
  let mut h = prog.header.clone();
  let big: u64 = 1 << 36;   // 64 GiB
  match case.as_str() {
    "instr_len" => h.instr_len = big,
    "const_tbl_len" => h.const_tbl_len = big,
    "const_blob_len" => { h.const_blob_len = big; if h.const_blob_off == 0 { h.const_blob_off = 8; } }
    "symbols_len" => { h.symbols_len = big; if h.symbols_off == 0 { h.symbols_off = 8; } }
    "dict_len" => { h.dict_len = big; if h.dict_off == 0 { h.dict_off = 8; } }
    "feature_off" => h.feature_off = u64::MAX,
    "types_off" => h.types_off = u64::MAX - 1,
    _ => panic!("unknown case"),
  }
  let mut hb: Vec<u8> = Vec::new();
  h.write_to(&mut hb).expect("header");
  bytes[..hb.len()].copy_from_slice(&hb);
  let n = bytes.len();
  let crc = crc32fast::hash(&bytes[..n - 4]);
  bytes[n - 4..].copy_from_slice(&crc.to_le_bytes());
  LARGEST.store(0, Ordering::Relaxed);
  let r = std::panic::catch_unwind(|| ParsedProgram::from_bytes(&bytes).is_ok());
  let largest = LARGEST.load(Ordering::Relaxed);
  println!("case {}: file length {} bytes; loader: {:?}; largest single allocation requested: {} bytes", case, n, r.map(|ok| if ok {"Ok"} else {"Err"}).map_err(|_| "PANIC"), largest);
  if largest > 64 * n { println!("DEMO-RESULT: unbounded allocation"); std::process::exit(1); }
  println!("DEMO-RESULT: OK");
}
