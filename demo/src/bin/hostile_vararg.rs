// C07 demonstration: a 100-odd byte file with a valid CRC whose instruction stream announces 0xFFFF_FFFF VarArg operands.
// The loader must reject it without asking for memory in proportion to the announced count.
use std::alloc::{GlobalAlloc, Layout, System};
use std::sync::atomic::{AtomicUsize, Ordering};
use mech_core::*;
use mech_syntax::*;
use mech_interpreter::*;

struct Spy;
static LARGEST: AtomicUsize = AtomicUsize::new(0);
unsafe impl GlobalAlloc for Spy {
  unsafe fn alloc(&self, l: Layout) -> *mut u8 { LARGEST.fetch_max(l.size(), Ordering::Relaxed); unsafe { System.alloc(l) } }
  unsafe fn dealloc(&self, p: *mut u8, l: Layout) { unsafe { System.dealloc(p, l) } }
}
#[global_allocator]
static A: Spy = Spy;

fn main() {
  let mut intrp = Interpreter::new(0);
  let tree = parser::parse("1 + 2").expect("parse");
  intrp.interpret(&tree).expect("interpret");
  let mut bytes = intrp.compile().expect("compile");
  let prog = ParsedProgram::from_bytes(&bytes).expect("the emitted file loads");
  let off = prog.header.instr_off as usize;
  let len = prog.header.instr_len as usize;
  assert!(len >= 17, "instruction section too short for the demonstration");
  // VarArg: opcode 0x60, fxn_id (8), dst (4), arg_count (4) = 0xFFFF_FFFF
  let mut hostile = vec![0x60u8];
  hostile.extend_from_slice(&0u64.to_le_bytes());
  hostile.extend_from_slice(&0u32.to_le_bytes());
  hostile.extend_from_slice(&0xFFFF_FFFFu32.to_le_bytes());
  bytes[off..off + 17].copy_from_slice(&hostile);
  let n = bytes.len();
  let crc = crc32fast::hash(&bytes[..n - 4]);
  bytes[n - 4..].copy_from_slice(&crc.to_le_bytes());
  LARGEST.store(0, Ordering::Relaxed);
  let r = ParsedProgram::from_bytes(&bytes);
  let largest = LARGEST.load(Ordering::Relaxed);
  println!("file length: {} bytes; loader result: {}; largest single allocation requested while loading: {} bytes",
           n, if r.is_ok() { "Ok".to_string() } else { "Err".to_string() }, largest);
  if largest > 64 * n { println!("DEMO-RESULT: the loader asked for {} bytes for a {}-byte file", largest, n); std::process::exit(1); }
  println!("DEMO-RESULT: OK");
}
