// C03/C04 demonstrations: each program is run in a fresh interpreter; prints the value or the error.
use mech_core::*;
use mech_syntax::*;
use mech_interpreter::*;
// `;;` separates pieces that are interpreted one after the other in the SAME interpreter session
fn run(src: &str) -> String {
  let src = src.to_string();
  let r = std::panic::catch_unwind(move || {
    let mut a = Interpreter::new(0);
    let mut out = String::new();
    for piece in src.split(";;") {
      let tree = match parser::parse(piece.trim()) { Ok(t) => t, Err(e) => return format!("parse error {:?}", e) };
      let s: String = match a.interpret(&tree) { Ok(v) => format!("{}", v.pretty_print()), Err(e) => format!("error {:?}", e).chars().take(160).collect() };
      out.push_str(&s); out.push_str("\n");
    }
    out
  });
  match r { Ok(s) => s, Err(_) => "panicked".to_string() }
}
fn main() {
  let progs: Vec<String> = std::env::args().skip(1).collect();
  for p in progs {
    let p = p.replace("\\n", "\n");
    println!("--- {}\n{}", p.replace("\n", " ; "), run(&p));
  }
}
