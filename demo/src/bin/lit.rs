// C13 experiments: prints the f64 bits of literal values
use mech_core::*;
use mech_syntax::*;
use mech_interpreter::*;
fn main() {
  for p in std::env::args().skip(1) {
    let mut a = Interpreter::new(0);
    match parser::parse(p.trim()) {
      Err(e) => println!("{} => parse error", p),
      Ok(t) => match a.interpret(&t) {
        Ok(Value::F64(v)) => { let x = *v.borrow(); println!("{} => F64 {:e} bits {:016x}", p, x, x.to_bits()); }
        Ok(v) => println!("{} => {:?}", p, v),
        Err(e) => println!("{} => error {:?}", p, format!("{:?}", e).chars().take(120).collect::<String>()),
      }
    }
  }
}
