// C15 demonstration: `250u8..=255u8` is the progression 250,...,255: every element is representable.
use mech_core::*;
use mech_syntax::*;
use mech_interpreter::*;
fn run(src: &str) -> Result<String, String> {
  let src = src.to_string();
  std::panic::catch_unwind(move || {
    let mut a = Interpreter::new(0);
    let tree = parser::parse(&src).expect("parse");
    match a.interpret(&tree) { Ok(v) => format!("{:?}", v), Err(e) => format!("error {:?}", e) }
  }).map_err(|_| "panicked".to_string())
}
fn main() {
  let mut bad = false;
  for p in ["x := 250<u8>..=255<u8>", "x := 251<u8>..3<u8>..255<u8>", "x := 120<i8>..=127<i8>"] {
    let r = run(p);
    println!("{} => {:?}", p, r);
    if r.is_err() || r.as_ref().unwrap().starts_with("error") { bad = true; }
  }
  if bad { println!("DEMO-RESULT: a representable range panics (reported as UnknownPanic: attempt to add with overflow)"); std::process::exit(1); }
  println!("DEMO-RESULT: OK");
}
