// C07 demonstration: to_bytes(from_bytes(b)) == b for emitted files, also with several symbols / dictionary entries.
use mech_core::*;
use mech_syntax::*;
use mech_interpreter::*;
fn main() {
  let mut bad = 0;
  for src in ["x := 1", "x := 1\ny := 2\nz := 3\nw := x + y", "~a := [1 2 3]\nb := a + 1\nc := b * 2\nd := c - a\ne := \"s\""] {
    for round in 0..20 {
      let mut intrp = Interpreter::new(0);
      let tree = parser::parse(src).expect("parse");
      intrp.interpret(&tree).expect("interpret");
      let bytes = intrp.compile().expect("compile");
      let prog = ParsedProgram::from_bytes(&bytes).expect("load");
      let again = prog.to_bytes().expect("to_bytes");
      if again != bytes {
        bad += 1;
        if bad <= 3 { println!("program {:?} round {}: re-encoded bytes differ ({} symbols, {} dictionary entries, {} vs {} bytes)", src, round, prog.symbols.len(), prog.dictionary.len(), again.len(), bytes.len()); }
      }
    }
  }
  if bad > 0 { println!("DEMO-RESULT: {} of 60 round trips did not reproduce the bytes", bad); std::process::exit(1); }
  println!("DEMO-RESULT: OK");
}
