// C14 demonstration: a set must not contain two equal elements; {1,2} and {2,1} are the same set.
use mech_core::*;
use mech_syntax::*;
use mech_interpreter::*;
fn main() {
  let mut a = Interpreter::new(0);
  let tree = parser::parse("x := {{1,2},{2,1}}").expect("parse");
  match a.interpret(&tree).expect("interpret") {
    Value::Set(s) => { let n = s.borrow().set.len(); println!("elements: {}", n); if n != 1 { println!("DEMO-RESULT: set holds two equal sets"); std::process::exit(1); } }
    other => { println!("unexpected {:?}", other); std::process::exit(2); }
  }
  println!("DEMO-RESULT: OK");
}
