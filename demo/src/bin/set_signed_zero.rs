// C14 demonstration: a set must not contain two equal elements; 0.0 == -0.0.
use mech_core::*;
use mech_syntax::*;
use mech_interpreter::*;
fn main() {
  let mut a = Interpreter::new(0);
  let tree = parser::parse("x := {0.0, -0.0}").expect("parse");
  let v = a.interpret(&tree).expect("interpret");
  match v {
    Value::Set(s) => { let n = s.borrow().set.len(); println!("elements: {}", n); if n != 1 { println!("DEMO-RESULT: set holds two equal elements"); std::process::exit(1); } }
    other => { println!("unexpected {:?}", other); std::process::exit(2); }
  }
  println!("DEMO-RESULT: OK");
}
