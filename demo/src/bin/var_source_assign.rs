// `x[i] = y` with a VARIABLE as the source (scalar-index assignment forms): every case panics on the tree before fix 979633c, all pass after it
// demonstration for the fix: `x[i] = y` with a VARIABLE as the source (scalar index forms)
use mech_core::*;
use mech_syntax::parser;
use mech_interpreter::*;
fn run(src: &str) -> Result<Value, String> {
  let tree = parser::parse(src).map_err(|e| format!("{:?}", e))?;
  let mut intrp = Interpreter::new(0);
  intrp.interpret(&tree).map_err(|e| format!("{:?}", e))
}
fn same(a: &str, b: &str) { let x = run(a); let y = run(b); assert!(x.is_ok(), "{} failed: {:?}", a, x.err()); let (xv, yv) = (x.unwrap(), y.unwrap()); assert!(xv == yv, "{} gives {:?}, expected {:?}", a, xv, yv); }
fn linear_scalar_index_immutable_source() { same("~x := [1 2 3]; y := 5; x[1] = y; x", "~x := [1 2 3]; x[1] = 5; x"); }
fn linear_scalar_index_mutable_source() { same("~x := [1 2 3]; ~y := 5; x[1] = y; x", "~x := [1 2 3]; x[1] = 5; x"); }
fn two_scalar_indices() { same("~x := [1 2 3; 4 5 6]; y := 9; x[2,3] = y; x", "~x := [1 2 3; 4 5 6]; x[2,3] = 9; x"); }
fn all_elements() { same("~x := [1 2 3]; y := 7; x[:] = y; x", "~x := [1 2 3]; x[:] = 7; x"); }
fn row_all() { same("~x := [1 2 3; 4 5 6]; y := 7; x[1,:] = y; x", "~x := [1 2 3; 4 5 6]; x[1,:] = 7; x"); }
fn all_column() { same("~x := [1 2 3; 4 5 6]; y := 7; x[:,2] = y; x", "~x := [1 2 3; 4 5 6]; x[:,2] = 7; x"); }
fn range_scalar() { same("~x := [1 2 3; 4 5 6]; y := 7; x[1..=2,2] = y; x", "~x := [1 2 3; 4 5 6]; x[1..=2,2] = 7; x"); }
fn scalar_range() { same("~x := [1 2 3; 4 5 6]; y := 7; x[2,1..=2] = y; x", "~x := [1 2 3; 4 5 6]; x[2,1..=2] = 7; x"); }
fn range_range() { same("~x := [1 2 3; 4 5 6]; y := 7; x[1..=2,1..=2] = y; x", "~x := [1 2 3; 4 5 6]; x[1..=2,1..=2] = 7; x"); }
fn control_range_1d_worked_before() { same("~x := [1 2 3]; y := 7; x[1..=2] = y; x", "~x := [1 2 3]; x[1..=2] = 7; x"); }
fn main() {
  linear_scalar_index_immutable_source(); println!("ok  linear_scalar_index_immutable_source");
  linear_scalar_index_mutable_source(); println!("ok  linear_scalar_index_mutable_source");
  two_scalar_indices(); println!("ok  two_scalar_indices");
  all_elements(); println!("ok  all_elements");
  row_all(); println!("ok  row_all");
  all_column(); println!("ok  all_column");
  range_scalar(); println!("ok  range_scalar");
  scalar_range(); println!("ok  scalar_range");
  range_range(); println!("ok  range_range");
  control_range_1d_worked_before(); println!("ok  control_range_1d_worked_before");
}
