#!/usr/bin/env python3
"""development helper (never run by a check): add ONE known-finding entry for the obligations generated from one
defect site (regex over their names); witnesses are copied from the replay files of violations confirmed natively.
usage: addknown.py <prop> <obligation-regex (fullmatch)> <site> <what>"""
import glob, json, os, re, sys
V = os.path.dirname(os.path.dirname(os.path.abspath(__file__)))
prop, rx, site, what = sys.argv[1], sys.argv[2], sys.argv[3], sys.argv[4]
kf = os.path.join(V, "known_findings.json")
k = json.load(open(kf))
latest = {}
for f in sorted(glob.glob(os.path.join(V, "replay", prop + "-*.json")), key=os.path.getmtime):
    d = json.load(open(f))
    latest[d["obligation"]] = d
wit = []
for ob, d in sorted(latest.items()):
    if not re.fullmatch(rx, ob):
        continue
    ce = d.get("counterexample") or {}
    nr = d.get("native_replay") or {}
    wit.append({"obligation": ob, "harness": d.get("harness"), "inputs": ce.get("decoded"), "bytes": ce.get("values"),
                "failed_check": ce.get("check") or d.get("detail"), "native_replay": nr.get("outcome") if isinstance(nr, dict) else nr})
if not wit:
    sys.exit("no replay file matches: nothing added (a finding needs a witness)")
k["findings"] = [f for f in k["findings"] if not (f["property"] == prop and f.get("obligation_regex") == rx)]
k["findings"].append({"property": prop, "obligation_regex": rx, "site": site, "what": what, "witnesses": wit})
json.dump(k, open(kf, "w"), indent=1, ensure_ascii=False)
print("added 1 finding with", len(wit), "witnesses")
