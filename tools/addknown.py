#!/usr/bin/env python3
"""development helper (never run by a check): add known-finding entries for obligations whose violation was
confirmed by native replay; the witness is copied from the replay file.
usage: addknown.py <prop> <obligation-regex> <what>"""
import glob, json, os, re, sys
V = os.path.dirname(os.path.dirname(os.path.abspath(__file__)))
prop, rx, what = sys.argv[1], re.compile(sys.argv[2]), sys.argv[3]
kf = os.path.join(V, "known_findings.json")
k = json.load(open(kf))
have = {(f["property"], f["obligation"]) for f in k["findings"]}
latest = {}
for f in sorted(glob.glob(os.path.join(V, "replay", prop + "-*.json")), key=os.path.getmtime):
    d = json.load(open(f))
    latest[d["obligation"]] = d
n = 0
for ob, d in sorted(latest.items()):
    if not rx.search(ob) or (prop, ob) in have:
        continue
    ce = d.get("counterexample") or {}
    nr = d.get("native_replay") or {}
    k["findings"].append({"property": prop, "obligation": ob, "what": what,
                          "witness": {"harness": d.get("harness"), "inputs": ce.get("decoded"), "bytes": ce.get("values"),
                                      "failed_check": ce.get("check") or d.get("detail"),
                                      "native_replay": nr.get("outcome") if isinstance(nr, dict) else nr}})
    n += 1
json.dump(k, open(kf, "w"), indent=1, ensure_ascii=False)
print("added", n)
