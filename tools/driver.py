#!/usr/bin/env python3
"""bin/check back end.  usage: driver.py <Cxx> [--tier quick|thorough] [--replay FILE]
                                 driver.py --setup"""
import os, sys, json, time, argparse, importlib, hashlib, subprocess, re, traceback
sys.path.insert(0, os.path.dirname(os.path.abspath(__file__)))
import vlib
from vlib import Ob, VerusUnit, VERIF, REPO, BUILD, WS, GEN
import mirror
from concurrent.futures import ThreadPoolExecutor

sys.path.insert(0, VERIF)

ALL_PROPS = ["C01", "C02", "C03", "C04", "C05", "C06", "C07", "C10", "C11", "C12", "C13", "C14", "C15", "C16", "C17", "C18", "C19", "C20"]


class Plan:
    def __init__(self, prop):
        self.prop = prop
        self.obs = []            # [Ob]
        self.verus = []          # [VerusUnit]
        self.kani = []           # [dict(package=, filters=[...], harness={fn:Ob}, extra=[...], jobs=, timeout=)]
        self.harness_files = {}  # abs path -> text  (generated harness modules)
        self.functions = []      # functions under contract (strings)
        self.assumptions = []    # unchecked assumptions
        self.trusted = []        # trusted base
        self.dropped = []        # what extraction drops
        self.notes = []
        self.anchor_errors = []  # [(obligation name, reason)]
        self.level = "proof"
        self.undecided_clauses = []

    def ob(self, *a, **k):
        o = Ob(*a, **k)
        self.obs.append(o)
        return o


def load_known():
    p = os.path.join(VERIF, "known_findings.json")
    if not os.path.exists(p):
        return {"findings": [], "fixed": []}
    with open(p) as f:
        return json.load(f)


def registry_appends():
    """Stable list of harness modules appended to mirror files (all properties),
    so that running one property does not invalidate another's build."""
    reg = []
    for prop in ALL_PROPS:
        try:
            m = importlib.import_module("units." + prop)
        except Exception:
            continue
        if hasattr(m, "harness_modules"):
            reg += m.harness_modules()
    appends = {}
    for e in reg:
        path = os.path.join(GEN, e["gen"])
        appends.setdefault(e["crate"], {}).setdefault(e["file"], []).append((e["mod"], path))
        if not os.path.exists(path):
            os.makedirs(os.path.dirname(path), exist_ok=True)
            with open(path, "w") as f:
                f.write("// (not generated in this run)\n")
    return appends


def build_mirror():
    appends = registry_appends()
    # the appended line must be visible to the replay build too
    mirror_appends = {}
    for crate, files in appends.items():
        mirror_appends[crate] = files
    mirror.build(WS, mirror_appends)


def baseline_harness_files(current_prop):
    """Every property's harness modules are compiled into the mirrors on every run (so that
    switching between properties does not invalidate the Kani build).  The files of the
    properties that are NOT being checked are regenerated here in their baseline form
    (quick tier, seed 0): a deterministic function of /repo's current tree."""
    files = {}
    for prop in ALL_PROPS:
        if prop == current_prop:
            continue
        try:
            m = importlib.import_module("units." + prop)
        except Exception as e:   # a broken unit module must not take the other checks down
            print("NOTE: unit module %s could not be imported: %r" % (prop, e))
            continue
        if not hasattr(m, "harness_modules"):
            continue
        pl = Plan(prop)
        try:
            m.plan(pl, "quick", 0)
            files.update(pl.harness_files)
        except Exception as e:   # anchor lost etc.: leave that property's modules empty
            for hm in m.harness_modules():
                files[os.path.join(GEN, hm["gen"])] = "// not generated: %s\n" % (str(e)[:200].replace("\n", " "))
    return files


def stub_property_files(prop):
    m = importlib.import_module("units." + prop)
    for hm in m.harness_modules():
        with open(os.path.join(GEN, hm["gen"]), "w") as f:
            f.write("// stubbed: this property's harness module did not compile against the current tree\n")


def write_files(files):
    for path, text in files.items():
        os.makedirs(os.path.dirname(path), exist_ok=True)
        old = None
        if os.path.exists(path):
            with open(path) as f:
                old = f.read()
        if old != text:
            with open(path, "w") as f:
                f.write(text)


def write_harness_files(plan):
    for path, text in plan.harness_files.items():
        os.makedirs(os.path.dirname(path), exist_ok=True)
        old = None
        if os.path.exists(path):
            with open(path) as f:
                old = f.read()
        if old != text:
            with open(path, "w") as f:
                f.write(text)


def run_plan(plan, tier, seed, t0):
    obs_by_name = {o.name: o for o in plan.obs}
    assert len(obs_by_name) == len(plan.obs), "duplicate obligation names"
    machinery = []
    logs = os.path.join(BUILD, "logs", plan.prop)
    os.makedirs(logs, exist_ok=True)
    # ---- Verus units (parallel)
    vdir = os.path.join(BUILD, "verus", plan.prop)
    if plan.verus:
        with ThreadPoolExecutor(max_workers=min(12, len(plan.verus))) as ex:
            results = list(ex.map(lambda u: vlib.run_verus(u, obs_by_name, vdir), plan.verus))
        for r in results:
            if r["machinery_error"]:
                machinery.append("verus %s: %s" % (r["unit"], r["machinery_error"]))
    # ---- Kani groups (sequential; each uses all cores)
    if os.environ.get("VERIF_SKIP_KANI"):   # development only
        plan.kani = []
    hf = os.environ.get("VERIF_HARNESS_FILTER")   # development only: restrict to harnesses containing one of these substrings
    if hf:
        subs = hf.split(",")
        for g in plan.kani:
            g["harness"] = {h: o for h, o in g["harness"].items() if any(x in h for x in subs)}
            g["filters"] = sorted(g["harness"])
        plan.kani = [g for g in plan.kani if g["harness"]]
    if plan.kani:
        build_mirror()
        write_files(baseline_harness_files(plan.prop))
        write_harness_files(plan)
    for g in plan.kani:
        log = os.path.join(logs, "kani_%s_%s.log" % (g["package"], hashlib.md5(" ".join(g["filters"]).encode()).hexdigest()[:6]))
        for attempt in range(3):
            r = vlib.run_kani(g["package"], g["filters"], g["harness"], jobs=g.get("jobs"), timeout=g.get("timeout", 3000),
                              extra=g.get("extra", ()), log=log, harness_timeout=(g.get("harness_timeout") or (300 if tier == "quick" else 600)))
            # a harness module of ANOTHER property that no longer compiles must not blind this check: stub it and retry
            culprit = None
            if r.get("build_error"):
                with open(log, errors="replace") as lf:
                    mm = re.search(r"-->\s*%s/(C\d+)/" % re.escape(GEN), lf.read())
                if mm and mm.group(1) != plan.prop:
                    culprit = mm.group(1)
            if not culprit:
                break
            print("NOTE: harness module of %s does not compile against the current tree; stubbed for this run" % culprit)
            stub_property_files(culprit)
            for ob in g["harness"].values():
                ob.status, ob.detail = "undecided", ""
        g["result"] = r
        if r["machinery_error"]:
            machinery.append("kani %s: %s" % (g["package"], r["machinery_error"]))
    return machinery


def replay_violation(plan, ob, tier):
    """Obtain a counterexample for a violated Kani obligation and replay it natively
    against the real code (same harness body, ordinary rustc build of the mirror)."""
    info = {"obligation": ob.name, "backend": ob.backend, "verifier_output": ob.raw[-6000:], "what": ob.what,
            "detail": ob.detail}
    if ob.backend != "kani":
        info["counterexample"] = None
        info["note"] = "Verus gives no counterexample; no Kani twin failed"
        return info, False, True
    if os.environ.get("VERIF_NO_REPLAY"):   # development only (seed triage): skip the concrete playback and the native replay
        info["counterexample"] = None
        info["note"] = "playback skipped (VERIF_NO_REPLAY)"
        return info, False, True
    g = next(g for g in plan.kani if ob in g["harness"].values())
    h = next(k for k, v in g["harness"].items() if v is ob)
    logs = os.path.join(BUILD, "logs", plan.prop)
    tests = plan.playback_cache.get(h)
    if tests is None:
        tests = vlib.kani_playback_values(g["package"], h, log=os.path.join(logs, "playback_%s.log" % h))
    if not tests:
        info["counterexample"] = None
        info["note"] = "kani produced no concrete values"
        return info, False, True
    pick = None
    for t in tests:
        if "VK:" in t["check"]:
            pick = t; break
    pick = pick or tests[0]
    info["counterexample"] = pick
    info["harness"] = h
    info["package"] = g["package"]
    entry = g.get("replay_entry")
    entry = entry(h) if callable(entry) else entry
    info["replay_entry"] = entry
    if not entry:
        info["native_replay"] = "not available for this harness group"
        return info, True, True
    try:
        import replay
        rr = replay.native_replay(g["package"], entry, h, pick["values"])
    except Exception as e:
        rr = {"outcome": "error", "output": "replay machinery failed: %r" % (e,)}
    info["native_replay"] = rr
    reproduced = rr.get("outcome") in ("assertion_failed", "panicked") if ob.mode == "value" else rr.get("outcome") == "assertion_failed"
    if rr.get("outcome") == "error":
        return info, True, True   # could not replay: still report, with the values
    return info, True, reproduced


def main():
    ap = argparse.ArgumentParser()
    ap.add_argument("prop", nargs="?")
    ap.add_argument("--tier", default=os.environ.get("VERIF_TIER", "quick"))
    ap.add_argument("--replay")
    ap.add_argument("--setup", action="store_true")
    ap.add_argument("--list", action="store_true")
    a = ap.parse_args()
    seed = int(os.environ.get("VERIF_SEED", "0") or 0)
    if a.setup:
        return setup()
    if a.replay:
        import replay
        return replay.replay_file(a.replay)
    prop = a.prop
    tier = a.tier if a.tier in ("quick", "thorough") else "quick"
    t0 = time.time()
    mod = importlib.import_module("units." + prop)
    plan = Plan(prop)
    try:
        mod.plan(plan, tier, seed)
    except vlib.AnchorLost as e:
        print("UNDECIDED property=%s reason=anchor-lost %s" % (prop, e))
        write_evidence(plan, tier, seed, t0, [], ["anchor lost: %s" % e], [])
        return 2
    if a.list:
        for o in plan.obs:
            print(o.name, o.backend, o.level, o.bound)
        return 0
    machinery = run_plan(plan, tier, seed, t0)
    for name, why in plan.anchor_errors:
        print("UNDECIDED obligation=%s reason=anchor-lost %s" % (name, why))
    known = load_known()
    known_list = [k for k in known.get("findings", []) if k["property"] == prop]

    def known_for(name):
        """a finding names one obligation, or (one defect site instantiated by macro for several kinds) a regex
        over the obligation names generated from that one site"""
        for k in known_list:
            if k.get("obligation") == name or (k.get("obligation_regex") and re.fullmatch(k["obligation_regex"], name)):
                return k
        return None
    violations, known_hit = [], []
    for o in plan.obs:
        if o.status == "violated":
            if known_for(o.name):
                known_hit.append(o)
            else:
                violations.append(o)
    rc = 0
    os.makedirs(os.path.join(VERIF, "replay"), exist_ok=True)
    confirmed = []
    # counterexamples for all violated Kani obligations: one batched playback run per package
    plan.playback_cache = {}
    bypkg = {}
    for o in violations:
        if o.backend == "kani":
            for g in plan.kani:
                for h, ob in g["harness"].items():
                    if ob is o:
                        bypkg.setdefault(g["package"], []).append(h)
    for pkg, hs in bypkg.items():
        if len(hs) > 1:
            try:
                plan.playback_cache.update({h: t for h, t in vlib.kani_playback_batch(
                    pkg, hs, log=os.path.join(BUILD, "logs", prop, "playback_batch_%s.log" % pkg)).items() if t})
            except Exception as e:
                print("MACHINERY: batched playback failed (%r); falling back to one run per harness" % (e,))
    for o in violations:
        info, has_input, reproduced = replay_violation(plan, o, tier)
        if has_input and not reproduced:
            # verifier counterexample does not fail on the real code natively: tool imprecision
            o.status = "undecided"
            o.detail = "counterexample did not reproduce natively (verifier over-approximation): " + o.detail
            continue
        hsh = hashlib.md5((o.name + json.dumps(info.get("counterexample"), sort_keys=True, default=str)).encode()).hexdigest()[:8]
        path = os.path.join(VERIF, "replay", "%s-%s-%s.json" % (prop, re.sub(r"[^\w.]+", "_", o.name), hsh))
        info["property"] = prop
        info["tier"] = tier
        info["replay_cmd"] = "bin/check %s --replay %s" % (prop, path)
        with open(path, "w") as f:
            json.dump(info, f, indent=1, default=str)
        o.replay = path
        confirmed.append(o)
        tail = "" if has_input else " no-failing-input-found"
        print("VIOLATION property=%s replay=%s obligation=%s%s" % (prop, path, o.name, tail)
              if False else "VIOLATION property=%s replay=%s%s" % (prop, path, tail))
        print("  obligation=%s : %s" % (o.name, o.detail[:300]))
        rc = 1
    for o in known_hit:
        print("KNOWN-FINDING: property=%s %s [%s]" % (prop, known_for(o.name)["what"], o.name))
    und = [o for o in plan.obs if o.status == "undecided"]
    for o in und:
        print("UNDECIDED obligation=%s %s" % (o.name, o.detail[:200]))
    for m in machinery:
        print("MACHINERY: " + m[:2000])
    write_evidence(plan, tier, seed, t0, confirmed, machinery, known_hit)
    n_ok = sum(1 for o in plan.obs if o.status == "discharged")
    print("%s tier=%s: %d obligations, %d discharged (%d proved, %d bounded), %d undecided, %d violated, %d known findings; %.0fs" % (
        prop, tier, len(plan.obs), n_ok,
        sum(1 for o in plan.obs if o.status == "discharged" and o.level == "proved"),
        sum(1 for o in plan.obs if o.status == "discharged" and o.level == "bounded"),
        len(und), len(confirmed), len(known_hit), time.time() - t0))
    if rc == 0 and (n_ok == 0 or machinery and n_ok < len(plan.obs) / 2):
        return 2
    return rc


def _uniq(xs):
    seen, out = set(), []
    for x in xs:
        if x and x not in seen:
            seen.add(x); out.append(x)
    return out


def write_evidence(plan, tier, seed, t0, violations, machinery, known_hit):
    obs = plan.obs
    plan.dropped, plan.assumptions, plan.trusted, plan.functions = _uniq(plan.dropped), _uniq(plan.assumptions), _uniq(plan.trusted), _uniq(plan.functions)
    known_names = {o.name for o in known_hit}
    proved = [o for o in obs if o.level == "proved" and o.name not in known_names]
    bounded = [o for o in obs if o.level == "bounded" and o.name not in known_names]
    disch_p = [o for o in proved if o.status == "discharged"]
    disch_b = [o for o in bounded if o.status == "discharged"]
    samples = [o.to_json() for o in (disch_p[:3] + disch_b[:3] + [o for o in obs if o.status != "discharged"][:4])]
    scan = scan_assumptions(plan)
    cov = {
        # the proof-level claim of this run covers exactly the obligations discharged in this run: an obligation without a
        # verdict (timeout, lost anchor) is listed under `undecided` and counted in `obligations_attempted`, never as proved
        "obligations": len(disch_p),
        "discharged": len(disch_p),
        "obligations_attempted": len(proved),
        "bounded_obligations": len(bounded),
        "bounded_discharged": len(disch_b),
        "checker_cmd": "verus <unit>.rs --output-json --time ; cargo kani -p <mirror crate> --harness <filter> -Z function-contracts -Z stubbing (driver: bin/check %s --tier %s)" % (plan.prop, tier),
        "trusted_base": plan.trusted,
        "evaluations": len(obs),
        "distinct_nontrivial": len({o.name for o in obs if o.status == "discharged"}),
        "rule": "one evaluation = one named proof obligation run through its back end; distinct = distinct obligation names; non-trivial = discharged with its vacuity guard (reachable cover / failing canary) intact",
        "samples": samples or [{"note": "no obligation was run"}],
        "functions_under_contract": plan.functions,
        "by_backend": {b: {"obligations": sum(1 for o in obs if o.backend == b),
                           "discharged": sum(1 for o in obs if o.backend == b and o.status == "discharged"),
                           "solver_s": round(sum(o.seconds for o in obs if o.backend == b), 1)} for b in sorted({o.backend for o in obs})},
        "bounded_checks": [{"obligation": o.name, "bound": o.bound, "status": o.status} for o in bounded][:400],
        "undecided": [{"obligation": o.name, "reason": o.detail[:200]} for o in obs if o.status == "undecided"][:200],
        "violated": [{"obligation": o.name, "detail": o.detail[:300], "replay": o.replay} for o in violations],
        "known_findings_reproduced": [o.name for o in known_hit],
        "extraction_drops": plan.dropped,
        "mechanical_assumption_scan": scan,
        "undecided_clauses_of_the_property": plan.undecided_clauses,
        "machinery_errors": machinery,
        "explanation": "; ".join(plan.notes),
        "exhaustive": False,
    }
    ev = {"property_id": plan.prop, "tier": tier, "seed": seed, "level": plan.level, "coverage": cov,
          "assumptions": plan.assumptions + plan.undecided_clauses, "wall_s": round(time.time() - t0, 1),
          "violations": len(violations)}
    os.makedirs(os.path.join(VERIF, "evidence"), exist_ok=True)
    with open(os.path.join(VERIF, "evidence", plan.prop + ".json"), "w") as f:
        json.dump(ev, f, indent=1)


def scan_assumptions(plan):
    """mechanical scan of generated units for assume/admit/external_body/stubs"""
    found = []
    pats = [r"\bassume\s*\(", r"\badmit\s*\(", r"external_body", r"assume_specification", r"kani::stub", r"vk::assume\s*\(",
            r"kani::assume\s*\("]
    texts = [(u.name + ".rs", u.text) for u in plan.verus] + [(os.path.basename(p), t) for p, t in plan.harness_files.items()]
    for name, t in texts:
        for p in pats:
            n = len(re.findall(p, t))
            if n:
                found.append("%s: %d x %s" % (name, n, p.replace("\\b", "").replace("\\s*\\(", "(")))
    return found[:300]


def setup():
    """Build everything that can be built ahead of a check: mirrors, baseline harness
    modules of every property, and the Kani build of the whole mirror workspace (so the
    first check does not pay the cold build).  Nothing here is needed for soundness:
    every check rebuilds what changed from /repo's working tree."""
    t0 = time.time()
    os.makedirs(BUILD, exist_ok=True)
    build_mirror()
    write_files(baseline_harness_files(None))
    rc = 0
    # mech-interpreter depends on every other mirrored crate: one codegen pass builds the closure
    for pkg in ("mech-interpreter",):
        p = subprocess.run(["cargo", "kani", "-p", pkg, "--only-codegen", "-Z", "function-contracts", "-Z", "stubbing",
                            "--harness", "vk_no_such_harness_"],
                           cwd=WS, env=vlib.KANI_ENV, capture_output=True, text=True)
        print("setup: kani build of %s and its dependency closure rc=%d (%.0fs)" % (pkg, p.returncode, time.time() - t0))
        if p.returncode != 0 and "error" in p.stderr:
            print(p.stderr[-3000:])
    # verus warm-up
    wd = os.path.join(BUILD, "verus", "_warm")
    os.makedirs(wd, exist_ok=True)
    with open(os.path.join(wd, "w.rs"), "w") as f:
        f.write("use vstd::prelude::*;\nverus!{ fn f(x:u8)->(r:u8) requires x<3, ensures r==x+1 { x+1 } }\nfn main(){}\n")
    p = subprocess.run(["verus", "w.rs"], cwd=wd, capture_output=True, text=True)
    print("setup: verus warm-up rc=%d" % p.returncode)
    return 0 if p.returncode == 0 else 1


if __name__ == "__main__":
    try:
        sys.exit(main())
    except SystemExit:
        raise
    except Exception:
        traceback.print_exc()
        sys.exit(2)
