#!/bin/sh
# usage: hedit.sh <Cxx> <file> <python-expr transforming s>   (harmless-edit probe on a scratch worktree)
P="$1"; F="$2"; E="$3"
S=/tmp/scratch_h$$
git -C /repo worktree add -f "$S" HEAD >/dev/null 2>&1 || exit 2
python3 - "$S/$F" "$E" <<'PY'
import sys,re
p,e=sys.argv[1],sys.argv[2]
s=open(p).read(); s2=eval(e)
assert s2!=s, "edit did not change the file"
open(p,'w').write(s2)
PY
cp /verif/evidence/$P.json /tmp/evidence_$P.$$ 2>/dev/null
VERIF_SKIP_KANI=1 VERIF_REPO="$S" /verif/bin/check "$P" --tier quick 2>&1 | grep -v "^WARNING\|KNOWN" | grep "VIOLATION\|UNDECIDED.*reason\|tier=" | cut -c1-200
cp /tmp/evidence_$P.$$ /verif/evidence/$P.json 2>/dev/null; rm -f /tmp/evidence_$P.$$
git -C /repo worktree remove --force "$S"
