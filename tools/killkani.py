#!/usr/bin/env python3
"""kill stray Kani/CBMC processes by /proc/<pid>/comm (never by command-line pattern)"""
import os
n = 0
for pid in os.listdir('/proc'):
    if pid.isdigit():
        try:
            c = open('/proc/%s/comm' % pid).read().strip()
            if c in ('cbmc', 'goto-instrument', 'kani-driver', 'kani-compiler', 'cargo-kani', 'goto-cc'):
                os.kill(int(pid), 9); n += 1
        except Exception:
            pass
print("killed", n)
