#!/usr/bin/env python3
"""Mirror crates for Kani (mechanism M of DESIGN.md 3.1).

For each mirrored crate of /repo a directory  <ws>/mirror/<crate>/  is (re)built
from /repo's *current working tree*:

  * Cargo.toml : byte copy with the `[workspace]` table removed (the mirror is a
                 member of the wrapper workspace) and nothing else changed;
  * every other file is a symlink to the real file in /repo, EXCEPT source
    files that receive an in-module harness: these are re-emitted as
        original bytes + "\n" + one appended line per harness module
            #[cfg(kani)] #[path = "<abs path>"] mod <name>;
    (cfg(kani) is set only by the Kani compiler, so an ordinary build of the
    mirror is token-for-token the /repo crate).

Files are only rewritten when their content changes so cargo fingerprints stay
valid between runs.  Nothing under /repo is written.
"""
import os, sys, json, shutil, re

REPO = os.environ.get("VERIF_REPO", "/repo")

# crate name -> directory relative to /repo
CRATES = {
    "mech-core": "src/core",
    "mech-interpreter": "src/interpreter",
    "mech-math": "machines/math",
    "mech-compare": "machines/compare",
    "mech-logic": "machines/logic",
    "mech-range": "machines/range",
    "mech-set": "machines/set",
    "mech-stats": "machines/stats",
}
# crates patched but not mirrored (plain path deps on /repo)
PLAIN = {
    "mech-syntax": "src/syntax",
    "mech-wasm": "src/wasm",
    "mech-combinatorics": "machines/combinatorics",
    "mech-matrix": "machines/matrix",
    "mech-io": "machines/io",
    "mech-string": "machines/string",
}


def write_if_changed(path, data: bytes):
    try:
        with open(path, "rb") as f:
            if f.read() == data:
                return False
    except (FileNotFoundError, IsADirectoryError):
        pass
    if os.path.islink(path) or os.path.exists(path):
        if os.path.isdir(path) and not os.path.islink(path):
            shutil.rmtree(path)
        else:
            os.unlink(path)
    os.makedirs(os.path.dirname(path), exist_ok=True)
    with open(path, "wb") as f:
        f.write(data)
    return True


def strip_workspace_table(text: str) -> str:
    out, skip = [], False
    for line in text.splitlines(keepends=True):
        s = line.strip()
        if s.startswith("[") and s.endswith("]"):
            skip = (s == "[workspace]")
        if not skip:
            out.append(line)
    return "".join(out)


def mirror_crate(ws, crate, appends):
    """appends: {relative source path: [(mod_name, abs_harness_path), ...]}"""
    src_root = os.path.join(REPO, CRATES[crate])
    dst_root = os.path.join(ws, "mirror", crate)
    os.makedirs(dst_root, exist_ok=True)
    wanted = set()
    for dirpath, dirnames, filenames in os.walk(src_root):
        dirnames[:] = [d for d in dirnames if d not in ("target", ".git")]
        rel_dir = os.path.relpath(dirpath, src_root)
        for fn in filenames:
            rel = os.path.normpath(os.path.join(rel_dir, fn))
            if rel in ("Cargo.lock",):
                continue
            src = os.path.join(src_root, rel)
            dst = os.path.join(dst_root, rel)
            wanted.add(rel)
            if rel == "Cargo.toml":
                with open(src) as f:
                    txt = strip_workspace_table(f.read())
                write_if_changed(dst, txt.encode())
            elif rel in appends:
                with open(src, "rb") as f:
                    data = f.read()
                extra = b"\n"
                for mod_name, hpath in appends[rel]:
                    extra += ('#[cfg(any(kani, verif_replay))] #[path = "%s"] mod %s;\n' % (hpath, mod_name)).encode()
                write_if_changed(dst, data + extra)
            else:
                os.makedirs(os.path.dirname(dst), exist_ok=True)
                if os.path.islink(dst) and os.readlink(dst) == src:
                    continue
                if os.path.lexists(dst):
                    os.unlink(dst)
                os.symlink(src, dst)
    for rel in appends:
        if rel not in wanted:
            raise SystemExit("mirror: anchor lost: %s/%s does not exist" % (crate, rel))
    # prune files that vanished from /repo
    for dirpath, dirnames, filenames in os.walk(dst_root):
        rel_dir = os.path.relpath(dirpath, dst_root)
        for fn in filenames:
            rel = os.path.normpath(os.path.join(rel_dir, fn))
            if rel not in wanted:
                os.unlink(os.path.join(dirpath, fn))


def workspace_manifest(ws):
    members = ['  "mirror/%s",' % c for c in CRATES]
    patch = []
    for c in CRATES:
        patch.append("%s = { path = 'mirror/%s' }" % (c, c))
    for c, d in PLAIN.items():
        patch.append("%s = { path = '%s' }" % (c, os.path.join(REPO, d)))
    txt = "[workspace]\nresolver = \"2\"\nmembers = [\n%s\n]\n\n[patch.crates-io]\n%s\n" % (
        "\n".join(members), "\n".join(patch))
    txt += "\n[profile.dev]\ndebug = false\n"
    write_if_changed(os.path.join(ws, "Cargo.toml"), txt.encode())
    with open(os.path.join(REPO, "Cargo.lock"), "rb") as f:
        lock = f.read()
    # the lock file is only seeded; cargo may trim it (offline) for the subset
    lp = os.path.join(ws, "Cargo.lock")
    if not os.path.exists(lp):
        write_if_changed(lp, lock)
    cfg = "[net]\noffline = true\n[env]\nRUSTC_BOOTSTRAP = \"1\"\n"
    write_if_changed(os.path.join(ws, ".cargo", "config.toml"), cfg.encode())


def build(ws, appends_by_crate):
    os.makedirs(ws, exist_ok=True)
    for crate in CRATES:
        mirror_crate(ws, crate, appends_by_crate.get(crate, {}))
    workspace_manifest(ws)


if __name__ == "__main__":
    ws = sys.argv[1]
    appends = json.loads(sys.argv[2]) if len(sys.argv) > 2 else {}
    build(ws, appends)
    print("mirror ok:", ws)
