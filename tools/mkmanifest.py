#!/usr/bin/env python3
"""Regenerates MANIFEST.json from the table below (kept in one place so that it stays valid)."""
import json, os
V = os.path.dirname(os.path.dirname(os.path.abspath(__file__)))
BASELINE = "cd /repo && cargo nextest run --workspace --no-fail-fast --tool-config-file pb:/w/lib/nextest.toml --profile pb --test-threads 8 --offline || cargo test --workspace --no-fail-fast --offline"

CLAIMS = {
    "C01": dict(cat="proof", tech="contract harnesses (Kani/CBMC) on every generated kernel struct + Verus on transcribed scalar kernels",
                text="Call-boundary contracts (broadcast shape, out[r,c] == lhs ⊙ rhs under the representability precondition, operands unchanged, idempotent) on the real generated `«Op»«Form»<T>::solve` of every arithmetic/comparison/logic operator: scalar forms proved over the full value domain (Kani loop-free; Verus for wide mul/div/mod), matrix forms complete in element values and bounded in shape (2x3, thorough also 3x2). Kernel level only: dispatch-arm wiring, term() and shape rejection are not decided.",
                note="Trusted: Kani MIR->goto translation, CBMC, Verus/Z3, nalgebra executed as is. Assumed: fixed matrix shapes; R64/C64 kernels not covered; quick tier runs every form for one 8-bit kind plus the scalar form of every kind.", ref="4 C01"),
    "C07": dict(cat="proof", tech="Kani contract harnesses on codecs / CRC gate / loader + Verus on pure helpers",
                text="Per-item codec round trips (header, 8 instruction forms, const entries, opcode/type tags) proved loop-free over all field values on the real encoders/decoders; CRC gate `Ok <=> crc32(payload)==trailer` and `load_program_from_bytes` gated by it; hostile-bytes no-panic bounded in length; pure helpers proved by Verus.",
                note="Trusted: crc32fast == reference CRC-32 (stubbed under Kani), fmt stub, byteorder/Cursor executed. Truncation clause not decidable (not a CRC theorem); burst theorem machine-checked for 6-byte payloads only.", ref="4 C07"),
    "C15": dict(cat="proof", tech="Kani on count fragments cut verbatim from the dispatch-arm macros + fill kernels on real nalgebra",
                text="Element-count computation of the four range dispatch arms (fragment F, verbatim text, every kind) against the exact count over mathematical integers, loop-free over the full domain; fill kernels Range*Scalar::solve against out[i]==a+i*s (bounded length 4). Known defects pinned as known findings.",
                note="Trusted: Kani/CBMC; the arm's allocation and storage-type match are read off the macro text. 64-bit stepped ranges bounded to |x|<2^52; 128-bit stepped ranges and float stepped ranges not covered.", ref="4 C15"),
}
NA = {
    "C08": "formatter∘parser round trip: postcondition mentions the nom/closure parser, which neither Verus (cannot take the code) nor Kani (8 min for one concrete 5-token input, P10) can reach; no contract within reach decides it",
    "C09": "totality/termination of the recovery parser over all Unicode text needs progress measures through nom combinators and unicode-segmentation; out of reach of both verifiers (P10)",
    "C10": "prose inertness / fence isolation are implemented by the Mechdown parser plus an AST walk over a live interpreter with HashMap-keyed sub-interpreters; no per-function contract captures it without the parser",
    "C16": "arm selection, guards, recursion: AST-walking evaluators whose inputs are syntax trees and environments; symbolic ASTs are out of reach, concrete ones would be tests",
    "C17": "state-machine transition runs: AST-walking evaluator over HashMap state; same reason as C16",
    "C18": "joins are one 180-line function over HashMap/HashSet/IndexMap with iterator closures: Verus cannot take it, hash containers with symbolic keys do not terminate under CBMC (P12)",
}
PENDING = {k: "check not yet built in this session (planned, DESIGN.md §4)" for k in
           ["C02", "C03", "C04", "C05", "C06", "C11", "C12", "C13", "C14", "C19", "C20"]}


def main():
    checks = []
    for pid, c in sorted(CLAIMS.items()):
        checks.append({
            "property_id": pid,
            "quick_cmd": "bin/check %s --tier quick" % pid,
            "thorough_cmd": "bin/check %s --tier thorough" % pid,
            "evidence_file": "evidence/%s.json" % pid,
            "replay_cmd_template": "bin/check %s --replay {path}" % pid,
            "engine": "contracts",
            "level_claimed": {"category": c["cat"], "text": c["text"], "design_ref": "DESIGN.md §" + c["ref"]},
            "level_note": c["note"],
            "technique": c["tech"],
        })
    na = [{"property_id": k, "reason": v} for k, v in sorted({**NA, **PENDING}.items()) if k not in CLAIMS]
    m = {
        "version": 1,
        "setup_cmd": "bin/check --setup",
        "hooks": {"guard": "kani", "enable": "no change in /repo: checks build mirror crates under /verif/.build/ws (symlinks to /repo's working tree + appended `#[cfg(any(kani, verif_replay))] mod` lines); cfg(kani) is set only by the Kani compiler",
                  "baseline_off_cmd": BASELINE, "source_commits": [], "add_only": True},
        "engines": [{"name": "contracts", "path": "bin/check", "serves_properties": sorted(CLAIMS),
                     "kind_free_text": "contract-based deductive verification: Verus 0.2026.09.13 on functions extracted verbatim each run; Kani 0.68/CBMC 6.11 contract harnesses compiled into mirror crates of the real sources"}],
        "checks": checks,
        "not_applicable": na,
        "notes": "exit 0 = held on everything explored; exit 1 + VIOLATION line = violated obligation; exit 2 = machinery failure (never an alarm). UNDECIDED lines are informational.",
    }
    with open(os.path.join(V, "MANIFEST.json"), "w") as f:
        json.dump(m, f, indent=1, ensure_ascii=False)
    print("MANIFEST.json: %d checks, %d not_applicable" % (len(checks), len(na)))


if __name__ == "__main__":
    main()
