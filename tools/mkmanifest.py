#!/usr/bin/env python3
"""Regenerates MANIFEST.json from the table below (kept in one place so that it stays valid)."""
import json, os
V = os.path.dirname(os.path.dirname(os.path.abspath(__file__)))
BASELINE = "cd /repo && cargo nextest run --workspace --no-fail-fast --tool-config-file pb:/w/lib/nextest.toml --profile pb --test-threads 8 --offline || cargo test --workspace --no-fail-fast --offline"

CLAIMS = {
    "C01": dict(cat="proof", tech="contract harnesses (Kani/CBMC) on every generated kernel struct + Verus on transcribed scalar kernels",
                text="Call-boundary contracts (broadcast shape, out[r,c] == lhs ⊙ rhs under the representability precondition, operands unchanged) on the real generated `«Op»«Form»<T>::solve` of every arithmetic/comparison/logic operator: scalar forms proved over the full value domain (Kani loop-free; Verus for wide add/sub/mul/div/mod), matrix forms complete in element values and bounded in shape (2x3, thorough also 3x2). Kernel level only: dispatch-arm wiring, term() and shape rejection are not decided.",
                note="Trusted: Kani MIR->goto translation, CBMC, Verus/Z3, nalgebra executed as is. Assumed: fixed matrix shapes; R64/C64 kernels not covered; quick tier runs every form for one 8-bit kind plus the scalar form of every kind; wide mul/div/mod and float div/mod/pow are not tractable for CBMC (Verus where it has a spec, else undecided).", ref="4 C01"),
    "C02": dict(cat="proof", tech="Verus on fragments of term(): operator dispatch table (verbatim arms) and left-fold loop",
                text="Partial: (a) every operator token of the formula grammar is dispatched by term() to the function it denotes with operands in (lhs, rhs) order — the `match op` arms are verified verbatim against the operator table; (b) one grammar level evaluates as a left fold in source order. Precedence between levels and parenthesis override are parser code and are NOT decided.",
                note="Assumed: nom many0(pair(..)) collects in source order; compilers are stand-ins returning tagged results; the fold is proved on an index-loop transcription guarded by an anchor check of the loop body.", ref="4 C02"),
    "C03": dict(cat="proof", tech="Verus contracts on the index-loop read kernels transcribed onto a verified matrix model (panic = early None) + Kani twins on the generated Access* structs + syntactic routing pass",
                text="Kernel level. For 17 read kernels of access/matrix.rs (scalar, index vector, logical mask, `:` in one and two positions) and EVERY matrix size: with valid indices the kernel returns normally and the output holds exactly the elements the 1-based column-major model selects, in reference order and documented shape (.value); if it returns normally every addressed position existed (.reject); mask length == indexed dimension (.masklen: violated by 7 kernels, known findings). The source is only borrowed immutably. Kani twins run the real structs on real nalgebra storage at fixed shapes (bounded) and cover the two iterator kernels outside the transcription; subscript() push order by a syntactic pass (bounded).",
                note="Assumed: nalgebra containers behave as contracts/common/matmodel.rs (column-major, bounds-checked, resize gives the requested shape); elements modelled as u64 (kernels only clone them); `out` allocated as the dispatch arm allocates it (read off the arm); a kernel panic is an error (catch_unwind not verified). Not decided: dispatch arms, Value::as_index, swizzle/table/record access.", ref="4 C03"),
    "C04": dict(cat="proof", tech="Verus contracts with frame conditions on the assignment and op-assignment kernels transcribed onto the matrix model + Kani twins on the generated Assign*/Set*/«Op»Assign* structs + syntactic routing pass",
                text="Kernel level. For 21 assignment kernels (assign/matrix.rs) and 20 op-assignment kernels (machines/math/src/op_assign, 5 per operator) and EVERY matrix size: with valid (and, for vector sources and op-assignment, distinct) indices exactly the addressed elements receive the value / op(old, source), every other element and the shape are unchanged (.value with frame); returns normally => every addressed position existed (.reject); mask length (.masklen, where the dispatch arm does not guard it); failure leaves the sink unchanged (.atomic: violated by every index-vector kernel, known finding). Kani twins at fixed shapes (bounded) cover the iterator kernels outside the transcription; subscript_ref() push order by a syntactic pass.",
                note="Assumed: matmodel.rs as for C03; element operation of op-assignment = one uninterpreted total function per operator (overflow / division by zero of the element type outside the model); typed dispatch arms reject mismatched masks for the 2-D mask forms (read off the arms, confirmed natively). Not decided: 2-D vector sources, read-back composition with C03, kind mismatch, dispatch arms.", ref="4 C04"),
    "C05": dict(cat="proof", tech="Verus on the real SymbolTable methods and on the name-guard fragments of variable_define / variable_assign; Kani on detach_variable_value",
                text="SymbolTable::{get,get_mutable,contains,insert} proved against a map view with the invariant 'mutable binding => same cell as the binding'; the guards of variable_define (existing name => error) and variable_assign (undefined / immutable => the right error, before anything is written) proved on the verbatim statements; storage separation of `y := x` checked on the real detach_variable_value; failure atomicity of indexed assignment re-checked on two representative kernels (the in-place kernels are NOT atomic: known finding shared with C04). The history clause is a lemma over these contracts.",
                note="Assumed: Value/Ref stand-ins (a cell is an identity); statements after the guards (expression evaluation, kernels) are outside; 'never aborts the host' (catch_unwind) not decided.", ref="4 C05"),
    "C06": dict(cat="proof", tech="Verus on CompileCtx + compile_*op! emitters; Kani on constant codecs; syntactic emitter/factory order pass",
                text="Partial, modular: the real CompileCtx register allocator and emit_* methods and the five emitter macros (instantiated mechanically) are proved to emit ConstLoad per operand then the op with registers in (out, arg1, arg2, ..) order; ConstElem write_le/from_le round trips proved for every scalar kind; symbol-section count round trip proved for every n; an anchor pass checks that every struct template passes its fields to the emitter in the order its factory reads them. Whole-program equivalence is only the (unchecked) composition.",
                note="Assumed: Cell::compile_const touches only constant tables; hash_str uninterpreted; run_program does not re-solve. Not decided: name registration, compile_varop!, matrix/set/table constants, no-panic.", ref="4 C06"),
    "C07": dict(cat="proof", tech="Kani contract harnesses on codecs / CRC gate + Verus on the whole load path transcribed onto a cursor model (panic-freedom, termination, allocation bound for EVERY byte sequence) + Verus on pure helpers",
                text="Per-item codec round trips (header, instruction forms, const entries, opcode/type tags) proved loop-free over all field values on the real encoders/decoders incl. byte_len and re-encoding; CRC gate `Ok <=> crc32(payload)==trailer` at fixed lengths; truncated-instruction rejection. For EVERY byte sequence, decode_instructions, parse_const_entries and load_program_from_reader (with section_in_file) terminate, have no arithmetic overflow/underflow or lossy cast, and never allocate more than the file is long (Verus, on a mechanical transcription onto a model of Cursor/byteorder; the unchecked VarArg count and the unchecked header lengths this exposed were repaired by two fix: commits). Pure helpers (check_alignment, align_up, decode_version_from_u16) proved by Verus.",
                note="Trusted: crc32fast == reference CRC-32 (stubbed under Kani), fmt and caller-location stubs, byteorder/Cursor executed under Kani and MODELLED under Verus (contracts/C07/curmodel.rs: a read succeeds iff enough bytes remain; decoded values arbitrary). Not decided: decode_const_entries / from_le of matrix constants on hostile input, ByteCodeHeader::read_from (fixed-size reads, modelled), verify_crc_trailer_seek's buffer (= file size by construction); truncation is not a CRC theorem; burst theorem machine-checked for 6-byte payloads only.", ref="4 C07"),
    "C11": dict(cat="proof", tech="Verus contracts on the real CopyMat copy loops (transcribed onto the matrix model) and, modularly against those contracts, on the solve() bodies of the dynamic concat structs; Kani twins on real nalgebra",
                text="CopyMat::{copy_into,copy_into_v,copy_into_r} place a block at a linear offset and copy_into_row_major places an r-row block at off + j*R + i of a column-major destination, touching nothing else, for every shape; Horizontal/VerticalConcatenate{TwoArgs,ThreeArgs,FourArgs}::solve and VerticalConcatenateVD{2,3,4}::solve are checked against those contracts (not the callee bodies): out is the block matrix of the operands in written order, later blocks never clobber earlier ones. Kani twins (bounded block shapes) additionally cover the NArgs/RDN structs. Shape/kind rejection (evaluator + compile routing) not decided.",
                note="Assumed: nalgebra containers behave as contracts/common/matmodel.rs; elements modelled as u64; source and destination do not alias; copy_into_row_major needs dst.len + dst.nrows <= usize::MAX. Only the kernels built in the default (dynamic) configuration.", ref="4 C11"),
    "C12": dict(cat="proof", tech="Kani loop-free contract harnesses over the full domain of every ordered kind pair",
                text="ConvertScalarToScalarBasic<F,T>::solve for all 144 ordered pairs of the primitive numeric kinds: representable => exactly that value (widen-then-narrow identity), float->int truncates toward zero and clamps, NaN -> 0; oracles avoid the cast under test. Matrix conversion / reshape / unsupported pairs not yet under contract.",
                note="Trusted: Kani/CBMC bit-precise casts; std TryFrom as integer oracle.", ref="4 C12"),
    "C14": dict(cat="proof", tech="Kani on the Hash/Eq law of Value with a recording hasher",
                text="Partial: for every scalar kind, a == b implies identical bytes are fed to the hasher (the law that makes IndexSet<Value> keep distinct elements), full value domain (signed zeros repaired by a fix: commit); MechSet::hash proved to feed one word that is invariant under permutation of the insertion order (permutation lemma proved; repaired by a fix: commit); the seven subset/superset/equality/disjointness kernels equal the mathematical relations, MechSet metadata refresh of the four operators, the kind-homogeneity check of the set literal (Verus, assumed IndexSet spec); operand order of the MutableReference fallback arms (Verus fragments). The set algebra itself is indexmap's assumed contract.",
                note="Hash containers cannot run under CBMC (P12); set operations, metadata refresh and comprehensions not decided.", ref="4 C14"),
    "C15": dict(cat="proof", tech="Kani on count fragments cut verbatim from the dispatch-arm macros + fill kernels on real nalgebra",
                text="Element-count computation of the four range dispatch arms (fragment F, verbatim text, every kind) against the exact count over mathematical integers, loop-free over the full domain; fill kernels Range*Scalar::solve against out[i]==a+i*s on real nalgebra (bounded length 4) and, transcribed over Vec<T>, proved by Verus for every length. Known defects pinned as known findings (span wider than the kind, fractional exclusive float ranges, negative steps); the fill overflow at the kind's maximum was repaired by a fix: commit.",
                note="Trusted: Kani/CBMC; the arm's allocation and storage-type match are read off the macro text. 64-bit stepped ranges bounded to |x|<2^52; 128-bit stepped ranges and float stepped ranges not covered.", ref="4 C15"),
    "C19": dict(cat="proof", tech="Kani kernel harnesses with re-evaluation assertions + Verus on the loop nest of Interpreter::step",
                text="Partial: for every elementwise operator kernel (one 8-bit kind, four representative form pairs; thorough: more kinds and all forms) solve() leaves its inputs unchanged and a second solve() changes nothing; Interpreter::step(0, n) solves plan[0..len) in order n times and n single steps equal one n-step (proved on a transcription of the loop nest guarded by an anchor check). That evaluators build plans whose steps write fresh cells, and cross-process determinism, are not decided.",
                note="Trusted: Kani/CBMC, Verus/Z3. The per-kernel clauses of the access/convert/range/concat kernels are asserted in the C03/C11/C12/C15 harnesses.", ref="4 C19"),
    "C20": dict(cat="proof", tech="Verus on code_fence_delimiter, is_code_fence_close and on the active-set protocol fragment of expand_mechdown_includes_recursive",
                text="Partial: the fence-line classifier is proved for lines of any length; the cycle-detection protocol (path in active set => error; set restored on success so diamonds are allowed; the recursion runs with the path in the set) is proved on the statements that touch the set, with the file-reading middle replaced by its own contract. Textual-substitution equality, path resolution and termination are not decided.",
                note="Assumed: modular recursion (the middle satisfies the function's contract), canonicalize identifies files.", ref="4 C20"),
}
NA = {
    "C08": "formatter∘parser round trip: postcondition mentions the nom/closure parser, which neither Verus (cannot take the code) nor Kani (8 min for one concrete 5-token input, P10) can reach; no contract within reach decides it",
    "C09": "totality/termination of the recovery parser over all Unicode text needs progress measures through nom combinators and unicode-segmentation; out of reach of both verifiers (P10)",
    "C10": "prose inertness / fence isolation are implemented by the Mechdown parser plus an AST walk over a live interpreter with HashMap-keyed sub-interpreters; no per-function contract captures it without the parser",
    "C16": "arm selection, guards, recursion: AST-walking evaluators whose inputs are syntax trees and environments; symbolic ASTs are out of reach, concrete ones would be tests",
    "C17": "state-machine transition runs: AST-walking evaluator over HashMap state; same reason as C16",
    "C18": "joins are one 180-line function over HashMap/HashSet/IndexMap with iterator closures: Verus cannot take it, hash containers with symbolic keys do not terminate under CBMC (P12)",
}
PENDING = {"C13": "literal spelling->value: float/scientific literals go through str::parse::<f64> and powf (std's contract / not modelled by either verifier) and the grammar side is parser code; the only functions within reach (binary/oct/dec/hex evaluators) run i64::from_str_radix over a String collected from symbolic chars, which exhausts CBMC (45 GB, no verdict in 300 s per harness, measured) — no obligation could be discharged, so nothing is claimed"}


def main():
    checks = []
    for pid, c in sorted(CLAIMS.items()):
        checks.append({
            "property_id": pid,
            "quick_cmd": "bin/check %s --tier quick" % pid,
            "thorough_cmd": "bin/check %s --tier thorough" % pid,
            "evidence_file": "evidence/%s.json" % pid,
            "replay_cmd_template": "bin/check %s --replay {path}" % pid,
            "engine": "contracts",
            "level_claimed": {"category": c["cat"], "text": c["text"], "design_ref": "DESIGN.md §" + c["ref"]},
            "level_note": c["note"],
            "technique": c["tech"],
        })
    na = [{"property_id": k, "reason": v} for k, v in sorted({**NA, **PENDING}.items()) if k not in CLAIMS]
    m = {
        "version": 1,
        "setup_cmd": "bin/check --setup",
        "hooks": {"guard": "kani", "enable": "no change in /repo: checks build mirror crates under /verif/.build/ws (symlinks to /repo's working tree + appended `#[cfg(any(kani, verif_replay))] mod` lines); cfg(kani) is set only by the Kani compiler",
                  "baseline_off_cmd": BASELINE, "source_commits": [], "add_only": True},
        "engines": [{"name": "contracts", "path": "bin/check", "serves_properties": sorted(CLAIMS),
                     "kind_free_text": "contract-based deductive verification: Verus 0.2026.09.13 on functions extracted verbatim each run; Kani 0.68/CBMC 6.11 contract harnesses compiled into mirror crates of the real sources"}],
        "checks": checks,
        "not_applicable": na,
        "notes": "exit 0 = held on everything explored; exit 1 + VIOLATION line = violated obligation; exit 2 = machinery failure (never an alarm). UNDECIDED lines are informational.",
    }
    with open(os.path.join(V, "MANIFEST.json"), "w") as f:
        json.dump(m, f, indent=1, ensure_ascii=False)
    print("MANIFEST.json: %d checks, %d not_applicable" % (len(checks), len(na)))


if __name__ == "__main__":
    main()
