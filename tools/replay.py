"""Native replay of a Kani counterexample against the real code.

The mirror crates are built with ordinary rustc and `--cfg verif_replay`, which
compiles the same harness modules with `vk::any` reading the concrete bytes
Kani printed.  A tiny generated binary calls the module's exported
`vkreplay_*` entry (a #[no_mangle] symbol), so the *same harness body* runs on
the real code; a failing `assert!` (or, for value obligations, any panic) is
the reproduced counterexample."""
import os, sys, json, subprocess, re, hashlib
sys.path.insert(0, os.path.dirname(os.path.abspath(__file__)))
import vlib
from vlib import WS, BUILD, VERIF

REPLAY_TARGET = os.path.join(BUILD, "target-replay")
DRIVER_DIR = os.path.join(WS, "replay-driver")

CRATE_IDENT = {"mech-core": "mech_core", "mech-math": "mech_math", "mech-compare": "mech_compare", "mech-logic": "mech_logic",
               "mech-range": "mech_range", "mech-set": "mech_set", "mech-interpreter": "mech_interpreter"}


def _write(path, text):
    os.makedirs(os.path.dirname(path), exist_ok=True)
    old = None
    if os.path.exists(path):
        with open(path) as f:
            old = f.read()
    if old != text:
        with open(path, "w") as f:
            f.write(text)


def native_replay(package, entry, harness, values, timeout=3000):
    ident = CRATE_IDENT[package]
    vals = ", ".join("vec![%s]" % ", ".join(str(b) for b in v) for v in values)
    main = '''// GENERATED replay driver
extern crate %(ident)s;
unsafe extern "Rust" { fn %(entry)s(name: &str, vals: &[Vec<u8>]) -> i32; }
fn main() {
    let vals: Vec<Vec<u8>> = vec![%(vals)s];
    let r = std::panic::catch_unwind(|| unsafe { %(entry)s("%(harness)s", &vals) });
    match r {
        Ok(0) => println!("REPLAY-OUTCOME: completed"),
        Ok(_) => println!("REPLAY-OUTCOME: unknown-harness"),
        Err(e) => {
            let msg = if let Some(s) = e.downcast_ref::<String>() { s.clone() } else if let Some(s) = e.downcast_ref::<&str>() { s.to_string() } else { "<non-string panic>".to_string() };
            println!("REPLAY-OUTCOME: panicked: {}", msg.replace('\\n', " "));
        }
    }
}
''' % dict(ident=ident, entry=entry, harness=harness, vals=vals)
    cargo = '''[package]
name = "verif-replay-driver"
version = "0.0.0"
edition = "2024"

[dependencies]
%s = { version = "0.3.5" }
''' % package
    _write(os.path.join(DRIVER_DIR, "Cargo.toml"), cargo)
    _write(os.path.join(DRIVER_DIR, "src", "main.rs"), main)
    # the driver is a member of the mirror workspace only while replaying
    wsman = os.path.join(WS, "Cargo.toml")
    with open(wsman) as f:
        txt = f.read()
    if '"replay-driver"' not in txt:
        txt = txt.replace("members = [\n", "members = [\n  \"replay-driver\",\n", 1)
        with open(wsman, "w") as f:
            f.write(txt)
    env = dict(os.environ, CARGO_NET_OFFLINE="true", CARGO_TARGET_DIR=REPLAY_TARGET, RUSTC_BOOTSTRAP="1",
               RUSTFLAGS="--cfg verif_replay -Awarnings")
    try:
        p = subprocess.run(["cargo", "run", "--offline", "-q", "-p", "verif-replay-driver"], cwd=WS, env=env,
                           capture_output=True, text=True, timeout=timeout)
        out = p.stdout + "\n" + p.stderr
    except subprocess.TimeoutExpired:
        return {"outcome": "error", "output": "native replay build/run timed out"}
    finally:
        # restore the workspace manifest so that Kani runs are not affected
        with open(wsman) as f:
            t2 = f.read()
        t2 = t2.replace("  \"replay-driver\",\n", "")
        with open(wsman, "w") as f:
            f.write(t2)
    m = re.search(r"REPLAY-OUTCOME: (.*)", out)
    if not m:
        return {"outcome": "error", "output": out[-3000:]}
    line = m.group(1)
    if line.startswith("completed"):
        return {"outcome": "not_reproduced", "output": line}
    if "VK-ASSUME" in line:
        return {"outcome": "precondition_not_met", "output": line}
    if "VK:" in line or "assertion failed" in line:
        return {"outcome": "assertion_failed", "output": line[:1000]}
    if line.startswith("panicked"):
        return {"outcome": "panicked", "output": line[:1000]}
    return {"outcome": "error", "output": line}


def replay_file(path):
    with open(path) as f:
        info = json.load(f)
    print("obligation:", info.get("obligation"))
    print("what:", info.get("what"))
    ce = info.get("counterexample")
    if not ce:
        print("no concrete input was produced by the verifier; verifier output follows")
        print(info.get("verifier_output", "")[-3000:])
        return 1
    print("counterexample (decoded):", ce.get("decoded"))
    import driver
    driver.build_mirror()
    ent = info.get("replay_entry") or None
    if not ent:
        print("no native replay entry recorded")
        return 1
    rr = native_replay(info["package"], ent, info["harness"], ce["values"])
    print("native replay on the real code:", rr)
    return 1 if rr.get("outcome") in ("assertion_failed", "panicked") else 0
