#!/bin/sh
# usage: tools/scratch.sh <Cxx> <patch.diff> [tier]   -- run a check against a scratch worktree of /repo with a patch applied
# (never touches /repo; the scratch worktree is removed afterwards; evidence/<Cxx>.json is restored from git afterwards)
P="$1"; PATCH="$(realpath "$2")"; TIER="${3:-quick}"
S=/tmp/scratch_$$
git -C /repo worktree add -f "$S" HEAD >/dev/null 2>&1 || exit 2
( cd "$S" && git apply "$PATCH" ) || { echo "patch does not apply"; git -C /repo worktree remove --force "$S"; exit 2; }
cp /verif/evidence/$P.json /tmp/evidence_$P.$$ 2>/dev/null
VERIF_REPO="$S" /verif/bin/check "$P" --tier "$TIER"; rc=$?
cp /tmp/evidence_$P.$$ /verif/evidence/$P.json 2>/dev/null; rm -f /tmp/evidence_$P.$$
git -C /repo worktree remove --force "$S"
exit $rc
