#!/usr/bin/env python3
"""records a confirmed seeded change under /verif/seeded/<id>/ (patch.diff, demo.rs, meta.json)"""
import json, os, shutil, sys
V = os.path.dirname(os.path.dirname(os.path.abspath(__file__)))
def save(sid, prop, wt, k, breaks, needs, ran, detected_by, caught):
    d = os.path.join(V, "seeded", sid)
    os.makedirs(d, exist_ok=True)
    shutil.copy(os.path.join(wt, "mutation_%d.diff" % k), os.path.join(d, "patch.diff"))
    shutil.copy(os.path.join(wt, "demo_%d.rs" % k), os.path.join(d, "demo.rs"))
    meta = {"property": prop, "breaks": breaks, "needs": needs, "ran": ran, "detected_by": detected_by, "caught": caught,
            "source": "independent sub-agent given only the property text and a scratch worktree; demo and suites re-run by me in %s" % wt}
    with open(os.path.join(d, "meta.json"), "w") as f:
        json.dump(meta, f, indent=1, ensure_ascii=False)
if __name__ == "__main__":
    save(*json.loads(sys.argv[1]))
