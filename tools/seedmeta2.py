#!/usr/bin/env python3
"""usage: seedmeta2.py <seed-id> <caught: yes|no|undecided> <detected_by text>   -- writes seeded/<id>/meta.json from notes.md (first paragraphs) and the given verdict"""
import json, os, re, sys
V = os.path.dirname(os.path.dirname(os.path.abspath(__file__)))
sid, caught, det = sys.argv[1], sys.argv[2], sys.argv[3]
d = os.path.join(V, "seeded", sid)
notes = open(os.path.join(d, "notes.md")).read() if os.path.exists(os.path.join(d, "notes.md")) else ""
def section(*keys):
    for k in keys:
        m = re.search(r"(?im)^#+\s*[^\n]*%s[^\n]*\n(.*?)(?=^#+\s|\Z)" % k, notes, re.S)
        if m:
            return re.sub(r"\s+", " ", m.group(1)).strip()[:900]
    return ""
meta = {
    "property": sid.split("-")[0],
    "breaks": section("what", "change") or re.sub(r"\s+", " ", notes)[:900],
    "needs": section("needs", "manifest", "input", "trigger"),
    "ran": "sub-agent (wave 6): cargo test --offline --test interpreter (562 passed) and --test bytecode (83 passed) with the change, demo fails with / passes without; re-run by me with /tmp/confirm.sh in the same worktree (same counts; see notes.md for the demo counts)",
    "detected_by": det,
    "caught": {"yes": True, "no": False}.get(caught, None),
    "source": "independent sub-agent given only the property text and a scratch worktree (removed afterwards); patch run through bin/check by me (git apply in /repo, check, git checkout; or tools/scratch.sh for Verus-only checks)",
}
json.dump(meta, open(os.path.join(d, "meta.json"), "w"), indent=1, ensure_ascii=False)
print(sid, meta["caught"])
