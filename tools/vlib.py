"""Shared machinery of the /verif driver: extraction, Verus and Kani runners,
obligation bookkeeping.  See DESIGN.md section 3."""
import os, re, sys, json, time, subprocess, hashlib, shutil, threading
from concurrent.futures import ThreadPoolExecutor

VERIF = os.path.dirname(os.path.dirname(os.path.abspath(__file__)))
REPO = os.environ.get("VERIF_REPO", "/repo")
BUILD = os.path.join(VERIF, ".build")
WS = os.path.join(BUILD, "ws")
GEN = os.path.join(BUILD, "gen")
KANI_TARGET = os.path.join(BUILD, "target")
NCPU = os.cpu_count() or 4

sys.path.insert(0, os.path.join(VERIF, "tools"))
import mirror  # noqa


# --------------------------------------------------------------------------
# Obligations
# --------------------------------------------------------------------------
class Ob:
    """One proof obligation.

    level   : 'proved'  (Verus; or loop-free Kani harness over the full domain)
              'bounded' (Kani with a shape/length bound, recorded in .bound)
    mode    : 'value'   any failed check in the harness violates the obligation
              'reject'  only failures of assertions whose text starts with 'VK:'
                        count (panics inside the real code are the accepted way
                        of "not producing a value")
    status  : 'discharged' | 'violated' | 'undecided'
    """

    def __init__(self, name, backend, level, bound="", mode="value", functions=(), known=None,
                 what=""):
        self.name = name
        self.backend = backend
        self.level = level
        self.bound = bound
        self.mode = mode
        self.functions = list(functions)
        self.status = "undecided"
        self.seconds = 0.0
        self.detail = ""
        self.inputs = None
        self.raw = ""
        self.what = what
        self.replay = None

    def to_json(self):
        d = {"obligation": self.name, "backend": self.backend, "level": self.level,
             "status": self.status, "solver_s": round(self.seconds, 2)}
        if self.bound:
            d["bound"] = self.bound
        if self.detail:
            d["detail"] = self.detail[:400]
        return d


# --------------------------------------------------------------------------
# Source extraction (mechanism X / F of DESIGN.md)
# --------------------------------------------------------------------------
class AnchorLost(Exception):
    pass


def read_repo(rel):
    p = os.path.join(REPO, rel)
    try:
        with open(p, encoding="utf-8") as f:
            return f.read()
    except FileNotFoundError:
        raise AnchorLost("file %s is missing" % rel)


def _skip_trivia(s, i):
    """At s[i], if a comment / string / char literal starts, return index after it, else i."""
    n = len(s)
    if s.startswith("//", i):
        j = s.find("\n", i)
        return n if j < 0 else j
    if s.startswith("/*", i):
        depth, j = 1, i + 2
        while j < n and depth:
            if s.startswith("/*", j):
                depth += 1; j += 2
            elif s.startswith("*/", j):
                depth -= 1; j += 2
            else:
                j += 1
        return j
    c = s[i]
    if c == '"':
        j = i + 1
        while j < n:
            if s[j] == "\\":
                j += 2
            elif s[j] == '"':
                return j + 1
            else:
                j += 1
        return n
    if c == "r" and re.match(r'r#*"', s[i:i + 8] or ""):
        m = re.match(r'r(#*)"', s[i:])
        close = '"' + m.group(1)
        j = s.find(close, i + len(m.group(0)))
        return n if j < 0 else j + len(close)
    if c == "'":
        # char literal or lifetime
        m = re.match(r"'(\\.[^']*|[^\\'])'", s[i:])
        if m:
            return i + len(m.group(0))
        return i + 1
    return i


def match_brace(s, i, open_c="{", close_c="}"):
    """s[i] == open_c; return index just after the matching close."""
    assert s[i] == open_c, (s[i - 10:i + 10])
    depth, n = 0, len(s)
    while i < n:
        j = _skip_trivia(s, i)
        if j != i:
            i = j
            continue
        c = s[i]
        if c == open_c:
            depth += 1
        elif c == close_c:
            depth -= 1
            if depth == 0:
                return i + 1
        i += 1
    raise AnchorLost("unbalanced braces")


def find_code(s, pattern, start=0):
    """regex search skipping comments/strings; returns match object or None"""
    rx = re.compile(pattern)
    i, n = start, len(s)
    # build a mask of code regions lazily: simple approach, iterate matches and verify
    for m in rx.finditer(s, start):
        if in_code(s, m.start()):
            return m
    return None


_code_cache = {}


def _code_mask(s):
    key = id(s), len(s)
    h = hashlib.md5(s.encode()).hexdigest()
    if h in _code_cache:
        return _code_cache[h]
    spans = []
    i, n = 0, len(s)
    while i < n:
        j = _skip_trivia(s, i)
        if j != i:
            if not (s[i] == "'" and j == i + 1):
                spans.append((i, j))
            i = j
        else:
            i += 1
    _code_cache[h] = spans
    return spans


def in_code(s, pos):
    import bisect
    spans = _code_mask(s)
    k = bisect.bisect_right(spans, (pos, 1 << 60)) - 1
    if k >= 0 and spans[k][0] <= pos < spans[k][1]:
        return False
    return True


def find_all_code(s, pattern):
    rx = re.compile(pattern)
    return [m for m in rx.finditer(s) if in_code(s, m.start())]


def extract_fn(text, name, which=0, unique=True):
    """Return (signature, body) of `fn name` — signature up to but excluding the
    opening brace, body including braces.  Attributes/visibility before `fn`
    are dropped."""
    ms = find_all_code(text, r"\bfn\s+%s\b" % re.escape(name))
    if not ms:
        raise AnchorLost("fn %s not found" % name)
    if unique and len(ms) != 1:
        raise AnchorLost("fn %s found %d times" % (name, len(ms)))
    m = ms[which]
    i = m.end()
    # find opening brace of body at paren depth 0
    depth = 0
    n = len(text)
    while i < n:
        j = _skip_trivia(text, i)
        if j != i:
            i = j; continue
        c = text[i]
        if c in "(<[":
            depth += 1 if c != "<" else 0
        elif c in ")]":
            depth -= 1
        elif c == "{" and depth == 0:
            break
        elif c == ";" and depth == 0:
            raise AnchorLost("fn %s has no body" % name)
        i += 1
    end = match_brace(text, i)
    return text[m.start():i].rstrip(), text[i:end]


def extract_macro(text, name):
    """Return the full text of `macro_rules! name { ... }` (or (...) ;)."""
    ms = find_all_code(text, r"\bmacro_rules!\s*%s\b" % re.escape(name))
    if len(ms) != 1:
        raise AnchorLost("macro_rules! %s found %d times" % (name, len(ms)))
    i = ms[0].end()
    while text[i] not in "{(":
        i += 1
    end = match_brace(text, i, text[i], "}" if text[i] == "{" else ")")
    return text[ms[0].start():end]


def macro_arm_body(macro_text, arm=0):
    """Body (inside the outer braces of the transcriber) of the arm-th rule."""
    i = macro_text.index("{") if "{" in macro_text else None
    # skip `macro_rules! name {`
    m = re.match(r"macro_rules!\s*\w+\s*[{(]", macro_text)
    i = m.end()
    k = -1
    n = len(macro_text)
    while i < n:
        j = _skip_trivia(macro_text, i)
        if j != i:
            i = j; continue
        if macro_text[i] == "(":
            pat_end = match_brace(macro_text, i, "(", ")")
            mm = re.compile(r"\s*=>\s*").match(macro_text, pat_end)
            if not mm:
                raise AnchorLost("macro arm without =>")
            b = mm.end()
            close = {"{": "}", "(": ")", "[": "]"}[macro_text[b]]
            bend = match_brace(macro_text, b, macro_text[b], close)
            k += 1
            if k == arm:
                return macro_text[i:pat_end], macro_text[b + 1:bend - 1]
            i = bend
        else:
            i += 1
    raise AnchorLost("macro arm %d not found" % arm)


def between(text, start_pat, end_pat, include_end=False, occurrence=0):
    """Text from the start of the occurrence-th code match of start_pat up to the
    next code match of end_pat."""
    ms = find_all_code(text, start_pat)
    if len(ms) <= occurrence:
        raise AnchorLost("anchor %r not found" % start_pat)
    a = ms[occurrence].start()
    me = find_code(text, end_pat, ms[occurrence].end())
    if not me:
        raise AnchorLost("anchor %r not found" % end_pat)
    return text[a:(me.end() if include_end else me.start())]


# --------------------------------------------------------------------------
# Verus
# --------------------------------------------------------------------------
class VerusUnit:
    """A single-file Verus unit.

    text        : full source
    functions   : {fn_name: obligation name}  functions that must verify
    canaries    : [fn_name]  proof fns that must FAIL (vacuity guard)
    """

    def __init__(self, name, text, functions, canaries=(), dropped=(), assumed=()):
        self.name = name
        self.text = text
        self.functions = dict(functions)
        self.canaries = list(canaries)
        self.dropped = list(dropped)
        self.assumed = list(assumed)


def _fn_line_table(text):
    """[(start_line, end_line, fn_name)]: a function extends from its `fn` keyword to the
    line before the next `fn` keyword (generated units have no nested fns; contract
    clauses may contain braces, so brace matching from the signature is not reliable)."""
    ms = find_all_code(text, r"\bfn\s+(\w+)")
    starts = [(text.count("\n", 0, m.start()) + 1, m.group(1)) for m in ms]
    total = text.count("\n") + 1
    out = []
    for k, (ln, name) in enumerate(starts):
        end = (starts[k + 1][0] - 1) if k + 1 < len(starts) else total
        out.append((ln, end, name))
    return out


def run_verus(unit: VerusUnit, obs_by_name, workdir, rlimit=None, timeout=600):
    os.makedirs(workdir, exist_ok=True)
    path = os.path.join(workdir, unit.name + ".rs")
    with open(path, "w") as f:
        f.write(unit.text)
    # an attribute `#[cfg(..)]` left in extracted text would be evaluated by Verus's rustc with NO feature set, silently dropping the
    # attributed code: every unit must evaluate them itself (vC16.apply_cfg) for the crate's default features
    stray = re.search(r"#\s*\[\s*cfg(_attr)?\s*\(", re.sub(r"//[^\n]*", "", unit.text))
    if stray:
        for fn, on in unit.functions.items():
            ob = obs_by_name[on]
            ob.status, ob.detail, ob.seconds = "undecided", "the extracted text carries a `#[cfg(..)]` attribute the unit does not evaluate (extraction drift)", 0.0
        return {"unit": unit.name, "seconds": 0.0, "verified": None, "errors": None, "path": path,
                "machinery_error": "unevaluated #[cfg] attribute in the generated unit"}
    cmd = ["verus", path, "--output-json", "--time", "--multiple-errors", "50"]
    rlimit = rlimit or getattr(unit, "rlimit", None)
    if rlimit:
        cmd += ["--rlimit", str(rlimit)]
    t0 = time.time()
    try:
        p = subprocess.run(cmd, capture_output=True, text=True, timeout=timeout, cwd=workdir)
        out, err, rc = p.stdout, p.stderr, p.returncode
    except subprocess.TimeoutExpired as e:
        out, err, rc = "", "TIMEOUT", 124
    dt = time.time() - t0
    with open(os.path.join(workdir, unit.name + ".stderr"), "w") as f:
        f.write(err)
    table = _fn_line_table(unit.text)

    def fn_at(line):
        best = None
        for a, b, nme in table:
            if a <= line <= b:
                if best is None or a >= best[0]:
                    best = (a, nme)
        return best[1] if best else None

    try:
        js = json.loads(out[out.index("{"):]) if "{" in out else {}
    except Exception:
        js = {}
    vr = js.get("verification-results", {})
    failed = {}
    hard_error = None
    # parse diagnostics
    blocks = re.split(r"\n(?=error|note|warning)", "\n" + err)
    for b in blocks:
        if not b.startswith("error"):
            continue
        first = b.split("\n", 1)[0]
        if first.startswith("error: aborting"):
            continue
        m = re.search(r"--> [^\n:]+:(\d+):(\d+)", b)
        if not m:
            hard_error = hard_error or first
            continue
        fn = fn_at(int(m.group(1)))
        failed.setdefault(fn, []).append(first + " @line " + m.group(1))
    compiled = bool(vr) and not vr.get("encountered-vir-error", False) and "verified" in vr
    # a rustc (non-verification) error means nothing was checked
    rust_error = (rc != 0 and not vr) or vr.get("encountered-vir-error", False) or \
        any(re.match(r"error\[E\d+\]", b) for b in blocks)
    res = {"unit": unit.name, "seconds": dt, "verified": vr.get("verified"), "errors": vr.get("errors"),
           "machinery_error": None, "path": path}
    if rust_error or not compiled:
        res["machinery_error"] = "verus could not process the unit: " + (hard_error or err[-1500:])
        for fn, on in unit.functions.items():
            ob = obs_by_name[on]
            ob.status, ob.detail, ob.seconds = "undecided", "verus front-end error (unsupported construct / extraction drift)", dt
            ob.raw = err[-3000:]
        return res
    decided_here = set()
    for fn, on in unit.functions.items():
        ob = obs_by_name[on]
        ob.seconds = dt / max(1, len(unit.functions))
        if on in decided_here and ob.status in ("violated", "undecided") and fn not in failed:
            continue            # several functions carry one obligation: a failing one is not overwritten by a passing one
        decided_here.add(on)
        if fn in failed:
            msgs = failed[fn]
            if all("rlimit" in m or "resource limit" in m for m in msgs):
                ob.status, ob.detail = "undecided", "; ".join(msgs)
            else:
                ob.status, ob.detail = "violated", "; ".join(msgs)
                ob.raw = "\n".join(b for b in blocks if b.startswith("error") and fn_at(
                    int((re.search(r"--> [^\n:]+:(\d+)", b) or [0, 0])[1])) == fn)[:6000]
        else:
            ob.status = "discharged"
    # an auxiliary item (lemma / helper) that fails makes every obligation relying on it unproved
    aux_failed = [f for f in failed if f not in unit.functions and f not in unit.canaries]
    if aux_failed:
        res["machinery_error"] = "auxiliary proof item(s) failed: %s" % aux_failed
        for fn, on in unit.functions.items():
            ob = obs_by_name[on]
            if ob.status == "discharged":
                ob.status, ob.detail = "undecided", "auxiliary lemma %s did not verify" % aux_failed
    # vacuity guard: canaries must fail
    bad_canaries = [c for c in unit.canaries if c not in failed]
    if bad_canaries:
        res["machinery_error"] = "vacuity guard: canary proof(s) %s verified `false`" % bad_canaries
    return res


# --------------------------------------------------------------------------
# Kani
# --------------------------------------------------------------------------
KANI_ENV = dict(os.environ, CARGO_NET_OFFLINE="true", CARGO_TARGET_DIR=KANI_TARGET)
_RSS_CAP_KB = 14 * 1024 * 1024


def run_kani(package, harness_filter, obs_by_harness, jobs=None, timeout=3600, extra=(), log=None,
             stub_fmt=False, harness_timeout=900):
    """Run `cargo kani -p package --harness filter` in the mirror workspace and fill the obligations.

    obs_by_harness: {harness fn name: Ob}
    Returns dict(summary)."""
    jobs = jobs or NCPU
    cmd = ["cargo", "kani", "-p", package, "--output-format", "terse", "-j", str(jobs),
           "-Z", "function-contracts", "-Z", "stubbing", "-Z", "unstable-options", "--harness-timeout", str(harness_timeout)]
    for h in ([harness_filter] if isinstance(harness_filter, str) else harness_filter):
        cmd += ["--harness", h]
    cmd += list(extra)
    t0 = time.time()
    log = log or os.path.join(BUILD, "logs", "kani_last.log")
    os.makedirs(os.path.dirname(log), exist_ok=True)
    with open(log, "w") as lf:
        p = subprocess.Popen(cmd, stdout=lf, stderr=subprocess.STDOUT, cwd=WS, env=KANI_ENV)
        killed = []
        tend = time.time() + timeout
        rc = None
        while rc is None:
            try:
                rc = p.wait(timeout=10)
            except subprocess.TimeoutExpired:
                # Kani's --harness-timeout does not reliably stop a CBMC that is deep in the SAT solver: watchdog
                killed += _cbmc_watchdog(harness_timeout * 1.3 + 30)
                if time.time() > tend:
                    p.kill()
                    rc = 124
                    _kill_stray_cbmc()
    if killed:
        with open(log, "a") as lf:
            lf.write("\nWATCHDOG killed cbmc: %s\n" % ", ".join(killed))
    with open(log, errors="replace") as lf:
        out = lf.read()
    if rc == 124:
        out += "\nTIMEOUT"
    dt = time.time() - t0
    res = {"package": package, "seconds": dt, "rc": rc, "machinery_error": None, "log": log}
    seen = set()
    compiled = "Checking harness" in out or "Manual Harness Summary" in out or "No proof harnesses" in out
    if not compiled:
        # build error: extract first rustc error
        m = re.search(r"(error(\[E\d+\])?:.*?)(?=\n\n|\Z)", out, re.S)
        res["machinery_error"] = "kani build failed: " + (m.group(1)[:1500] if m else out[-1500:])
        res["build_error"] = True
        for ob in obs_by_harness.values():
            ob.status, ob.detail = "undecided", "mirror did not compile under Kani"
        return res
    for full, b in split_kani_blocks(out):
        h = full.split("::")[-1]
        ob = obs_by_harness.get(h)
        if ob is None:
            continue
        seen.add(h)
        classify_kani_block(ob, b, res, h)
    for h, ob in obs_by_harness.items():
        if h not in seen:
            ob.status = "undecided"
            ob.detail = ob.detail or "harness was not run (missing from kani output)"
    return res


def _cbmc_watchdog(max_age, max_rss_kb=14 * 1024 * 1024, min_avail_kb=8 * 1024 * 1024):
    """kill CBMC processes of the mirror workspace that outlive the harness timeout, exceed the per-process memory
    cap, or (largest first) when the machine runs out of memory; the harness then has no verdict (undecided)."""
    import signal
    procs = []
    hz = os.sysconf("SC_CLK_TCK")
    try:
        up = float(open("/proc/uptime").read().split()[0])
    except Exception:
        return []
    for pid in os.listdir("/proc"):
        if not pid.isdigit():
            continue
        try:
            if open("/proc/%s/comm" % pid).read().strip() != "cbmc":
                continue
            cl = open("/proc/%s/cmdline" % pid, "rb").read().decode("utf8", "replace")
            if BUILD not in cl:
                continue
            st = open("/proc/%s/stat" % pid).read().rsplit(")", 1)[1].split()
            age = up - int(st[19]) / hz
            rss = int(st[21]) * (os.sysconf("SC_PAGE_SIZE") // 1024)
            m = re.search(r"(vk\w+)\.out", cl)
            procs.append((int(pid), age, rss, m.group(1) if m else "?"))
        except Exception:
            continue
    avail = 1 << 40
    try:
        for ln in open("/proc/meminfo"):
            if ln.startswith("MemAvailable:"):
                avail = int(ln.split()[1])
    except Exception:
        pass
    victims = [x for x in procs if x[1] > max_age or x[2] > max_rss_kb]
    if avail < min_avail_kb and procs:
        victims.append(max(procs, key=lambda x: x[2]))
    out = []
    for pid, age, rss, h in {v[0]: v for v in victims}.values():
        try:
            os.kill(pid, signal.SIGKILL)
            out.append("%s (age %.0fs, rss %.1f GB)" % (h, age, rss / 1048576.0))
        except Exception:
            pass
    return out


def split_kani_blocks(out):
    """[(harness full name, result text)] from (possibly -j interleaved) kani output"""
    cur = {}      # thread -> harness
    res = []
    lines = out.split("\n")
    i, n = 0, len(lines)
    while i < n:
        ln = lines[i]
        m = re.match(r"(?:Thread (\d+): )?Checking harness ([\w:<>, ]+?)\.\.\.", ln)
        if m:
            cur[m.group(1) or "-"] = m.group(2)
            i += 1
            continue
        m = re.match(r"Thread (\d+): ?$", ln)
        t = None
        if m:
            t = m.group(1)
        elif ln.startswith("VERIFICATION RESULT:") and "-" in cur:
            t = "-"
        if t is not None and t in cur:
            j = i + 1
            blk = []
            while j < n and not lines[j].startswith("Verification Time:") and not re.match(r"(?:Thread \d+: )", lines[j]) \
                    and not lines[j].startswith("Manual Harness Summary") and not lines[j].startswith("Checking harness"):
                blk.append(lines[j]); j += 1
            if j < n and lines[j].startswith("Verification Time:"):
                blk.append(lines[j]); j += 1
            res.append((cur.pop(t), ("VERIFICATION RESULT:\n" if t == "-" else "") + "\n".join(blk)))
            i = j
            continue
        i += 1
    # harnesses that started but never reported
    for t, h in cur.items():
        res.append((h, ""))
    return res


def classify_kani_block(ob, b, res, h):
    ob.raw = b[:8000]
    tm = re.search(r"Verification Time: ([\d.]+)s", b)
    ob.seconds = float(tm.group(1)) if tm else 0.0
    fails = [f for f in re.findall(r"Failed Checks: (.*)", b) if not _ignorable(f)]
    covers = re.search(r"\*\* (\d+) of (\d+) cover properties satisfied", b)
    cover_bad = bool(covers and covers.group(1) != covers.group(2))
    if "VERIFICATION:- SUCCESSFUL" in b or ("VERIFICATION:- FAILED" in b and not fails and re.search(r"Failed Checks: ", b)):
        if cover_bad:
            ob.status = "undecided"
            ob.detail = "vacuity guard: %s of %s cover points reachable" % (covers.group(1), covers.group(2))
            res["machinery_error"] = "vacuity: unreachable cover in %s" % h
        else:
            ob.status = "discharged"
    elif "VERIFICATION:- FAILED" in b:
        real = [f for f in fails if not _is_tool_failure(f)]
        unwind = [f for f in real if "unwinding assertion" in f]
        real = [f for f in real if "unwinding assertion" not in f]
        if ob.mode == "reject":
            real = [f for f in real if "VK:" in f]
        if real:
            ob.status = "violated"
            ob.detail = "; ".join(sorted(set(real)))[:600]
        elif unwind:
            ob.status, ob.detail = "undecided", "unwinding bound too small: " + "; ".join(sorted(set(unwind)))[:200]
        elif ob.mode == "reject" and fails:
            # only panics inside the real code: that is the accepted rejection
            if cover_bad:
                ob.status, ob.detail = "undecided", "cover unreachable"
            else:
                ob.status = "discharged"
        else:
            ob.status = "undecided"
            ob.detail = "kani reported FAILED without a failed check (out of memory / solver crash / timeout)"
    else:
        ob.status = "undecided"
        ob.detail = "no verdict (timeout / crash)"


def _ignorable(msg):
    # IEEE-754 NaN results are legitimate values of the language, not errors
    return msg.startswith("NaN on ")


def _is_tool_failure(msg):
    return any(k in msg for k in ("is not currently supported by Kani", "CBMC appears to have run out of memory"))


def _kill_stray_cbmc():
    # never pkill -f with our own command line containing the pattern; go through /proc
    me = os.getpid()
    for pid in os.listdir("/proc"):
        if not pid.isdigit() or int(pid) == me:
            continue
        try:
            with open("/proc/%s/comm" % pid) as f:
                comm = f.read().strip()
            if comm in ("cbmc", "goto-instrument", "kani-driver", "kani-compiler"):
                os.kill(int(pid), 9)
        except Exception:
            pass


def _run_group(cmd, timeout, cwd, env):
    """run a command in its own process group; on timeout kill the whole group (cargo-kani leaves CBMC behind otherwise)"""
    import signal
    p = subprocess.Popen(cmd, stdout=subprocess.PIPE, stderr=subprocess.STDOUT, text=True, cwd=cwd, env=env, start_new_session=True)
    try:
        out, _ = p.communicate(timeout=timeout)
        return out or "", False
    except subprocess.TimeoutExpired:
        try:
            os.killpg(p.pid, signal.SIGKILL)
        except Exception:
            pass
        try:
            out, _ = p.communicate(timeout=30)
        except Exception:
            out = ""
        return out or "", True


def kani_playback_batch(package, harnesses, log=None, timeout=2400):
    """Re-run the failing harnesses of one package in ONE cargo-kani call (-j 16) with concrete playback;
    returns {harness: [test, ...]} (tests are attributed by the generated test-function name)."""
    res = {h: [] for h in harnesses}
    if not harnesses:
        return res
    cmd = ["cargo", "kani", "-p", package, "--output-format", "terse", "-j", "16", "-Z", "unstable-options",
           "-Z", "function-contracts", "-Z", "stubbing", "-Z", "concrete-playback", "--concrete-playback=print",
           "--harness-timeout", "600s"]
    for h in harnesses:
        cmd += ["--harness", h]
    out, _timed_out = _run_group(cmd, timeout, WS, KANI_ENV)
    if log:
        with open(log, "w") as f:
            f.write(out)
    for t in _parse_playback(out):
        # generated name: kani_concrete_playback_<harness>_<hash>; longest harness name wins
        cands = [h for h in harnesses if ("kani_concrete_playback_" + h + "_") in t["fname"] + "_"]
        if cands:
            res[max(cands, key=len)].append(t)
    return res


def _parse_playback(out):
    tests = []
    for m in re.finditer(r"/// Check for `[^`]*`: (.*?)\n#\[test\]\nfn (\w+)\(\) \{\n\s*let concrete_vals: Vec<Vec<u8>> = vec!\[(.*?)\n\s*\];", out, re.S):
        check, fname, body = m.group(1), m.group(2), m.group(3)
        vals, comments = [], []
        for line in body.split("\n"):
            line = line.strip()
            if line.startswith("//"):
                comments.append(line[2:].strip())
            mm = re.match(r"vec!\[([\d,\s]*)\]", line)
            if mm:
                vals.append([int(x) for x in mm.group(1).replace(" ", "").split(",") if x])
        tests.append({"check": check.strip().strip('"'), "values": vals, "decoded": comments, "fname": fname})
    return tests


def kani_playback_values(package, harness, log=None, timeout=600):
    """Re-run one failing harness with concrete playback and return a list of
    {check, values:[[bytes]...], comments:[str]}"""
    cmd = ["cargo", "kani", "-p", package, "--harness", harness, "--output-format", "terse",
           "-Z", "function-contracts", "-Z", "stubbing", "-Z", "concrete-playback", "--concrete-playback=print"]
    out, timed_out = _run_group(cmd, timeout, WS, KANI_ENV)
    if timed_out:
        return []
    if log:
        with open(log, "w") as f:
            f.write(out)
    tests = []
    for m in re.finditer(r"/// Check for `[^`]*`: (.*?)\n#\[test\]\nfn (\w+)\(\) \{\n\s*let concrete_vals: Vec<Vec<u8>> = vec!\[(.*?)\n\s*\];", out, re.S):
        check, fname, body = m.group(1), m.group(2), m.group(3)
        vals, comments = [], []
        for line in body.split("\n"):
            line = line.strip()
            if line.startswith("//"):
                comments.append(line[2:].strip())
            mm = re.match(r"vec!\[([\d,\s]*)\]", line)
            if mm:
                vals.append([int(x) for x in mm.group(1).replace(" ", "").split(",") if x])
        tests.append({"check": check.strip().strip('"'), "values": vals, "decoded": comments})
    return tests


# --------------------------------------------------------------------------
# Verus unit building from extracted functions
# --------------------------------------------------------------------------
def name_return(sig, ret="r"):
    """`fn f(..) -> T` => `fn f(..) -> (r: T)`; signature otherwise unchanged."""
    # find the `->` at paren depth 0 after the parameter list
    depth = 0
    i = sig.index("(")
    n = len(sig)
    while i < n:
        c = sig[i]
        if c in "([":
            depth += 1
        elif c in ")]":
            depth -= 1
            if depth == 0:
                break
        i += 1
    rest = sig[i + 1:]
    m = re.match(r"\s*->\s*(.+?)\s*(where\b.*)?$", rest, re.S)
    if not m:
        return sig
    return sig[:i + 1] + " -> (%s: %s)" % (ret, m.group(1).strip()) + ((" " + m.group(2)) if m.group(2) else "")


def strip_vis(sig):
    return re.sub(r"^\s*(pub(\([^)]*\))?\s+)?(const\s+)?", "", sig)


def verus_fn(sig, body, requires=(), ensures=(), injects=(), ret="r", decreases=None, rename=None):
    """Assemble a Verus exec fn from an extracted (sig, body).
    injects: [(regex anchored in body, ghost text, 'before'|'after')] — ghost code only."""
    s = name_return(strip_vis(sig), ret)
    if rename:
        s = re.sub(r"\bfn\s+\w+", "fn " + rename, s, count=1)
    b = body
    for pat, text, where in injects:
        ms = find_all_code(b, pat)
        if len(ms) != 1:
            raise AnchorLost("proof-injection anchor %r matched %d times" % (pat, len(ms)))
        pos = ms[0].start() if where == "before" else ms[0].end()
        b = b[:pos] + "\n" + text + "\n" + b[pos:]
    spec = ""
    if requires:
        spec += "\n  requires " + ",\n    ".join(requires) + ","
    if ensures:
        spec += "\n  ensures " + ",\n    ".join(ensures) + ","
    if decreases:
        spec += "\n  decreases " + decreases + ","
    return s + spec + "\n" + b + "\n"


def verus_canary(name, params, requires):
    """proof fn that assumes the contract's precondition and claims false: must FAIL."""
    req = ("\n  requires " + ",\n    ".join(requires) + ",") if requires else ""
    return "proof fn %s(%s)%s\n  ensures false,\n{ }\n" % (name, params, req)


def verus_file(items, prelude=""):
    return "use vstd::prelude::*;\n" + prelude + "\nverus! {\n\n" + "\n".join(items) + "\n} // verus!\nfn main() {}\n"


def inject_loop_specs(body, specs, keyword=r"\b(while|for|loop)\b"):
    """Attach Verus loop contracts by loop ordinal: specs[k] is inserted between the
    k-th loop header and its body brace (ghost annotation; no executable token changes)."""
    ms = find_all_code(body, keyword)
    if len(ms) != len(specs):
        raise AnchorLost("expected %d loops, found %d" % (len(specs), len(ms)))
    out = body
    for m, spec in reversed(list(zip(ms, specs))):
        i = m.end()
        depth = 0
        n = len(out)
        while i < n:
            j = _skip_trivia(out, i)
            if j != i:
                i = j; continue
            c = out[i]
            if c in "([":
                depth += 1
            elif c in ")]":
                depth -= 1
            elif c == "{" and depth == 0:
                break
            i += 1
        if spec:
            out = out[:i] + "\n" + spec + "\n" + out[i:]
    return out


def split_statements(block):
    """Top-level statements of a `{ ... }` block text (braces included).  Returns a
    list of statement texts (with their terminating `;` if any); the trailing
    expression (no `;`) is the last item."""
    assert block.lstrip().startswith("{")
    s = block.strip()[1:-1]
    out, i, n, start = [], 0, len(s), 0
    depth = 0
    while i < n:
        j = _skip_trivia(s, i)
        if j != i:
            i = j; continue
        c = s[i]
        if c in "([{":
            if c == "{" and depth == 0:
                end = match_brace(s, i)
                # block-like statement ends here unless it continues (else / method call / ? / operator / ;)
                m = re.compile(r"\s*(else\b|\.|\?|;|,|=|\)|as\b|\+|-|\*|/|&&|\|\|)").match(s, end)
                head = s[start:i].strip()
                # leading comments and attributes do not change what kind of statement this is
                while True:
                    h2 = re.sub(r"^(//[^\n]*\n\s*|/\*.*?\*/\s*|#\[[^\]]*\]\s*)", "", head, count=1, flags=re.S)
                    if h2 == head:
                        break
                    head = h2
                blocklike = re.match(r"^(if|for|while|loop|match|unsafe)\b", head) or head == ""
                if not m and blocklike:
                    out.append(s[start:end].strip()); start = end
                i = end
                continue
            depth += 1
        elif c in ")]}":
            depth -= 1
        elif c == ";" and depth == 0:
            out.append(s[start:i + 1].strip()); start = i + 1
        i += 1
    rest = s[start:].strip()
    if rest:
        out.append(rest)
    return [x for x in out if x]


def strip_lead(st):
    """statement text without leading comments / attributes"""
    st = st.strip()
    while True:
        s2 = re.sub(r"^(//[^\n]*\n\s*|/\*.*?\*/\s*|#\[[^\]]*\]\s*)", "", st, count=1, flags=re.S)
        if s2 == st:
            return st
        st = s2


# --------------------------------------------------------------------------
# Renamed locals / parameters: contracts of the fragment units (C16-C18) name the code's variables.  A pure rename must
# not change the verdict, so the extracted text is first brought back to the names the contract was written with:
# binding occurrences are listed in order of first appearance and compared POSITIONALLY with the recorded list.
_BIND_PATS = [
    r"\blet\s+(?:mut\s+)?(\w+)\b",
    r"\blet\s+(?:mut\s+)?\(([^()]*)\)\s*(?::[^=]*)?=",
    r"\bfor\s+(\w+)\s+in\b",
    r"\bfor\s+\(([^()]*)\)\s+in\b",
    r"\bif\s+let\s+[\w:]+\(\(?([^()]*)\)?\)\s*=",
    r"[\w:]*[A-Z]\w*\(([^()]*)\)\s*(?:\|\s*[\w:]+\([^()]*\)\s*)*=>",
    r"\|\(?([\w\s,&]*)\)?\|",
]


def param_names(sig):
    i = sig.index("(")
    e = match_brace(sig, i, "(", ")")
    out = []
    depth, cur = 0, ""
    for c in sig[i + 1:e - 1] + ",":
        if c in "(<[":
            depth += 1
        elif c in ")>]":
            depth -= 1
        if c == "," and depth == 0:
            m = re.match(r"\s*(?:mut\s+)?(\w+)\s*:", cur)
            if m:
                out.append(m.group(1))
            cur = ""
        else:
            cur += c
    return out


def binding_names(body):
    found = []
    for pat in _BIND_PATS:
        for m in re.finditer(pat, body):
            for mn in re.finditer(r"\w+", m.group(1)):
                nm = mn.group(0)
                if nm == "mut" or not re.fullmatch(r"[a-z_]\w*", nm) or nm == "_":
                    continue
                found.append((m.start(1) + mn.start(), nm))
    out = []
    for _, nm in sorted(found):
        if nm not in out:
            out.append(nm)
    return out


def canon_bindings(sig, body, expected_params, expected_locals):
    """rename parameters / locals of `body` back to the recorded names when the lists agree in length (a pure rename);
    anything else is left as it is"""
    ren = {}
    if expected_locals is None:
        expected_locals = []
        if os.environ.get("VERIF_RECORD_BINDINGS"):
            print("BINDINGS", [n for n in binding_names(body) if n not in param_names(sig)])
    actual_p = param_names(sig)
    if len(actual_p) == len(expected_params):
        ren.update({a: e for a, e in zip(actual_p, expected_params) if a != e})
    actual_l = [n for n in binding_names(body) if n not in actual_p]
    if len(actual_l) == len(expected_locals):
        ren.update({a: e for a, e in zip(actual_l, expected_locals) if a != e})
    # only a PURE rename is undone: every name that occurs in both lists must sit at the same position (a declaration that
    # moved, appeared or disappeared leaves the text as it is)
    for act, exp in ((actual_p, expected_params), (actual_l, expected_locals)):
        if len(act) == len(exp):
            for a, e in zip(act, exp):
                if a != e and (a in exp or e in act):
                    return body
    if not ren:
        return body
    # a target name that is still in use for something else would be captured: give up (the unit then decides on the text as it is)
    for a, e in ren.items():
        if e not in ren and re.search(r"(?<![\w.:])%s\b" % re.escape(e), body):
            return body
    return re.sub(r"(?<![\w.:])(%s)\b(?!\s*::)" % "|".join(map(re.escape, ren)), lambda m: ren[m.group(1)], body)
