"""C01 — elementwise operators.  Call-boundary contracts on every generated
kernel struct `«Op»«Form»<T>::solve` (Kani, in-crate on the mirror)."""
import os, random
from units import kgen
from vlib import GEN

INTS, SIGNED, FLOATS = kgen.INTS, kgen.SIGNED, kgen.FLOATS
UNS = [k for k in INTS if k not in SIGNED]

# op -> (crate, source file, harness module, struct prefix, generic?, out kind fn, kinds)
MATH = "mech-math"
CMP = "mech-compare"
LOGIC = "mech-logic"


def int_pre(op):
    return {"add": "{a}.checked_add({b}).is_some()", "sub": "{a}.checked_sub({b}).is_some()",
            "mul": "{a}.checked_mul({b}).is_some()", "div": "{a}.checked_div({b}).is_some()",
            "mod": "{a}.checked_rem({b}).is_some()", "pow": "{a}.checked_pow({b} as u32).is_some()"}[op]


def int_oracle(op):
    return {"add": "{a}.wrapping_add({b})", "sub": "{a}.wrapping_sub({b})", "mul": "{a}.wrapping_mul({b})",
            "div": "{a}.wrapping_div({b})", "mod": "{a}.wrapping_rem({b})", "pow": "{a}.wrapping_pow({b} as u32)"}[op]


def float_oracle(op, T):
    return {"add": "{a} + {b}", "sub": "{a} - {b}", "mul": "{a} * {b}", "div": "{a} / {b}", "mod": "{a} % {b}",
            "pow": "num_traits::Pow::pow({a}, {b})"}[op]


def exact_stmt(op, T):
    """independent statement of 'agrees with exact integer arithmetic' for the scalar form"""
    W = kgen.WIDER.get(T)
    if op in ("add", "sub"):
        sym = "+" if op == "add" else "-"
        if W:
            return "assert!(({o} as %s) == ({a} as %s) %s ({b} as %s), \"VK: scalar result is the exact integer result\");" % (W, W, sym, W)
        # 128-bit: exact result characterised by the inverse operation
        inv = "wrapping_sub" if op == "add" else "wrapping_add"
        return "assert!({o}.%s({b}) == {a}, \"VK: scalar result is the exact integer result\");" % inv
    if op == "mul" and T in ("i8", "u8", "i16", "u16"):
        return "assert!(({o} as i32) == ({a} as i32) * ({b} as i32), \"VK: scalar result is the exact integer result\");"
    if op in ("div", "mod") and T in ("i8", "u8"):
        # truncated division: a == q*b + r, |r| < |b|, r has the sign of a (or is 0)
        if op == "div":
            return ("{{ let (a_, b_, q_) = ({a} as i32, {b} as i32, {o} as i32); let r_ = a_ - q_ * b_; "
                    "assert!(r_.abs() < b_.abs() && (r_ == 0 || (r_ < 0) == (a_ < 0)), \"VK: scalar quotient is the exact truncated quotient\"); }}")
        # exact remainder: |r| < |b|, sign of a, and a - r is a multiple of b with the truncated quotient as witness
        return ("{{ let (a_, b_, r_) = ({a} as i32, {b} as i32, {o} as i32); let q_ = ({a}.wrapping_div({b})) as i32; "
                "assert!(r_.abs() < b_.abs() && (r_ == 0 || (r_ < 0) == (a_ < 0)) && a_ == q_ * b_ + r_, \"VK: scalar remainder is the exact remainder\"); }}")
    return None


OPS = {
    # name: dict(crate, file, struct, kinds, out)
    "add": dict(crate=MATH, file="src/ops/add.rs", struct="Add", kinds=INTS + FLOATS, cls="arith"),
    "sub": dict(crate=MATH, file="src/ops/sub.rs", struct="Sub", kinds=INTS + FLOATS, cls="arith"),
    "mul": dict(crate=MATH, file="src/ops/mul.rs", struct="Mul", kinds=INTS + FLOATS, cls="arith"),
    "div": dict(crate=MATH, file="src/ops/div.rs", struct="Div", kinds=INTS + FLOATS, cls="arith"),
    "mod": dict(crate=MATH, file="src/ops/modulus.rs", struct="Mod", kinds=INTS + FLOATS, cls="arith"),
    "pow": dict(crate=MATH, file="src/ops/pow.rs", struct="Pow", kinds=["u8", "u16", "u32"], cls="arith"),
    "eq": dict(crate=CMP, file="src/eq.rs", struct="EQ", kinds=INTS + FLOATS + ["bool"], cls="cmp", sym="=="),
    "neq": dict(crate=CMP, file="src/neq.rs", struct="NEQ", kinds=INTS + FLOATS + ["bool"], cls="cmp", sym="!="),
    "gt": dict(crate=CMP, file="src/gt.rs", struct="GT", kinds=INTS + FLOATS, cls="cmp", sym=">"),
    "gte": dict(crate=CMP, file="src/gte.rs", struct="GTE", kinds=INTS + FLOATS, cls="cmp", sym=">="),
    "lt": dict(crate=CMP, file="src/lt.rs", struct="LT", kinds=INTS + FLOATS, cls="cmp", sym="<"),
    "lte": dict(crate=CMP, file="src/lte.rs", struct="LTE", kinds=INTS + FLOATS, cls="cmp", sym="<="),
    "and": dict(crate=LOGIC, file="src/and.rs", struct="And", kinds=["bool"], cls="logic", sym="&&"),
    "or": dict(crate=LOGIC, file="src/or.rs", struct="Or", kinds=["bool"], cls="logic", sym="||"),
    "xor": dict(crate=LOGIC, file="src/xor.rs", struct="Xor", kinds=["bool"], cls="logic", sym="^"),
}
UNOPS = {
    "neg": dict(crate=MATH, file="src/ops/negate.rs", kinds=SIGNED + FLOATS),
    "not": dict(crate=LOGIC, file="src/not.rs", kinds=["bool"]),
}

QUICK_KINDS = {"i8", "u16", "f32", "bool", "u8"}
# shapes of the matrix operand (rows, cols)
SHAPE_Q = (2, 3)
SHAPES_T = [(2, 3), (3, 2)]


def kani_tractable(op, T, form_suffix, tier):
    """CBMC cost gate (measured, DESIGN P14): wide multiplication / division /
    remainder and float division / remainder / powf do not finish; those scalar
    obligations go to Verus (K) where it has a usable spec, else are left to the
    thorough tier under a per-harness timeout (=> possibly undecided)."""
    if tier == "thorough":
        return True
    wide = T in ("i32", "u32", "i64", "u64", "i128", "u128")
    if op == "mul" and wide:
        return False
    if op in ("div", "mod") and T not in ("i8", "u8") and T not in FLOATS:
        return False
    if op in ("div", "mod", "pow") and T in FLOATS:
        return False
    if op == "pow" and T != "u8":
        return False
    return True


def verus_scalar_units(plan):
    """(K) scalar kernel macros `«op»_op` for every integer kind, against
    mathematical integer arithmetic under the representability precondition."""
    import vlib
    from units import ktrans
    from vlib import VerusUnit, verus_file, verus_canary
    items, fns, canaries = [], {}, []
    items.append("""spec fn in_range(x: int, lo: int, hi: int) -> bool { lo <= x <= hi }""")
    table = [("add", "machines/math/src/ops/add.rs", "add_op", "+"), ("sub", "machines/math/src/ops/sub.rs", "sub_op", "-"),
             ("mul", "machines/math/src/ops/mul.rs", "mul_op", "*"), ("div", "machines/math/src/ops/div.rs", "div_op", "/"),
             ("mod", "machines/math/src/ops/modulus.rs", "mod_op", "%")]
    for op, path, macro, sym in table:
        try:
            body = ktrans.scalar_kernel_body(vlib.extract_macro(vlib.read_repo(path), macro))
        except vlib.AnchorLost as e:
            plan.anchor_errors.append(("C01.verus.%s.SS.*" % op, str(e)))
            continue
        for T in INTS:
            signed = T in SIGNED
            if signed and op == "mod":
                continue   # Verus gives the exec signed `%` no usable specification at all
            fn = "%s_%s" % (macro, T)
            if op in ("add", "sub", "mul"):
                req = ["in_range(lhs as int %s rhs as int, %s::MIN as int, %s::MAX as int)" % (sym, T, T)]
                ens = ["out as int == lhs as int %s rhs as int" % sym]
            else:
                req = ["rhs != 0"]
                if signed:
                    # Verus gives the exec signed `/`,`%` a specification only for non-negative operands
                    req += ["lhs >= 0", "rhs > 0"]
                ens = ["out as int == lhs as int %s rhs as int" % sym]
            text = "fn %s(lhs: %s, rhs: %s) -> (out: %s)\n  requires %s,\n  ensures %s,\n{\n  let out: %s;\n  %s\n  out\n}\n" % (
                fn, T, T, T, ",\n    ".join(req), ",\n    ".join(ens), T, body)
            items.append(text)
            name = "C01.verus.%s.SS.%s" % (op, T)
            fns[fn] = name
            note = " (non-negative operands only: Verus has no spec for signed division with negative operands; the 8/16-bit kinds are covered over the full domain by Kani)" if (signed and op in ("div", "mod")) else ""
            plan.ob(name, "verus", "proved", functions=["%s! instantiated at %s" % (macro, T)],
                    what="scalar kernel `%s` equals mathematical integer %s whenever the exact result is representable%s" % (body, sym, note))
        items.append(verus_canary("canary_%s" % op, "lhs: u64, rhs: u64", ["rhs != 0"]))
        canaries.append("canary_%s" % op)
    u = VerusUnit("c01_scalar_kernels", verus_file(items), fns, canaries)
    plan.verus.append(u)
    plan.dropped.append("(K) scalar kernels: macro body `unsafe { *$out = *$lhs OP *$rhs; }` is transcribed with K1 (`unsafe{B}` -> B) and K2 (`*$p` -> p) into `fn «op»_op_«T»(lhs: T, rhs: T) -> (out: T) { let out: T; out = lhs OP rhs; out }`; raw-pointer dereference is dropped")
    plan.assumptions.append("Verus: signed `/` is specified only for non-negative operands and signed `%` not at all; signed division/remainder with negative operands is decided by Kani for i8 only (quick) / where CBMC finishes (thorough)")


def verus_loop_kernels(plan):
    """(K) index-loop kernels over Vec<T>, proved for EVERY length (Verus): sub/div scalar forms, every
    comparison and logic `_scalar_lhs_op`, `_scalar_rhs_op`, `_vec_op`."""
    import vlib
    from units import ktrans
    from vlib import VerusUnit, verus_file, verus_canary, AnchorLost, inject_loop_specs
    items, fns = [], {}
    table = []
    for op, path, sym in [("sub", "machines/math/src/ops/sub.rs", "-"), ("div", "machines/math/src/ops/div.rs", "/")]:
        for kern in ("scalar_lhs", "scalar_rhs"):
            for T in (["i64", "u8"] if op == "sub" else ["u64", "u8"]):
                table.append((op, path, kern, sym, T, T, "arith"))
    for op, path, sym in [("eq", "machines/compare/src/eq.rs", "=="), ("neq", "machines/compare/src/neq.rs", "!="), ("gt", "machines/compare/src/gt.rs", ">"),
                          ("gte", "machines/compare/src/gte.rs", ">="), ("lt", "machines/compare/src/lt.rs", "<"), ("lte", "machines/compare/src/lte.rs", "<=")]:
        for kern in ("scalar_lhs", "scalar_rhs", "vec"):
            table.append((op, path, kern, sym, "i64", "bool", "cmp"))
    for op, path, sym in [("and", "machines/logic/src/and.rs", "&&"), ("or", "machines/logic/src/or.rs", "||"), ("xor", "machines/logic/src/xor.rs", "^")]:
        for kern in ("scalar_lhs", "scalar_rhs", "vec"):
            table.append((op, path, kern, sym, "bool", "bool", "logic"))
    # the matrix-with-vector kernels (outer zip over the lines of the matrix, inner index loop over one line): the inner loop is proved for every length, the
    # outer pairing is checked on the extracted header (ktrans.zip_kernel_body); `add` (nalgebra add_to) and `pow` (method call) stay with the Kani twins
    ZIP = ("mat_vec", "vec_mat", "mat_row", "row_mat")
    for op, path, sym, T in [("sub", "machines/math/src/ops/sub.rs", "-", "i64"), ("mul", "machines/math/src/ops/mul.rs", "*", "u8"),
                             ("div", "machines/math/src/ops/div.rs", "/", "u64"), ("mod", "machines/math/src/ops/modulus.rs", "%", "u64")]:
        for kern in ZIP:
            table.append((op, path, kern, sym, T, T, "arith"))
    for op, path, sym in [("eq", "machines/compare/src/eq.rs", "=="), ("neq", "machines/compare/src/neq.rs", "!="), ("gt", "machines/compare/src/gt.rs", ">"),
                          ("gte", "machines/compare/src/gte.rs", ">="), ("lt", "machines/compare/src/lt.rs", "<"), ("lte", "machines/compare/src/lte.rs", "<=")]:
        for kern in ZIP:
            table.append((op, path, kern, sym, "i64", "bool", "cmp"))
    for op, path, sym in [("and", "machines/logic/src/and.rs", "&&"), ("or", "machines/logic/src/or.rs", "||"), ("xor", "machines/logic/src/xor.rs", "^")]:
        for kern in ZIP:
            table.append((op, path, kern, sym, "bool", "bool", "logic"))
    zitems, zfns = [], {}
    for op, path, kern, sym, T, O, cls in table:
        macro = "%s_%s_op" % (op, kern)
        name = "C01.verus.%s.%s.%s" % (op, kern, T)
        pairing = None
        try:
            if kern in ZIP:
                body, pok, pdetail = ktrans.zip_kernel_body(vlib.extract_macro(vlib.read_repo(path), macro), kern)
                pairing = (pok, pdetail)
            else:
                body = ktrans.loop_kernel_body(vlib.extract_macro(vlib.read_repo(path), macro))
        except AnchorLost as e:
            plan.anchor_errors.append((name, str(e)))
            continue
        lv, rv = kern in ("scalar_lhs", "vec") + ZIP, kern in ("scalar_rhs", "vec") + ZIP
        L = "lhs@[k]" if lv else "lhs"
        R = "rhs@[k]" if rv else "rhs"
        lt = ("&Vec<%s>" % T) if lv else T
        rt = ("&Vec<%s>" % T) if rv else T
        drive = "lhs" if lv else "rhs"
        req = ["%s@.len() == old(out)@.len()" % drive]
        if lv and rv:
            req.append("rhs@.len() == lhs@.len()")
        if cls == "arith":
            if sym in ("/", "%"):
                req.append(("forall|k: int| 0 <= k < rhs@.len() ==> #[trigger] rhs@[k] != 0") if rv else "rhs != 0")
                spec = "(%s as int) %s (%s as int)" % (L, sym, R)
            elif sym == "*":
                req.append("forall|k: int| 0 <= k < lhs@.len() ==> (#[trigger] lhs@[k] as int) * (rhs@[k] as int) <= %s::MAX" % T)
                spec = "(%s as int) * (%s as int)" % (L, R)
            else:
                spec = "(%s as int) %s (%s as int)" % (L, sym, R)
                req.append("forall|k: int| 0 <= k < lhs@.len() ==> %s::MIN <= (#[trigger] lhs@[k] as int) - (rhs@[k] as int) <= %s::MAX" % (T, T) if (lv and rv) else
                           "forall|k: int| 0 <= k < %s@.len() ==> %s::MIN <= (#[trigger] %s@[k] as int) - (%s as int) <= %s::MAX" % (drive, T, drive, ("rhs" if lv else "lhs"), T)
                           if lv else "forall|k: int| 0 <= k < rhs@.len() ==> %s::MIN <= (lhs as int) - (#[trigger] rhs@[k] as int) <= %s::MAX" % (T, T))
            post = "(#[trigger] final(out)@[k] as int) == %s" % spec
            inv_post = "(#[trigger] out@[k] as int) == %s" % spec
        elif cls == "cmp":
            post = "#[trigger] final(out)@[k] == (%s %s %s)" % (L, sym, R)
            inv_post = "#[trigger] out@[k] == (%s %s %s)" % (L, sym, R)
        else:
            s2 = {"&&": "&&", "||": "||", "^": "!="}[sym]
            post = "#[trigger] final(out)@[k] == (%s %s %s)" % (L, s2, R)
            inv_post = "#[trigger] out@[k] == (%s %s %s)" % (L, s2, R)
        inv = "        invariant out@.len() == n, iter.iter.end == n, i <= n, %s@.len() == n,%s\n          forall|k: int| 0 <= k < i ==> %s," % (
            drive, (" rhs@.len() == n," if (lv and rv) else ""), inv_post)
        # carry the per-element preconditions through the loop
        carried = [r.replace("old(out)@", "out@") for r in req[1:] if "forall" in r or "rhs != 0" in r]
        if carried:
            inv += "\n          " + ",\n          ".join(carried) + ","
        try:
            body2 = inject_loop_specs(body, [inv], keyword=r"\bfor\b")
        except AnchorLost as e:
            plan.anchor_errors.append((name, str(e)))
            continue
        fn = "%s_%s" % (macro, T)
        ftext = "fn %s(lhs: %s, rhs: %s, out: &mut Vec<%s>)\n  requires %s,\n  ensures final(out)@.len() == old(out)@.len(),\n    forall|k: int| 0 <= k < final(out)@.len() ==> %s,\n{\n  let ghost n = out@.len();\n  %s\n}\n" % (
            fn, lt, rt, O, ",\n    ".join(req), post, body2)
        if pairing is not None:
            # decided on the extracted loop header: which lines of `out` are paired with which lines of which operand
            ftext += "proof fn pairing_%s()\n  ensures %s,   // %s\n{ }\n" % (fn, "true" if pairing[0] else "false", pairing[1])
            zitems.append(ftext)
            zfns[fn] = name
            zfns["pairing_" + fn] = name
            plan.ob(name, "verus", "proved", functions=["%s! (kernel of the %s forms)" % (macro, {"mat_vec": "matrix∘column-vector", "vec_mat": "column-vector∘matrix", "mat_row": "matrix∘row-vector", "row_mat": "row-vector∘matrix"}[kern])],
                    what="for EVERY line length: within each %s of the matrix out[k] == lhs[k] %s rhs[k] with the operands in (lhs, rhs) order (the vector operand broadcast along the other dimension); the outer loop pairs %ss of out with %ss of the matrix operand (checked on the extracted header; that nalgebra's paired iterators visit line j with line j is assumed)" % (
                        "column" if kern in ("mat_vec", "vec_mat") else "row", sym, "column" if kern in ("mat_vec", "vec_mat") else "row", "column" if kern in ("mat_vec", "vec_mat") else "row"))
            continue
        items.append(ftext)
        fns[fn] = name
        plan.ob(name, "verus", "proved", functions=["%s! (kernel of the %s forms)" % (macro, {"scalar_lhs": "matrix∘scalar", "scalar_rhs": "scalar∘matrix", "vec": "same-form"}[kern])],
                what="for EVERY length: out[k] == lhs[k] %s rhs[k] (scalar operand broadcast), length unchanged" % sym)
    if zfns:
        zitems.append(verus_canary("canary_zip", "x: u64", []))
        plan.verus.append(VerusUnit("c01_zip_kernels", verus_file(zitems), zfns, ["canary_zip"]))
        plan.dropped.append(ktrans.zip_kernel_body.__doc__.strip())
        plan.assumptions.append("matrix-with-vector kernels (Verus): nalgebra's `column_iter_mut().zip(column_iter())` / `row_iter_mut().zip(row_iter())` is ASSUMED to pair line j of `out` with line j of the matrix operand, every line once (exercised on real nalgebra storage by the Kani twins of `sub` and `add`, all forms); a line of a matrix and a vector are modelled as Vec<T>; instantiated at one kind per operator (the macros are generic in T)")
    if fns:
        items.append(verus_canary("canary_loops", "x: u64", []))
        plan.verus.append(VerusUnit("c01_loop_kernels", verus_file(items), fns, ["canary_loops"]))
        plan.dropped.append("(K) loop kernels: macro bodies of the index-loop kernels transcribed over Vec<T> with K1 (`unsafe{}` stripped), K2 (raw-pointer dereferences -> the operand), K3 (alias bindings inlined), `for i in 0..X.len()` -> `for i in iter: 0..X.len()`; linear indexing of nalgebra storage is ASSUMED to be Vec indexing (the Kani harnesses run the same macros on real nalgebra types)")


def verus_shape_guards(plan):
    """(F) the shape-compatibility tests of the matrix-with-vector dispatch arms of impl_binop_match_arms!
    (src/core/src/stdlib.rs): accepted iff the vector is a column matching the rows or a row matching the columns."""
    import vlib, re
    from vlib import VerusUnit, verus_file, verus_canary, AnchorLost
    text = vlib.read_repo("src/core/src/stdlib.rs")
    mt = vlib.extract_macro(text, "impl_binop_match_arms")
    items, fns = [], {}
    specs = [
        ("guard_matrix_vector", r"match \(rows,cols,rhs_shape\[0\],rhs_shape\[1\]\)\s*\{", "rows: usize, cols: usize, rhs_shape: [usize; 2]",
         "r.is_ok() <==> ((rhs_shape[1] == 1 && rhs_shape[0] == rows) || (rhs_shape[0] == 1 && rhs_shape[1] == cols))",
         "DMatrix (rows x cols) op vector: accepted iff the vector is rows x 1 or 1 x cols"),
        ("guard_vector_matrix", r"match \(lhs_shape\[0\],lhs_shape\[1\],rows,cols\)\s*\{", "lhs_shape: [usize; 2], rows: usize, cols: usize",
         "r.is_ok() <==> ((lhs_shape[1] == 1 && lhs_shape[0] == rows) || (lhs_shape[0] == 1 && lhs_shape[1] == cols))",
         "vector op DMatrix (rows x cols): accepted iff the vector is rows x 1 or 1 x cols"),
    ]
    for name, rx, params, ens, what in specs:
        ms = vlib.find_all_code(mt, rx)
        if len(ms) != 1:
            plan.anchor_errors.append(("C01.dispatch." + name, "shape test `%s` found %d times in impl_binop_match_arms!" % (rx, len(ms))))
            continue
        end = vlib.match_brace(mt, ms[0].end() - 1)
        frag = mt[ms[0].start():end]
        frag2, n = re.subn(r"return Err\(\s*MechError::new\(\s*DimensionMismatch\s*\{[^}]*\}\s*,\s*None\s*\)\.with_compiler_loc\(\)\s*\);", "return Err(());", frag, flags=re.S)
        if n != 1 or "MechError" in frag2 or "$" in frag2:
            plan.anchor_errors.append(("C01.dispatch." + name, "unexpected shape of the mismatch arm"))
            continue
        items.append("fn %s(%s) -> (r: Result<(), ()>)\n  ensures %s,\n{\n  %s\n  Ok(())\n}\n" % (name, params, ens, frag2))
        fns[name] = "C01.dispatch." + name
        plan.ob(fns[name], "verus", "proved", functions=["impl_binop_match_arms! (%s)" % name], what=what)
    if not fns:
        return
    items.append(verus_canary("canary_guards", "x: u64", []))
    plan.verus.append(VerusUnit("c01_shape_guards", verus_file(items), fns, ["canary_guards"]))
    plan.dropped.append("(F) shape guards: the two `match (rows, cols, v_rows, v_cols) { .. }` blocks of impl_binop_match_arms! are copied verbatim, with the DimensionMismatch error construction rewritten to `return Err(())`; that the arm goes on to pick the kernel by the vector's storage type is not covered")


def out_alloc_pass(plan):
    """Anchor pass (syntactic): every dynamic-storage arm of impl_binop_match_arms! / impl_urnop_match_arms! allocates its
    output from the operand the kernel iterates over: DMatrix::from_element(rows, cols, ..) in that order with (rows, cols)
    bound from a `.shape()` in the same arm; vector outputs from `<operand>.borrow().len()` of an operand of the same struct."""
    import vlib, re
    text = vlib.read_repo("src/core/src/stdlib.rs")
    for macro in ("impl_binop_match_arms", "impl_urnop_match_arms"):
        try:
            mt = vlib.extract_macro(text, macro)
        except vlib.AnchorLost as e:
            plan.anchor_errors.append(("C01.dispatch.out_alloc." + macro, str(e)))
            continue
        seen = {}
        for m in re.finditer(r"Box::new\(\[<\$lib (\w+)>\]\s*\{([^}]*?out:\s*Ref::new\((DMatrix|RowDVector|DVector)::from_element\(([^)]*?\)?[^)]*?)\)\)[^}]*)\}", mt):
            struct, fields, kind, args = m.group(1), m.group(2), m.group(3), m.group(4)
            ok, why = True, ""
            a = [x.strip() for x in args.split(",")]
            if kind == "DMatrix":
                if a[:2] != ["rows", "cols"]:
                    ok, why = False, "DMatrix::from_element(%s, %s, ..) — expected (rows, cols, ..)" % (a[0], a[1] if len(a) > 1 else "?")
                else:
                    pre = mt[:m.start()]
                    b = pre.rfind("let (rows,cols)")
                    if b < 0 or ".shape()" not in pre[b:b + 80]:
                        ok, why = False, "(rows, cols) is not bound from an operand's shape() in this arm"
            else:
                mm = re.match(r"(\w+)\.borrow\(\)\.len\(\)", a[0])
                if not mm or not re.search(r"\b%s\b" % mm.group(1), fields.split("out:")[0]):
                    ok, why = False, "%s::from_element(%s, ..) is not sized from an operand of the struct" % (kind, a[0])
            n = seen.get(struct, 0) + 1
            seen[struct] = n
            name = "C01.dispatch.out_alloc.%s%s" % (struct, "" if n == 1 else "#%d" % n)
            ob = plan.ob(name, "syntactic", "bounded", bound="source-text pass over the dispatch arm (not a proof)", functions=["%s! arm of %s" % (macro, struct)],
                         what="the output of the %s arm is allocated with the shape of the operand its kernel iterates over" % struct)
            if ok:
                ob.status = "discharged"
            else:
                ob.status, ob.detail, ob.raw = "violated", why, "%s! arm %s: %s" % (macro, struct, why)


def same_storage_guard_pass(plan):
    """Anchor pass (syntactic): the three same-storage dynamic arms of impl_binop_match_arms! (DMatrix x DMatrix, RowDVector x
    RowDVector, DVector x DVector) compare the operands' extents and return an error before they build the kernel."""
    import vlib, re
    text = vlib.read_repo("src/core/src/stdlib.rs")
    try:
        mt = vlib.extract_macro(text, "impl_binop_match_arms")
    except vlib.AnchorLost as e:
        plan.anchor_errors.append(("C01.dispatch.same_storage_guard", str(e)))
        return
    for st, form in (("DMatrix", "MDMD"), ("RowDVector", "RDRD"), ("DVector", "VDVD")):
        name = "C01.dispatch.same_storage_guard.%s" % form
        ob = plan.ob(name, "syntactic", "bounded", bound="source-text pass over the dispatch arm (not a proof)", functions=["impl_binop_match_arms! arm %s x %s" % (st, st)],
                     what="operands of the same dynamic storage but different shape are rejected before the %s kernel is built" % form)
        m = re.search(r"\(Matrix::%s\(lhs\)\)\s*,\s*Value::\[<Matrix \$lhs_type>\]\(Matrix::%s\(rhs\)\)\)\s*=>\s*\{" % (st, st), mt)
        if not m:
            plan.anchor_errors.append((name, "arm not found"))
            ob.status, ob.detail = "undecided", "arm not found"
            continue
        arm = mt[m.end():vlib.match_brace(mt, m.end() - 1)]
        k = arm.find("Ok(Box::new(")
        pre = arm[:k] if k >= 0 else arm
        cmp_ok = re.search(r"if\s+[^{}]*(rhs[^{}]*!=|!=[^{}]*rhs)[^{}]*\{\s*return\s+Err\(", pre) is not None
        if cmp_ok:
            ob.status = "discharged"
        else:
            ob.status = "violated"
            ob.detail = "the %s x %s arm builds %s without comparing the operands' shapes" % (st, st, form)
            ob.raw = ob.detail


def modname(op, prop="C01"):
    return "verif_%s_%s" % (prop.lower(), op)


def gen_path(op, prop="C01"):
    return os.path.join(GEN, prop, "k_%s.rs" % op)


def harness_modules(prop="C01"):
    out = []
    for op, d in list(OPS.items()) + list(UNOPS.items()):
        out.append(dict(crate=d["crate"], file=d["file"], mod=modname(op, prop), gen="%s/k_%s.rs" % (prop, op)))
    return out


def select(kinds, tier, seed, op, forms):
    """[(kind, [forms])]: thorough = everything; quick = every form for one cheap
    kind (8-bit: CBMC cost grows steeply with width), the loop-free scalar form
    for every kind, and two seed-chosen (kind, form) extras."""
    if tier == "thorough":
        return [(k, list(forms)) for k in kinds]
    rnd = random.Random("%s-%s" % (seed, op))
    core = next((k for k in ("i8", "u8", "bool") if k in kinds), kinds[0])
    # the loop-free scalar form: the core kind plus three representative widths/classes (every kind in the thorough tier);
    # measured: all 12 kinds x 9 operators cost ~3500 CPU-s, which put the quick check beyond 13 minutes
    quick_scalar = [k for k in kinds if k in (core, "u16", "i64", "f64")]
    sel = {k: ([forms[0]] if k in quick_scalar else []) for k in kinds}
    # one form per kernel macro (_op, _scalar_rhs_op, _scalar_lhs_op, _vec_op, _mat_vec_op, _vec_mat_op, _mat_row_op,
    # _row_mat_op); the remaining six forms re-use those macros on another storage type and are wired by the shared
    # impl_fxns! template, so they are run for the non-commutative `sub`, `gt`, `xor` only (and for everything in thorough)
    # The four matrix-with-vector kernels of every operator except `add` (nalgebra add_to) and `pow` are proved by Verus for every line length
    # (C01.verus.<op>.{mat_vec,vec_mat,mat_row,row_mat}.*), so their Kani twins run in the quick tier for `sub` (every form: the wiring of the generated structs)
    # and `add` only; the thorough tier runs every form of every operator.
    if forms and isinstance(forms[0], tuple) and op == "add":
        sel[core] = [f for f in forms if f[0] in ("SS", "SMD", "MDS", "MDMD", "MDVD", "VDMD", "MDRD", "RDMD")]
    elif forms and isinstance(forms[0], tuple) and op not in ("sub",):
        sel[core] = [f for f in forms if f[0] in ("SS", "SMD", "MDS", "MDMD")]
    else:
        sel[core] = list(forms)
    # vp check 12 (quick check > 15 min on the checking machine, 11 min here).  Long poles measured in the quick tier (they set the wall time of their Kani group): f64 scalar multiplication (190 s) and the matrix forms of `pow` (120-130 s
    # each); both stay in the thorough tier, the scalar kernels of `mul` / `pow` are covered for the other kinds and by the Verus kernel units
    if op == "mul" and "f64" in sel and core != "f64":
        sel["f64"] = []
    if op == "pow" and forms and isinstance(forms[0], tuple):
        sel[core] = [f for f in sel[core] if f[0] == "SS"]
    # the seed-chosen extra is taken from the 16-bit kind only: a 64-bit matrix form chosen by VERIF_SEED=1 pushed the quick check past 15 minutes (vp check 4)
    rest = [k for k in quick_scalar if k != core and k in ("u16", "i16")]
    if op in ("mul", "div", "mod", "pow"):
        rest = []
    for _ in range(1):
        if rest and len(forms) > 1:
            k = rnd.choice(rest)
            f = rnd.choice(forms[1:])
            if f not in sel[k]:
                sel[k].append(f)
    return [(k, sel[k]) for k in kinds]


def plan(plan, tier, seed, prop="C01", selector=None, twice=None):
    shapes = SHAPES_T if tier == "thorough" else [SHAPE_Q]
    pfx = "vk%s_" % prop.lower()
    if twice is None:
        twice = (tier == "thorough")
    sel_fn = selector or select
    groups = {}
    only = os.environ.get("VERIF_ONLY_OPS")
    for op, d in OPS.items():
        hs = []
        if only and op not in only.split(","):
            plan.harness_files[gen_path(op, prop)] = "// not selected\n"
            continue
        sel = sel_fn(d["kinds"], tier, seed, op, kgen.BIN_FORMS)
        kinds = [k for k, _ in sel]
        for T, forms_T in sel:
            isint = T in INTS
            if d["cls"] == "arith":
                O = T
                pre = int_pre(op) if isint else None
                oracle = int_oracle(op) if isint else float_oracle(op, T)
            elif d["cls"] == "cmp":
                O = "bool"
                pre = None
                oracle = "{a} %s {b}" % d["sym"]
            else:
                O = "bool"
                pre = None
                oracle = "{a} %s {b}" % d["sym"]
            for form in forms_T:
                if not kani_tractable(op, T, form[0], tier):
                    continue
                for (R, C) in (shapes if form[0] != "SS" else [shapes[0]]):
                    shp = "" if form[0] == "SS" else "_%dx%d" % (R, C)
                    fn = pfx + "%s_%s_%s%s" % (op, form[0].lower(), T, shp)
                    exact = exact_stmt(op, T) if (form[0] == "SS" and isint and d["cls"] == "arith") else None
                    unwind = None
                    if op == "pow":
                        unwind = 40
                    text = kgen.bin_harness(fn, d["struct"], T, O, form, R, C, pre, oracle,
                                            generic=(d["cls"] != "logic"), exact=exact, unwind=unwind, twice=twice)
                    hs.append((fn, text))
                    loopfree = form[0] == "SS"
                    ob = plan.ob("%s.%s.%s.%s%s" % (prop, op, form[0], T, shp), "kani",
                                 "proved" if loopfree else "bounded",
                                 bound="" if loopfree else "matrix operand %dx%d (element values unconstrained)" % (R, C),
                                 functions=["%s%s<%s>::solve" % (d["struct"], form[0], T)],
                                 what="%s%s<%s>::solve: out has the broadcast shape, out[r,c] == lhs[..] %s rhs[..], operands unchanged, second solve is a no-op" % (
                                     d["struct"], form[0], T, op))
                    groups.setdefault(d["crate"], {})[fn] = ob
                    if prop == "C01" and op == "mod" and form[0] == "SS" and T in ("i8", "i16", "i32", "i64", "i128"):
                        # the one pair the precondition `checked_rem(..).is_some()` leaves out although the property covers it:
                        # the exact remainder of MIN by -1 is 0, which is representable in the kind
                        fn2 = pfx + "mod_ss_%s_minm1" % T
                        text2 = kgen.bin_harness(fn2, d["struct"], T, O, form, R, C, "{a} == %s::MIN && {b} == -1" % T, "0",
                                                 generic=True, exact=None, unwind=None, twice=False)
                        hs.append((fn2, text2))
                        ob2 = plan.ob("C01.mod.SS.%s.min_mod_minus_one" % T, "kani", "proved", functions=["ModSS<%s>::solve" % T],
                                      what="ModSS<%s>::solve on (%s::MIN, -1): the exact remainder 0 is representable, so the result is 0" % (T, T))
                        groups.setdefault(d["crate"], {})[fn2] = ob2
        plan.harness_files[gen_path(op, prop)] = kgen.module_text(hs, "vkreplay_%s_%s" % (prop.lower(), op))
        plan.functions.append("%s: %s{SS,SMD,SRD,SVD,MDS,RDS,VDS,MDMD,RDRD,VDVD,MDVD,VDMD,MDRD,RDMD}<T>::solve for T in %s (kernel macros %s_op, _vec_op, _scalar_lhs_op, _scalar_rhs_op, _mat_vec_op, _vec_mat_op, _mat_row_op, _row_mat_op)" % (
            d["file"], d["struct"], kinds, op))
    # unary
    for op, d in UNOPS.items():
        hs = []
        if only and op not in only.split(","):
            plan.harness_files[gen_path(op, prop)] = "// not selected\n"
            continue
        sel = sel_fn(d["kinds"], tier, seed, op, ["S", "M", "R", "V"])
        for T, forms_T in sel:
            if op == "neg":
                pre = "{a}.checked_neg().is_some()" if T in INTS else None
                oracle = "{a}.wrapping_neg()" if T in INTS else "-{a}"
                forms = [("S", "NegateS::<%s>" % T), ("M", "NegateV::<DMatrix<%s>>" % T), ("R", "NegateV::<RowDVector<%s>>" % T),
                         ("V", "NegateV::<DVector<%s>>" % T)]
            else:
                pre = None
                oracle = "!{a}"
                forms = [("S", "NotS::<%s>" % T), ("M", "NotV::<%s, DMatrix<%s>>" % (T, T)), ("R", "NotV::<%s, RowDVector<%s>>" % (T, T)),
                         ("V", "NotV::<%s, DVector<%s>>" % (T, T))]
            for form, sexpr in forms:
                if form not in forms_T:
                    continue
                for (R, C) in (shapes if form != "S" else [shapes[0]]):
                    shp = "" if form == "S" else "_%dx%d" % (R, C)
                    fn = pfx + "%s_%s_%s%s" % (op, form.lower(), T, shp)
                    text = kgen.un_harness(fn, sexpr, T, T, form, R, C, pre, oracle, marker=True, twice=twice)
                    hs.append((fn, text))
                    ob = plan.ob("%s.%s.%s.%s%s" % (prop, op, form, T, shp), "kani", "proved" if form == "S" else "bounded",
                                 bound="" if form == "S" else "operand %dx%d" % (R, C), functions=[sexpr + "::solve"],
                                 what="%s::solve: out[i] == %s arg[i], shape kept, operand unchanged, second solve is a no-op" % (sexpr, op))
                    groups.setdefault(d["crate"], {})[fn] = ob
        plan.harness_files[gen_path(op, prop)] = kgen.module_text(hs, "vkreplay_%s_%s" % (prop.lower(), op))
        plan.functions.append("%s: %s" % (d["file"], "NegateS/NegateV" if op == "neg" else "NotS/NotV"))
    for crate, hmap in groups.items():
        plan.kani.append(dict(package=crate, filters=[pfx], harness=hmap, timeout=(3300 if tier == "quick" else 1800),
                              replay_entry=lambda h, p=prop.lower(): "vkreplay_%s_%s" % (p, h.split("_")[1])))
    if not only and prop == "C01":
        verus_scalar_units(plan)
        try:
            verus_loop_kernels(plan)
        except Exception as e:
            plan.anchor_errors.append(("C01.verus.loops", repr(e)))
        try:
            verus_shape_guards(plan)
        except Exception as e:
            plan.anchor_errors.append(("C01.dispatch.guards", str(e)))
        try:
            out_alloc_pass(plan)
        except Exception as e:
            plan.anchor_errors.append(("C01.dispatch.out_alloc", repr(e)))
        try:
            same_storage_guard_pass(plan)
        except Exception as e:
            plan.anchor_errors.append(("C01.dispatch.same_storage_guard", repr(e)))
        from units import fallback
        fallback.unit(plan, "C01", [("impl_mech_binop_fxn", "src/core/src/stdlib.rs", r"macro_rules!\s*impl_mech_binop_fxn", r"\$gen_fxn")])
    plan.trusted += ["Verus 0.2026.09.13 / Z3 (scalar kernels, K)", "Kani 0.68 MIR->goto translation and CBMC 6.11 (bit-precise, incl. IEEE-754)", "nalgebra 0.34 is executed, not modelled",
                     "rustc; mirror = /repo sources + appended cfg(kani) harness modules only"]
    plan.assumptions += [
        "matrix-form kernels are verified at fixed operand shapes (see bounded_checks); element values are unconstrained",
        "integer kernels: contract precondition = every elementwise exact result is representable (checked_* is Some), as in the property",
        "matrix-form oracle is the scalar machine operator of the same kind (the property's 'same operator on the corresponding scalar elements'); scalar forms are additionally compared with exact arithmetic in a wider type where CBMC can (see obligations *.SS.*)",
        "R64/C64 kernels are not in this table (num-rational gcd loops / complex transcendental code are not tractable under CBMC here)",
        "dispatch arms (impl_binop_match_arms!) are not executed in this tier: that the arm wires (lhs, rhs, out) to the struct verified here is covered only where listed",
    ]
    plan.undecided_clauses += [
        "C01: 'if an operator accepts scalars of a kind it accepts every matrix form' is decided only as far as the harness module names every struct of every form for every kind in the table (a missing struct fails the build of the harness module, reported as undecided/machinery, not as a violation)",
        "C01: rejection of incompatible shapes by the dispatch arms and by term() is not decided by these kernel contracts",
    ]
    plan.level = "proof"
    plan.notes.append("C01 kernel table: %d obligations over ops x forms x kinds" % len(plan.obs))
