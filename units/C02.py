"""C02 — precedence/associativity (partial).  Two obligations on term()
(src/interpreter/src/expressions.rs), both Verus on fragments:
  * the operator -> function table: the `match op { .. }` of term() taken verbatim
    (cfg-disabled arms removed by evaluating the crate's default feature set);
  * evaluation of one grammar level is a left fold in source order (loop of term()).
The level structure (formula, l1..l7, factor, prefix operators, parentheses, operator classes) is verified by
units/vC02g.py on the verbatim function bodies against assumed contracts of nom's combinators."""
import os, re
import vlib
from vlib import read_repo, extract_fn, VerusUnit, AnchorLost, match_brace, find_all_code, find_code, _skip_trivia

EXPR_RS = "src/interpreter/src/expressions.rs"
NODES_RS = "src/core/src/nodes.rs"
CARGO = "src/interpreter/Cargo.toml"

# the contract: which semantic function each operator token denotes (documented operator table)
EXPECTED = {
    "AddSub(AddSubOp::Add)": "MathAdd", "AddSub(AddSubOp::Sub)": "MathSub",
    "MulDiv(MulDivOp::Mul)": "MathMul", "MulDiv(MulDivOp::Div)": "MathDiv", "MulDiv(MulDivOp::Mod)": "MathMod",
    "Power(PowerOp::Pow)": "MathPow",
    "Vec(VecOp::MatMul)": "MatrixMatMul", "Vec(VecOp::Solve)": "MatrixSolve", "Vec(VecOp::Dot)": "MatrixDot",
    "Comparison(ComparisonOp::Equal)": "CompareEqual", "Comparison(ComparisonOp::NotEqual)": "CompareNotEqual",
    "Comparison(ComparisonOp::LessThanEqual)": "CompareLessThanEqual", "Comparison(ComparisonOp::GreaterThanEqual)": "CompareGreaterThanEqual",
    "Comparison(ComparisonOp::LessThan)": "CompareLessThan", "Comparison(ComparisonOp::GreaterThan)": "CompareGreaterThan",
    "Logic(LogicOp::And)": "LogicAnd", "Logic(LogicOp::Or)": "LogicOr", "Logic(LogicOp::Xor)": "LogicXor",
    "Table(TableOp::InnerJoin)": "TableInnerJoin", "Table(TableOp::LeftOuterJoin)": "TableLeftOuterJoin",
    "Table(TableOp::RightOuterJoin)": "TableRightOuterJoin", "Table(TableOp::FullOuterJoin)": "TableFullOuterJoin",
    "Table(TableOp::LeftSemiJoin)": "TableLeftSemiJoin", "Table(TableOp::LeftAntiJoin)": "TableLeftAntiJoin",
    "Set(SetOp::Union)": "SetUnion", "Set(SetOp::Intersection)": "SetIntersection", "Set(SetOp::Difference)": "SetDifference",
    "Set(SetOp::SymmetricDifference)": "SetSymmetricDifference", "Set(SetOp::Subset)": "SetSubset", "Set(SetOp::Superset)": "SetSuperset",
    "Set(SetOp::ProperSubset)": "SetProperSubset", "Set(SetOp::ProperSuperset)": "SetProperSuperset",
    "Set(SetOp::ElementOf)": "SetElementOf", "Set(SetOp::NotElementOf)": "SetNotElementOf",
}


def default_features(cargo_text):
    feats = {}
    sec = None
    buf = ""
    for line in cargo_text.splitlines():
        s = line.strip()
        if s.startswith("[") and s.endswith("]") and not buf:
            sec = s
            continue
        if sec != "[features]":
            continue
        buf += " " + s.split("#")[0] if not s.startswith("#") else ""
        if buf.count("[") and buf.count("[") == buf.count("]"):
            m = re.match(r"\s*([\w\-]+)\s*=\s*\[(.*)\]\s*$", buf.strip(), re.S)
            if m:
                feats[m.group(1)] = re.findall(r'"([^"]+)"', m.group(2))
            buf = ""
        elif "=" not in buf:
            buf = ""
    on, todo = set(), ["default"]
    while todo:
        f = todo.pop()
        if f in on or "/" in f:
            continue
        on.add(f)
        todo += feats.get(f, [])
    return on


def cfg_eval(expr, feats):
    expr = expr.strip()
    m = re.match(r'feature\s*=\s*"([^"]+)"$', expr)
    if m:
        return m.group(1) in feats
    for kw, fn in (("all", all), ("any", any)):
        if expr.startswith(kw + "("):
            inner = expr[len(kw) + 1:-1]
            parts, depth, cur = [], 0, ""
            for ch in inner:
                if ch == "(":
                    depth += 1
                if ch == ")":
                    depth -= 1
                if ch == "," and depth == 0:
                    parts.append(cur); cur = ""
                else:
                    cur += ch
            if cur.strip():
                parts.append(cur)
            return fn(cfg_eval(p, feats) for p in parts)
    if expr.startswith("not("):
        return not cfg_eval(expr[4:-1], feats)
    raise AnchorLost("cannot evaluate cfg(%s)" % expr)


def split_arms(body):
    """arms of a match body (text inside the braces): [(attrs, pattern, expr)]"""
    arms, i, n = [], 0, len(body)
    while i < n:
        j = _skip_trivia(body, i)
        if j != i:
            i = j; continue
        if body[i].isspace():
            i += 1; continue
        attrs = []
        while body.startswith("#[", i):
            e = match_brace(body, i + 1, "[", "]")
            attrs.append(body[i:e])
            i = e
            while i < n and (body[i].isspace() or body.startswith("//", i)):
                i = _skip_trivia(body, i) if body.startswith("//", i) else i + 1
        # pattern up to `=>` at depth 0
        depth, k = 0, i
        while k < n:
            j = _skip_trivia(body, k)
            if j != k:
                k = j; continue
            c = body[k]
            if c in "([{":
                depth += 1
            elif c in ")]}":
                depth -= 1
            elif body.startswith("=>", k) and depth == 0:
                break
            k += 1
        if k >= n:
            break
        pat = body[i:k].strip()
        k += 2
        while body[k].isspace():
            k += 1
        if body[k] == "{":
            e = match_brace(body, k)
            expr = body[k:e]
            k = e
            while k < n and body[k].isspace():
                k += 1
            if k < n and body[k] == ",":
                k += 1
        else:
            depth, e = 0, k
            while e < n:
                j = _skip_trivia(body, e)
                if j != e:
                    e = j; continue
                c = body[e]
                if c in "([{":
                    depth += 1
                elif c in ")]}":
                    depth -= 1
                elif c == "," and depth == 0:
                    break
                e += 1
            expr = body[k:e].strip()
            k = e + 1
        arms.append((attrs, pat, expr))
        i = k
    return arms


def unit(plan):
    src = read_repo(EXPR_RS)
    feats = default_features(read_repo(CARGO))
    sig, body = extract_fn(src, "term")
    m = find_code(body, r"let new_fxn\s*:\s*Box<dyn MechFunction>\s*=\s*match op\s*\{")
    if not m:
        raise AnchorLost("`let new_fxn: Box<dyn MechFunction> = match op {` not found in term()")
    mend = match_brace(body, m.end() - 1)
    arms = split_arms(body[m.end():mend - 1])
    kept, compilers, table_lines = [], set(), []
    for attrs, pat, expr in arms:
        ok = True
        for a in attrs:
            mm = re.match(r"#\[cfg\((.*)\)\]$", a.strip(), re.S)
            if mm and not cfg_eval(mm.group(1), feats):
                ok = False
        if not ok:
            continue
        calls = re.findall(r"(\w+)\s*\{\s*\}\s*\.compile\(&vec!\[\s*(\w+)\s*,\s*(\w+)\s*\]\)\?", expr)
        if re.fullmatch(r"todo!\(\)", expr.strip()):
            kept.append("      %s => { return Err(TermErr::Todo); }" % pat)
        elif re.fullmatch(r"\w+\s*\{\s*\}\s*\.compile\(&vec!\[\s*\w+\s*,\s*\w+\s*\]\)\?", expr.strip()):
            kept.append("      %s => %s," % (pat, expr.strip()))           # verbatim
            compilers.add(calls[0][0])
        elif calls and pat.startswith("FormulaOperator::"):
            # complex arm (operand-kind guards): keep its general case = the last compile call, verbatim
            nm, a, b = calls[-1]
            kept.append("      %s => %s {}.compile(&vec![%s, %s])?,   // guards on operand kinds dropped" % (pat, nm, a, b))
            compilers.add(nm)
        elif pat.strip() == "x":
            kept.append("      x => { return Err(TermErr::Unhandled); }")
        else:
            raise AnchorLost("term(): arm `%s` has an unexpected shape" % pat)
    # operator enums, verbatim from nodes.rs
    nodes = read_repo(NODES_RS)
    enums = []
    for en in ["FormulaOperator", "AddSubOp", "MulDivOp", "VecOp", "PowerOp", "ComparisonOp", "LogicOp", "SetOp", "TableOp"]:
        mm = find_code(nodes, r"pub enum %s\s*\{" % en)
        if not mm:
            raise AnchorLost("enum %s not found in nodes.rs" % en)
        e = match_brace(nodes, mm.end() - 1)
        enums.append(nodes[mm.start():e])
    tags = sorted(compilers | set(EXPECTED.values()))
    items = []
    items.append("\n".join(enums))
    items.append("pub enum Tag { %s }" % ", ".join(tags))
    items.append("""pub struct Value { pub id: int }
pub struct Fx { pub tag: Tag, pub a: Value, pub b: Value }
pub enum TermErr { Todo, Unhandled, Compile }
""")
    for t in sorted(compilers):
        items.append("""pub struct %s {}
impl %s {
  #[verifier::external_body]
  pub fn compile(&self, args: &Vec<Value>) -> (r: Result<Fx, TermErr>)
    requires args@.len() == 2,
    ensures r matches Ok(f) ==> (f.tag matches Tag::%s) && f.a == args@[0] && f.b == args@[1],
  { unimplemented!() }
}""" % (t, t, t))
    # expected table as a spec fn over the real operator enums
    spec_arms = []
    for k, v in EXPECTED.items():
        if True:
            spec_arms.append("    FormulaOperator::%s => (t matches Tag::%s)," % (k, v))
    items.append("pub open spec fn denotes(op: FormulaOperator, t: Tag) -> bool {\n  match op {\n%s\n    _ => true,\n  }\n}\n" % "\n".join(spec_arms))
    items.append("""// the operator -> function table of term(), arms verbatim
fn select(op: &FormulaOperator, lhs: Value, rhs: Value) -> (r: Result<Fx, TermErr>)
  ensures r matches Ok(f) ==> denotes(*op, f.tag) && f.a == lhs && f.b == rhs,
{
  let new_fxn: Fx = match op {
%s
  };
  Ok(new_fxn)
}
""" % "\n".join(kept))
    fns = {"select": "C02.term.operator_table"}
    # ---- left fold (loop structure of term(), dispatch abstracted)
    stm = vlib.split_statements(body)
    loop = [s for s in stm if re.match(r"for\s+\(\s*op\s*,\s*\w+\s*\)\s+in\s+(?:&trm\.rhs|trm\.rhs\.iter\(\))\s*\{", s)]
    if len(loop) != 1:
        raise AnchorLost("term(): the fold loop `for (op, rhs) in &trm.rhs` not found")
    rhs_name = re.match(r"for\s+\(\s*op\s*,\s*(\w+)\s*\)", loop[0]).group(1)          # the loop's name for the operand node
    lbody = loop[0][loop[0].index("{"):]
    inner = vlib.split_statements(lbody)
    # statement-by-statement transcription of the loop body: known shapes are mapped to the abstract
    # step, anything else is abstracted but keeps its control-flow exits and its writes to `lhs`
    shapes = [
        (r"let rhs = factor\(&?%s, env, p\)\?;$" % rhs_name, "let rhs = factor(&rhs_list[i].1)?;"),
        (r"let new_fxn\s*:\s*Box<dyn MechFunction>\s*=\s*match op\b", "let new_fxn = dispatch(op, lhs, rhs)?;"),
        (r"new_fxn\.solve\(\);$", "/* new_fxn.solve(); */"),
        (r"let (\w+) = new_fxn\.out\(\);$", r"let \1 = solve_out(op, &new_fxn);"),
        (r"lhs = new_fxn\.out\(\);$", "lhs = solve_out(op, &new_fxn);"),
        (r"term_plan\.push\(new_fxn\);$", "/* term_plan.push(new_fxn); */"),
        (r"lhs = (\w+);$", r"lhs = \1;"),
    ]
    trans, unknown = [], 0
    for st in inner:
        st1 = st.strip()
        while True:
            st2 = re.sub(r"^(//[^\n]*\n\s*|/\*.*?\*/\s*|#\[[^\]]*\]\s*)", "", st1, count=1, flags=re.S)
            if st2 == st1:
                break
            st1 = st2
        for rx, out in shapes:
            mm = re.match(rx, st1, re.S)
            if mm:
                trans.append(mm.expand(out) if "\\1" in out else out)
                break
        else:
            unknown += 1
            wo_closures = re.sub(r"\|[^|]*\|\s*\{", "{", st1)
            trans.append("// abstracted statement: " + " ".join(st1.split())[:100])
            if re.search(r"\bbreak\b", wo_closures):
                trans.append("if nondet() { break; }")
            if re.search(r"\bcontinue\b", wo_closures):
                trans.append("if nondet() { i += 1; continue; }")
            if re.search(r"\breturn\s+Ok\(", wo_closures):
                trans.append("if nondet() { return Ok(havoc()); }")
            if re.search(r"\blhs\s*=[^=]", wo_closures):
                trans.append("lhs = havoc();")
    loop_body = "\n    ".join(trans)
    # statements of term() outside the loop: known shapes are mapped, a statement over the fold's own data (trm.lhs / trm.rhs / factor) is kept after
    # renaming, anything else is abstracted but keeps its exits (a `return` that is not an error returns an ARBITRARY value) and its writes to `lhs`
    li = stm.index(loop[0])
    outer_shapes = [
        (r"let plan = p\.plan\(\);$", "/* let plan = p.plan(); */"),
        (r"let mut lhs = factor\(&trm\.lhs, env, p\)\?;$", "let mut lhs = factor(lhs0)?;"),
        (r"let mut term_plan\s*:\s*Vec<Box<dyn MechFunction>>\s*=\s*vec!\[\];$", "/* let mut term_plan = vec![]; */"),
        (r"let mut plan_brrw = plan\.borrow_mut\(\);$", "/* let mut plan_brrw = plan.borrow_mut(); */"),
        (r"plan_brrw\.append\(&mut term_plan\);$", "/* plan_brrw.append(&mut term_plan); */"),
        (r"(return\s+)?Ok\(lhs\);?$", "return Ok(lhs);"),
    ]
    def outer(sts):
        out = []
        for st in sts:
            st1 = st.strip()
            while True:
                st2 = re.sub(r"^(//[^\n]*\n\s*|/\*.*?\*/\s*|#\[[^\]]*\]\s*)", "", st1, count=1, flags=re.S)
                if st2 == st1:
                    break
                st1 = st2
            for rx, o in outer_shapes:
                if re.match(rx, st1, re.S):
                    out.append(o)
                    break
            else:
                light = re.sub(r"//[^\n]*", "", st1)
                light = re.sub(r"\bfactor\(\s*&trm\.lhs\s*,\s*env\s*,\s*p\s*\)", "factor(lhs0)", light)
                light = re.sub(r"&?\btrm\.rhs\b", "rhs_list", light)
                if set(re.findall(r"[A-Za-z_]\w*", light)) <= {"if", "else", "return", "let", "mut", "lhs", "lhs0", "rhs_list", "factor", "is_empty", "len", "Ok", "true", "false"}:
                    out.append(light)
                    continue
                wo_closures = re.sub(r"\|[^|]*\|\s*\{", "{", st1)
                out.append("// abstracted statement: " + " ".join(st1.split())[:100])
                if re.search(r"\breturn\b(?!\s+Err\()", wo_closures):
                    out.append("if nondet() { return Ok(havoc()); }")
                if re.search(r"\blhs\s*=[^=]", wo_closures):
                    out.append("lhs = havoc();")
        return "\n  ".join(out)
    pre_stmts, post_stmts = outer(stm[:li]), outer(stm[li + 1:])
    items.append("""
// ---- left fold: one grammar level `a op1 b op2 c ..` evaluates as ((a op1 b) op2 c) ..
pub struct Factor { pub id: int }
pub uninterp spec fn eval(f: Factor) -> Value;
pub uninterp spec fn apply(op: FormulaOperator, l: Value, r: Value) -> Value;
#[verifier::external_body]
fn nondet() -> bool { unimplemented!() }
#[verifier::external_body]
fn havoc() -> Value { unimplemented!() }
#[verifier::external_body]
fn factor(f: &Factor) -> (r: Result<Value, TermErr>) ensures r matches Ok(v) ==> v == eval(*f) { unimplemented!() }
#[verifier::external_body]
fn dispatch(op: &FormulaOperator, lhs: Value, rhs: Value) -> (r: Result<Fx, TermErr>) ensures r matches Ok(f) ==> f.a == lhs && f.b == rhs { unimplemented!() }
pub uninterp spec fn fx_result(op: FormulaOperator, f: Fx) -> Value;
#[verifier::external_body]
fn solve_out(op: &FormulaOperator, f: &Fx) -> (r: Value) ensures r == apply(*op, f.a, f.b) { unimplemented!() }

pub open spec fn fold_left(acc: Value, ops: Seq<(FormulaOperator, Factor)>) -> Value
  decreases ops.len()
{
  if ops.len() == 0 { acc } else { fold_left(apply(ops[0].0, acc, eval(ops[0].1)), ops.subrange(1, ops.len() as int)) }
}

proof fn lemma_fold_snoc(acc: Value, ops: Seq<(FormulaOperator, Factor)>, n: int)
  requires 0 <= n < ops.len(),
  ensures fold_left(acc, ops.subrange(0, n + 1)) == apply(ops[n].0, fold_left(acc, ops.subrange(0, n)), eval(ops[n].1)),
  decreases n,
{
  let s1 = ops.subrange(0, n + 1);
  let s0 = ops.subrange(0, n);
  if n == 0 {
    assert(s1.subrange(1, s1.len() as int) =~= Seq::<(FormulaOperator, Factor)>::empty());
    assert(s0 =~= Seq::<(FormulaOperator, Factor)>::empty());
    assert(s1[0] == ops[0]);
    assert(fold_left(acc, s1) == fold_left(apply(s1[0].0, acc, eval(s1[0].1)), s1.subrange(1, s1.len() as int)));
  } else {
    let t = ops.subrange(1, ops.len() as int);
    let acc1 = apply(ops[0].0, acc, eval(ops[0].1));
    lemma_fold_snoc(acc1, t, n - 1);
    assert(s1.subrange(1, s1.len() as int) =~= t.subrange(0, n));
    assert(s0.subrange(1, s0.len() as int) =~= t.subrange(0, n - 1));
    assert(s1[0] == ops[0] && s0[0] == ops[0]);
    assert(t[n - 1] == ops[n]);
    assert(fold_left(acc, s1) == fold_left(acc1, s1.subrange(1, s1.len() as int)));
    assert(fold_left(acc, s0) == fold_left(acc1, s0.subrange(1, s0.len() as int)));
  }
}

// term() with `for (op, rhs) in &trm.rhs` written as an index loop (transcription K: iteration in list order)
fn term_fold(lhs0: &Factor, rhs_list: &Vec<(FormulaOperator, Factor)>) -> (r: Result<Value, TermErr>)
  ensures r matches Ok(v) ==> v == fold_left(eval(*lhs0), rhs_list@),
{
  %s
  let mut i: usize = 0;
  while i < rhs_list.len()
    invariant i <= rhs_list@.len(), lhs == fold_left(eval(*lhs0), rhs_list@.subrange(0, i as int)),
    decreases rhs_list@.len() - i,
  {
    let op = &rhs_list[i].0;
    proof { lemma_fold_snoc(eval(*lhs0), rhs_list@, i as int); }
    %s
    i += 1;
  }
  proof { assert(rhs_list@.subrange(0, rhs_list@.len() as int) =~= rhs_list@); }
  %s
}
""" % (pre_stmts, loop_body, post_stmts))
    fns["term_fold"] = "C02.term.left_fold"
    items.append(vlib.verus_canary("canary_c02", "x: u64", []))
    text = "use vstd::prelude::*;\nverus! {\n" + "\n".join(items) + "\n} // verus!\nfn main() {}\n"
    u = VerusUnit("c02_term", text, fns, ["canary_c02"], dropped=[
        "operator table: the arms of `match op` in term() are copied verbatim except that (a) arms whose #[cfg] is false under the default feature set of mech-interpreter are removed and cfg attributes are stripped, (b) `todo!()` arms become `return Err(Todo)`, (c) for the three arms with operand-kind guards (+ on strings, ∈ / ∉ on kinds) only the general-case compile call is kept; every `X {}` compiler is an external_body stand-in returning a tagged Fx over its two arguments",
        "left fold: the loop `for (op, rhs) in &trm.rhs` is transcribed to an index loop over the same list, statement by statement: `let rhs = factor(..)?`, the dispatch `match op {..}` (one abstract call; its two `continue` arms for `x ∈ <kind>` are part of that call), `solve`/`out`, `push`, `lhs = res`; any OTHER statement is abstracted but keeps its exits (`break`, `continue`, `return Ok`) as nondeterministic exits and its writes to `lhs` as havoc"])
    for fn, on in fns.items():
        plan.ob(on, "verus", "proved", functions=["term()"], what={
            "select": "every operator token of the formula grammar is dispatched to the function it denotes, with operands in (lhs, rhs) order",
            "term_fold": "the value of one grammar level is the left fold of its operators in source order"}[fn])
    plan.verus.append(u)
    plan.dropped += u.dropped


FACTOR_MODEL = """
// model for the evaluator `factor` (src/interpreter/src/expressions.rs, whole body): a factor's value is `fv(node)` (the NAME of what this very
// function returns: the recursive calls are the stand-in `factor_rec`), a term's value `tv`, an expression's `ev`; the three unary compilers
// return a tagged function object over their single operand; solving it yields `out1(tag, operand)`.
#[derive(Clone, Copy, PartialEq, Eq, Structural)]
pub struct Value { pub id: u64 }
pub struct Term { pub id: u64 }
pub struct Expression { pub id: u64 }
pub enum Factor { Term(Box<Term>), Parenthetical(Box<Factor>), Expression(Expression), Negate(Box<Factor>), Not(Box<Factor>), Transpose(Box<Factor>) }
pub struct Environment { pub id: u64 }
pub struct Interpreter { pub steps: Ghost<Seq<Fx>> }
pub struct MechError { pub id: u64 }
#[derive(Clone, Copy, PartialEq, Eq, Structural)]
pub enum Tag { MathNegate, LogicNot, MatrixTranspose }
#[derive(Clone, Copy, PartialEq, Eq, Structural)]
pub struct Fx { pub tag: Tag, pub a: Value }
pub uninterp spec fn fv(f: Factor) -> Option<Value>;
pub uninterp spec fn tv(t: Term) -> Option<Value>;
pub uninterp spec fn ev(e: Expression) -> Option<Value>;
pub uninterp spec fn accepts(t: Tag, a: Value) -> bool;        // the compiler accepts the operand
pub uninterp spec fn out1(t: Tag, a: Value) -> Value;          // the value of the solved unary function
#[verifier::external_body]
pub fn factor_rec(f: &Factor, env: Option<&Environment>, p: &mut Interpreter) -> (r: Result<Value, MechError>)
  ensures (match r { Ok(v) => fv(*f) == Some(v), Err(_) => fv(*f) is None }),
{ unimplemented!() }
#[verifier::external_body]
pub fn term(t: &Term, env: Option<&Environment>, p: &mut Interpreter) -> (r: Result<Value, MechError>)
  ensures (match r { Ok(v) => tv(*t) == Some(v), Err(_) => tv(*t) is None }),
{ unimplemented!() }
#[verifier::external_body]
pub fn expression(e: &Expression, env: Option<&Environment>, p: &mut Interpreter) -> (r: Result<Value, MechError>)
  ensures (match r { Ok(v) => ev(*e) == Some(v), Err(_) => ev(*e) is None }),
{ unimplemented!() }
impl Fx {
  #[verifier::external_body]
  pub fn solve(&self) { unimplemented!() }
  #[verifier::external_body]
  pub fn out(&self) -> (v: Value) ensures v == out1(self.tag, self.a), { unimplemented!() }
}
#[verifier::external_body]
pub fn add_plan_step(p: &mut Interpreter, f: Fx) ensures final(p).steps@ == old(p).steps@.push(f), { unimplemented!() }
// ---- THE CONTRACT (C02): parentheses only group (the value of `(f)` is the value of f); a unary minus / not / transpose applies to the value
// of the factor it is attached to
pub open spec fn un(t: Tag, x: Option<Value>) -> Option<Value> { match x { None => None, Some(v) => if accepts(t, v) { Some(out1(t, v)) } else { None } } }
pub open spec fn factor_value(f: Factor) -> Option<Value> {
  match f {
    Factor::Term(t) => tv(*t), Factor::Parenthetical(x) => fv(*x), Factor::Expression(e) => ev(e),
    Factor::Negate(x) => un(Tag::MathNegate, fv(*x)), Factor::Not(x) => un(Tag::LogicNot, fv(*x)), Factor::Transpose(x) => un(Tag::MatrixTranspose, fv(*x)),
  }
}
"""


def factor_unit(plan):
    """(X) the evaluator `factor` (src/interpreter/src/expressions.rs), whole body: `#[cfg]` arms evaluated (default features); the recursive calls `factor(..)` ->
    `factor_rec(..)` (modular recursion); `X {}.compile(&vec![v])?` with X in {MathNegate, LogicNot, MatrixTranspose} -> stand-ins returning a tagged function object;
    `p.state.borrow_mut().add_plan_step(f)` -> `add_plan_step(p, f)`; `&*paren` -> `paren`; the `use` line and the `_ => todo!()` arm dropped (the model enum has exactly the arms)"""
    name = "C02.eval.factor.parentheses_group_and_unary_apply_to_the_factor"
    plan.ob(name, "verus", "proved", functions=["src/interpreter/src/expressions.rs: factor (whole body)"],
            what="the value of a parenthesised formula is the value of the formula inside; unary minus, logical not and transpose are applied to the value of the factor they are attached to (and to nothing else); a term is evaluated by term(), any other expression by expression()")
    text = read_repo(EXPR_RS)
    feats = default_features(read_repo(CARGO))
    sig, body = extract_fn(text, "factor")
    m = find_code(body, r"match\s+fctr\s*\{")
    if not m:
        raise AnchorLost("factor(): `match fctr {` not found")
    inner = body[m.end():match_brace(body, m.end() - 1) - 1]
    arms = []
    for attrs, pat, expr in split_arms(inner):
        if any(not cfg_eval(re.match(r"#\[cfg\((.*)\)\]$", a.strip(), re.S).group(1), feats) for a in attrs if a.strip().startswith("#[cfg")):
            continue
        if pat.strip() == "_":
            continue
        e = re.sub(r"//[^\n]*", "", expr)
        e = re.sub(r"use\s+[\w:]+\s*;", "", e)
        e = re.sub(r"\bfactor\(\s*&\*(\w+)\s*,", r"factor_rec(\1,", e)
        e = re.sub(r"\bfactor\(", "factor_rec(", e)
        e = re.sub(r"\b(MathNegate|LogicNot|MatrixTranspose)\s*\{\s*\}\s*\.compile\(\s*&vec!\[\s*(\w+)\s*\]\s*\)", r"compile1(Tag::\1, \2)", e)
        e = re.sub(r"p\.state\.borrow_mut\(\)\.add_plan_step\(\s*(\w+)\s*\)", r"add_plan_step(p, \1)", e)
        if re.search(r"\.compile\(|borrow_mut|todo!", e):
            raise AnchorLost("factor(): arm `%s` is outside the transcription rules" % pat.strip())
        arms.append("    %s => %s" % (pat.strip(), e.strip().rstrip(",") + ","))
    fn = ("#[verifier::external_body]\npub fn compile1(t: Tag, a: Value) -> (r: Result<Fx, MechError>)\n  ensures (match r { Ok(f) => accepts(t, a) && f == (Fx { tag: t, a: a }), Err(_) => !accepts(t, a) }),\n{ unimplemented!() }\n"
          "fn factor(fctr: &Factor, env: Option<&Environment>, p: &mut Interpreter) -> (res: Result<Value, MechError>)\n"
          "  ensures (match res { Ok(v) => factor_value(*fctr) == Some(v), Err(_) => factor_value(*fctr) is None }),\n{\n  match fctr {\n" + "\n".join(arms) + "\n  }\n}\n")
    plan.verus.append(VerusUnit("c02_factor_eval", vlib.verus_file([FACTOR_MODEL, fn, vlib.verus_canary("canary_feval", "x: u64", [])]), {"factor": name}, ["canary_feval"]))
    plan.dropped.append(factor_unit.__doc__.strip())


def plan(plan, tier, seed):
    try:
        factor_unit(plan)
    except AnchorLost as e:
        plan.anchor_errors.append(("C02.eval.factor.parentheses_group_and_unary_apply_to_the_factor", str(e)))
    try:
        unit(plan)
    except AnchorLost as e:
        plan.anchor_errors.append(("C02.term.*", str(e)))
    from units import vC02g
    try:
        vC02g.units(plan)
    except AnchorLost as e:
        plan.anchor_errors.append(("C02.grammar.*", str(e)))
    nab = "C02.grammar.alt_best.longest_successful_alternative"
    plan.ob(nab, "verus", "proved", functions=["src/syntax/src/lib.rs: alt_best (whole body)"],
            what="for every table of alternatives and every behaviour of the alternatives: a success of alt_best is the result of one of the alternatives on this input and no alternative succeeds further into the input (longest match); if no alternative fails hard, one succeeding alternative suffices for success")
    try:
        plan.verus.append(VerusUnit("c02_alt_best", vC02g.alt_best_unit(read_repo("src/syntax/src/lib.rs")), {"alt_best": nab}, ["canary_alt_best"]))
    except AnchorLost as e:
        plan.anchor_errors.append((nab, str(e)))
    plan.dropped.append(vC02g.alt_best_fn.__doc__.strip())
    plan.dropped.append(vC02g.__doc__.strip())
    plan.functions += ["src/interpreter/src/expressions.rs: term() — operator dispatch table and fold loop",
                       "src/syntax/src/expressions.rs: formula, l1, l2, l3, l4, l5, l6, l7, factor, parenthetical_term, negate_factor, not_factor, logic_operator, comparison_operator, add_sub_operator, mul_div_operator, matrix_operator, power_operator"]
    plan.trusted += ["Verus / Z3"]
    plan.assumptions += ["nom::multi::many0(pair(op, operand)) collects matches in source order (assumed contract of the dependency)",
                         "the fold obligation is about a transcription of the loop (index loop over the same list) guarded by an anchor check of the loop body's statement sequence"]
    plan.assumptions += ["nom's many0 / pair / cut / alt / opt and mech_syntax::alt_best behave as documented: they are named, uninterpreted functions in contracts/C02/grammodel.rs; every leaf parser (token, literal, structure, ..) is an arbitrary function of (its name, the input)",
                         "a parser is identified by the name of the function that implements it; the order of the alternatives inside one operator class is abstracted (a class is the set of its tokens)"]
    plan.undecided_clauses += ["C02: that the token parsers recognise the spellings they are named after (`+`, `*`, `^`, ..), whitespace rules around operators, the alternatives tried before formula() in expression() (range, match, comprehensions), and the mechanical composition grammar structure + operator table + left fold => value of the parenthesised formula (argued in DESIGN.md, not machine-checked)"]
    plan.level = "proof"
