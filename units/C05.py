"""C05 — bindings are isolated.  Verus on the real SymbolTable methods and on the
name guards of variable_define / variable_assign / op_assign (fragments);
Kani on the storage separation of detach_variable_value."""
import os, re
import vlib
from vlib import read_repo, extract_fn, verus_fn, verus_canary, verus_file, VerusUnit, AnchorLost, between, GEN, match_brace

ST_RS = "src/core/src/program/symbol_table.rs"
STMT_RS = "src/interpreter/src/statements.rs"

PRELUDE = """use std::collections::HashMap;"""

STANDINS = """
broadcast use vstd::std_specs::hash::group_hash_axioms;

// ---- stand-ins (assumed): the table only moves cells around; a cell is an identity
pub struct Value { pub v: u64 }
pub struct ValRef { pub cell: u64 }
impl Clone for ValRef {
  fn clone(&self) -> (r: Self) ensures r == *self { ValRef { cell: self.cell } }
}
pub struct Ref {}
impl Ref {
  #[verifier::external_body]
  pub fn new(value: Value) -> (r: ValRef) { unimplemented!() }
}
#[derive(PartialEq, Eq)]
pub enum ErrKind { UndefinedVariableError, NotMutableError, VariableAlreadyDefinedError }

pub struct SymbolTable {
  pub symbols: HashMap<u64,ValRef>,
  pub mutable_variables: HashMap<u64,ValRef>,
}

impl SymbolTable {
  // representation invariant: every mutable binding is a binding, and is the same cell
  pub open spec fn wf(&self) -> bool {
    forall|k: u64| #![trigger self.mutable_variables@.contains_key(k)]
      self.mutable_variables@.contains_key(k) ==> (self.symbols@.contains_key(k) && self.symbols@[k] == self.mutable_variables@[k])
  }
"""

ERR_RX = re.compile(r"return\s+Err\(\s*MechError::new\(\s*(\w+)\s*\{[^}]*\}\s*,.*?\)\s*\.with_compiler_loc\(\)\s*\.with_tokens\(\s*[\w\.]+\(\)\s*\)\s*\)\s*([;,])", re.S)


def harness_modules():
    return [dict(crate="mech-interpreter", file="src/statements.rs", mod="verif_c05", gen="C05/k_detach.rs"),
            dict(crate="mech-interpreter", file="src/stdlib/assign/mod.rs", mod="verif_c05_assign", gen="C05/k_assign.rs")]


def rewrite_errors(text):
    """`return Err(MechError::new(Kind { .. }, ..).with_compiler_loc().with_tokens(..));` -> `return Err(ErrKind::Kind);`"""
    return ERR_RX.sub(lambda m: "return Err(ErrKind::%s)%s" % (m.group(1), m.group(2)), text)


def verus_unit(plan):
    st = read_repo(ST_RS)
    stmt = read_repo(STMT_RS)
    items, fns = [STANDINS], {}
    # --- SymbolTable methods (X: verbatim bodies)
    sig, body = extract_fn(st, "get_mutable")
    items.append(verus_fn(sig, body, ensures=["r == (if self.mutable_variables@.contains_key(key) { Some(self.mutable_variables@[key]) } else { None::<ValRef> })"]))
    fns["get_mutable"] = "C05.SymbolTable.get_mutable"
    sig, body = extract_fn(st, "get")
    items.append(verus_fn(sig, body, ensures=["r == (if self.symbols@.contains_key(key) { Some(self.symbols@[key]) } else { None::<ValRef> })"]))
    fns["get"] = "C05.SymbolTable.get"
    sig, body = extract_fn(st, "contains")
    items.append(verus_fn(sig, body, ensures=["r == self.symbols@.contains_key(key)"]))
    fns["contains"] = "C05.SymbolTable.contains"
    sig, body = extract_fn(st, "insert")
    n = len(re.findall(r"self\.reverse_lookup\.insert\(&\w+,\s*key\);", body))
    if n != 1:
        raise AnchorLost("SymbolTable::insert: reverse_lookup statement not found exactly once")
    body = re.sub(r"self\.reverse_lookup\.insert\(&\w+,\s*key\);", "/* dropped: reverse_lookup.insert(&cell, key) */", body)
    req = ["old(self).wf()", "!old(self).symbols@.contains_key(key)"]
    ens = ["final(self).wf()",
           "final(self).symbols@ == old(self).symbols@.insert(key, r)",
           "final(self).mutable_variables@ == (if mutable { old(self).mutable_variables@.insert(key, r) } else { old(self).mutable_variables@ })"]
    items.append(verus_fn(sig, body, requires=req, ensures=ens))
    fns["insert"] = "C05.SymbolTable.insert"
    items.append("}  // impl SymbolTable\n")
    # --- guard of variable_assign (F): everything between the computation of the id and the use of the sink
    sig, body = extract_fn(stmt, "variable_assign")
    frag = between(body, r"let id = slc\.name\.hash\(\);", r"match &slc\.subscript")
    frag = frag[len("let id = slc.name.hash();"):]
    frag = rewrite_errors(frag).replace("val.borrow().clone()", "val").replace("symbols.borrow()", "symbols")
    if "MechError" in frag:
        raise AnchorLost("variable_assign guard: unexpected error construction")
    items.append("""pub struct Interp<'a> { pub st: &'a SymbolTable }
impl<'a> Interp<'a> {
  pub fn symbols(&self) -> (r: &'a SymbolTable) ensures r == self.st { self.st }
}

fn variable_assign_guard<'a>(p: &Interp<'a>, id: u64) -> (r: Result<ValRef, ErrKind>)
  ensures
    match r {
      Ok(c) => p.st.mutable_variables@.contains_key(id) && c == p.st.mutable_variables@[id],
      Err(e) => !p.st.mutable_variables@.contains_key(id)
                && (e == ErrKind::NotMutableError <==> p.st.symbols@.contains_key(id))
                && (e == ErrKind::UndefinedVariableError <==> !p.st.symbols@.contains_key(id)),
    },
{
  %s
  Ok(sink)
}
""" % frag.strip())
    fns["variable_assign_guard"] = "C05.guard.variable_assign"
    # --- guard of op_assign (F): same region, goes through ProgramState
    try:
        sig, body = extract_fn(stmt, "op_assign")
        frag = between(body, r"let id = slc\.name\.hash\(\);", r"match &slc\.subscript")
        frag = frag[len("let id = slc.name.hash();"):]
        frag = rewrite_errors(frag).replace("val.borrow().clone()", "val").replace("p.state.borrow_mut()", "p.state()")
        if "MechError" in frag:
            raise AnchorLost("op_assign guard: unexpected error construction")
        items.append("""// ProgramState seen through its symbol table (assumed: no local environment is active)
pub struct StateView<'a> { pub st: &'a SymbolTable }
impl<'a> StateView<'a> {
  #[verifier::external_body]
  pub fn get_mutable_symbol(&self, id: u64) -> (r: Option<ValRef>)
    ensures r == (if self.st.mutable_variables@.contains_key(id) { Some(self.st.mutable_variables@[id]) } else { None::<ValRef> }) { unimplemented!() }
  #[verifier::external_body]
  pub fn get_symbol(&self, id: u64) -> (r: Option<ValRef>)
    ensures r == (if self.st.symbols@.contains_key(id) { Some(self.st.symbols@[id]) } else { None::<ValRef> }) { unimplemented!() }
  #[verifier::external_body]
  pub fn contains_symbol(&self, id: u64) -> (r: bool) ensures r == self.st.symbols@.contains_key(id) { unimplemented!() }
}
impl<'a> Interp<'a> {
  pub fn state(&self) -> (r: StateView<'a>) ensures r.st == self.st { StateView { st: self.st } }
}

fn op_assign_guard<'a>(p: &Interp<'a>, id: u64) -> (r: Result<ValRef, ErrKind>)
  ensures
    match r {
      Ok(c) => p.st.mutable_variables@.contains_key(id) && c == p.st.mutable_variables@[id],
      Err(e) => !p.st.mutable_variables@.contains_key(id)
                && (e == ErrKind::NotMutableError <==> p.st.symbols@.contains_key(id))
                && (e == ErrKind::UndefinedVariableError <==> !p.st.symbols@.contains_key(id)),
    },
{
  %s
  Ok(sink)
}
""" % frag.strip())
        fns["op_assign_guard"] = "C05.guard.op_assign"
    except AnchorLost as e:
        plan.anchor_errors.append(("C05.guard.op_assign", str(e)))
    # --- guard of variable_define (F): everything before the defining expression is evaluated
    sig, body = extract_fn(stmt, "variable_define")
    frag = between(body, r"let var_name = var_def\.var\.name\.to_string\(\);", r"let mut result = expression\(")
    frag = frag[len("let var_name = var_def.var.name.to_string();"):]
    frag = rewrite_errors(frag).replace("symbols.borrow()", "symbols")
    if "MechError" in frag:
        raise AnchorLost("variable_define guard: unexpected error construction")
    items.append("""fn variable_define_guard<'a>(p: &Interp<'a>, var_id: u64) -> (r: Result<(), ErrKind>)
  ensures
    r.is_ok() <==> !p.st.symbols@.contains_key(var_id),
    r.is_err() ==> r == Err::<(), ErrKind>(ErrKind::VariableAlreadyDefinedError),
{
  %s
  Ok(())
}
""" % frag.strip())
    fns["variable_define_guard"] = "C05.guard.variable_define"
    # --- history lemma over the contracts (abstract store)
    items.append("""
// Composition lemma (about the contracts above, not about code): if a define only ever
// inserts a fresh key (variable_define_guard) and an assignment only ever obtains a cell
// through variable_assign_guard, then a key that is not in `mutable_variables` is never
// handed out for writing, and insert never changes any existing binding.
proof fn lemma_immutable_never_written(symbols: Map<u64, ValRef>, mutable_variables: Map<u64, ValRef>, k: u64, key: u64, cell: ValRef, m: bool)
  requires symbols.contains_key(k), !symbols.contains_key(key),
  ensures symbols.insert(key, cell).contains_key(k), symbols.insert(key, cell)[k] == symbols[k],
          (if m { mutable_variables.insert(key, cell) } else { mutable_variables }).contains_key(k) == mutable_variables.contains_key(k),
{ }
""")
    fns["lemma_immutable_never_written"] = "C05.lemma.insert_preserves_existing_bindings"
    items.append(verus_canary("canary_c05", "x: u64", []))
    text = "use vstd::prelude::*;\n" + PRELUDE + "\nverus! {\n" + "\n".join(items) + "\n} // verus!\nfn main() {}\n"
    u = VerusUnit("c05_symbol_table", text, fns, ["canary_c05"],
                  dropped=["SymbolTable: fields `dictionary` and `reverse_lookup` and the statement `self.reverse_lookup.insert(&cell, key);` are dropped (keys are addresses of a local)",
                           "Value / ValRef / Ref::new are stand-ins: a cell is an identity, clone() shares it, Ref::new is assumed (external_body)",
                           "guards: the statements of variable_assign between `let id = slc.name.hash();` and `match &slc.subscript` (resp. of variable_define between `let var_name = ..;` and `let mut result = expression(`) are copied verbatim except: `return Err(MechError::new(Kind{..},..).with_compiler_loc().with_tokens(..));` -> `return Err(ErrKind::Kind);`, `val.borrow().clone()` -> `val`, `symbols.borrow()` -> `symbols`; `p` is a stand-in whose symbols() returns the table"])
    for fn, on in fns.items():
        plan.ob(on, "verus", "proved", functions=[fn], what="contract of %s" % fn)
    plan.verus.append(u)
    plan.dropped += u.dropped


KANI_TEXT = '''// C05 storage separation of detach_variable_value (in-module harness on statements.rs)
#![allow(unused, non_snake_case)]
use super::*;
include!("/verif/contracts/common/vk.rs");

// `y := x`: var() evaluates `x` to MutableReference(cell of x); variable_define stores
// detach_variable_value(..) as y.  Isolation requires that a later write through x's
// cell is not visible through y.
#[cfg_attr(kani, kani::proof)]
#[cfg_attr(kani, kani::unwind(4))]
pub(crate) fn vkc05_detach_separation_f64() {
  let a: f64 = vk::any(); let b: f64 = vk::any();
  vk::assume(a.to_bits() != b.to_bits());
  let inner: Ref<f64> = Ref::new(a);
  let x_value = Value::F64(inner.clone());
  let x_cell: Ref<Value> = Ref::new(x_value);
  let evaluated = Value::MutableReference(x_cell.clone());
  let y = detach_variable_value(&evaluated);
  vk::reach();
  // assignment `x = b` writes through the storage of x
  *inner.borrow_mut() = b;
  match y {
    Value::F64(r) => assert!(r.borrow().to_bits() == a.to_bits(), "VK: assigning through one variable never changes the value seen through another name"),
    _ => assert!(false, "VK: detach keeps the kind"),
  }
}

// a plain (non-reference) value: detach is the identity on the value
#[cfg_attr(kani, kani::proof)]
#[cfg_attr(kani, kani::unwind(4))]
pub(crate) fn vkc05_detach_value_preserved_f64() {
  let a: f64 = vk::any();
  let v = Value::F64(Ref::new(a));
  let d = detach_variable_value(&v);
  vk::reach();
  match d {
    Value::F64(r) => assert!(r.borrow().to_bits() == a.to_bits(), "VK: a variable keeps the value it was defined with"),
    _ => assert!(false, "VK: detach keeps the kind"),
  }
}

vk_registry!{ vkreplay_c05; vkc05_detach_separation_f64, vkc05_detach_value_preserved_f64 }
'''


KANI_ASSIGN = '''// C05 whole-variable assignment kernel `x = y` (in-module harness on stdlib/assign/mod.rs: Assign<T> is private)
#![allow(unused, non_snake_case)]
use super::*;
include!("/verif/contracts/common/vk.rs");

#[cfg_attr(kani, kani::proof)]
#[cfg_attr(kani, kani::unwind(4))]
pub(crate) fn vkc05_assign_whole_variable_f64() {
  let a: f64 = vk::any(); let b: f64 = vk::any();
  let sink: Ref<f64> = Ref::new(a);
  let source: Ref<f64> = Ref::new(b);
  let f = Assign::<f64> { sink: sink.clone(), source: source.clone() };
  vk::reach();
  f.solve();
  assert!(sink.borrow().to_bits() == b.to_bits(), "VK: after x = y, x holds the value of y");
  assert!(source.borrow().to_bits() == b.to_bits(), "VK: assigning through one variable never changes the value seen through another name");
}

vk_registry!{ vkreplay_c05a; vkc05_assign_whole_variable_f64 }
'''


DETACH_MODEL = """
// Model of the part of `Value` that detach_variable_value looks at.  A data variant holds a `Ref<T>` = Rc<RefCell<T>>:
// the model records the identity of that cell.  `Value::clone()` is the derived clone: it clones the Rc, i.e. the copy
// holds THE SAME cell (that is what Rc::clone does; assumed, it is the definition of Rc).
pub enum Value { Data(int), MutableReference(Box<Value>) }
pub open spec fn storage(v: Value) -> int decreases v { match v { Value::Data(c) => c, Value::MutableReference(b) => storage(*b) } }
impl Value {
  #[verifier::external_body]
  pub fn clone(&self) -> (r: Value) ensures r == *self { unimplemented!() }
}
pub struct RefValue { pub b: Box<Value> }
impl RefValue {
  // `reference.borrow()` on a Ref<Value>
  pub fn borrow(&self) -> (r: &Value) ensures *r == *self.b { &*self.b }
}
"""


def detach_unit(plan):
    """(X) `detach_variable_value` (src/interpreter/src/statements.rs), body verbatim over a model of Value in which a data variant
    is the identity of its Rc cell and `clone()` keeps that identity.  Contract (the property: after `y := x` nothing written
    through x is visible through y): the returned value does not share the storage cell of the argument."""
    from vlib import VerusUnit
    name = "C05.verus.detach_variable_value.fresh_storage"
    ob = plan.ob(name, "verus", "proved", functions=["detach_variable_value"],
                 what="the value bound by `y := x` does not share its storage cell with x (so that assigning through x never changes what y shows)")
    text = read_repo("src/interpreter/src/statements.rs")
    sig, body = extract_fn(text, "detach_variable_value")
    if not re.search(r"fn\s+detach_variable_value\s*\(\s*value\s*:\s*&Value\s*\)\s*->\s*Value", sig):
        raise AnchorLost("detach_variable_value signature changed")
    b = re.sub(r"//[^\n]*", "", body)
    b = re.sub(r"Value::MutableReference\((\w+)\)\s*=>\s*detach_variable_value\(&\1\.borrow\(\)\)", r"Value::MutableReference(\1) => detach_variable_value(&**\1)", b)
    fn = ("fn detach_variable_value(value: &Value) -> (r: Value)\n  ensures storage(r) != storage(*value),\n  decreases *value,\n" + b + "\n")
    plan.verus.append(VerusUnit("c05_detach", vlib.verus_file([DETACH_MODEL, fn, vlib.verus_canary("canary_detach", "x: u64", [])]), {"detach_variable_value": name}, ["canary_detach"]))
    plan.dropped.append(detach_unit.__doc__.strip())
    plan.assumptions.append("C05 detach: `Value::clone()` on a data variant clones the Rc and therefore shares the cell (definition of Rc::clone); `reference.borrow()` is modelled as a plain dereference")


TUPLE_MODEL = """
// model of what tuple_destructure touches: the names to define (their hashes), the tuple's length, and the symbol table as
// the set of defined names (its real insert/contains are the contracts of C05.SymbolTable.*)
pub struct Symbols { pub defined: Ghost<Set<u64>>, pub mutable: Ghost<Set<u64>> }
impl Symbols {
  #[verifier::external_body] pub fn contains(&self, id: u64) -> (r: bool) ensures r == self.defined@.contains(id) { unimplemented!() }
  #[verifier::external_body] pub fn insert(&mut self, id: u64, mutable: bool)
    ensures final(self).defined@ == old(self).defined@.insert(id), final(self).mutable@ == (if mutable { old(self).mutable@.insert(id) } else { old(self).mutable@ }) { unimplemented!() }
  #[verifier::external_body] pub fn dict_insert(&mut self, id: u64) ensures final(self).defined@ == old(self).defined@, final(self).mutable@ == old(self).mutable@ { unimplemented!() }
}
pub struct Var { pub id: u64 }
impl Var { pub fn hash(&self) -> (r: u64) ensures r == self.id { self.id } }
#[verifier::external_body] pub fn vars_get(vars: &Vec<Var>, i: usize) -> (o: Option<&Var>)
  ensures i < vars@.len() ==> o == Some(&vars@[i as int]), i >= vars@.len() ==> o.is_none() { vars.get(i) }
pub fn tuple_get(i: usize, tpl_len: usize) -> (o: Option<()>) ensures o.is_some() == (i < tpl_len) { if i < tpl_len { Some(()) } else { None } }
"""


def tuple_unit(plan):
    """(F) the statements of `tuple_destructure` (src/interpreter/src/statements.rs) after the symbol table is borrowed, verbatim except:
    `return Err(..)` -> `return None`, `Ok(source)` -> `Some(())`, `tpl_dstrct.vars` -> the parameter `vars`, `tpl.borrow().size()` ->
    `tpl_len`, `tpl.borrow().get(i)` -> `tuple_get(i, tpl_len)`, `for var in vars.iter()` / `.iter().enumerate()` -> index loops,
    `symbols_brrw.insert(id, element.clone(), true)` -> `symbols_brrw.insert(id)`, the dictionary insert -> a no-op on the set of names.
    Contract: a failing destructure leaves the set of defined names exactly as before."""
    from vlib import VerusUnit, find_code, match_brace
    name = "C05.verus.tuple_destructure.failure_defines_nothing"
    ob = plan.ob(name, "verus", "proved", functions=["tuple_destructure (statements after the symbol table is borrowed)"],
                 what="if `(a, b, ..) := t` fails (too many names, a name already defined) the set of defined names is exactly as before; if it succeeds exactly the listed names are added; no name becomes mutable")
    text = read_repo("src/interpreter/src/statements.rs")
    sig, body = extract_fn(text, "tuple_destructure")
    a = find_code(body, r"let\s+mut\s+symbols_brrw\s*=\s*symbols\.borrow_mut\(\)\s*;")
    if not a:
        raise AnchorLost("tuple_destructure: `let mut symbols_brrw = symbols.borrow_mut();` not found")
    b = re.sub(r"//[^\n]*", "", body[a.end():body.rindex("}")])
    # return Err(..) -> return None
    while True:
        m = re.search(r"return\s+Err\s*\(", b)
        if not m:
            break
        e = match_brace(b, m.end() - 1, "(", ")")
        k = e
        while b[k] in " \t\r\n":
            k += 1
        b = b[:m.start()] + "return None" + b[k:]
    b, n0 = re.subn(r"\bOk\(source\)", "Some(())", b)
    b = re.sub(r"tpl_dstrct\.vars\.get\(", "vars_get(vars, ", b)
    b = b.replace("tpl.borrow().size()", "tpl_len")
    b = re.sub(r"tpl\.borrow\(\)\.get\((\w+)\)", r"tuple_get(\1, tpl_len)", b)
    b = re.sub(r"tpl_dstrct\.vars\.len\(\)", "vars.len()", b)
    b = re.sub(r"tpl_dstrct\.vars\[(\w+)\]", r"vars[\1]", b)
    b, n2 = re.subn(r"for\s+\((\w+),\s*var\)\s+in\s+tpl_dstrct\.vars\.iter\(\)\.enumerate\(\)\s*\{", r"for \1 in 0..vars.len() { let var = &vars[\1];", b)
    b = re.sub(r"symbols_brrw\.insert\((\w+),\s*[^;]*?,\s*(true|false)\s*\);", r"symbols_brrw.insert(\1, \2);", b)
    b = re.sub(r"symbols_brrw\.dictionary\.borrow_mut\(\)\.insert\((\w+),\s*[^;]*\);", r"symbols_brrw.dict_insert(\1);", b)
    b = re.sub(r"if\s+let\s+Some\(element\)\s*=", "if let Some(_element) =", b)
    if n0 != 1 or n2 != 1 or "tpl_dstrct" in b or "Err(" in b:
        raise AnchorLost("tuple_destructure no longer has the expected shape")
    from units import vmat
    loops = vlib.find_all_code(b, r"\bfor\b")
    FRESH = "forall|j: int| 0 <= j < %s ==> !old(symbols_brrw).defined@.contains(#[trigger] vars@[j].id)"
    DIST = "forall|a_: int, b_: int| 0 <= a_ < b_ < %s ==> #[trigger] vars@[a_].id != #[trigger] vars@[b_].id"
    ADDED = "symbols_brrw.mutable@ == old(symbols_brrw).mutable@ || MUTANY, forall|p: u64| symbols_brrw.defined@.contains(p) <==> (old(symbols_brrw).defined@.contains(p) || exists|j: int| 0 <= j < i && #[trigger] vars@[j].id == p)"
    if len(loops) == 3:       # pre-check (names, then earlier names of the same pattern), then the inserting loop
        specs = ["    invariant symbols_brrw.defined@ == old(symbols_brrw).defined@, " + FRESH % "k" + ", " + DIST % "k" + ",",
                 "      invariant symbols_brrw.defined@ == old(symbols_brrw).defined@, k < vars@.len(), id == vars@[k as int].id, forall|a_: int| 0 <= a_ < j ==> #[trigger] vars@[a_].id != id,",
                 "    invariant vars@.len() <= tpl_len, " + FRESH % "vars@.len()" + ", " + DIST % "vars@.len()" + ", " + ADDED + ","]
    elif len(loops) == 2:     # pre-check against the table only (no check for a name repeated in the pattern), then the inserting loop: the invariants say what is true
        specs = ["    invariant symbols_brrw.defined@ == old(symbols_brrw).defined@, " + FRESH % "k" + ",",
                 "    invariant vars@.len() <= tpl_len, " + FRESH % "vars@.len()" + ", " + ADDED + ","]
    elif len(loops) == 1:     # no pre-check at all (the pinned code): the contract cannot hold, the invariant says what is true
        specs = ["    invariant " + ADDED + ","]
    else:
        raise AnchorLost("tuple_destructure: expected the pre-check loops and the inserting loop, found %d loops" % len(loops))
    b = vmat.inject(b, specs)
    b = b.replace("|| MUTANY", "" if re.search(r"symbols_brrw\.insert\(\w+, false\)", b) else "|| true")
    fn = ("fn tuple_destructure_names(vars: &Vec<Var>, tpl_len: usize, symbols_brrw: &mut Symbols) -> (res: Option<()>)\n"
          "  ensures res.is_none() ==> final(symbols_brrw).defined@ == old(symbols_brrw).defined@,\n"
          "    final(symbols_brrw).mutable@ == old(symbols_brrw).mutable@,     // names defined without `~` are immutable\n"
          "    res.is_some() ==> (forall|p: u64| final(symbols_brrw).defined@.contains(p) <==> (old(symbols_brrw).defined@.contains(p) || exists|j: int| 0 <= j < vars@.len() && #[trigger] vars@[j].id == p)),\n{\n"
          + b + "\n}\n")
    plan.verus.append(VerusUnit("c05_tuple", vlib.verus_file([TUPLE_MODEL, fn, vlib.verus_canary("canary_tuple", "x: u64", [])]), {"tuple_destructure_names": name}, ["canary_tuple"]))
    plan.dropped.append(tuple_unit.__doc__.strip())


def assign_unit(plan):
    """(X) `Assign<T>::solve` (src/interpreter/src/stdlib/assign/mod.rs): the two pointer bindings `self.source.as_ptr()` /
    `self.sink.as_mut_ptr()` become the parameters `source_ptr: &u64`, `sink_ptr: &mut u64`, `unsafe { }` is stripped, the statement
    is kept verbatim.  The source is only borrowed immutably, so 'assigning through x never changes what another name sees'
    is part of the signature; a body that needs a mutable source no longer fits (lost anchor => undecided, Kani twin decides)."""
    from vlib import VerusUnit, find_code, match_brace
    name = "C05.verus.Assign.solve"
    ob = plan.ob(name, "verus", "proved", functions=["Assign<T>::solve"],
                 what="after `x = y` the sink holds the source's value; the source (the other variable's storage) is only read")
    text = read_repo("src/interpreter/src/stdlib/assign/mod.rs")
    m = find_code(text, r"impl<T>\s+MechFunctionImpl\s+for\s+Assign<T>")
    if not m:
        raise AnchorLost("impl MechFunctionImpl for Assign<T> not found")
    i = text.index("{", text.index("where", m.end()))
    blk = text[m.start():match_brace(text, i)]
    sig, body = extract_fn(blk, "solve")
    b = re.sub(r"//[^\n]*", "", body).strip()[1:-1]
    b, n1 = re.subn(r"let\s+source_ptr\s*=\s*self\.source\.as_ptr\(\)\s*;", "", b)
    b, n2 = re.subn(r"let\s+sink_ptr\s*=\s*self\.sink\.as_mut_ptr\(\)\s*;", "", b)
    mu = re.search(r"unsafe\s*\{", b)
    if n1 != 1 or n2 != 1 or not mu or "self." in b:
        raise AnchorLost("Assign<T>::solve: expected `let source_ptr = self.source.as_ptr(); let sink_ptr = self.sink.as_mut_ptr(); unsafe { .. }`")
    e = match_brace(b, mu.end() - 1)
    inner = b[mu.end():e - 1]
    fn = "fn assign_solve(source_ptr: &u64, sink_ptr: &mut u64)\n  ensures *final(sink_ptr) == *source_ptr,\n{\n%s\n}\n" % inner
    plan.verus.append(VerusUnit("c05_assign", vlib.verus_file([fn, vlib.verus_canary("canary_assign", "x: u64", [])]), {"assign_solve": name}, ["canary_assign"]))
    plan.dropped.append(assign_unit.__doc__.strip())


SCOPE_MODEL = """
// model for FunctionScope (src/interpreter/src/functions.rs): the three pieces of caller state a function call replaces and must restore.
// Reference-counted handles are identities; `self.state.borrow_mut()` / `p.state` is the `&mut ProgramState` parameter `state_brrw`.
#[derive(Clone, Copy, PartialEq, Eq, Structural)]
pub struct SymbolTableRef { pub id: u64 }
impl SymbolTableRef { pub fn clone(&self) -> (r: SymbolTableRef) ensures r == *self, { *self } }
#[derive(Clone, Copy, PartialEq, Eq, Structural)]
pub struct Plan { pub id: u64 }
pub uninterp spec fn empty_plan() -> Plan;
impl Plan {
  pub fn clone(&self) -> (r: Plan) ensures r == *self, { *self }
  #[verifier::external_body]
  pub fn new() -> (r: Plan) ensures r == empty_plan(), { unimplemented!() }
}
#[derive(Clone, Copy, PartialEq, Eq, Structural)]
pub struct DictRef { pub id: u64 }
impl DictRef { pub fn clone(&self) -> (r: DictRef) ensures r == *self, { *self } }
pub struct SymbolTable { pub dictionary: DictRef, pub id: u64 }
pub uninterp spec fn fresh_table() -> SymbolTable;
impl SymbolTable {
  #[verifier::external_body]
  pub fn new() -> (r: SymbolTable) ensures r == fresh_table(), { unimplemented!() }
}
pub uninterp spec fn ref_of(t: SymbolTable) -> SymbolTableRef;
#[verifier::external_body]
pub fn ref_new(t: SymbolTable) -> (r: SymbolTableRef) ensures r == ref_of(t), { unimplemented!() }          // Ref::new
pub struct ProgramState { pub symbol_table: SymbolTableRef, pub plan: Plan, pub environment: Option<SymbolTableRef>, pub dictionary: DictRef }
pub struct FunctionScope { pub previous_symbols: SymbolTableRef, pub previous_plan: Plan, pub previous_environment: Option<SymbolTableRef> }
#[verifier::external_body]
pub fn replace_symbols(dst: &mut SymbolTableRef, v: SymbolTableRef) -> (old_: SymbolTableRef) ensures old_ == *old(dst), *final(dst) == v, { unimplemented!() }   // std::mem::replace
#[verifier::external_body]
pub fn replace_plan(dst: &mut Plan, v: Plan) -> (old_: Plan) ensures old_ == *old(dst), *final(dst) == v, { unimplemented!() }                                     // std::mem::replace
#[verifier::external_body]
pub fn take_environment(dst: &mut Option<SymbolTableRef>) -> (old_: Option<SymbolTableRef>) ensures old_ == *old(dst), *final(dst) is None, { unimplemented!() }   // Option::take
// `std::thread::panicking()`: may answer anything (a scope is also dropped while a panic unwinds, and interpret() turns that panic into an error)
#[verifier::external_body]
pub fn panicking() -> (b: bool) { unimplemented!() }
"""


def scope_unit(plan):
    """FunctionScope (src/interpreter/src/functions.rs): `enter` and `Drop::drop`, whole bodies; `p.state.clone()` / `.borrow_mut()` / `drop(state_brrw)` and the
    `state` field are dropped (the state is the parameter `state_brrw: &mut ProgramState`); `std::mem::replace(&mut state_brrw.F, v)` -> `replace_F(..)`,
    `state_brrw.environment.take()` -> `take_environment(..)`, `Ref::new` -> `ref_new`, `std::thread::panicking()` -> `panicking()` (arbitrary)"""
    from vlib import find_code
    text = read_repo("src/interpreter/src/functions.rs")
    names = {"enter": "C05.verus.FunctionScope.enter.saves_caller_state", "drop": "C05.verus.FunctionScope.drop.restores_caller_state"}
    plan.ob(names["enter"], "verus", "proved", functions=["src/interpreter/src/functions.rs: FunctionScope::enter"],
            what="entering a function scope records the caller's symbol table, plan and environment in the scope object (and installs a fresh table, an empty plan, no environment)")
    plan.ob(names["drop"], "verus", "proved", functions=["src/interpreter/src/functions.rs: impl Drop for FunctionScope"],
            what="leaving a function scope -- on EVERY path, including while a panic unwinds -- restores exactly the symbol table, plan and environment the scope recorded: a call that fails leaves the caller's bindings and set of names as before")
    items, fns = [SCOPE_MODEL], {}
    try:
        m = find_code(text, r"impl\s+FunctionScope\s*\{")
        if not m:
            raise AnchorLost("impl FunctionScope not found")
        sig, body = extract_fn(text[m.start():match_brace(text, m.end() - 1)], "enter")
        b = re.sub(r"//[^\n]*", "", body[body.index("{") + 1:body.rindex("}")])
        b, n1 = re.subn(r"let\s+state\s*=\s*p\.state\.clone\(\)\s*;", "", b)
        b, n2 = re.subn(r"let\s+mut\s+state_brrw\s*=\s*state\.borrow_mut\(\)\s*;", "", b)
        b, n3 = re.subn(r"\bdrop\(\s*state_brrw\s*\)\s*;", "", b)
        b, n4 = re.subn(r"\bstate\s*,", "", b, count=1)
        if (n1, n2, n3, n4) != (1, 1, 1, 1):
            raise AnchorLost("FunctionScope::enter: the state handle statements have an unexpected shape")
        b = re.sub(r"std::mem::replace\(\s*&mut\s+state_brrw\.symbol_table\s*,", "replace_symbols(&mut state_brrw.symbol_table,", b)
        b = re.sub(r"std::mem::replace\(\s*&mut\s+state_brrw\.plan\s*,", "replace_plan(&mut state_brrw.plan,", b)
        b = re.sub(r"state_brrw\.environment\.take\(\)", "take_environment(&mut state_brrw.environment)", b)
        b = re.sub(r"std::mem::replace\(\s*&mut\s+state_brrw\.environment\s*,\s*None\s*\)", "take_environment(&mut state_brrw.environment)", b)
        b = b.replace("Ref::new(", "ref_new(").replace("Self {", "FunctionScope {")
        if re.search(r"\b(mem::replace|borrow_mut|Ref::new)\b", b):
            raise AnchorLost("FunctionScope::enter: statements outside the transcription rules")
        items.append("fn enter(state_brrw: &mut ProgramState) -> (scope: FunctionScope)\n  ensures scope.previous_symbols == old(state_brrw).symbol_table, scope.previous_plan == old(state_brrw).plan, scope.previous_environment == old(state_brrw).environment,\n"
                     "    final(state_brrw).plan == empty_plan(), final(state_brrw).environment is None, final(state_brrw).dictionary == old(state_brrw).dictionary,\n{\n" + b + "\n}\n")
        fns["enter"] = names["enter"]
    except AnchorLost as e:
        plan.anchor_errors.append((names["enter"], str(e)))
    try:
        m = find_code(text, r"impl\s+Drop\s+for\s+FunctionScope\s*\{")
        if not m:
            raise AnchorLost("impl Drop for FunctionScope not found")
        sig, body = extract_fn(text[m.start():match_brace(text, m.end() - 1)], "drop")
        b = re.sub(r"//[^\n]*", "", body[body.index("{") + 1:body.rindex("}")])
        b, n1 = re.subn(r"let\s+mut\s+state_brrw\s*=\s*self\.state\.borrow_mut\(\)\s*;", "", b)
        if n1 != 1:
            raise AnchorLost("Drop for FunctionScope: `let mut state_brrw = self.state.borrow_mut();` not found")
        b = b.replace("std::thread::panicking()", "panicking()").replace("self.", "self_.")
        if re.search(r"\b(borrow_mut|std::)\b", b):
            raise AnchorLost("Drop for FunctionScope: statements outside the transcription rules")
        items.append("fn drop(self_: &mut FunctionScope, state_brrw: &mut ProgramState)\n  ensures final(state_brrw).symbol_table == old(self_).previous_symbols, final(state_brrw).plan == old(self_).previous_plan, final(state_brrw).environment == old(self_).previous_environment,\n{\n" + b + "\n}\n")
        fns["drop"] = names["drop"]
    except AnchorLost as e:
        plan.anchor_errors.append((names["drop"], str(e)))
    if fns:
        items.append(vlib.verus_canary("canary_scope", "x: u64", []))
        plan.verus.append(VerusUnit("c05_scope", vlib.verus_file(items), fns, ["canary_scope"]))
        plan.dropped.append(scope_unit.__doc__.strip())


def plan(plan, tier, seed):
    try:
        scope_unit(plan)
    except AnchorLost as e:
        plan.anchor_errors.append(("C05.verus.FunctionScope.*", str(e)))
    try:
        verus_unit(plan)
    except AnchorLost as e:
        plan.anchor_errors.append(("C05.SymbolTable/guards", str(e)))
    plan.harness_files[os.path.join(GEN, "C05", "k_detach.rs")] = KANI_TEXT
    hmap = {
        "vkc05_detach_separation_f64": plan.ob("C05.detach.storage_separation.f64", "kani", "proved",
                                               functions=["detach_variable_value"],
                                               what="after y := x, a write through x's storage is not visible through y (scalar f64, full value domain)"),
        "vkc05_detach_value_preserved_f64": plan.ob("C05.detach.value_preserved.f64", "kani", "proved", functions=["detach_variable_value"],
                                                    what="detach_variable_value preserves kind and value"),
    }
    if tier != "thorough":
        # measured on every quick run of this session: CBMC does not finish this harness within the per-harness limit (dropping a Value that holds Rc cells), so it was
        # permanently undecided and cost ~300 s; the same claim is proved by the Verus unit C05.verus.detach_variable_value.fresh_storage; kept for the thorough tier
        hmap.pop("vkc05_detach_separation_f64")
        plan.obs = [o for o in plan.obs if o.name != "C05.detach.storage_separation.f64"]
    plan.harness_files[os.path.join(GEN, "C05", "k_assign.rs")] = KANI_ASSIGN
    hmap["vkc05_assign_whole_variable_f64"] = plan.ob("C05.assign.whole_variable.f64", "kani", "proved", functions=["Assign<f64>::solve"],
                                                        what="after `x = y` (real struct, real Ref cells, all f64 values): x holds y's value and y is unchanged")
    plan.kani.append(dict(package="mech-interpreter", filters=["vkc05_"], harness=hmap, timeout=2400,
                          replay_entry=lambda h: "vkreplay_c05a" if "assign" in h else "vkreplay_c05"))
    # whole-variable assignment `x = y`: the kernel copies the source into the sink and leaves the source alone
    try:
        assign_unit(plan)
    except Exception as e:
        plan.anchor_errors.append(("C05.verus.Assign.solve", repr(e)))
    try:
        tuple_unit(plan)
    except Exception as e:
        plan.anchor_errors.append(("C05.verus.tuple_destructure.failure_defines_nothing", repr(e)))
    try:
        detach_unit(plan)
    except Exception as e:
        plan.anchor_errors.append(("C05.verus.detach_variable_value.fresh_storage", repr(e)))
    # what a reference to a name denotes: var() whole
    nv = "C05.verus.var.environment_then_symbol_table"
    plan.ob(nv, "verus", "proved", functions=["src/interpreter/src/expressions.rs: var (whole body, its closure lifted)"],
            what="a reference to a name denotes the binding of the enclosing environment when it has one (pattern / comprehension variables shadow globals), otherwise the symbol-table entry as a reference to its cell, otherwise it is an undefined-variable error; a kind annotation converts exactly that value (conversion rule: C12); the symbol table is not written")
    try:
        from units import vC05v, vC16
        utext, vfns = vC05v.unit(vlib.read_repo(vC05v.PATH), vC16.default_features(vlib.read_repo("src/interpreter/Cargo.toml")))
        plan.verus.append(VerusUnit("c05_var", utext, {f: nv for f in vfns}, ["canary_c05_var"]))
        plan.dropped.append(vC05v.__doc__.strip())
    except AnchorLost as e:
        plan.anchor_errors.append((nv, str(e)))
    # 'a statement that fails leaves every existing binding exactly as before': for an indexed assignment the binding is
    # the sink matrix the kernel writes in place, so the clause is the .atomic obligation of the assignment kernels (proved
    # or refuted in C04); two representative kernels are re-checked here so that this check reports the finding as well
    try:
        from units import vmat, vC04
        sub = {k_: vC04.K[k_] for k_ in ("assign_1d_scalar", "set_1d_range", "assign_2d_all_scalar")}
        what = dict(vC04.MODES)
        what["atomic"] = "%s (struct %s): if the indexed assignment fails, the binding it writes through is unchanged (C05: a failing statement leaves every binding as before)"
        vmat.add_units(plan, "C05", sub, vC04.PATH, what, atomic=True, out="sink", only_modes=["atomic"])
    except Exception as e:
        plan.anchor_errors.append(("C05.verus.*.atomic", repr(e)))
    plan.functions += ["src/core/src/program/symbol_table.rs: SymbolTable::{get,get_mutable,contains,insert}",
                       "src/interpreter/src/statements.rs: name guards of variable_define and variable_assign (fragments), detach_variable_value"]
    plan.trusted += ["Verus / Z3 with vstd's std HashMap specification (group_hash_axioms)", "Kani / CBMC"]
    plan.assumptions += ["history clause is decided only as a lemma over the per-function contracts (abstract store); that every statement evaluator goes through these guards is read off the code, not proved",
                         "'never aborts the host' rests on catch_unwind in Interpreter::interpret and is not decided",
                         "op_assign's guard goes through ProgramState::{get_mutable_symbol,contains_symbol}, which are stand-ins specified as the symbol table's get_mutable / contains (assumed: no local environment active)"]
    plan.undecided_clauses += ["C05: 'a failing statement leaves every binding unchanged' for failures after the guard (expression evaluation, kernels) is not decided; field assignment, tuple destructuring not covered"]
    plan.level = "proof"
