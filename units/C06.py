"""C06 — compiled bytecode == interpreter result (modular, partial).
Verus: the real CompileCtx register/emit methods (X) and the compile_{null,un,bin,tern,quad}op!
emitter macros (instantiated mechanically over an abstract cell type).
Kani: ConstElem::{write_le,from_le} round trips for every scalar kind; symbol
section codec (n symbols written => n symbols read)."""
import os, re
import vlib
from vlib import read_repo, extract_fn, extract_macro, macro_arm_body, verus_fn, verus_canary, VerusUnit, AnchorLost, GEN, match_brace, find_all_code

CONTEXT_RS = "src/core/src/program/compiler/context.rs"
SECTIONS_RS = "src/core/src/program/compiler/sections.rs"
STDLIB_RS = "src/core/src/stdlib.rs"
VERIF = vlib.VERIF

STANDINS = """
broadcast use vstd::std_specs::hash::group_hash_axioms;
pub type Register = u32;

// ---- stand-ins (assumed)
pub struct Features {}
pub struct FeatureFlag {}
impl Features {
  #[verifier::external_body]
  pub fn insert(&mut self, f: FeatureFlag) { }
}
pub struct Name {}
pub uninterp spec fn spec_hash(n: &Name) -> u64;
#[verifier::external_body]
pub fn hash_str(n: &Name) -> (r: u64) ensures r == spec_hash(n) { unimplemented!() }
"""

CTX_STRUCT = """
pub struct CompileCtx {
  pub reg_map: HashMap<usize, Register>,
  pub features: Features,
  pub instrs: Vec<EncodedInstr>,
  pub next_reg: Register,
}
"""

CELL = """
// an operand cell: identity = its address; compile_const only touches the constant tables
pub struct Cell { pub a: usize }
impl Cell {
  pub fn addr(&self) -> (r: usize) ensures r == self.a { self.a }
  pub fn borrow(&self) -> (r: &Cell) ensures r == self { self }
  #[verifier::external_body]
  pub fn compile_const(&self, ctx: &mut CompileCtx) -> (r: Result<u32, ()>)
    ensures r.is_ok(), final(ctx).reg_map == old(ctx).reg_map, final(ctx).instrs == old(ctx).instrs, final(ctx).next_reg == old(ctx).next_reg,
  { unimplemented!() }
}
"""

EMIT_FIELDS = {
    "emit_const_load": ("ConstLoad", ["dst", "const_id"]),
    "emit_nullop": ("NullOp", ["fxn_id", "dst"]),
    "emit_unop": ("UnOp", ["fxn_id", "dst", "src"]),
    "emit_binop": ("BinOp", ["fxn_id", "dst", "lhs", "rhs"]),
    "emit_ternop": ("TernOp", ["fxn_id", "dst", "a", "b", "c"]),
    "emit_quadop": ("QuadOp", ["fxn_id", "dst", "a", "b", "c", "d"]),
}
ARITY = {"compile_nullop": 0, "compile_unop": 1, "compile_binop": 2, "compile_ternop": 3, "compile_quadop": 4}
VARIANT = {0: ("NullOp", []), 1: ("UnOp", ["src"]), 2: ("BinOp", ["lhs", "rhs"]), 3: ("TernOp", ["a", "b", "c"]), 4: ("QuadOp", ["a", "b", "c", "d"])}


def harness_modules():
    return [dict(crate="mech-core", file="src/program/compiler/constants.rs", mod="verif_c06", gen="C06/kani_constants.rs"),
            dict(crate="mech-core", file="src/program/compiler/constants.rs", mod="verif_c06p", gen="C06/kani_payload.rs")]


PAYLOAD_KINDS = ["u8", "u16", "u32", "u64", "u128", "i8", "i16", "i32", "i64", "i128", "f32", "f64", "bool", "usize", "String"]


def payload_fragments(plan):
    """(F) the payload-building statements of every `impl CompileConst for T` (scalar kinds, String):
    everything before the final `ctx.compile_const(&payload, ValueKind::K)`, verbatim, as a function of the value."""
    text = read_repo("src/core/src/program/compiler/constants.rs")
    frags, harn, names = [], [], []
    tmpl = None
    try:
        mt = extract_macro(text, "impl_compile_const")
        _, tmpl = macro_arm_body(mt, 0)
    except AnchorLost:
        tmpl = None
    for T in PAYLOAD_KINDS:
        m = vlib.find_code(text, r"impl CompileConst for %s\s*\{" % re.escape(T))
        body = None
        if m:
            end = match_brace(text, m.end() - 1)
            try:
                sig, body = extract_fn(text[m.start():end], "compile_const")
            except AnchorLost:
                body = None
        elif tmpl is not None and re.search(r'impl_compile_const!\(\s*"%s"\s*,\s*%s\s*\)' % (T, T), text):
            t2 = tmpl.replace("[<write_ $t>]", "write_" + T).replace("[<$t:upper>]", T.upper()).replace("$t", T)
            mm = vlib.find_code(t2, r"impl CompileConst for %s\s*\{" % T)
            if mm:
                end = match_brace(t2, mm.end() - 1)
                try:
                    sig, body = extract_fn(t2[mm.start():end], "compile_const")
                except AnchorLost:
                    body = None
        if body is None:
            plan.anchor_errors.append(("C06.payload.%s" % T, "impl CompileConst for %s not found" % T))
            continue
        stm = vlib.split_statements(body)
        if not stm or not re.match(r"ctx\.compile_const\(&payload,\s*ValueKind::\w+\)$", stm[-1].strip()):
            plan.anchor_errors.append(("C06.payload.%s" % T, "compile_const no longer ends in ctx.compile_const(&payload, ValueKind::K)"))
            continue
        pre = "\n  ".join(stm[:-1])
        pre = re.sub(r"\bself\b", "self_", pre)
        tn = T.lower()
        frags.append("fn vkfrag_payload_%s(self_: &%s) -> MResult<Vec<u8>> {\n  %s\n  Ok(payload)\n}\n" % (tn, T, pre))
        variants = [("", None)]
        if T == "String":
            # concrete strings incl. multi-byte UTF-8 (from_utf8 / String building over symbolic bytes does not finish under CBMC)
            variants = [("_ascii", 'String::from("ab")'), ("_two_byte", 'String::from("h\\u{e9}")'), ("_three_byte", 'String::from("\\u{65e5}\\u{672c}")')]
        for vsuffix, vexpr in variants:
          h = "vkc06_payload__%s%s__agrees_with_element_codec" % (tn, vsuffix)
          names.append(h)
          if T == "String":
              mk = "  let x: String = %s;" % vexpr
              same = "y == x"
          else:
              mk = "  let x: %s = vk::any();" % T
              same = "vk::same(&y, &x)"
          harn.append("""#[cfg_attr(kani, kani::proof)]
#[cfg_attr(kani, kani::unwind(24))]
#[cfg_attr(kani, kani::stub(alloc::fmt::format, fmt_stub))]
pub(crate) fn %(h)s() {
%(mk)s
  vk::reach();
  let p = match vkfrag_payload_%(tn)s(&x) { Ok(p) => p, Err(_) => { assert!(false, "VK: encoding a constant succeeds"); return; } };
  let mut w: Vec<u8> = Vec::new();
  x.write_le(&mut w);
  assert!(p == w, "VK: the constant payload the compiler emits equals the element encoding of the same value");
  let y = <%(T)s as ConstElem>::from_le(&p[..]);
  assert!(%(same)s, "VK: decoding the emitted constant yields the value the compiler wrote");
}
""" % dict(h=h, mk=mk, tn=tn, T=T, same=same))
        continue
        harn.append("""#[cfg_attr(kani, kani::proof)]
#[cfg_attr(kani, kani::unwind(24))]
#[cfg_attr(kani, kani::stub(alloc::fmt::format, fmt_stub))]
pub(crate) fn %(h)s() {
%(mk)s
  vk::reach();
  let p = match vkfrag_payload_%(tn)s(&x) { Ok(p) => p, Err(_) => { assert!(false, "VK: encoding a constant succeeds"); return; } };
  let mut w: Vec<u8> = Vec::new();
  x.write_le(&mut w);
  assert!(p == w, "VK: the constant payload the compiler emits equals the element encoding of the same value");
  let y = <%(T)s as ConstElem>::from_le(&p[..]);
  assert!(%(same)s, "VK: decoding the emitted constant yields the value the compiler wrote");
}
""" % dict(h=h, mk=mk, tn=tn, T=T, same=same))
    header = """// GENERATED by /verif/units/C06.py -- do not edit
#![allow(unused, non_snake_case)]
use super::*;
include!("/verif/contracts/common/vk.rs");
#[cfg(kani)]
fn fmt_stub(_args: core::fmt::Arguments<'_>) -> String { String::new() }
"""
    text_out = header + "\n// ---- fragments: payload-building statements of `impl CompileConst for T`, verbatim (self -> self_)\n" + "\n".join(frags) + \
        "\n" + "\n".join(harn) + "\nvk_registry!{ vkreplay_c06p; %s }\n" % ", ".join(names)
    return text_out, names


def split_args(s):
    out, depth, cur = [], 0, ""
    for ch in s:
        if ch in "([{":
            depth += 1
        elif ch in ")]}":
            depth -= 1
        if ch == "," and depth == 0:
            out.append(cur.strip()); cur = ""
        else:
            cur += ch
    if cur.strip():
        out.append(cur.strip())
    return out


def expand_macro_calls(text, name, arm_pat, arm_body):
    """textual expansion of `name!(args)` inside text with the given macro arm"""
    params = re.findall(r"\$(\w+)\s*:\s*\w+", arm_pat)
    while True:
        ms = find_all_code(text, r"\b%s!\s*\(" % re.escape(name))
        if not ms:
            return text
        m = ms[0]
        end = match_brace(text, m.end() - 1, "(", ")")
        args = split_args(text[m.end():end - 1])
        if len(args) != len(params):
            raise AnchorLost("%s! called with %d arguments, macro takes %d" % (name, len(args), len(params)))
        body = arm_body
        for p, a in zip(params, args):
            body = re.sub(r"\$%s\b" % p, a, body)
        text = text[:m.start()] + body.strip() + text[end:]


def emitter_fn(macro_name, stdlib, brrw_pat, brrw_body):
    n = ARITY[macro_name]
    mt = extract_macro(stdlib, macro_name)
    pat, body = macro_arm_body(mt, 0)
    params = re.findall(r"\$(\w+)\s*:\s*\w+", pat)
    expect = ["name", "out"] + ["arg%d" % (i + 1) for i in range(n)] + ["ctx", "feature_flag"]
    if n == 1:
        expect = ["name", "out", "arg", "ctx", "feature_flag"]
    if params != expect:
        raise AnchorLost("%s! parameters are %s, expected %s" % (macro_name, params, expect))
    b = body
    for p in params:
        b = re.sub(r"\$%s\b" % p, p, b)
    b = expand_macro_calls(b, "compile_register_brrw", brrw_pat, brrw_body)
    if "$" in b or "!" in re.sub(r"!=", "", b):
        raise AnchorLost("%s!: unexpanded macro text remains" % macro_name)
    args = params[2:-2]
    cells = ["out"] + args
    variant, fields = VARIANT[n]
    sig_args = ", ".join("%s: &Cell" % c for c in cells)
    k = len(cells)
    ens = [
        "r.is_ok()", "final(ctx).wf()",
        "final(ctx).instrs@.len() == old(ctx).instrs@.len() + %d" % (k + 1),
        "final(ctx).instrs@.subrange(0, old(ctx).instrs@.len() as int) == old(ctx).instrs@",
        " && ".join("final(ctx).reg_map@.contains_key(%s.a)" % c for c in cells),
        "r == Ok::<Register, ()>(final(ctx).reg_map@[out.a])",
    ]
    for i, c in enumerate(cells):
        ens.append("match final(ctx).instrs@[old(ctx).instrs@.len() as int + %d] { EncodedInstr::ConstLoad { dst, const_id } => dst == final(ctx).reg_map@[%s.a], _ => false }" % (i, c))
    conj = ["fxn_id == spec_hash(&name)", "dst == final(ctx).reg_map@[out.a]"] + ["%s == final(ctx).reg_map@[%s.a]" % (f, a) for f, a in zip(fields, args)]
    ens.append("match final(ctx).instrs@[old(ctx).instrs@.len() as int + %d] { EncodedInstr::%s { %s } => %s, _ => false }" % (
        k, variant, ", ".join(["fxn_id", "dst"] + fields), " && ".join(conj)))
    ens.append("forall|p: usize| #![trigger old(ctx).reg_map@.contains_key(p)] old(ctx).reg_map@.contains_key(p) ==> final(ctx).reg_map@.contains_key(p) && final(ctx).reg_map@[p] == old(ctx).reg_map@[p]")
    text = "pub fn %s_inst(name: Name, %s, ctx: &mut CompileCtx, feature_flag: FeatureFlag) -> (r: Result<Register, ()>)\n  requires old(ctx).wf(), old(ctx).next_reg < u32::MAX - %d,\n  ensures\n    %s,\n{\n%s\n}\n" % (
        macro_name, sig_args, k, ",\n    ".join(ens), b)
    return macro_name + "_inst", text


def verus_unit(plan):
    ctx = read_repo(CONTEXT_RS)
    sections = read_repo(SECTIONS_RS)
    stdlib = read_repo(STDLIB_RS)
    items, fns = [STANDINS], {}
    # EncodedInstr enum, verbatim
    m = vlib.find_code(sections, r"pub enum EncodedInstr\s*\{")
    if not m:
        raise AnchorLost("enum EncodedInstr not found")
    end = match_brace(sections, m.end() - 1)
    items.append(sections[m.start():end])
    items.append(CTX_STRUCT)
    items.append("""impl CompileCtx {
  // register map invariant: every allocated register is below next_reg
  pub open spec fn wf(&self) -> bool {
    forall|p: usize| #![trigger self.reg_map@.contains_key(p)] self.reg_map@.contains_key(p) ==> self.reg_map@[p] < self.next_reg
  }
""")
    sig, body = extract_fn(ctx, "alloc_register_for_ptr")
    n = len(re.findall(r"if let Some\(&r\) = self\.reg_map\.get\(&ptr\) \{ return r; \}", body))
    if n == 1:
        body = body.replace("if let Some(&r) = self.reg_map.get(&ptr) { return r; }", "if let Some(r) = self.reg_map.get(&ptr) { return *r; }")
    items.append(verus_fn(sig, body,
                          requires=["old(self).wf()", "old(self).next_reg < u32::MAX"],
                          ensures=["final(self).wf()",
                                   "old(self).reg_map@.contains_key(ptr) ==> (r == old(self).reg_map@[ptr] && final(self).reg_map@ == old(self).reg_map@ && final(self).next_reg == old(self).next_reg)",
                                   "!old(self).reg_map@.contains_key(ptr) ==> (r == old(self).next_reg && final(self).reg_map@ == old(self).reg_map@.insert(ptr, r) && final(self).next_reg == old(self).next_reg + 1)",
                                   "final(self).instrs == old(self).instrs"]))
    fns["alloc_register_for_ptr"] = "C06.CompileCtx.alloc_register_for_ptr"
    for fn, (variant, fields) in EMIT_FIELDS.items():
        sig, body = extract_fn(ctx, fn)
        items.append(verus_fn(sig, body, ret="r_unit", ensures=[
            "final(self).instrs@ == old(self).instrs@.push(EncodedInstr::%s { %s })" % (variant, ", ".join(fields)),
            "final(self).reg_map == old(self).reg_map", "final(self).next_reg == old(self).next_reg"]))
        fns[fn] = "C06.CompileCtx." + fn
    items.append("}  // impl CompileCtx\n")
    items.append(CELL)
    brrw = extract_macro(stdlib, "compile_register_brrw")
    bpat, bbody = macro_arm_body(brrw, 0)
    for mname in ARITY:
        try:
            fn, text = emitter_fn(mname, stdlib, bpat, bbody)
            items.append(text)
            fns[fn] = "C06.emitter." + mname
        except AnchorLost as e:
            plan.anchor_errors.append(("C06.emitter." + mname, str(e)))
    # ---- symbol section: entries written by CompileCtx::compile vs entries read by load_program_from_reader (F: the two length expressions)
    prog = read_repo("src/core/src/program/program.rs")
    m_w = re.search(r"let symbols_len\s*:\s*u64\s*=\s*\(self\.symbols\.len\(\) as u64\)\s*\*\s*(\d+)\s*;", ctx)
    m_r = re.search(r"for _ in 0\.\.\(header\.symbols_len\s*/\s*(\d+)\)", prog)
    if not m_w or not m_r:
        plan.anchor_errors.append(("C06.symbols.count_roundtrip", "symbol section length expressions not found"))
    else:
        items.append("""
// symbol section: `symbols_len = (self.symbols.len() as u64) * %(w)s` (CompileCtx::compile) and
// `for _ in 0..(header.symbols_len / %(r)s)` (load_program_from_reader), each iteration reading one 13-byte entry
fn symbols_section_len(n: u64) -> (r: u64) requires n as int * %(w)s <= u64::MAX as int, ensures r as int == n as int * %(w)s { n * %(w)s }
fn symbols_entries_read(symbols_len: u64) -> (r: u64) ensures r as int == symbols_len as int / %(r)s { symbols_len / %(r)s }
fn symbols_count_roundtrip(n: u64) -> (r: u64)
  requires n as int * %(w)s <= u64::MAX as int,
  ensures r == n,      // a program with n symbols is loaded with n symbols, for every n
{
  let len = symbols_section_len(n);
  symbols_entries_read(len)
}
""" % dict(w=m_w.group(1), r=m_r.group(1)))
        fns["symbols_count_roundtrip"] = "C06.symbols.count_roundtrip"
    items.append(verus_canary("canary_c06", "x: u64", []))
    text = "use vstd::prelude::*;\nuse std::collections::HashMap;\nverus! {\n" + "\n".join(items) + "\n} // verus!\nfn main() {}\n"
    u = VerusUnit("c06_emitters", text, fns, ["canary_c06"], dropped=[
        "CompileCtx: only the fields reg_map, features, instrs, next_reg are kept (symbols, dictionary, types, const tables dropped); `features` is an opaque stand-in",
        "alloc_register_for_ptr: the ref pattern `if let Some(&r) = .. { return r; }` is rewritten to `if let Some(r) = .. { return *r; }` (Verus has no ref patterns)",
        "compile_*op! macros: instantiated by textual macro expansion (compile_register_brrw! expanded in place) as functions over `&Cell` operands; `Cell::compile_const` is external_body (assumed: touches neither reg_map nor instrs nor next_reg and succeeds); `hash_str` is uninterpreted; return type MResult<Register> becomes Result<Register, ()>",
        "compile_varop! is not covered (vec!/slice to_vec)"])
    what = {
        "alloc_register_for_ptr": "known address => its register, map unchanged; new address => next_reg, map extended by exactly that pair, next_reg + 1; invariant 'every register < next_reg' kept",
    }
    what["symbols_count_roundtrip"] = "the loader iterates exactly as many symbol entries as the compiler wrote (n entries of 13 bytes => n iterations), for every n"
    for fn, on in fns.items():
        plan.ob(on, "verus", "proved", functions=[fn],
                what=what.get(fn, "emits exactly the instruction(s) in operand order (out, arg1, arg2, ..): ConstLoad per operand cell then the op with dst/operands = registers of those cells; earlier instructions and existing register assignments unchanged" if "inst" in fn
                     else "pushes exactly one instruction with the given fields; register map unchanged"))
    plan.verus.append(u)
    plan.dropped += u.dropped


def plan(plan, tier, seed):
    try:
        verus_unit(plan)
    except AnchorLost as e:
        plan.anchor_errors.append(("C06.emitters", str(e)))
    # ---- the loader side: the instruction loop of Interpreter::run_program
    from units import vC06r
    nr = "C06.verus.run_program.plan_rebuilt_in_emitter_order"
    plan.ob(nr, "verus", "proved", functions=["src/interpreter/src/interpreter.rs: Interpreter::run_program (the instruction loop)"],
            what="for every emitted program (register operands below the register count, constant ids below the constant count, no Ret): the loop cannot panic (index obligations), ConstLoad copies constant const_id into register dst, and every other instruction appends to the plan the function registered under its id applied to (output register, operand registers in the order the instruction lists them) -- the order the emitters write (C06.emitter.*); instructions run in order, an unknown function id or a factory error is an error")
    try:
        plan.verus.append(vlib.VerusUnit("c06_run", vC06r.unit(vlib.read_repo(vC06r.PATH)), {"run_instructions": nr}, ["canary_c06_run"]))
    except AnchorLost as e:
        plan.anchor_errors.append((nr, str(e)))
    plan.dropped.append(vC06r.__doc__.strip())
    nic = "C06.verus.Interpreter.compile.every_step_once_in_plan_order"
    plan.ob(nic, "verus", "proved", functions=["src/interpreter/src/interpreter.rs: Interpreter::compile (whole body)"],
            what="the bytecode is the serialisation of ONE fresh compile context into which every step of the plan was compiled exactly once, in plan order; the first step that fails to compile (or a failing serialisation) fails the compilation -- for every plan and every behaviour of the per-step compilers")
    try:
        plan.verus.append(vlib.VerusUnit("c06_icompile", vC06r.compile_unit(vlib.read_repo(vC06r.PATH)), {"interpreter_compile": nic}, ["canary_c06_compile"]))
    except vlib.AnchorLost as e:
        plan.anchor_errors.append((nic, str(e)))
    plan.dropped.append(vC06r.compile_fn.__doc__.strip())
    plan.assumptions.append("run_program loop: a factory is an opaque value and applying it yields an opaque function object build(factory, arity, arguments); Value::clone is the identity on identities; the emitted-program precondition (operands < reg_count, const ids < constant count, no Ret) is what CompileCtx guarantees (register allocator contract: C06.ctx.*) -- the two are not composed mechanically; a hostile file violating it makes the loop index out of bounds (outside C06: the property speaks of compiled programs)")
    # ---- container constants: both writers of MechTable / MechSet / MechTuple against the layout their reader consumes
    from units import vC06c
    ctext = vlib.read_repo(vC06c.PATH)
    for ty in vC06c.TYPES:
        for which, fdesc in (("write_le", "impl ConstElem for %s: write_le" % ty), ("payload", "impl CompileConst for %s: compile_const (payload)" % ty)):
            on = "C06.verus.container_const.%s.%s" % (ty, which)
            plan.ob(on, "verus", "proved", functions=["src/core/src/program/compiler/constants.rs: " + fdesc],
                    what="the writer emits exactly the layout the reader from_le consumes -- kind, the counts in the reader's order, then every element / column (id, kind, data, name) in iteration order -- so compile_const and write_le agree with each other and with the reader's order of reads")
            try:
                utext, can = vC06c.unit(ctext, ty, which)
                plan.verus.append(vlib.VerusUnit("c06_const_%s_%s" % (ty.lower(), which), utext, {"write_le" if which == "write_le" else "compile_const_payload": on}, [can]))
            except AnchorLost as e:
                plan.anchor_errors.append((on, str(e)))
    plan.dropped.append(vC06c.__doc__.strip())
    plan.assumptions.append("container constants: the byte buffer is a token stream (one token per primitive write; the bytes of a token are the scalar codecs' subject); IndexMap / IndexSet iterate in insertion order (modelled as vectors); the READER from_le of the containers is not under contract (its order of reads is transcribed by hand into contracts/C06/constmodel.rs: table = kind, rows, cols, columns; set / tuple = kind, count, elements)")
    with open(os.path.join(VERIF, "contracts", "C06", "kani_constants.rs")) as f:
        text = f.read()
    plan.harness_files[os.path.join(GEN, "C06", "kani_constants.rs")] = text
    ptext, pnames = payload_fragments(plan)
    plan.harness_files[os.path.join(GEN, "C06", "kani_payload.rs")] = ptext
    hmap = {}
    for m in re.finditer(r"pub\(crate\) fn (vkc06_\w+)\(\)", text + ptext):
        h = m.group(1)
        level, bound = ("bounded", "see harness") if ("string" in h or "symbols" in h or "matrix" in h) else ("proved", "")
        hmap[h] = plan.ob("C06." + h[len("vkc06_"):].replace("__", "."), "kani", level, bound=bound,
                          functions=["constants.rs ConstElem / symbol section"], what=h)
    # ---- anchor pass: emitter argument order vs factory argument order, per struct template
    from units import order_check
    seen = set()
    for rel, line, site, ok, detail, order, fmap in order_check.check(plan):
        name = "C06.order.%s.%s" % (os.path.basename(os.path.dirname(rel)) + "/" + os.path.basename(rel), site)
        k = 1
        base = name
        while name in seen:
            k += 1
            name = "%s#%d" % (base, k)
        seen.add(name)
        ob = plan.ob(name, "syntactic", "bounded", bound="source-text correspondence check, not a proof",
                     functions=["%s:%d %s" % (rel, line, site)],
                     what="compile_*op!(name, %s) passes the fields in the order in which new(FunctionArgs::*) reads them back" % ", ".join("self." + f for f in order))
        if ok is True:
            ob.status = "discharged"
        elif ok is False:
            ob.status, ob.detail = "violated", detail
            ob.raw = "%s:%d: %s" % (rel, line, detail)
        else:
            ob.status, ob.detail = "undecided", detail
    plan.kani.append(dict(package="mech-core", filters=["vkc06_"], harness=hmap, timeout=3000,
                          replay_entry=lambda h: "vkreplay_c06p" if "payload__" in h else "vkreplay_c06"))
    plan.dropped.append("(F) constant payloads: of every `impl CompileConst for T` (scalar kinds, String) the statements before the final `ctx.compile_const(&payload, ValueKind::K)` are copied verbatim (`self` renamed) into `fn vkfrag_payload_T(&T) -> MResult<Vec<u8>>` inside constants.rs' harness module; the call into CompileCtx (HashSet-based) is dropped")
    plan.functions += ["src/core/src/program/compiler/context.rs: CompileCtx::{alloc_register_for_ptr, emit_const_load, emit_nullop, emit_unop, emit_binop, emit_ternop, emit_quadop}",
                       "src/core/src/stdlib.rs: compile_register_brrw!, compile_nullop!, compile_unop!, compile_binop!, compile_ternop!, compile_quadop!",
                       "src/core/src/program/compiler/constants.rs: ConstElem::{write_le,from_le} for every scalar kind",
                       "src/core/src/program/program.rs: symbol section loop of load_program_from_reader vs SymbolEntry::write_to"]
    plan.trusted += ["Verus / Z3 with vstd HashMap specs", "Kani / CBMC"]
    plan.assumptions += [
        "whole-program equivalence is only the composition of these per-function obligations (emitter order, register map, constant codec, instruction codec of C07); the composition itself is not machine-checked",
        "that every generated struct passes (out, operands) to compile_*op! in the order its factory `new` reads them back is NOT decided here",
        "Interpreter::run_program does not re-solve the loaded plan: the 'result' of a loaded program is the constant the compiler stored for the last out cell",
    ]
    plan.undecided_clauses += ["C06: 'never panics' (run_program has todo!() for Ret, unwraps in compile_register*), inventory registration, name agreement of every struct, compile_varop!, matrix constants (table / set / tuple constants: C06.verus.container_const.*); that run_program's factories build the function the compiler serialised (registry keyed by name hash: assumed collision-free)"]
    plan.level = "proof"
