"""C07 — bytecode files: codecs round-trip, CRC gate, loader robustness."""
import os, re
import vlib
from vlib import VerusUnit, read_repo, extract_fn, verus_fn, verus_canary, verus_file, VERIF

PROGRAM_RS = "src/core/src/program/program.rs"
CONTEXT_RS = "src/core/src/program/compiler/context.rs"


def harness_modules():
    return [dict(crate="mech-core", file="src/program/program.rs", mod="verif_c07", gen="C07/kani_program.rs")]


KANI = [
    # harness, obligation suffix, level, bound, what
    ("vkc07_opcode_from_u8", "codec.OpCode.from_u8", "proved", "", "OpCode::from_u8 is the inverse of `op as u8`; every other byte is None"),
    ("vkc07_typetag_from_u16", "codec.TypeTag.from_u16", "proved", "", "TypeTag::from_u16 is the inverse of `tag as u16`; other words are None"),
    ("vkc07_instr_constload", "codec.instr.ConstLoad.roundtrip", "proved", "", "decode_instructions(write_to(ConstLoad)) == ConstLoad, byte_len exact, re-encode identical"),
    ("vkc07_instr_nullop", "codec.instr.NullOp.roundtrip", "proved", "", ""),
    ("vkc07_instr_unop", "codec.instr.UnOp.roundtrip", "proved", "", ""),
    ("vkc07_instr_binop", "codec.instr.BinOp.roundtrip", "proved", "", ""),
    ("vkc07_instr_ternop", "codec.instr.TernOp.roundtrip", "proved", "", ""),
    ("vkc07_instr_quadop", "codec.instr.QuadOp.roundtrip", "proved", "", ""),
    ("vkc07_instr_vararg", "codec.instr.VarArg.roundtrip", "bounded", "2 arguments", ""),
    ("vkc07_instr_ret_then_constload", "codec.instr.Ret.roundtrip_not_last", "proved", "", ""),
    ("vkc07_instr_ret_last", "codec.instr.Ret.roundtrip_last", "proved", "", "a stream whose last instruction is Ret (5 bytes) decodes"),
    ("vkc07_instr_truncated_binop_cut5", "codec.instr.truncated_rejected.cut5", "bounded", "BinOp cut after 5 of 21 bytes", "a truncated instruction is rejected"),
    ("vkc07_instr_truncated_binop_cut12", "codec.instr.truncated_rejected.cut12", "bounded", "BinOp cut after 12 of 21 bytes", "a truncated instruction is rejected"),
    ("vkc07_instr_truncated_binop_cut20", "codec.instr.truncated_rejected.cut20", "bounded", "BinOp cut after 20 of 21 bytes", "a truncated instruction is rejected"),
    ("vkc07_decode_instructions_any_bytes", "loader.decode_instructions.any_bytes", "bounded", "stream length 10 bytes",
     "no panic on arbitrary bytes; Ok(v) re-encodes to exactly the input"),
    ("vkc07_const_entry_roundtrip", "codec.ConstEntry.roundtrip", "proved", "", ""),
    ("vkc07_parse_const_entries_short_input", "loader.parse_const_entries.short_input", "bounded", "table <= 47 bytes, count 2", ""),
    ("vkc07_header_roundtrip", "codec.header.roundtrip", "proved", "", "ByteCodeHeader::read_from(write_to(h)) == h, exactly HEADER_SIZE bytes"),
    ("vkc07_crc_gate_len3", "crc.verify_crc_trailer_seek.too_short", "bounded", "file length 3", "total_len < 4 => Err"),
    ("vkc07_crc_gate_len4", "crc.verify_crc_trailer_seek.iff_len4", "bounded", "file length 4 (empty payload)",
     "Ok <=> CRC-32(bytes[..n-4]) == LE trailer"),
    ("vkc07_crc_gate_len5", "crc.verify_crc_trailer_seek.iff_len5", "bounded", "file length 5 (1-byte payload)",
     "Ok <=> CRC-32(bytes[..n-4]) == LE trailer"),
    ("vkc07_crc_burst_detected", "crc.burst_le_32_bits_detected", "bounded", "6-byte payload; all burst offsets and patterns",
     "reference CRC: every non-zero burst of <= 32 bits changes crc(payload) xor trailer"),
    ("vkc07_load_requires_crc", "crc.load_program_from_bytes.gated", "bounded", "header-only file; version, mech_ver, reg_count and the trailer symbolic",
     "load_program_from_bytes(header-only file) is Ok iff the trailer equals the CRC of the header (gate is in front of the parser)"),
]


def verus_units(plan):
    prog = read_repo(PROGRAM_RS)
    ctx = read_repo(CONTEXT_RS)
    items, fns, canaries = [], {}, []
    # check_alignment
    sig, body = extract_fn(prog, "check_alignment")
    ens = ["r == (align != 0 && (offset as int) % (align as int) == 0)"]
    items.append(verus_fn(sig, body, ensures=ens))
    fns["check_alignment"] = "C07.pure.check_alignment"
    # align_up
    sig, body = extract_fn(ctx, "align_up")
    req = ["align == 0 || offset as int + align as int <= u64::MAX as int"]
    ens = ["align == 0 ==> r == offset",
           "align != 0 ==> r >= offset && (r as int) % (align as int) == 0 && (r - offset) < align"]
    proof = """  proof {
    let x = (offset + align - 1) as int;
    let a = align as int;
    vstd::arithmetic::div_mod::lemma_fundamental_div_mod(x, a);
    vstd::arithmetic::div_mod::lemma_mod_multiples_basic(x / a, a);
    vstd::arithmetic::div_mod::lemma_mod_pos_bound(x, a);
    assert((x / a) * a == a * (x / a)) by (nonlinear_arith);
  }"""
    items.append(verus_fn(sig, body, requires=req, ensures=ens,
                          injects=[(r"\(\(offset \+ align - 1\) / align\) \* align", proof, "before")]))
    fns["align_up"] = "C07.pure.align_up"
    items.append(verus_canary("canary_align_up", "offset: u64, align: u64", req))
    canaries.append("canary_align_up")
    # decode_version_from_u16
    sig, body = extract_fn(prog, "decode_version_from_u16")
    ens = ["r.0 == v / 8192", "r.1 == (v / 256) % 32", "r.2 == v % 256"]
    proof = """  proof {
    assert((v >> 13) & 0b111 == v / 8192) by (bit_vector);
    assert((v >> 8) & 0b1_1111 == (v / 256) % 32) by (bit_vector);
    assert(v & 0xFF == v % 256) by (bit_vector);
  }"""
    items.append(verus_fn(sig, body, ensures=ens, injects=[(r"\(major, minor, patch\)", proof, "before")]))
    fns["decode_version_from_u16"] = "C07.pure.decode_version_from_u16"
    items.append(verus_canary("canary_plain", "x: u64", []))
    canaries.append("canary_plain")
    u = VerusUnit("c07_pure", verus_file(items), fns, canaries,
                  dropped=["attributes (#[inline]) and visibility of the extracted fns; return value is named `r` in the signature",
                           "ghost `proof { }` blocks inserted before the final expression of align_up and decode_version_from_u16 (no executable token changed)"])
    for fn, on in fns.items():
        plan.ob(on, "verus", "proved", functions=[fn], what="contract of %s (see contracts in units/C07.py)" % fn)
    plan.verus.append(u)
    plan.dropped += u.dropped


def plan(plan, tier, seed):
    try:
        verus_units(plan)
    except vlib.AnchorLost as e:
        plan.anchor_errors.append(("C07.pure.*", str(e)))
    try:
        from units import vC07
        vC07.add_units(plan, "C07")
    except Exception as e:
        plan.anchor_errors.append(("C07.verus.decode_instructions.*", repr(e)))
    with open(os.path.join(VERIF, "contracts", "C07", "kani_program.rs")) as f:
        text = f.read()
    # the opcode / type-tag harnesses compare from_u8 / from_u16 with the discriminants the enums DECLARE in the current source (a new, consistently
    # decoded opcode or tag is not an alarm)
    try:
        sec = re.sub(r"//[^\n]*", "", vlib.read_repo("src/core/src/program/compiler/sections.rs"))
        def discriminants(name):
            m = vlib.find_code(sec, r"pub enum %s\s*\{" % name)
            if not m:
                raise vlib.AnchorLost("enum %s not found" % name)
            body = sec[m.end():vlib.match_brace(sec, m.end() - 1) - 1]
            vals, nxt = [], 0
            for item in [x.strip() for x in body.split(",") if x.strip()]:
                mm = re.fullmatch(r"(\w+)(?:\s*=\s*(0x[0-9A-Fa-f]+|\d+))?", item)
                if not mm:
                    raise vlib.AnchorLost("enum %s: variant `%s` outside the rules" % (name, item))
                if mm.group(2):
                    nxt = int(mm.group(2), 0)
                vals.append(nxt)
                nxt += 1
            return vals
        text = text.replace("/*@OPCODE_KNOWN@*/", "(" + " || ".join("b == %d" % v for v in discriminants("OpCode")) + ")")
        text = text.replace("/*@TYPETAG_KNOWN@*/", "(" + " || ".join("t == %d" % v for v in discriminants("TypeTag")) + ")")
    except vlib.AnchorLost as e:
        plan.anchor_errors.append(("C07.codec.OpCode.from_u8", str(e)))
    plan.harness_files[os.path.join(vlib.GEN, "C07", "kani_program.rs")] = text
    hmap = {}
    # measured: these do not finish within the per-harness limit (data-dependent Vec::with_capacity / symbolic-length slices);
    # they are kept in the thorough tier, where they are expected to be reported as undecided
    heavy = {"vkc07_instr_vararg", "vkc07_decode_instructions_any_bytes", "vkc07_load_requires_crc",
             # measured on three quick runs: none of the truncated-stream harnesses finishes within 300 s
             "vkc07_instr_truncated_binop_cut5", "vkc07_instr_truncated_binop_cut12", "vkc07_instr_truncated_binop_cut20"}
    for h, suffix, level, bound, what in KANI:
        if tier == "quick" and h in heavy:
            continue
        hmap[h] = plan.ob("C07." + suffix, "kani", level, bound=bound, what=what or suffix,
                          functions=["program.rs / sections.rs codec functions"])
    plan.kani.append(dict(package="mech-core", filters=["vkc07_"], harness=hmap, timeout=3000,
                          replay_entry="vkreplay_c07_program"))
    plan.functions += [
        "src/core/src/program/program.rs: check_alignment, decode_version_from_u16, decode_instructions, parse_const_entries, verify_crc_trailer_seek, load_program_from_bytes, load_program_from_reader, DecodedInstr::write_to, ParsedConstEntry::write_to",
        "src/core/src/program/compiler/sections.rs: ByteCodeHeader::{write_to,read_from}, OpCode::from_u8, TypeTag::from_u16, EncodedInstr::{write_to,byte_len}, ConstEntry::{write_to,byte_len}",
        "src/core/src/program/compiler/context.rs: align_up",
    ]
    plan.trusted += ["Kani 0.68 / CBMC 6.11", "Verus 0.2026.09.13 / Z3", "byteorder and std::io::Cursor are executed under Kani, not modelled",
                     "crc32fast::hash == bitwise CRC-32/ISO-HDLC reference (stubbed under Kani because crc32fast reaches cpuid detection)",
                     "alloc::fmt::format is stubbed (error-message text is irrelevant to the obligations)"]
    plan.assumptions += [
        "CRC burst theorem (degree-32 generator with non-zero constant term detects every burst <= 32 bits) is machine-checked only for 6-byte payloads; beyond that it is cited mathematics",
        "Verus: machine integers as declared (u64/u8/u16), overflow obligations on; Kani: bit-precise",
    ]
    plan.undecided_clauses += [
        "C07: 'a truncated file is rejected' is not a theorem of CRC-32 (a truncation is accepted iff its last four bytes happen to equal the CRC of the rest); only total_len < 4 => Err and the gate are decided",
        "C07: termination ('never hangs') is not verified by Kani; loops are bounded by counts read from the file",
        "C07: ParsedProgram::to_bytes vs CompileCtx::compile byte equality depends on HashMap iteration order for >1 symbol; not decided",
    ]
    plan.level = "proof"
