"""C10 — literate documents (partial): the interpreter side of fence isolation.  Verus contracts on eval_fenced_code_block, the
FencedMechCode arm of section_element, body and section (units/vC10.py); a syntactic pass over the prose arms."""
import vlib
from vlib import VerusUnit, AnchorLost


def plan(plan, tier, seed):
    from units import vC10
    text = vlib.read_repo(vC10.PATH)
    obs = [
        ("C10.verus.eval_fenced_code_block.ordered_run_with_isolation", "c10_efb", "eval_fenced_code_block", lambda: vC10.efb_unit(text), "eval_fenced_code_block (whole)",
         "for every item list, interpreter history and every behaviour of the evaluators: the items (and their attached comments) are evaluated in document order on the one interpreter given, the first failing one ends the fence; with isolate_errors the error becomes the displayed value and the call succeeds, without it the error is returned; only the interpreter's history changes"),
        ("C10.verus.section_element.fence_routing_and_isolation", "c10_arm", "fenced_mech_code", lambda: vC10.arm_unit(text), "section_element (the FencedMechCode arm)",
         "a disabled fence evaluates nothing; an unnamed fence runs on the document's interpreter and touches no named namespace; a named fence runs on the interpreter of its own name (created on first use with an empty history and the document's functions), leaves the document's interpreter and every other namespace exactly as they were, and an error inside it is isolated (the element succeeds, so the rest of the document is evaluated)"),
        ("C10.verus.body.document_order", "c10_body", "body", lambda: vC10.order_unit(text, "body", "sections", "section"), "body (whole)",
         "the sections of a document are evaluated in document order, each once; the first error ends the evaluation"),
        ("C10.verus.section.document_order", "c10_section", "section", lambda: vC10.order_unit(text, "section", "elements", "section_element"), "section (whole)",
         "the elements of a section are evaluated in document order, each once; the first error ends the evaluation"),
    ]
    for on, uname, fn, build, fdesc, what in obs:
        plan.ob(on, "verus", "proved", functions=["src/interpreter/src/mechdown.rs: " + fdesc], what=what)
        try:
            plan.verus.append(VerusUnit(uname, build(), {fn: on}, ["canary_" + uname]))
        except AnchorLost as e:
            plan.anchor_errors.append((on, str(e)))
    np_ = "C10.verus.paragraph_element.inline_code_is_one_expression"
    plan.ob(np_, "verus", "proved", functions=["src/interpreter/src/mechdown.rs: paragraph_element (whole body)"],
            what="inside prose only an inline `{{..}}` element evaluates anything: exactly one EXPRESSION (no statement: nothing can be defined or assigned), whose failure is displayed as the empty value and never raised; every other paragraph element evaluates nothing and is reported as not executable (the prose arms of section_element ignore that)")
    try:
        plan.verus.append(VerusUnit("c10_prose", vC10.prose_unit(text), {"paragraph_element": np_}, ["canary_c10_prose"]))
    except AnchorLost as e:
        plan.anchor_errors.append((np_, str(e)))
    plan.dropped.append(vC10.paragraph_element_fn.__doc__.strip())
    nc_ = "C10.verus.comment.inert_but_for_inline_expressions"
    plan.ob(nc_, "verus", "proved", functions=["src/interpreter/src/mechdown.rs: comment (whole body)", "section_element (the Paragraph, Table and FigureTable arms)"],
            what="a comment attached to code, and a paragraph, write no variable, never fail, and evaluate exactly the inline `{..}` expressions they contain, each once, in document order (proved against the contract proved for paragraph_element)")
    try:
        plan.verus.append(VerusUnit("c10_comment", vC10.comment_unit(text), {"comment": nc_, "paragraph_arm": nc_, "table_arm": nc_, "figure_table_arm": nc_}, ["canary_c10_comment"]))
    except AnchorLost as e:
        plan.anchor_errors.append((nc_, str(e)))
    plan.dropped.append(vC10.comment_fn.__doc__.strip())
    plan.dropped.append(vC10._para_loop.__doc__.strip())
    plan.dropped.append(vC10.paragraph_arm_fn.__doc__.strip())
    plan.dropped.append(vC10.table_arms_fn.__doc__.strip())
    # syntactic pass over the prose arms (labelled: backend syntactic, level bounded; never counted as proved)
    try:
        seen = {}
        for name, ok, detail in vC10.prose_pass(text):
            seen[name] = seen.get(name, 0) + 1
            o = plan.ob("C10.prose.%s%s.no_code_evaluator" % (name, "" if seen[name] == 1 else "#%d" % seen[name]), "syntactic", "bounded", bound="textual: the arm's text names no evaluator of executable code", functions=["section_element (arm %s)" % name],
                        what="the prose arm `%s` of section_element calls none of mech_code / statement / expression / eval_fenced_code_block / section_element (inline `{{..}}` evaluation happens inside paragraph_element only)" % name)
            o.status = "undecided" if ok is None else ("discharged" if ok else "violated")
            o.detail = detail
    except AnchorLost as e:
        plan.anchor_errors.append(("C10.prose.*", str(e)))
    plan.dropped.append(vC10.__doc__.strip())
    plan.functions += ["src/interpreter/src/mechdown.rs: eval_fenced_code_block, section_element (FencedMechCode arm; prose arms syntactically), body, section"]
    plan.trusted += ["Verus 0.2026.09.13 / Z3"]
    plan.assumptions += [
        "mech_code and comment are arbitrary functions of (node, history of the interpreter they run on) and change nothing but that history (contracts/C10/docmodel.rs); effects that escape an interpreter (shared Rc cells, the file system, printing) are not modelled",
        "`p: &Interpreter` is `&mut Interpreter`; `p.sub_interpreters` (Rc<RefCell<HashMap>>) is the separate parameter `subs`; HashMap::entry(k).or_insert(v).as_mut() is the model method entry_or_insert (returns the existing entry, or inserts v)",
        "a fence holds at least one code item (`block.code.last().unwrap()` would panic otherwise): precondition of the arm's contract, a property of the grammar (`mech-code+`), not verified",
        "Interpreter::new(id) builds an interpreter with an empty history; set_functions replaces the function table only",
    ]
    plan.undecided_clauses += ["C10: which parts of a document are prose, code or fences, and which name a fence has, is decided by the Mechdown PARSER (out of reach, see C09); that evaluating an expression cannot change a variable is a property of expression() (not under contract here); prose inertness: paragraph_element is under contract (C10.verus.paragraph_element.*), the other prose arms are checked only syntactically (arms name no evaluator); the Float / Mika arms; that different fence names get different namespace ids (hash_str)"]
    plan.level = "proof"
