"""C11 — concatenation: CopyMat copy loops and the dynamic horzcat/vertcat kernels."""
import os, re
import vlib
from vlib import GEN, VERIF

MODS = [
    dict(crate="mech-core", file="src/structures/matrix.rs", mod="verif_c11", gen="C11/kani_copymat.rs", entry="vkreplay_c11_core"),
    dict(crate="mech-interpreter", file="src/stdlib/horzcat.rs", mod="verif_c11h", gen="C11/kani_horzcat.rs", entry="vkreplay_c11_horzcat"),
    dict(crate="mech-interpreter", file="src/stdlib/vertcat.rs", mod="verif_c11v", gen="C11/kani_vertcat.rs", entry="vkreplay_c11_vertcat"),
]


def harness_modules():
    return [dict(crate=m["crate"], file=m["file"], mod=m["mod"], gen=m["gen"]) for m in MODS]


def plan(plan, tier, seed):
    by_pkg = {}
    for m in MODS:
        with open(os.path.join(VERIF, "contracts", m["gen"])) as f:
            text = f.read()
        plan.harness_files[os.path.join(GEN, m["gen"])] = text
        for mm in re.finditer(r"pub\(crate\) fn (vkc11_\w+)\(\)", text):
            h = mm.group(1)
            ob = plan.ob("C11." + h[len("vkc11_"):], "kani", "bounded", bound="blocks of shape 2x1 / 1x2 / 2x2, <= 3 blocks; element values unconstrained",
                         functions=[m["file"]], what=h + ": out is the block matrix of the operands in written order; nothing else changes; operands unchanged")
            by_pkg.setdefault(m["crate"], ({}, {}))[0][h] = ob
            by_pkg[m["crate"]][1][h] = m["entry"]
    for pkg, (hmap, entries) in by_pkg.items():
        plan.kani.append(dict(package=pkg, filters=["vkc11_"], harness=hmap, timeout=3000, replay_entry=(lambda h, e=entries: e[h])))
    plan.functions += ["src/core/src/structures/matrix.rs: CopyMat::{copy_into,copy_into_v,copy_into_r,copy_into_row_major} for DMatrix/DVector/RowDVector",
                       "src/interpreter/src/stdlib/horzcat.rs: HorizontalConcatenate{TwoArgs,ThreeArgs,NArgs,RDN}::solve",
                       "src/interpreter/src/stdlib/vertcat.rs: VerticalConcatenate{TwoArgs,ThreeArgs,NArgs}::solve"]
    plan.trusted += ["Kani / CBMC", "nalgebra executed"]
    plan.assumptions += ["block shapes fixed per harness (see bounded_checks); element kind u8",
                         "rejection of mixed kinds is done in MatrixHorzCat/MatrixVertCat::compile: not decided (mismatched heights / widths: decided on matrix() / matrix_row(), see C11.verus.matrix*)",
                         "HorizontalConcatenateRDN is given the positions the dispatch computes; its bytecode factory `new` computes different positions (argument index) — see DESIGN findings"]
    plan.undecided_clauses += ["C11: kind rejection, the (nargs, rows, columns) routing, fixed-size kernels (not built in this configuration)"]
    try:
        from units import vC11
        vC11.add_units(plan, "C11")
    except Exception as e:
        plan.anchor_errors.append(("C11.verus.*", repr(e)))
    try:
        from units import pos_check
        pos_check.add(plan, "C11")
    except Exception as e:
        plan.anchor_errors.append(("C11.positions.*", repr(e)))
    # the literal evaluators: a literal whose blocks disagree in height (within a row) or width (across rows) never reaches a kernel
    from units import vC11m
    src = vlib.read_repo(vC11m.PATH)
    for fn, on, what in (("matrix_row", "C11.verus.matrix_row.blocks_of_a_row_have_one_height", "for every row of a matrix literal and every behaviour of the element evaluator: the blocks handed to the horizontal concatenation all have the same height (empty 0x0 blocks exempt); a block of another height is an error; the all-scalars-with-empty path builds a 1 x n value only from 1x1 elements"),
                         ("matrix", "C11.verus.matrix.rows_have_one_width", "for every matrix literal and every behaviour of the row evaluator: the rows handed to the vertical concatenation all have the same width (empty 0x0 rows exempt); a row of another width is an error")):
        plan.ob(on, "verus", "proved", functions=["src/interpreter/src/structures.rs: %s (whole body)" % fn], what=what)
        try:
            plan.verus.append(vlib.VerusUnit("c11_lit_" + fn, vC11m.unit(src, fn), {fn: on}, ["canary_c11_" + fn]))
        except vlib.AnchorLost as e:
            plan.anchor_errors.append((on, str(e)))
    plan.dropped.append(vC11m.__doc__.strip())
    plan.assumptions += ["matrix / matrix_row: Value::shape() returns [rows, cols]; matrix_row / matrix_column (the evaluators of the parts) are arbitrary; MatrixHorzCat / MatrixVertCat::compile are stand-ins whose PRECONDITION (equal heights / equal widths, 0x0 exempt) is the obligation at the call site (contracts/C11/litmodel.rs)"]
    plan.level = "proof"
