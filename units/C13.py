"""C13 — numeric literals (partial): based integer literals under Kani, bounded in digit count."""
import os, re
import vlib
from vlib import GEN, VERIF


def harness_modules():
    return [dict(crate="mech-interpreter", file="src/literals.rs", mod="verif_c13", gen="C13/kani_literals.rs")]


def plan(plan, tier, seed):
    with open(os.path.join(VERIF, "contracts", "C13", "kani_literals.rs")) as f:
        text = f.read()
    plan.harness_files[os.path.join(GEN, "C13", "kani_literals.rs")] = text
    hmap = {}
    for m in re.finditer(r"pub\(crate\) fn (vkc13_\w+)\(\)", text):
        h = m.group(1)
        hmap[h] = plan.ob("C13." + h[len("vkc13_"):].replace("literal_", "literal."), "kani", "bounded", bound="1..3 digits, any case",
                          functions=["interpreter/src/literals.rs: binary/oct/dec/hex"],
                          what="the literal evaluates to I64(sum of digit * radix^position)")
    plan.kani.append(dict(package="mech-interpreter", filters=["vkc13_"], harness=hmap, timeout=3000, replay_entry="vkreplay_c13"))
    plan.functions += ["src/interpreter/src/literals.rs: binary, oct, dec, hex"]
    plan.trusted += ["Kani / CBMC", "std i64::from_str_radix is executed, not modelled"]
    plan.assumptions += ["digit count bounded to 3", "float / scientific spellings delegate to str::parse::<f64> and powf: nearest-value is std's contract (assumed) resp. undecidable here (Kani over-approximates powf, Verus has no floats)"]
    plan.undecided_clauses += ["C13: floating-point, scientific, rational, complex, negated and suffixed literals; which spellings the grammar accepts (parser)"]
    plan.level = "model_checking"
