"""C13 — numeric literals (partial).  The literal evaluators of src/interpreter/src/literals.rs are put under
Verus contracts (units/vC13.py) against ASSUMED contracts of the std / num_rational functions they delegate to.
The earlier Kani harnesses on binary/oct/dec/hex (contracts/C13/kani_literals.rs) are kept for the thorough tier only:
`from_str_radix` over a String collected from symbolic chars exhausts CBMC (45 GB), they rarely reach a verdict."""
import os, re
import vlib
from vlib import GEN, VERIF
from units import vC13


def harness_modules():
    return [dict(crate="mech-interpreter", file="src/literals.rs", mod="verif_c13", gen="C13/kani_literals.rs")]


def plan(plan, tier, seed):
    with open(os.path.join(VERIF, "contracts", "C13", "kani_literals.rs")) as f:
        text = f.read()
    plan.harness_files[os.path.join(GEN, "C13", "kani_literals.rs")] = text
    if tier == "thorough":
        hmap = {}
        for m in re.finditer(r"pub\(crate\) fn (vkc13_\w+)\(\)", text):
            h = m.group(1)
            hmap[h] = plan.ob("C13." + h[len("vkc13_"):].replace("literal_", "literal."), "kani", "bounded", bound="1..3 digits, any case",
                              functions=["interpreter/src/literals.rs: binary/oct/dec/hex"],
                              what="the literal evaluates to I64(sum of digit * radix^position) — real std from_str_radix executed")
        plan.kani.append(dict(package="mech-interpreter", filters=["vkc13_"], harness=hmap, timeout=1500, replay_entry="vkreplay_c13"))
        plan.trusted += ["Kani / CBMC (thorough-tier twins; std i64::from_str_radix executed, not modelled)"]
    try:
        vC13.plan_units(plan)
    except vlib.AnchorLost as e:
        plan.anchor_errors.append(("C13.verus.*", str(e)))
    plan.undecided_clauses += [
        "C13: which spellings the grammar accepts and how the parser splits them into tokens (e.g. `1e23` reads as `1` with kind `e23`, `_` inside based literals) — parser code, out of reach",
        "C13: for suffixed / annotated literals the conversion rule itself is C12's subject (typed_literal = the literal followed by that conversion: C13.verus.typed_literal.*; `-128<i8>` negates after clamping)",
        "C13: that std's parsers and num_rational meet their documented contracts (assumed)"]
    plan.level = "proof"
