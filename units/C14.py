"""C14 — sets.  The Hash/Eq law of Value (what makes IndexSet<Value> keep distinct
elements) under Kani with a recording hasher; the algebra itself is indexmap's."""
import os, re
import vlib
from vlib import GEN, VERIF


def harness_modules():
    return [dict(crate="mech-core", file="src/value.rs", mod="verif_c14", gen="C14/kani_hash.rs")]


SETOPS = [("union", "union"), ("intersection", "intersect"), ("difference", "difference"), ("symmetric_difference", "symdiff")]

SET_PRELUDE = """
// ---- assumed specification of indexmap::IndexSet<Value> (the dependency's contract): a finite set of
// element identities; equal elements have equal identities (that is the Hash/Eq law obligations' job)
pub uninterp spec fn kind_of(id: int) -> int;
#[derive(PartialEq, Eq, Structural)]
pub enum ValueKind { Empty, K(int) }
// `std::mem::discriminant(&kind)`: only the variant, not its payload
#[verifier::external_body]
pub fn discriminant_of(k: &ValueKind) -> (d: u8) ensures d == (match k { ValueKind::Empty => 0u8, ValueKind::K(_) => 1u8 }) { unimplemented!() }
pub struct Value { pub id: int }
impl Value {
  #[verifier::external_body]
  pub fn kind(&self) -> (r: ValueKind) ensures r == ValueKind::K(kind_of(self.id)) { unimplemented!() }
}
pub struct IndexSet { pub elems: Ghost<Set<int>> }
pub struct SetIter { pub elems: Ghost<Set<int>> }
pub struct It { pub elems: Ghost<Set<int>> }
pub open spec fn symdiff(a: Set<int>, b: Set<int>) -> Set<int> { a.difference(b).union(b.difference(a)) }
impl IndexSet {
  pub open spec fn view(&self) -> Set<int> { self.elems@ }
  #[verifier::external_body] pub fn clear(&mut self) ensures final(self).view() == Set::<int>::empty() { unimplemented!() }
  #[verifier::external_body] pub fn union(&self, o: &IndexSet) -> (r: SetIter) ensures r.elems@ == self.view().union(o.view()) { unimplemented!() }
  #[verifier::external_body] pub fn intersection(&self, o: &IndexSet) -> (r: SetIter) ensures r.elems@ == self.view().intersect(o.view()) { unimplemented!() }
  #[verifier::external_body] pub fn difference(&self, o: &IndexSet) -> (r: SetIter) ensures r.elems@ == self.view().difference(o.view()) { unimplemented!() }
  #[verifier::external_body] pub fn symmetric_difference(&self, o: &IndexSet) -> (r: SetIter) ensures r.elems@ == symdiff(self.view(), o.view()) { unimplemented!() }
  #[verifier::external_body] pub fn contains(&self, v: &Value) -> (r: bool) ensures r == self.view().contains(v.id) { unimplemented!() }
  #[verifier::external_body] pub fn is_subset(&self, o: &IndexSet) -> (r: bool) ensures r == self.view().subset_of(o.view()) { unimplemented!() }
  #[verifier::external_body] pub fn is_superset(&self, o: &IndexSet) -> (r: bool) ensures r == o.view().subset_of(self.view()) { unimplemented!() }
  #[verifier::external_body] pub fn is_disjoint(&self, o: &IndexSet) -> (r: bool) ensures r == self.view().disjoint(o.view()) { unimplemented!() }
  // `a == b` on IndexSet (order-insensitive equality of the dependency)
  #[verifier::external_body] pub fn set_eq(&self, o: &IndexSet) -> (r: bool) ensures r == (self.view() =~= o.view()) { unimplemented!() }
  #[verifier::external_body] pub fn len(&self) -> (r: usize) ensures self.view().finite(), r == self.view().len() { unimplemented!() }
  #[verifier::external_body] pub fn is_empty(&self) -> (r: bool) ensures self.view().finite(), r == (self.view().len() == 0) { unimplemented!() }
  #[verifier::external_body] pub fn iter(&self) -> (r: It) ensures r.elems@ == self.view() { unimplemented!() }
  #[verifier::external_body] pub fn first(&self) -> (r: Option<&Value>)
    ensures self.view().finite(), self.view().len() == 0 ==> r.is_none(), self.view().len() > 0 ==> (r matches Some(v) && self.view().contains(v.id)) { unimplemented!() }
}
impl SetIter {
  #[verifier::external_body] pub fn cloned(self) -> (r: SetIter) ensures r.elems@ == self.elems@ { unimplemented!() }
  #[verifier::external_body] pub fn collect(self) -> (r: IndexSet) ensures r.view() == self.elems@ { unimplemented!() }
}
impl It {
  #[verifier::external_body] pub fn next(&mut self) -> (r: Option<&Value>)
    ensures old(self).elems@.finite(), old(self).elems@.len() == 0 ==> r.is_none(), old(self).elems@.len() > 0 ==> (r matches Some(v) && old(self).elems@.contains(v.id)) { unimplemented!() }
}
pub struct MechSet { pub kind: ValueKind, pub num_elements: usize, pub set: IndexSet }
impl MechSet {
  // the structure invariant of the property: reported size == number of elements, all elements of the set's kind
  pub open spec fn wf(&self) -> bool {
    self.set.view().finite() && self.num_elements == self.set.view().len()
    && (self.set.view().len() == 0 ==> self.kind == ValueKind::Empty)
    && (forall|e: int| #![trigger self.set.view().contains(e)] self.set.view().contains(e) ==> self.kind == ValueKind::K(kind_of(e)))
  }
}
"""


def metadata_unit(plan):
    from vlib import read_repo, extract_fn, split_statements, VerusUnit, AnchorLost, find_code, match_brace
    import re
    FILTER_STANDINS = """
impl IndexSet {
  // std's `a.iter().filter(|x| b.contains(*x)).cloned().collect()` / the negated test: the elements of a that are (not) in b -- NOT what the kernels use (they
  // call the dependency's intersection / difference); named so that such a rewrite is judged, not lost
  #[verifier::external_body] pub fn filter_in(&self, o: &IndexSet) -> (r: IndexSet) ensures r.view() == self.view().intersect(o.view()) { unimplemented!() }
  #[verifier::external_body] pub fn filter_not_in(&self, o: &IndexSet) -> (r: IndexSet) ensures r.view() == self.view().difference(o.view()) { unimplemented!() }
}
"""
    for op, spec_op in SETOPS:
        items, fns = [SET_PRELUDE, FILTER_STANDINS], {}
        rel = "machines/set/src/operations/%s.rs" % op
        try:
            text = read_repo(rel)
            sig, body = extract_fn(text, "solve")
            m = find_code(body, r"unsafe\s*\{")
            if not m:
                raise AnchorLost("solve() has no unsafe block")
            inner = body[m.end() - 1:match_brace(body, m.end() - 1)]
            stm = split_statements(inner)
            stm = [vlib.strip_lead(x) for x in stm]
            ptr = [s for s in stm if re.match(r"let (out_ptr|lhs_ptr|rhs_ptr)\s*:", s)]
            rest = [s for s in stm if not re.match(r"let (out_ptr|lhs_ptr|rhs_ptr)\s*:", s)]
            if len(ptr) != 3:
                raise AnchorLost("solve(): expected the three pointer bindings out_ptr / lhs_ptr / rhs_ptr")
            rest = [re.sub(r"\b([\w\.]+)\.iter\(\)\.filter\(\s*\|x\|\s*(!?)\s*([\w\.]+)\.contains\(\s*\*x\s*\)\s*\)\.cloned\(\)\.collect\(\)",
                           lambda mm: "%s.%s(%s)" % (mm.group(1), "filter_not_in" if mm.group(2) else "filter_in", mm.group(3)), x) for x in rest]
            if any("self." in s for s in rest):
                raise AnchorLost("solve(): statements after the pointer bindings still mention self")
        except AnchorLost as e:
            plan.anchor_errors.append(("C14.metadata.%s" % op, str(e)))
            continue
        opexpr = "symdiff(lhs_ptr.set.view(), rhs_ptr.set.view())" if spec_op == "symdiff" else "lhs_ptr.set.view().%s(rhs_ptr.set.view())" % spec_op
        fn = "solve_%s" % op
        items.append("""fn %s(out_ptr: &mut MechSet, lhs_ptr: &MechSet, rhs_ptr: &MechSet)
  requires lhs_ptr.set.view().finite(), rhs_ptr.set.view().finite(),
  ensures
    // the algebra: whatever the recorded kinds of the operands say (for sets of sets the recorded kind carries the inner size, so two sets of sets can
    // share elements although their `kind` fields differ), the result holds exactly the elements the mathematical operation defines
    final(out_ptr).set.view() == %s,
    // the metadata: for well-formed operands of one and the same element kind (or empty) the result is well-formed
    (lhs_ptr.wf() && rhs_ptr.wf() && (forall|a: int, b: int| lhs_ptr.set.view().contains(a) && rhs_ptr.set.view().contains(b) ==> kind_of(a) == kind_of(b))) ==> final(out_ptr).wf(),
{
  %s
}
""" % (fn, opexpr, "\n  ".join(rest)))
        fns[fn] = "C14.metadata.%s" % op
        plan.ob(fns[fn], "verus", "proved", functions=[rel + ": solve"],
                what="out.set is exactly the %s the dependency returns; reported size == number of elements; kind == kind of the elements (Empty when empty)" % op.replace("_", " "))
        # one Verus file per operation: a kernel that drifts out of the rules loses only its own obligation
        items.append(vlib.verus_canary("canary_meta_" + op, "x: u64", []))
        plan.verus.append(VerusUnit("c14_metadata_" + op, vlib.verus_file(items), fns, ["canary_meta_" + op]))
    plan.dropped.append("set operations: of each solve() the statements inside `unsafe { }` after the three raw-pointer bindings (out_ptr, lhs_ptr, rhs_ptr) are copied verbatim into a function over `&mut MechSet, &MechSet, &MechSet`; IndexSet, its iterators, Value::kind and ValueKind are an ASSUMED specification (finite set of element identities)")


RELATIONS = [
    ("subset", "lhs_ptr.set.view().subset_of(rhs_ptr.set.view())"),
    ("superset", "rhs_ptr.set.view().subset_of(lhs_ptr.set.view())"),
    ("proper_subset", "(lhs_ptr.set.view().subset_of(rhs_ptr.set.view()) && !(lhs_ptr.set.view() =~= rhs_ptr.set.view()))"),
    ("proper_superset", "(rhs_ptr.set.view().subset_of(lhs_ptr.set.view()) && !(lhs_ptr.set.view() =~= rhs_ptr.set.view()))"),
    ("equals", "(lhs_ptr.set.view() =~= rhs_ptr.set.view())"),
    ("not_equals", "!(lhs_ptr.set.view() =~= rhs_ptr.set.view())"),
    ("disjoint", "lhs_ptr.set.view().disjoint(rhs_ptr.set.view())"),
]


def relations_unit(plan):
    """the seven relation kernels (machines/set/src/relations/*.rs): statements of solve() after the three pointer bindings,
    verbatim except `A == B` / `A != B` on IndexSet -> `A.set_eq(&B)` / `!A.set_eq(&B)`; postcondition = the mathematical definition"""
    from vlib import read_repo, extract_fn, split_statements, VerusUnit, AnchorLost, find_code, match_brace
    items, fns = [SET_PRELUDE], {}
    items.append("""
pub proof fn lemma_subset_len(a: Set<int>, b: Set<int>)
  requires a.finite(), b.finite(), a.subset_of(b),
  ensures a.len() <= b.len(), a.len() == b.len() ==> a =~= b,
{
  vstd::set_lib::lemma_len_subset(a, b);
  if a.len() == b.len() { vstd::set_lib::lemma_subset_equality(a, b); }
}
""")
    for rel_name, spec in RELATIONS:
        rel = "machines/set/src/relations/%s.rs" % rel_name
        name = "C14.relation.%s" % rel_name
        ob = plan.ob(name, "verus", "proved", functions=[rel + ": solve"], what="out == the mathematical %s relation of the two element sets (under the assumed IndexSet specification)" % rel_name.replace("_", " "))
        try:
            text = read_repo(rel)
            sig, body = extract_fn(text, "solve")
            m = find_code(body, r"unsafe\s*\{")
            if not m:
                raise AnchorLost("solve() has no unsafe block")
            inner = body[m.end() - 1:match_brace(body, m.end() - 1)]
            stm = [vlib.strip_lead(x) for x in split_statements(inner)]
            ptr = [x for x in stm if re.match(r"let (mut )?(out_ptr|lhs_ptr|rhs_ptr)\s*:", x)]
            rest = [x for x in stm if not re.match(r"let (mut )?(out_ptr|lhs_ptr|rhs_ptr)\s*:", x)]
            if len(ptr) != 3 or any("self." in x for x in rest):
                raise AnchorLost("solve(): expected the three pointer bindings out_ptr / lhs_ptr / rhs_ptr followed by statements over them")
            code = "\n  ".join(rest)
            code = re.sub(r"(\w+\.set)\s*==\s*(\w+\.set)\b", r"\1.set_eq(&\2)", code)
            code = re.sub(r"(\w+\.set)\s*!=\s*(\w+\.set)\b", r"!\1.set_eq(&\2)", code)
        except AnchorLost as e:
            plan.anchor_errors.append((name, str(e)))
            ob.status, ob.detail = "undecided", "anchor lost: %s" % e
            continue
        fn = "rel_%s" % rel_name
        items.append("""fn %s(out_ptr: &mut bool, lhs_ptr: &MechSet, rhs_ptr: &MechSet)
  requires lhs_ptr.wf(), rhs_ptr.wf(),
  ensures *final(out_ptr) == %s,
{
  proof {
    if lhs_ptr.set.view().subset_of(rhs_ptr.set.view()) { lemma_subset_len(lhs_ptr.set.view(), rhs_ptr.set.view()); }
    if rhs_ptr.set.view().subset_of(lhs_ptr.set.view()) { lemma_subset_len(rhs_ptr.set.view(), lhs_ptr.set.view()); }
  }
  %s
}
""" % (fn, spec, code))
        fns[fn] = name
    if fns:
        items.append(vlib.verus_canary("canary_rel", "x: u64", []))
        plan.verus.append(VerusUnit("c14_relations", vlib.verus_file(items), fns, ["canary_rel"]))
        plan.dropped.append(relations_unit.__doc__.strip())


def hash_order_unit(plan):
    """(X/K) body of `impl Hash for MechSet::hash`, verbatim except: `for x in self.set.iter() {` -> index loop over the insertion
    order; `std::collections::hash_map::DefaultHasher::new()` -> `ElemHasher::new()`; `x.hash(&mut h)` -> `x.hash_into(&mut h)`;
    `x.hash(state)` -> `x.hash_outer(state)`; `a.wrapping_add(b)` -> `wadd(a, b)`.  Contract: the outer hasher is fed exactly one
    word, wsum(ids), and wsum is proved invariant under permutation of the insertion order (lemma_hash_order_independent)."""
    from vlib import read_repo, VerusUnit, AnchorLost, find_code, match_brace, extract_fn
    name = "C14.hash_order.MechSet"
    ob = plan.ob(name, "verus", "proved", functions=["src/core/src/structures/set.rs: impl Hash for MechSet"],
                 what="MechSet::hash feeds the hasher one word that depends only on the multiset of element hashes, hence not on insertion order (Hash/Eq law for sets as set elements)")
    try:
        text = read_repo("src/core/src/structures/set.rs")
        m = find_code(text, r"impl\s+Hash\s+for\s+MechSet\s*\{")
        if not m:
            raise AnchorLost("impl Hash for MechSet not found")
        blk = text[m.start():match_brace(text, m.end() - 1)]
        sig, body = extract_fn(blk, "hash")
        b = re.sub(r"//[^\n]*", "", body).strip()
        b = b[1:-1]
        INV = ("    invariant state.fed@ == old(state).fed@, HAS_ACC,")
        LOOP = ("for k_ in 0..order.len()\n" + INV + "\n    { let x = &order[k_];\n"
                "      proof { lemma_wsum_step(ids(order@).subrange(0, k_ as int), x.id); assert(ids(order@).subrange(0, k_ as int + 1) =~= ids(order@).subrange(0, k_ as int).push(x.id)); }")
        b, n1 = re.subn(r"for\s+x\s+in\s+self\.set\.iter\(\)\s*\{", lambda m_: LOOP, b)
        b = b.replace("HAS_ACC", "acc as int == wsum(ids(order@).subrange(0, k_ as int))" if re.search(r"\blet\s+mut\s+acc\b", b) else "true")
        b = re.sub(r"std::collections::hash_map::DefaultHasher::new\(\)", "ElemHasher::new()", b)
        b = re.sub(r"\bx\.hash\(&mut\s+(\w+)\)", r"x.hash_into(&mut \1)", b)
        b = re.sub(r"\bx\.hash\(state\)", "x.hash_outer(state)", b)
        b = re.sub(r"\b(\w+)\.wrapping_add\(([^;]*)\);", r"wadd(\1, \2);", b)
        if n1 != 1 or "self." in b:
            raise AnchorLost("MechSet::hash no longer iterates `for x in self.set.iter()`")
    except AnchorLost as e:
        plan.anchor_errors.append((name, str(e)))
        ob.status, ob.detail = "undecided", "anchor lost: " + str(e)
        return
    fn = ("fn mechset_hash(order: &Vec<Elem>, state: &mut OuterHasher)\n"
          "  ensures final(state).fed@ == old(state).fed@.push(Fed::Word(wsum(ids(order@)) as u64)),\n{\n"
          "  proof { assert(ids(order@).subrange(0, 0) =~= Seq::<int>::empty()); assert(usum(Seq::<int>::empty()) == 0); }\n"
          + b + "\n  proof { assert(ids(order@).subrange(0, order@.len() as int) =~= ids(order@)); }\n}\n")
    items = [open(os.path.join(VERIF, "contracts", "C14", "hash_lemmas.rs")).read(), fn, vlib.verus_canary("canary_hash", "x: u64", [])]
    text = vlib.verus_file(items, prelude="use vstd::multiset::*;\nuse vstd::seq_lib::*;\n")
    plan.verus.append(VerusUnit("c14_hash_order", text, {"mechset_hash": name}, ["canary_hash"]))
    plan.dropped.append(hash_order_unit.__doc__.strip())
    plan.assumptions.append("C14.hash_order: a fresh DefaultHasher fed with one element finishes with a value that depends only on the element (eh), in 0..2^64 (admitted range axiom); IndexSet iterates in insertion order")


def membership_unit(plan):
    """element_of / not_element_of kernels (machines/set/src/membership): statements of solve() after the three pointer bindings
    (out_ptr, elem_ptr, set_ptr), verbatim; postcondition = mathematical membership (for a well-formed set: all elements of the set's kind)"""
    from vlib import read_repo, extract_fn, split_statements, VerusUnit, AnchorLost, find_code, match_brace
    items, fns = [SET_PRELUDE], {}
    for nm, spec in (("element_of", "set_ptr.set.view().contains(elem_ptr.id)"), ("not_element_of", "!set_ptr.set.view().contains(elem_ptr.id)")):
        rel = "machines/set/src/membership/%s.rs" % nm
        name = "C14.membership.%s" % nm
        ob = plan.ob(name, "verus", "proved", functions=[rel + ": solve"], what="out == (elem %s set) for a well-formed set (under the assumed IndexSet specification)" % ("in" if nm == "element_of" else "not in"))
        try:
            text = read_repo(rel)
            sig, body = extract_fn(text, "solve")
            m = find_code(body, r"unsafe\s*\{")
            if not m:
                raise AnchorLost("solve() has no unsafe block")
            inner = body[m.end() - 1:match_brace(body, m.end() - 1)]
            stm = [vlib.strip_lead(x) for x in split_statements(inner)]
            ptr = [x for x in stm if re.match(r"let (mut )?(out_ptr|elem_ptr|set_ptr)\s*:", x)]
            rest = [x for x in stm if not re.match(r"let (mut )?(out_ptr|elem_ptr|set_ptr)\s*:", x)]
            if len(ptr) != 3 or any("self." in x for x in rest):
                raise AnchorLost("solve(): expected the three pointer bindings out_ptr / elem_ptr / set_ptr")
        except AnchorLost as e:
            plan.anchor_errors.append((name, str(e)))
            ob.status, ob.detail = "undecided", "anchor lost: %s" % e
            continue
        fn = "mem_%s" % nm
        items.append("""fn %s(out_ptr: &mut bool, elem_ptr: &Value, set_ptr: &MechSet)
  requires set_ptr.wf(),
  ensures *final(out_ptr) == %s,
{
  %s
}
""" % (fn, spec, "\n  ".join(rest)))
        fns[fn] = name
    if fns:
        items.append(vlib.verus_canary("canary_mem", "x: u64", []))
        plan.verus.append(VerusUnit("c14_membership", vlib.verus_file(items), fns, ["canary_mem"]))
        plan.dropped.append(membership_unit.__doc__.strip())


CTOR_MODEL = """
impl IndexSet {
  #[verifier::external_body] pub fn new() -> (r: IndexSet) ensures r.view() == Set::<int>::empty() { unimplemented!() }
  #[verifier::external_body] pub fn insert(&mut self, v: Value) -> (b: bool) ensures final(self).view() == old(self).view().insert(v.id), old(self).view().finite() ==> final(self).view().finite() { unimplemented!() }
}
// `for v in vec { .. }` moves the elements out one by one: element i of the consumed vector
#[verifier::external_body] pub fn vec_take(vec: &Vec<Value>, i: usize) -> (v: Value) requires i < vec@.len(), ensures v == vec@[i as int] { unimplemented!() }
// the set of the identities of a list of elements
pub open spec fn ids(s: Seq<Value>) -> Set<int> decreases s.len() { if s.len() == 0 { Set::<int>::empty() } else { ids(s.drop_last()).insert(s.last().id) } }
pub open spec fn one_kind(s: Set<int>) -> bool { forall|a: int, b: int| #![auto] s.contains(a) && s.contains(b) ==> kind_of(a) == kind_of(b) }
"""


def constructors_unit(plan):
    """MechSet::from_vec and MechSet::from_set (src/core/src/structures/set.rs), whole bodies verbatim except: `for v in vec {` ->
    `for i_ in 0..vec.len() { let v = vec_take(&vec, i_);` (consuming iteration); `MechSet{ kind, num_elements: .., set}` kept.
    ConvertMatToSet::solve (src/interpreter/src/stdlib/convert/scalar.rs): its last statement `*self.out.borrow_mut() = MechSet::from_vec(converted_values);`
    whole: `matrix_to_values(&self.arg).unwrap_or_default()` -> `matrix_values_or_empty(arg)`, the element loop
    `xs.into_iter().map(|value| { value.convert_to(&self.target_kind).unwrap_or_else(|| panic!(..)) }).collect::<Vec<_>>()` -> `convert_each(xs, target_kind)?` (a named stand-in:
    ALL elements, in order, a missing conversion = failure), `*self.out.borrow_mut() =` -> `*out =`; the arm of impl_conversion_fxn for a set target kind likewise
    (`.map(|value| value.convert_to(target_kind)).collect::<Option<Vec<_>>>()` -> `convert_each(..)`, the boxed ConvertMatToSet -> a record holding `out`)."""
    from vlib import read_repo, extract_fn, VerusUnit, AnchorLost, find_code
    text = read_repo("src/core/src/structures/set.rs")
    items, fns = [SET_PRELUDE, CTOR_MODEL], {}
    WHAT = "the set holds exactly the (distinct) elements given; its reported size is its number of elements; if the elements are of one kind that kind is the set's kind (Empty when empty)"
    # from_vec
    n1 = "C14.constructor.MechSet.from_vec"
    plan.ob(n1, "verus", "proved", functions=["src/core/src/structures/set.rs: MechSet::from_vec"], what=WHAT)
    try:
        sig, body = extract_fn(text, "from_vec")
        b = re.sub(r"//[^\n]*", "", body)
        b, n = re.subn(r"for\s+(\w+)\s+in\s+vec\s*\{", lambda m: "for i_ in 0..vec.len()\n    invariant set.view().finite(), set.view() == ids(vec@.subrange(0, i_ as int)),\n  { let %s = vec_take(&vec, i_); proof { assert(vec@.subrange(0, i_ + 1).drop_last() =~= vec@.subrange(0, i_ as int)); assert(vec@.subrange(0, i_ + 1).last() == vec@[i_ as int]); }" % m.group(1), b)
        if n != 1:
            raise AnchorLost("from_vec: `for v in vec {` not found")
        b = b.replace("IndexSet::new()", "IndexSet::new()")
        # proof that the prefix is the whole vector, placed before the kind computation
        b = re.sub(r"(let\s+kind\s*=)", r"proof { assert(vec@.subrange(0, vec@.len() as int) =~= vec@); }\n    \1", b, count=1)
        items.append("impl MechSet {\npub fn from_vec(vec: Vec<Value>) -> (r: MechSet)\n  ensures r.set.view() == ids(vec@), r.set.view().finite(), r.num_elements == r.set.view().len(), one_kind(ids(vec@)) ==> r.wf(),\n" + b + "\n}\n")
        fns["from_vec"] = n1
    except AnchorLost as e:
        plan.anchor_errors.append((n1, str(e)))
    # from_set
    n2 = "C14.constructor.MechSet.from_set"
    plan.ob(n2, "verus", "proved", functions=["src/core/src/structures/set.rs: MechSet::from_set"], what=WHAT)
    try:
        sig, body = extract_fn(text, "from_set")
        b = re.sub(r"//[^\n]*", "", body)
        items.append("impl MechSet {\npub fn from_set(set: IndexSet) -> (r: MechSet)\n  requires set.view().finite(),\n  ensures r.set.view() == set.view(), r.num_elements == r.set.view().len(), one_kind(set.view()) ==> r.wf(),\n" + b + "\n}\n")
        fns["from_set"] = n2
    except AnchorLost as e:
        plan.anchor_errors.append((n2, str(e)))
    # ConvertMatToSet::solve (whole) and the arm of impl_conversion_fxn that builds it
    items.append(CONV_SET_MODEL)
    n3 = "C14.constructor.ConvertMatToSet.solve"
    plan.ob(n3, "verus", "proved", functions=["src/interpreter/src/stdlib/convert/scalar.rs: ConvertMatToSet::solve (whole body)"],
            what="converting a matrix to a set converts EVERY element (an element with no conversion is a panic = error, never skipped) and stores the set of exactly the distinct converted elements, with reported size == number of elements")
    ctext = re.sub(r"//[^\n]*", "", read_repo("src/interpreter/src/stdlib/convert/scalar.rs")).replace("\r", "")
    try:
        m = find_code(ctext, r"impl\s+MechFunctionImpl\s+for\s+ConvertMatToSet\s*\{")
        if not m:
            raise AnchorLost("impl MechFunctionImpl for ConvertMatToSet not found")
        sig, body = extract_fn(ctext[m.start():vlib.match_brace(ctext, m.end() - 1)], "solve")
        bb = body.strip()[1:-1]
        bb, k1 = re.subn(r"matrix_to_values\(\s*&self\.arg\s*\)\s*\.unwrap_or_default\(\)", "matrix_values_or_empty(arg)", bb)
        bb, k2 = re.subn(r"(\w+)\s*\.into_iter\(\)\s*\.map\(\s*\|value\|\s*\{\s*value\s*\.convert_to\(\s*&self\.target_kind\s*\)\s*\.unwrap_or_else\(\s*\|\|\s*panic!\([^;]*?\)\s*\)\s*\}\s*\)\s*\.collect(?:::<Vec<_>>)?\(\)",
                         r"convert_each(\1, target_kind)?", bb)
        bb, k2b = re.subn(FILTER_MAP_RX % r"&self\.target_kind", r"convert_present(\1, target_kind)", bb)       # std filter_map: the elements that have a conversion, in order
        k2 += k2b
        bb, k3 = re.subn(r"\*self\.out\.borrow_mut\(\)\s*=", "*out =", bb)
        if (k1, k2, k3) != (1, 1, 1) or re.search(r"\b(self|iter|into_iter|map|filter|filter_map|collect)\b", bb):
            raise AnchorLost("ConvertMatToSet::solve: the body is outside the transcription rules %r" % ((k1, k2, k3),))
        items.append("fn convert_mat_to_set_solve(arg: &MatArg, target_kind: &TargetKind, out: &mut MechSet) -> (res: Option<()>)\n"
                     "  ensures (match conv_all(mvals(*arg), *target_kind) {\n"
                     "      Some(cs) => res is Some && final(out).set.view() == ids(cs) && final(out).set.view().finite() && final(out).num_elements == final(out).set.view().len() && (one_kind(ids(cs)) ==> final(out).wf()),\n"
                     "      None => res is None }),\n{\n" + bb + "\n  Some(())\n}\n")
        fns["convert_mat_to_set_solve"] = n3
    except AnchorLost as e:
        plan.anchor_errors.append((n3, str(e)))
    n4 = "C14.constructor.impl_conversion_fxn.matrix_to_set_arm"
    plan.ob(n4, "verus", "proved", functions=["src/interpreter/src/stdlib/convert/scalar.rs: impl_conversion_fxn (the arm for a set target kind)"],
            what="a matrix annotated with a set kind becomes the set of ALL its converted elements when every element has a conversion; when some element has none this arm builds nothing (the annotation is an error further down), it never drops the element")
    try:
        m = find_code(ctext, r"\(\s*source\s*,\s*Value::Kind\(\s*ValueKind::Set\(\s*target_kind\s*,\s*_\s*\)\s*\)\s*\)\s*=>\s*\{")
        if not m:
            raise AnchorLost("impl_conversion_fxn: the arm `(source, Value::Kind(ValueKind::Set(target_kind, _)))` not found")
        arm = ctext[m.end():vlib.match_brace(ctext, m.end() - 1) - 1]
        arm, k1 = re.subn(r"(\w+)\s*\.into_iter\(\)\s*\.map\(\s*\|value\|\s*value\.convert_to\(\s*target_kind\s*\)\s*\)\s*\.collect::<Option<Vec<_>>>\(\)", r"convert_each(\1, target_kind)", arm)
        arm, k1b = re.subn(FILTER_MAP_RX % "target_kind", r"convert_present(\1, target_kind)", arm)
        k1 += k1b
        arm, k2 = re.subn(r"return\s+Ok\(\s*Box::new\(\s*ConvertMatToSet\s*\{\s*arg\s*:\s*source_value\.clone\(\)\s*,\s*target_kind\s*:\s*target_kind\.as_ref\(\)\.clone\(\)\s*,\s*out\s*:\s*Ref::new\(", "return Some(ConvertMatToSetM { out: (", arm)
        arm, k3 = re.subn(r"\)\s*,\s*\}\s*\)\s*\)\s*;", ") });", arm)
        if (k1, k2, k3) != (1, 1, 1) or re.search(r"\b(iter|into_iter|map|filter|filter_map|collect|Box|Ref)\b", arm):
            raise AnchorLost("impl_conversion_fxn: the set arm is outside the transcription rules %r" % ((k1, k2, k3),))
        items.append("fn matrix_to_set_arm(source: &MatArg, target_kind: &TargetKind) -> (res: Option<ConvertMatToSetM>)\n"
                     "  ensures (match mvals_opt(*source) {\n"
                     "      Some(vs) => match conv_all(vs, *target_kind) {\n"
                     "          Some(cs) => res matches Some(f) && f.out.set.view() == ids(cs) && f.out.num_elements == f.out.set.view().len(),\n"
                     "          None => res is None },\n"
                     "      None => res is None }),\n{\n" + arm + "\n  None\n}\n")
        fns["matrix_to_set_arm"] = n4
    except AnchorLost as e:
        plan.anchor_errors.append((n4, str(e)))
    if fns:
        items.append(vlib.verus_canary("canary_ctor", "x: u64", []))
        plan.verus.append(VerusUnit("c14_constructors", vlib.verus_file(items), fns, ["canary_ctor"]))
        plan.dropped.append(constructors_unit.__doc__.strip())


FILTER_MAP_RX = r"(\w+)\s*\.into_iter\(\)\s*\.filter_map\(\s*\|value\|\s*value\.convert_to\(\s*%s\s*\)\s*\)\s*\.collect(?:::<Vec<_>>)?\(\)"
CONV_SET_MODEL = """
// std's filter_map over the same closure: only the elements that HAVE a conversion, in order (not what the code uses; named so that such a rewrite is judged, not lost)
pub open spec fn conv_some(s: Seq<Value>, k: TargetKind) -> Seq<Value> decreases s.len() {
  if s.len() == 0 { Seq::empty() } else { match conv(s.last(), k) { Some(c) => conv_some(s.drop_last(), k).push(c), None => conv_some(s.drop_last(), k) } }
}
#[verifier::external_body]
pub fn convert_present(values: Vec<Value>, k: &TargetKind) -> (r: Vec<Value>) ensures r@ == conv_some(values@, *k), { unimplemented!() }

// matrix -> set conversion: the source matrix and the target kind are opaque; `conv(element, kind)` is Value::convert_to (None = no conversion)
pub struct MatArg { pub id: int }
pub struct TargetKind { pub id: int }
pub struct ConvertMatToSetM { pub out: MechSet }
pub uninterp spec fn mvals_opt(a: MatArg) -> Option<Seq<Value>>;                   // matrix_to_values (None = not a matrix)
pub open spec fn mvals(a: MatArg) -> Seq<Value> { match mvals_opt(a) { Some(s) => s, None => Seq::empty() } }     // .unwrap_or_default()
pub uninterp spec fn conv(v: Value, k: TargetKind) -> Option<Value>;
// every element converted, in order; None as soon as one element has no conversion
pub open spec fn conv_all(s: Seq<Value>, k: TargetKind) -> Option<Seq<Value>> decreases s.len() {
  if s.len() == 0 { Some(Seq::empty()) } else {
    match (conv_all(s.drop_last(), k), conv(s.last(), k)) { (Some(cs), Some(c)) => Some(cs.push(c)), _ => None }
  }
}
#[verifier::external_body]
pub fn matrix_values_or_empty(a: &MatArg) -> (r: Vec<Value>) ensures r@ == mvals(*a), { unimplemented!() }
#[verifier::external_body]
pub fn matrix_to_values(a: &MatArg) -> (r: Option<Vec<Value>>) ensures (match r { Some(v) => mvals_opt(*a) == Some(v@), None => mvals_opt(*a) is None }), { unimplemented!() }
// `xs.into_iter().map(|value| value.convert_to(kind) ..).collect()`: ALL elements, in order (the panic / the Option-collect make a missing conversion a failure)
#[verifier::external_body]
pub fn convert_each(values: Vec<Value>, k: &TargetKind) -> (r: Option<Vec<Value>>)
  ensures (match r { Some(v) => conv_all(values@, *k) == Some(v@), None => conv_all(values@, *k) is None }),
{ unimplemented!() }
"""


COMP_MODEL = """
// model for `set_comprehension` (src/interpreter/src/expressions.rs, whole body): the qualifiers yield a list of environments (uninterpreted), the
// element expression is evaluated once per environment, in order; the values go to the native function registered as "set/comprehension"
#[derive(Clone, Copy, PartialEq, Eq, Structural)]
pub struct Value { pub id: u64 }
#[derive(Clone, Copy, PartialEq, Eq, Structural)]
pub struct Environment { pub id: u64 }
pub struct Expression { pub id: u64 }
pub struct Qualifiers { pub id: u64 }
pub struct SetComprehension { pub qualifiers: Qualifiers, pub expression: Expression, pub id: u64 }
pub struct MechError { pub id: u64 }
#[derive(Clone, Copy)]
pub struct Compiler { pub id: u64 }
pub struct Interpreter { pub id: u64, pub log: Ghost<Seq<Environment>> }      // the environments the element expression was evaluated in
pub uninterp spec fn envs_of(q: Qualifiers, cid: u64, p: u64) -> Option<(Seq<Environment>, u64)>;   // comprehension_environments (None = error)
pub uninterp spec fn ev(e: Expression, env: Environment, p: u64) -> Option<Value>;
pub uninterp spec fn compiler_of(p: u64, name: u64) -> Option<Compiler>;
pub uninterp spec fn run_native(c: Compiler, values: Seq<Value>, p: u64) -> Option<Value>;
pub uninterp spec fn comp_id(c: u64) -> u64;
pub uninterp spec fn set_comprehension_name() -> u64;                         // hash_str("set/comprehension")
#[verifier::external_body]
pub fn debug_hash_comp(c: &SetComprehension) -> (r: u64) ensures r == comp_id(c.id), { unimplemented!() }
#[verifier::external_body]
pub fn hash_name() -> (r: u64) ensures r == set_comprehension_name(), { unimplemented!() }
#[verifier::external_body]
pub fn comprehension_environments(q: &Qualifiers, cid: u64, p: &Interpreter) -> (r: Result<(Vec<Environment>, Interpreter), MechError>)
  ensures (match r { Ok((es, np)) => envs_of(*q, cid, p.id) == Some((es@, np.id)) && np.log@.len() == 0, Err(_) => envs_of(*q, cid, p.id) is None }),
{ unimplemented!() }
#[verifier::external_body]
pub fn expression(e: &Expression, env: Option<&Environment>, p: &mut Interpreter) -> (r: Result<Value, MechError>)
  requires env is Some,
  ensures final(p).id == old(p).id, final(p).log@ == old(p).log@.push(*env.unwrap()),
    (match r { Ok(v) => ev(*e, *env.unwrap(), old(p).id) == Some(v), Err(_) => ev(*e, *env.unwrap(), old(p).id) is None }),
{ unimplemented!() }
#[verifier::external_body]
pub fn lookup_compiler(p: &Interpreter, name: &u64) -> (r: Option<Compiler>) ensures r == compiler_of(p.id, *name), { unimplemented!() }
#[verifier::external_body]
pub fn execute_native_function_compiler(c: Compiler, values: &Vec<Value>, p: &Interpreter) -> (r: Result<Value, MechError>)
  ensures (match r { Ok(v) => run_native(c, values@, p.id) == Some(v), Err(_) => run_native(c, values@, p.id) is None }),
{ unimplemented!() }
#[verifier::external_body]
pub fn vec_take_env(v: &Vec<Environment>, i: usize) -> (r: Environment) requires i < v@.len(), ensures r == v@[i as int], { unimplemented!() }
#[verifier::external_body]
pub fn missing_function_error(id: u64) -> (e: MechError) { unimplemented!() }
// the element values: the expression evaluated in environments 0..n, in order (None = some evaluation failed)
pub open spec fn elems(e: Expression, envs: Seq<Environment>, n: int, p: u64) -> Option<Seq<Value>> decreases n {
  if n <= 0 { Some(Seq::<Value>::empty()) } else { match elems(e, envs, n - 1, p) { None => None, Some(vs) => match ev(e, envs[n - 1], p) { None => None, Some(v) => Some(vs.push(v)) } } }
}
pub proof fn lemma_elems_none(e: Expression, envs: Seq<Environment>, n: int, m: int, p: u64)
  requires 0 <= n <= m, ensures elems(e, envs, n, p) is None ==> elems(e, envs, m, p) is None, decreases m - n,
{ if n < m { lemma_elems_none(e, envs, n, m - 1, p); } }
"""


def comprehension_unit(plan):
    """`set_comprehension` (src/interpreter/src/expressions.rs), whole body: `hash_str(&format!("{:?}", set_comp))` -> `debug_hash_comp(set_comp)`; `hash_str("set/comprehension")` -> `hash_name()`;
    `for env in envs {` -> index loop with `vec_take_env`; `&new_p` -> `&mut new_p` (ghost log); the block `{ functions.borrow().function_compilers.get(&id).copied() }` ->
    `lookup_compiler(p, &id)` and `let functions = p.functions();` dropped; error construction -> `missing_function_error(id)`"""
    from vlib import read_repo, extract_fn, VerusUnit, AnchorLost, find_code
    name = "C14.verus.set_comprehension.one_element_per_environment"
    plan.ob(name, "verus", "proved", functions=["src/interpreter/src/expressions.rs: set_comprehension (whole body)"],
            what="a set comprehension evaluates its element expression exactly once in every environment its qualifiers generate, in order, and hands exactly those values to the set constructor registered as set/comprehension (whose result -- a MechSet built by from_vec: C14.constructor.* -- is the value); a failing qualifier or element is an error")
    text = read_repo("src/interpreter/src/expressions.rs")
    sig, body = extract_fn(text, "set_comprehension")
    b = re.sub(r"//[^\n]*", "", body[body.index("{") + 1:body.rindex("}")]).replace("\r", "")
    b = vlib.canon_bindings(sig, b, ["set_comp", "p"], ['comprehension_id', 'envs', 'new_p', 'values', 'env', 'val', 'functions', 'set_define_id', 'set_define', 'compiler'])
    b, n0 = re.subn(r"hash_str\(\s*&format!\(\s*\"\{:\?\}\"\s*,\s*set_comp\s*\)\s*\)", "debug_hash_comp(set_comp)", b)
    b, n1 = re.subn(r"hash_str\(\s*\"set/comprehension\"\s*\)", "hash_name()", b)
    b = b.replace("let (envs, new_p) =", "let (envs, mut new_p) =")
    INV = ("        invariant new_p.id == np0, i_ <= envs@.len(), envs_of(set_comp.qualifiers, comp_id(set_comp.id), p.id) == Some((envs@, np0)),\n"
           "          new_p.log@ =~= envs@.subrange(0, i_ as int), elems(set_comp.expression, envs@, i_ as int, np0) == Some(values@),\n")
    b, n2 = re.subn(r"for\s+env\s+in\s+envs\s*\{", "let ghost np0 = new_p.id;\n    for i_ in 0..envs.len()\n" + INV + "    {\n        let env = vec_take_env(&envs, i_);\n        proof { reveal_with_fuel(elems, 2); lemma_elems_none(set_comp.expression, envs@, i_ + 1, envs@.len() as int, np0); assert(envs@.subrange(0, i_ + 1) =~= envs@.subrange(0, i_ as int).push(envs@[i_ as int])); }", b)
    b = b.replace("&new_p", "&mut new_p")
    b, n3 = re.subn(r"let\s+functions\s*=\s*p\.functions\(\)\s*;", "", b)
    m = re.search(r"let\s+set_define\s*=\s*\{", b)
    if not m or (n0, n1, n2, n3) != (1, 1, 1, 1):
        raise AnchorLost("set_comprehension: statements outside the transcription rules")
    e = vlib.match_brace(b, m.end() - 1)
    blk = b[m.end():e - 1]
    if not re.fullmatch(r"\s*functions\s*\.borrow\(\)\s*\.function_compilers\s*\.get\(\s*&set_define_id\s*\)\s*\.copied\(\)\s*", blk):
        raise AnchorLost("set_comprehension: the compiler lookup has an unexpected shape")
    b = b[:m.start()] + "proof { assert(envs@.subrange(0, envs@.len() as int) =~= envs@); }\n    let set_define = lookup_compiler(p, &set_define_id)" + b[e:]
    while True:
        mm = re.search(r"\bErr\s*\(\s*MechError::new\(", b)
        if not mm:
            break
        ee = vlib.match_brace(b, mm.start() + b[mm.start():].index("("), "(", ")")
        b = b[:mm.start()] + "Err(missing_function_error(set_define_id))" + b[ee:]
    ENS = """  ensures (match envs_of(set_comp.qualifiers, comp_id(set_comp.id), p.id) {
      None => res is Err,
      Some((envs, np)) => match elems(set_comp.expression, envs, envs.len() as int, np) {
        None => res is Err,
        Some(vals) => match compiler_of(p.id, set_comprehension_name()) {
          None => res is Err,
          Some(c) => (match res { Ok(v) => run_native(c, vals, p.id) == Some(v), Err(_) => run_native(c, vals, p.id) is None }),
        },
      },
    }),
"""
    fn = "fn set_comprehension(set_comp: &SetComprehension, p: &Interpreter) -> (res: Result<Value, MechError>)\n" + ENS + "{\n" + b + "\n}\n"
    plan.verus.append(VerusUnit("c14_comprehension", vlib.verus_file([COMP_MODEL, fn, vlib.verus_canary("canary_comp", "x: u64", [])]), {"set_comprehension": name}, ["canary_comp"]))
    plan.dropped.append(comprehension_unit.__doc__.strip())


def literal_unit(plan):
    """(F) the kind-homogeneity check of `set()` (src/interpreter/src/structures.rs): the statements from
    `let element_kind = ..` up to (excluding) the construction of the set, verbatim except `return Err(..)` -> `return None`
    and `for el in &elements` -> index loop; postcondition: the literal is accepted only if every element has the kind of the first"""
    from vlib import read_repo, extract_fn, VerusUnit, AnchorLost, find_code, match_brace
    name = "C14.literal.kind_homogeneity"
    ob = plan.ob(name, "verus", "proved", functions=["src/interpreter/src/structures.rs: set() (kind check fragment)"],
                 what="a set literal is accepted only if every element has exactly the kind of the first element (so that all elements have the set's element kind)")
    try:
        text = read_repo("src/interpreter/src/structures.rs")
        sig, body = extract_fn(text, "set")
        a = find_code(body, r"let\s+element_kind\s*=")
        b = find_code(body, r"#\[cfg\(feature\s*=\s*\"functions\"\)\]")
        if not a or not b or b.start() < a.start():
            raise AnchorLost("set(): `let element_kind =` .. `#[cfg(feature = \"functions\")]` region not found")
        frag = re.sub(r"//[^\n]*", "", body[a.start():b.start()])
        # return Err(..) -> return None
        while True:
            m = re.search(r"return\s+Err\s*\(", frag)
            if not m:
                break
            e = match_brace(frag, m.end() - 1, "(", ")")
            k = e
            while frag[k] in " \t\r\n":
                k += 1
            frag = frag[:m.start()] + "return None" + frag[k:]
        # std::mem::discriminant(X) -> (X).variant_()  (the variant only: of a kind, or of a value)
        while True:
            m = re.search(r"\bstd::mem::discriminant\(", frag)
            if not m:
                break
            e = match_brace(frag, m.end() - 1, "(", ")")
            frag = frag[:m.start()] + "(" + frag[m.end():e - 1] + ").variant_()" + frag[e:]
        # the check loop: `for el in &elements` / `elements.iter()` / `elements.iter().skip(N)` -> index `while` from N (a `while`, because a body may `continue`)
        def hdr(mm):
            start = mm.group(1) or "0"
            return ("let mut k_: usize = %s;\n  while k_ < elements.len()\n"
                    "    invariant k_ <= elements@.len() || elements@.len() < %s, forall|j: int| 0 <= j < k_ && j < elements@.len() ==> ValueKind::K(kind_of(#[trigger] elements@[j].id)) == element_kind,\n"
                    "    decreases elements@.len() - k_,\n  { let el = &elements[k_]; k_ += 1;" % (start, start))
        frag, n = re.subn(r"for\s+el\s+in\s+(?:&elements|elements\.iter\(\)(?:\.skip\((\d+)\))?)\s*\{", hdr, frag)
        if n != 1 or "Err(" in frag:
            raise AnchorLost("set(): the kind-check loop `for el in &elements` not found")
    except AnchorLost as e:
        plan.anchor_errors.append((name, str(e)))
        ob.status, ob.detail = "undecided", "anchor lost: %s" % e
        return
    fn = """fn set_kind_check(elements: &Vec<Value>) -> (res: Option<()>)
  ensures res.is_some() ==> (forall|j: int| 0 <= j < elements@.len() ==> kind_of(#[trigger] elements@[j].id) == kind_of(elements@[0].id)),
{
  %s
  Some(())
}
""" % frag.strip()
    VARIANTS = """
pub uninterp spec fn variant_of(id: int) -> u64;          // which Value variant an element is (std::mem::discriminant)
impl Value { #[verifier::external_body] pub fn variant_(&self) -> (r: u64) ensures r == variant_of(self.id) { unimplemented!() } }
impl ValueKind { #[verifier::external_body] pub fn variant_(&self) -> (r: u64) ensures r == (match self { ValueKind::Empty => 0u64, ValueKind::K(_) => 1u64 }) { unimplemented!() } }
"""
    items = [SET_PRELUDE, VARIANTS, fn, vlib.verus_canary("canary_lit", "x: u64", [])]
    plan.verus.append(VerusUnit("c14_literal", vlib.verus_file(items), {"set_kind_check": name}, ["canary_lit"]))
    plan.dropped.append(literal_unit.__doc__.strip())


def plan(plan, tier, seed):
    try:
        literal_unit(plan)
    except Exception as e:
        plan.anchor_errors.append(("C14.literal.*", repr(e)))
    try:
        comprehension_unit(plan)
    except Exception as e:
        plan.anchor_errors.append(("C14.verus.set_comprehension.one_element_per_environment", repr(e)))
    try:
        constructors_unit(plan)
    except Exception as e:
        plan.anchor_errors.append(("C14.constructor.*", repr(e)))
    try:
        membership_unit(plan)
    except Exception as e:
        plan.anchor_errors.append(("C14.membership.*", repr(e)))
    try:
        hash_order_unit(plan)
    except Exception as e:
        plan.anchor_errors.append(("C14.hash_order.*", repr(e)))
    try:
        metadata_unit(plan)
    except Exception as e:
        plan.anchor_errors.append(("C14.metadata.*", str(e)))
    try:
        relations_unit(plan)
    except Exception as e:
        plan.anchor_errors.append(("C14.relation.*", repr(e)))
    with open(os.path.join(VERIF, "contracts", "C14", "kani_hash.rs")) as f:
        text = f.read()
    plan.harness_files[os.path.join(GEN, "C14", "kani_hash.rs")] = text
    hmap = {}
    for m in re.finditer(r"pub\(crate\) fn (vkc14_\w+)\(\)", text):
        h = m.group(1)
        hmap[h] = plan.ob("C14." + h[len("vkc14_"):].replace("hasheq_", "hash_eq_law."), "kani", "proved",
                          functions=["impl Hash for Value", "derive(PartialEq) for Value", "impl PartialEq for Ref<T>"],
                          what="for all values a, b of the kind: a == b implies the hasher is fed identical bytes")
    from units import fallback
    sites = []
    for op, fn in [("union", "set_union_fxn"), ("intersection", "set_intersection_fxn"), ("difference", "set_difference_fxn"),
                   ("symmetric_difference", "set_symmetric_difference_fxn")]:
        sites.append((op, "machines/set/src/operations/%s.rs" % op, r"impl NativeFunctionCompiler for \w+", r"\w+_fxn"))
    fallback.unit(plan, "C14", sites)
    plan.kani.append(dict(package="mech-core", filters=["vkc14_"], harness=hmap, timeout=3000, replay_entry="vkreplay_c14"))
    plan.functions += ["src/core/src/value.rs: impl Hash for Value vs derived PartialEq (scalar variants)"]
    plan.trusted += ["Kani / CBMC", "indexmap::IndexSet implements set semantics given a lawful Hash/Eq (assumed contract of the dependency)",
                     "std Hash impls of the primitive kinds feed the value's bytes (executed under Kani)"]
    plan.assumptions += ["set algebra (union, intersection, difference, symmetric difference, subset relations, membership) is a single call into indexmap in every solve(); hash containers cannot be executed under CBMC (P12), so the algebra is the dependency's assumed contract",
                         "String, tuple, nested-set, rational elements: not covered by the law harnesses yet"]
    plan.undecided_clauses += ["C14: that indexmap implements the set algebra (assumed), insert/remove, the evaluation of the element expressions of a set literal / the generators of a comprehension (their results are inputs of the contracts), mixed-kind operands beyond the metadata clause"]
    plan.level = "proof"
