"""C14 — sets.  The Hash/Eq law of Value (what makes IndexSet<Value> keep distinct
elements) under Kani with a recording hasher; the algebra itself is indexmap's."""
import os, re
import vlib
from vlib import GEN, VERIF


def harness_modules():
    return [dict(crate="mech-core", file="src/value.rs", mod="verif_c14", gen="C14/kani_hash.rs")]


def plan(plan, tier, seed):
    with open(os.path.join(VERIF, "contracts", "C14", "kani_hash.rs")) as f:
        text = f.read()
    plan.harness_files[os.path.join(GEN, "C14", "kani_hash.rs")] = text
    hmap = {}
    for m in re.finditer(r"pub\(crate\) fn (vkc14_\w+)\(\)", text):
        h = m.group(1)
        hmap[h] = plan.ob("C14." + h[len("vkc14_"):].replace("hasheq_", "hash_eq_law."), "kani", "proved",
                          functions=["impl Hash for Value", "derive(PartialEq) for Value", "impl PartialEq for Ref<T>"],
                          what="for all values a, b of the kind: a == b implies the hasher is fed identical bytes")
    plan.kani.append(dict(package="mech-core", filters=["vkc14_"], harness=hmap, timeout=3000, replay_entry="vkreplay_c14"))
    plan.functions += ["src/core/src/value.rs: impl Hash for Value vs derived PartialEq (scalar variants)"]
    plan.trusted += ["Kani / CBMC", "indexmap::IndexSet implements set semantics given a lawful Hash/Eq (assumed contract of the dependency)",
                     "std Hash impls of the primitive kinds feed the value's bytes (executed under Kani)"]
    plan.assumptions += ["set algebra (union, intersection, difference, symmetric difference, subset relations, membership) is a single call into indexmap in every solve(); hash containers cannot be executed under CBMC (P12), so the algebra is the dependency's assumed contract",
                         "String, tuple, nested-set, rational elements: not covered by the law harnesses yet"]
    plan.undecided_clauses += ["C14: set algebra vs mathematical definitions, metadata (num_elements, kind) refresh in every operation, comprehension semantics, order independence"]
    plan.level = "proof"
