"""C16 — function match arms: Verus contract on the arm loop of execute_function_match_arms and on the arity guard of
execute_user_function (units/vC16.py)."""
import vlib
from vlib import VerusUnit, AnchorLost


def plan(plan, tier, seed):
    from units import vC16
    text = vlib.read_repo(vC16.PATH)
    n1 = "C16.verus.execute_function_match_arms.first_matching_arm"
    plan.ob(n1, "verus", "proved", functions=["execute_function_match_arms (the arm loop, from `for (arm_idx, arm) in ..` to the end)"],
            what="for every arm list, argument list, matcher and evaluator: the arms are tested in source order, each once, up to the first whose pattern does not answer 'no match'; only that arm's expression (or the arguments of its tail call) is evaluated, under the bindings of its pattern; the result is its coerced value, or a tail call exactly when the body is a call of the same function with the declared arity; no arm matching is an error")
    try:
        unit = vlib.verus_file([vC16._model(), vC16.arm_fn(text), vlib.verus_canary("canary_arms", "x: u64", [])])
        plan.verus.append(VerusUnit("c16_arms", unit, {"execute_function_match_arms": n1}, ["canary_arms"]))
    except AnchorLost as e:
        plan.anchor_errors.append((n1, str(e)))
    n2 = "C16.verus.execute_user_function.arity_guard"
    plan.ob(n2, "verus", "proved", functions=["execute_user_function (statements before the broadcast attempt)"],
            what="a call with a number of arguments different from the declared inputs is rejected before anything is bound or evaluated")
    try:
        unit = vlib.verus_file([vC16._model(), vC16.arity_fn(text), vlib.verus_canary("canary_arity", "x: u64", [])])
        plan.verus.append(VerusUnit("c16_arity", unit, {"execute_user_function_arity_guard": n2}, ["canary_arity"]))
    except AnchorLost as e:
        plan.anchor_errors.append((n2, str(e)))
    n3 = "C16.verus.match_expression.exhaustiveness_guard"
    plan.ob(n3, "verus", "proved", functions=["match_expression (the wildcard / exhaustiveness statement)"],
            what="a match expression passes its first check only if some arm is a wildcard or the enum inference reports no missing variant; a match with a wildcard arm is never rejected by it")
    try:
        feats = vC16.default_features(vlib.read_repo("src/interpreter/Cargo.toml"))
        etext = vlib.read_repo("src/interpreter/src/expressions.rs")
        unit = vlib.verus_file([vC16.GUARD_MODEL, vC16.guard_fn(etext, feats), vlib.verus_canary("canary_guard", "x: u64", [])])
        plan.verus.append(VerusUnit("c16_guard", unit, {"match_exhaustiveness_guard": n3}, ["canary_guard"]))
    except AnchorLost as e:
        plan.anchor_errors.append((n3, str(e)))
    n4 = "C16.verus.match_expression.first_matching_arm"
    plan.ob(n4, "verus", "proved", functions=["match_expression (the arm loop, from `for (arm_ix, arm) in ..` to the end)"],
            what="for every arm list, source value, environment, matcher, guard evaluator and expression evaluator: the result is the value of the body of the first arm, in source order, whose pattern matches the source and whose guard is true, evaluated under the bindings of its pattern (subject to the arm-kind validation); no other body is evaluated and no later arm is tested; a failing test is an error; no arm taken is an error")
    try:
        unit = vlib.verus_file([vC16._match_model(), vC16.match_arms_fn(etext, feats), vlib.verus_canary("canary_match", "x: u64", [])])
        plan.verus.append(VerusUnit("c16_match", unit, {"match_arms": n4}, ["canary_match"]))
    except AnchorLost as e:
        plan.anchor_errors.append((n4, str(e)))
    n6 = "C16.verus.execute_user_function.tail_call_loop_is_the_recurrence"
    plan.ob(n6, "verus", "proved", functions=["execute_user_function (the tail-call loop of the match-arm branch)"],
            what="for every behaviour of the arms: if the call returns a value, that value is what the recurrence defines -- there is a chain of argument lists starting with the call's arguments, each bound in a fresh scope and each being the tail call the arms made on the previous one, whose last element's arms return that value (any depth; no stack growth); every round closes the scope it opened.  Partial correctness: termination is not claimed")
    try:
        plan.verus.append(VerusUnit("c16_tail", vC16.tail_unit(text), {"tail_call_loop": n6}, ["canary_tail"]))
    except AnchorLost as e:
        plan.anchor_errors.append((n6, str(e)))
    plan.dropped.append(vC16.tail_loop_fn.__doc__.strip())
    n12 = "C16.verus.execute_user_function.plain_body_statements_in_order"
    plan.ob(n12, "verus", "proved", functions=["execute_user_function (the plain statement-body branch)"],
            what="a function with a statement body returns a value only when its inputs were bound, every statement of the body succeeded -- each evaluated exactly once, in source order -- and the declared outputs were collected from the state the statements left; the scope opened for the call is closed again")
    try:
        plan.verus.append(VerusUnit("c16_plain", vC16.plain_unit(text), {"plain_body": n12}, ["canary_plain"]))
    except AnchorLost as e:
        plan.anchor_errors.append((n12, str(e)))
    plan.dropped.append(vC16.plain_body_fn.__doc__.strip())
    n7 = "C16.verus.pattern_matches_value.variable_patterns_bind_or_compare"
    plan.ob(n7, "verus", "proved", functions=["src/interpreter/src/patterns.rs: pattern_matches_value_with_semantics (the arms for a variable pattern: `Expression::Var` and a variable wrapped in an expression)"],
            what="for every environment of bindings made so far and every matched part: an unbound pattern variable matches and is bound to exactly that part (nothing else in the environment changes); a variable already bound (repeated in the pattern) matches iff the part equals its binding, and is not rebound; any other expression pattern is evaluated under the bindings made so far and matches iff its value matches the part (option-guard semantics: a boolean value is the answer), binding nothing")
    try:
        utext, fns = vC16.varpat_unit(vlib.read_repo(vC16.PPATH), feats)
        plan.verus.append(VerusUnit("c16_varpat", utext, {f: n7 for f in fns}, ["canary_varpat"]))
    except AnchorLost as e:
        plan.anchor_errors.append((n7, str(e)))
    plan.dropped.append(vC16.varpat_fns.__doc__.strip())
    n8 = "C16.verus.pattern_matches_arguments.tuple_patterns_elementwise_in_one_environment"
    plan.ob(n8, "verus", "proved", functions=["src/interpreter/src/patterns.rs: pattern_matches_arguments (whole body)", "pattern_matches_value_with_semantics (the arm for a tuple pattern)"],
            what="for every pattern, value list, environment and every behaviour of the matcher on single (pattern, value) pairs: one argument is matched against the pattern itself; several arguments (and a tuple value) match a tuple pattern iff there are as many element patterns as values and every element pattern matches its value, tested left to right in ONE environment, ending at the first element that does not match or fails; anything else does not match")
    try:
        utext, fns = vC16.tuplepat_unit(vlib.read_repo(vC16.PPATH), feats)
        plan.verus.append(VerusUnit("c16_tuplepat", utext, {f: n8 for f in fns}, ["canary_tuplepat"]))
    except AnchorLost as e:
        plan.anchor_errors.append((n8, str(e)))
    plan.dropped.append(vC16.tuplepat_fns.__doc__.strip())
    n9 = "C16.verus.pattern_matches_value.array_patterns_prefix_suffix_spread"
    plan.ob(n9, "verus", "proved", functions=["src/interpreter/src/patterns.rs: pattern_matches_value_with_semantics (the arm for an array pattern)"],
            what="for every array pattern, value, environment and every behaviour of the matcher on single pairs: an array pattern matches a matrix-like value iff the value has at least |prefix| + |suffix| elements (exactly that many without a spread), the prefix patterns match the first elements, the suffix patterns the last ones and the spread's binding the elements in between, tested in that order in one environment; a value that is not matrix-like does not match")
    try:
        plan.verus.append(VerusUnit("c16_arraypat", vC16.arraypat_unit(vlib.read_repo(vC16.PPATH), feats), {"array_arm": n9}, ["canary_arraypat"]))
    except AnchorLost as e:
        plan.anchor_errors.append((n9, str(e)))
    plan.dropped.append(vC16.arraypat_fn.__doc__.strip())
    n10 = "C16.verus.pattern_matches_value.tuple_struct_patterns"
    plan.ob(n10, "verus", "proved", functions=["src/interpreter/src/patterns.rs: pattern_matches_value_with_semantics (the arm for a tuple-struct pattern `:Name(..)`)"],
            what="`:Name(p1, .., pn)` matches an enum value holding exactly the variant Name whose payload (if any) matches the single element pattern, or a tuple whose first element is the atom :Name and whose remaining n elements match p1 .. pn left to right in one environment; nothing else matches (this is also how a state machine's state patterns select an arm, C17)")
    try:
        plan.verus.append(VerusUnit("c16_tspat", vC16.tspat_unit(vlib.read_repo(vC16.PPATH), feats), {"tuple_struct_arm": n10}, ["canary_tspat"]))
    except AnchorLost as e:
        plan.anchor_errors.append((n10, str(e)))
    plan.dropped.append(vC16.tspat_fn.__doc__.strip())
    n11 = "C16.verus.pattern_matches_value.dispatch_by_pattern_kind"
    plan.ob(n11, "verus", "proved", functions=["src/interpreter/src/patterns.rs: pattern_matches_value_with_semantics (the dispatch; arm blocks replaced by their stand-ins)"],
            what="the wildcard matches anything and leaves the environment alone; a pattern of every other kind is matched against the DETACHED value by the arm of its own kind (tuple, array, expression / variable, tuple-struct), whose result and environment are returned unchanged; a pattern kind that is not enabled is an error")
    try:
        plan.verus.append(VerusUnit("c16_dispatch", vC16.dispatch_unit(vlib.read_repo(vC16.PPATH), feats), {"pattern_matches_value_with_semantics": n11}, ["canary_dispatch"]))
    except AnchorLost as e:
        plan.anchor_errors.append((n11, str(e)))
    plan.dropped.append(vC16.dispatch_fn.__doc__.strip())
    n13 = "C16.verus.guard_expression_true.boolean_or_error"
    plan.ob(n13, "verus", "proved", functions=["src/interpreter/src/expressions.rs: guard_expression_true (whole body)"],
            what="a guard holds iff it evaluates, under the bindings of its arm's pattern, to the boolean true; a guard that fails to evaluate or is not a boolean is an error")
    try:
        plan.verus.append(VerusUnit("c16_guard_true", vC16.guard_true_unit(etext, feats), {"guard_expression_true": n13}, ["canary_guard_true"]))
    except AnchorLost as e:
        plan.anchor_errors.append((n13, str(e)))
    plan.dropped.append(vC16.guard_true_fn.__doc__.strip())
    n5 = "C16.verus.try_broadcast_user_function.elementwise_over_a_matrix"
    plan.ob(n5, "verus", "proved", functions=["try_broadcast_user_function (whole body)"],
            what="a function with one input and one output of the same scalar kind, called with one matrix argument, returns the matrix of the source's shape assembled from the function applied to each element -- each element once, in element order; an error in any application is an error; in every other situation the broadcast does not apply (and applies the function to nothing)")
    try:
        unit = vlib.verus_file([vC16._bcast_model(), vC16.bcast_fn(text, feats), vlib.verus_canary("canary_bcast", "x: u64", [])])
        plan.verus.append(VerusUnit("c16_bcast", unit, {"try_broadcast_user_function": n5}, ["canary_bcast"]))
    except AnchorLost as e:
        plan.anchor_errors.append((n5, str(e)))
    plan.dropped.append(vC16.bcast_fn.__doc__.strip())
    plan.dropped.append(vC16.match_arms_fn.__doc__.strip())
    plan.dropped.append(vC16.guard_fn.__doc__.strip())
    plan.functions += ["src/interpreter/src/functions.rs: execute_function_match_arms (arm loop), execute_user_function (arity guard)",
                       "src/interpreter/src/expressions.rs: match_expression (exhaustiveness guard statement only)"]
    plan.dropped += [vC16.__doc__.strip(), vC16.arity_fn.__doc__.strip()]
    plan.trusted += ["Verus 0.2026.09.13 / Z3"]
    plan.assumptions += [
        "pattern_matches_arguments, expression, detach_value, coerce_function_output_kind are arbitrary (uninterpreted) functions of their arguments; every call of the matcher and of the evaluator is recorded in a ghost log (contracts/C16/armmodel.rs), which is what 'no later arm runs' is stated over",
        "the real `p: &Interpreter` (interior mutability) is modelled as `&mut Interpreter` carrying the log; syntax-tree nodes are opaque identities; MResult errors are `None`",
        "trace_println! statements are removed (tracing only)",
        "`#[cfg(..)]` attributes inside the match_expression guard are evaluated for the default feature set read from src/interpreter/Cargo.toml (closure of `default`); the pattern matcher reads and extends the environment it is given, 'matches' in the property = matches in a fresh environment",
    ]
    plan.assumptions += ["match_expression arm loop: pattern_matches_value_with_semantics, guard_expression_true, expression, match_validate_arm_kinds are arbitrary functions (contracts/C16/matchmodel.rs); `detached_source` / `base_env` (computed above the loop) are parameters; nothing is claimed when the option/matrix coalescing case applies to the selected arm, nor when the guard of an earlier NON-matching arm fails to evaluate (the code evaluates such guards and reports their failure; the property is silent)"]
    plan.undecided_clauses += ["C16: of match *expressions*: the statements above the arm loop (source evaluation, the Empty / wildcard pre-check), the option/matrix coalescing case, match_validate_arm_kinds and infer_missing_enum_match_patterns themselves; termination of a recursion, non-tail recursion (through expression evaluation), the exhaustiveness pre-check of execute_function_match_arms, that the arm contracts and the dispatch contract compose (argued: the arm units name the matcher's result `pm_res`, the dispatch unit names the arms' results), values_match / matrix_like_values / capture_middle_matrix"]
    plan.level = "proof"
