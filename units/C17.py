"""C17 — state machines: Verus contract on execute_fsm_pipe_impl (units/vC17.py)."""
import vlib
from vlib import VerusUnit, AnchorLost


def plan(plan, tier, seed):
    from units import vC17
    text = vlib.read_repo(vC17.PATH)
    n1 = "C17.verus.execute_fsm_pipe_impl.declared_run"
    plan.ob(n1, "verus", "proved", functions=["execute_fsm_pipe_impl (whole body)"],
            what="for every arm list, start state, environment, step limit and every behaviour of the matcher / transition evaluators: the result is the run the declaration determines -- from the current state the first arm in source order whose pattern matches (and, for a guarded arm, whose first holding guard) fires; its output ends the run with that value; otherwise the run continues from the state and bindings the transitions left; a state no arm applies to is returned as terminal; after max_steps transitions the run is stopped with an error; any evaluation error is an error")
    try:
        unit = vlib.verus_file([vC17._model(), vC17.fsm_fn(text), vlib.verus_canary("canary_fsm", "x: u64", [])])
        plan.verus.append(VerusUnit("c17_fsm", unit, {"execute_fsm_pipe_impl": n1}, ["canary_fsm"]))
    except AnchorLost as e:
        plan.anchor_errors.append((n1, str(e)))
    n2 = "C17.verus.apply_transitions.in_order_until_output"
    plan.ob(n2, "verus", "proved", functions=["apply_transitions (whole body)"],
            what="the transitions of the taken arm run in source order: `->`/`~>` replace the state with the value of their pattern, statements and code-block lines run for their effect, the first output ends the list with its value and nothing after it runs; any failure ends it with an error; the environment is only read (every evaluator call is recorded in a ghost log, results may depend on the calls made before)")
    try:
        unit = vlib.verus_file([vC17._apply_model(), vC17.apply_fn(text), vlib.verus_canary("canary_apply", "x: u64", [])])
        plan.verus.append(VerusUnit("c17_apply", unit, {"apply_transitions": n2}, ["canary_apply"]))
    except AnchorLost as e:
        plan.anchor_errors.append((n2, str(e)))
    n3 = "C17.verus.validate_transition_target_state.undeclared_target_rejected"
    plan.ob(n3, "verus", "proved", functions=["validate_transition_target_state (whole body)"],
            what="a `->` / `~>` transition whose pattern names a state is accepted iff that state is among the declared state names; other transitions are accepted")
    try:
        unit = vlib.verus_file([vC17.VT_MODEL, vC17.target_fn(text), vlib.verus_canary("canary_target", "x: u64", [])])
        plan.verus.append(VerusUnit("c17_target", unit, {"validate_transition_target_state": n3}, ["canary_target"]))
    except AnchorLost as e:
        plan.anchor_errors.append((n3, str(e)))
    n4 = "C17.verus.validate_fsm_state_coverage.every_transition_checked"
    plan.ob(n4, "verus", "proved", functions=["validate_fsm_state_coverage (from `for arm in &fsm.arms` to the end)"],
            what="the declaration is accepted iff validate_transition_target_state accepts EVERY transition of every plain arm and of every guard of every guarded arm")
    try:
        unit = vlib.verus_file([vC17.COV_MODEL, vC17.coverage_fn(text), vlib.verus_canary("canary_cov", "x: u64", [])])
        plan.verus.append(VerusUnit("c17_coverage", unit, {"validate_fsm_state_coverage_traversal": n4}, ["canary_cov"]))
    except AnchorLost as e:
        plan.anchor_errors.append((n4, str(e)))
    n6 = "C17.verus.validate_fsm_state_coverage.start_state_has_an_arm"
    plan.ob(n6, "verus", "proved", functions=["validate_fsm_state_coverage (the start-state check)"],
            what="when the arms name states, the declaration is accepted only if its start state is a named state that has an arm (an unnamed or arm-less start state is rejected)")
    try:
        unit = vlib.verus_file([vC17.START_MODEL, vC17.start_state_fn(text), vlib.verus_canary("canary_start", "x: u64", [])])
        plan.verus.append(VerusUnit("c17_start", unit, {"start_state_check": n6}, ["canary_start"]))
    except AnchorLost as e:
        plan.anchor_errors.append((n6, str(e)))
    plan.dropped.append(vC17.start_state_fn.__doc__.strip())
    n5 = "C17.verus.execute_fsm_pipe.arguments_bound_and_checked"
    plan.ob(n5, "verus", "proved", functions=["execute_fsm_pipe (from the argument-count test to the end)"],
            what="a call with a wrong number of arguments, or with an argument whose kind does not match its declared input kind, is rejected; otherwise the machine runs (execute_fsm_pipe_impl) from its DECLARED start state, evaluated in an environment that binds exactly the declared input names to the given (detached) arguments, after the coverage validation accepted the declaration")
    try:
        from units import vC16
        feats = vC16.default_features(vlib.read_repo("src/interpreter/Cargo.toml"))
        unit = vlib.verus_file([vC17._arg_model(), vC17.arg_fn(text, feats), vlib.verus_canary("canary_args", "x: u64", [])])
        plan.verus.append(VerusUnit("c17_args", unit, {"bind_arguments_and_run": n5}, ["canary_args"]))
    except AnchorLost as e:
        plan.anchor_errors.append((n5, str(e)))
    n7 = "C17.verus.fsm_argument_kind_matches.kinds_equal_up_to_references"
    plan.ob(n7, "verus", "proved", functions=["fsm_argument_kind_matches (whole body, with its nested helper strip_references)"],
            what="an argument kind fits a declared input kind iff, with references stripped on both sides, the kinds are equal -- except that a matrix kind declared WITHOUT dimensions accepts a matrix of any shape with an equal element kind; for every pair of kind trees")
    try:
        unit = vlib.verus_file([vC17.KIND_MODEL, vC17.kind_fn(text), vlib.verus_canary("canary_kind", "x: u64", [])])
        plan.verus.append(VerusUnit("c17_kind", unit, {"fsm_argument_kind_matches": n7, "strip_references": n7}, ["canary_kind"]))
    except AnchorLost as e:
        plan.anchor_errors.append((n7, str(e)))
    plan.dropped.append(vC17.kind_fn.__doc__.strip())
    n9 = "C17.verus.state_name_from_pattern.tuple_struct_or_atom"
    plan.ob(n9, "verus", "proved", functions=["state_name_from_pattern (whole body)"],
            what="the state a pattern names -- what the coverage validation compares with the declared states -- is the name of a `:Name(..)` pattern or of a bare atom `:Name`; every other pattern names no state")
    try:
        plan.verus.append(VerusUnit("c17_state_name", vC17.state_name_unit(text), {"state_name_from_pattern": n9}, ["canary_sname"]))
    except AnchorLost as e:
        plan.anchor_errors.append((n9, str(e)))
    plan.dropped.append(vC17.state_name_unit.__doc__.strip())
    n8 = "C17.verus.pattern_to_value.state_rebuilt_in_order"
    plan.ob(n8, "verus", "proved", functions=["src/interpreter/src/patterns.rs: pattern_to_value (the tuple arm; the tuple construction of the tuple-struct arm)"],
            what="the state a transition pattern `:S(e1, .., en)` denotes is the tuple (atom :S, value of e1, .., value of en), each element evaluated once and in order; a tuple pattern denotes the tuple of its elements' values; a failing element is an error -- for every environment and every behaviour of the element evaluation")
    try:
        from units import vC16 as _v16
        utext, pfns = vC17.ptv_unit(vlib.read_repo(vC17.PPATH), _v16.default_features(vlib.read_repo("src/interpreter/Cargo.toml")))
        plan.verus.append(VerusUnit("c17_ptv", utext, {f: n8 for f in pfns}, ["canary_ptv"]))
    except AnchorLost as e:
        plan.anchor_errors.append((n8, str(e)))
    plan.dropped.append(vC17.ptv_fns.__doc__.strip())
    plan.dropped.append(vC17.arg_fn.__doc__.strip())
    plan.dropped.append(vC17.coverage_fn.__doc__.strip())
    plan.dropped.append(vC17.target_fn.__doc__.strip())
    plan.dropped.append(vC17.apply_fn.__doc__.strip())
    plan.functions += ["src/interpreter/src/state_machines.rs: execute_fsm_pipe_impl, apply_transitions"]
    plan.dropped += [vC17.__doc__.strip()]
    plan.trusted += ["Verus 0.2026.09.13 / Z3"]
    plan.assumptions += [
        "clear_pattern_bindings, pattern_matches_value (its arms: C16.verus.pattern_matches_value.*), pattern_to_value (its tuple arms: C17.verus.pattern_to_value.*), apply_transitions are arbitrary (uninterpreted) functions of (pattern / transitions, state, environment); their effects on the interpreter's global state are not modelled, so 'no other transition is applied' is decided only as far as it shows in the state, the environment or the result",
        "syntax-tree nodes are opaque identities; MResult errors are `None`; trace_println! statements are removed",
        "termination: the outer loop is `for step in 0..p.max_steps`, each inner loop ranges over a finite list (Verus checks the for-loops' implicit measures); evaluators are assumed to return",
    ]
    plan.assumptions += ["execute_fsm_pipe fragment: kind resolution of an annotation, fsm_argument_kind_matches, detach_value, pattern_to_value, validate_fsm_state_coverage and execute_fsm_pipe_impl are uninterpreted (contracts/C17/argmodel.rs); `fsm`, `input_decls`, `args` (looked up / evaluated above the fragment) are parameters"]
    plan.undecided_clauses += ["C17: of execute_fsm_pipe the lookup of the machine and of its specification and the evaluation of the argument expressions (above the fragment); validate_fsm_state_coverage's collection of the state names from the arms, the declared output kind; the contracts of execute_fsm_pipe_impl (apply_transitions uninterpreted) and of apply_transitions are proved separately and not composed mechanically"]
    plan.level = "proof"
