"""C18 — table joins and row selection: Verus contracts on the row-selection skeleton of build_joined_table and on the two
row-selecting kernels of table access (units/vC18.py)."""
import vlib
from vlib import VerusUnit, AnchorLost


def plan(plan, tier, seed):
    from units import vC18
    text = vlib.read_repo(vC18.PATH)
    name = "C18.verus.build_joined_table.row_selection"
    plan.ob(name, "verus", "proved", functions=["TableJoinFxn::build_joined_table (from `let mut out_rows` to `let mut data`)"],
            what="for every pair of row counts, every matching relation and each of the six join modes, the rows pushed are exactly those relational algebra defines: every matching pair once; an unmatched lhs row once, padded, in left/full outer; an unmatched rhs row once, padded, in right/full outer; semi = lhs rows with a match, anti = lhs rows without (listed in lhs order, then unmatched rhs rows)")
    try:
        fn = vC18.join_fn(text)
        unit = vlib.verus_file([vC18.enum_text(text), vC18._model(), fn, vlib.verus_canary("canary_join", "x: u64", [])])
        plan.verus.append(VerusUnit("c18_join", unit, {"join_row_selection": name}, ["canary_join"]))
    except AnchorLost as e:
        plan.anchor_errors.append((name, str(e)))
    n5 = "C18.verus.merge_rows.union_of_columns_and_padding"
    plan.ob(n5, "verus", "proved", functions=["merge_rows (whole body)"],
            what="for every pair of tables, row numbers and set of common rhs columns: the combined row has exactly the union of the columns (every lhs column, every rhs column that is not a common one); lhs columns hold the lhs row's cells; rhs-only columns hold the rhs row's cells -- and the empty value precisely when the row is padded (no matching rhs row)")
    try:
        plan.verus.append(VerusUnit("c18_merge_rows", vC18.merge_unit(text), {"merge_rows": n5}, ["canary_merge"]))
    except AnchorLost as e:
        plan.anchor_errors.append((n5, str(e)))
    plan.dropped.append(vC18.merge_rows_fn.__doc__.strip() + " -- " + vC18._row_rewrite.__doc__.strip())
    plan.assumptions.append("merge_rows: a table's data (IndexMap) is the vector of its column ids; reading a cell is the uninterpreted cellv(table, column, row); rhs-only columns carry other ids than the lhs columns (precondition: they have other names); std HashMap / HashSet per vstd")
    n6 = "C18.verus.build_joined_table.output_columns_and_optional_kinds"
    plan.ob(n6, "verus", "proved", functions=["TableJoinFxn::build_joined_table (from `let mut output_cols` to the semi/anti override)"],
            what="for every pair of tables, common-column sets and join mode: the output columns are every lhs column followed by every rhs column that is not a common one, with their names; an lhs-only column becomes optional exactly in right / full outer joins, an rhs-only column exactly in left / full outer joins, common columns never")
    try:
        plan.verus.append(VerusUnit("c18_output_cols", vC18.cols_unit(text), {"output_columns": n6}, ["canary_cols"]))
    except AnchorLost as e:
        plan.anchor_errors.append((n6, str(e)))
    plan.dropped.append(vC18.output_cols_fn.__doc__.strip())
    n8 = "C18.verus.build_joined_table.common_columns_by_name"
    plan.ob(n8, "verus", "proved", functions=["TableJoinFxn::build_joined_table (from `let rhs_name_to_id` to `let mut output_cols`)"],
            what="for every pair of column-name tables (entries in any iteration order): the key columns are, for each lhs column whose NAME also names an rhs column, the pair (that lhs column, the rhs column the name index gives for that name) and nothing else; common_lhs / common_rhs are exactly the first / second members of those pairs")
    try:
        plan.verus.append(VerusUnit("c18_common_cols", vC18.common_unit(text), {"common_columns": n8}, ["canary_c18_common"]))
    except AnchorLost as e:
        plan.anchor_errors.append((n8, str(e)))
    plan.dropped.append(vC18.common_cols_fn.__doc__.strip())
    plan.assumptions.append("common columns: the HashMap collected from (name, id) pairs maps a name to AN id carrying it and misses only names no entry carries (std HashMap / collect; contracts in units/vC18.py COMMON_MODEL, named `inv`, not defined)")
    n9 = "C18.verus.make_optional_kind.optional_once"
    plan.ob(n9, "verus", "proved", functions=["make_optional_kind (whole body)"],
            what="the kind of a column that can be missing is `kind?`; a kind that is already optional is left as it is (never doubly optional)")
    try:
        plan.verus.append(VerusUnit("c18_optional_kind", vC18.optional_kind_unit(text), {"make_optional_kind": n9}, ["canary_optk"]))
    except AnchorLost as e:
        plan.anchor_errors.append((n9, str(e)))
    plan.dropped.append(vC18.optional_kind_unit.__doc__.strip())
    n7 = "C18.verus.TableAccessScalarF.solve"
    plan.ob(n7, "verus", "proved", functions=["src/interpreter/src/stdlib/access/table.rs: TableAccessScalarF::solve"],
            what="selecting ONE table row by a scalar index: the record holds, for every column, the element of exactly that row; an index that addresses no row (0, beyond the last row) is an error (kernel panic), never another row")
    try:
        plan.verus.append(VerusUnit("c18_scalar_row", vC18.scalar_row_unit(vlib.read_repo("src/interpreter/src/stdlib/access/table.rs")), {"table_row_by_scalar_index": n7}, ["canary_scalar_row"]))
    except AnchorLost as e:
        plan.anchor_errors.append((n7, str(e)))
    plan.dropped.append(vC18.scalar_row_fn.__doc__.strip())
    n3 = "C18.verus.rows_match.all_common_columns"
    plan.ob(n3, "verus", "proved", functions=["rows_match"],
            what="two rows match iff they hold equal cells in EVERY pair of commonly named columns (for any number of common columns, including none)")
    try:
        unit = vlib.verus_file([vC18.RM_MODEL, vC18.rows_match_fn(text), vlib.verus_canary("canary_rows_match", "x: u64", [])])
        plan.verus.append(VerusUnit("c18_rows_match", unit, {"rows_match": n3}, ["canary_rows_match"]))
    except AnchorLost as e:
        plan.anchor_errors.append((n3, str(e)))
    ttext = vlib.read_repo(vC18.TPATH)
    from units import vmat
    for fname, gen, oname, what in (
            ("table_rows_by_index", vC18.table_index_fn, "C18.verus.TableAccessRangeIndex.solve",
             "per column: returns normally iff every index is in 1..=rows; then output row k holds source row ix[k] (in order, repeats allowed)"),
            ("table_rows_by_mask", vC18.table_mask_fn, "C18.verus.TableAccessRangeBool.solve",
             "per column: the output has one row per true mask entry, in order: the rank-th true entry k gives source row k+1; out.rows is that count; returns normally whenever the mask is not longer than the table")):
        plan.ob(oname, "verus", "proved", functions=[oname.split(".verus.")[1].replace(".", "::")], what=what)
        try:
            unit = vlib.verus_file([vmat.model_text(), vC18.TMODEL, gen(ttext), vlib.verus_canary("canary_" + fname, "x: u64", [])])
            plan.verus.append(VerusUnit("c18_" + fname, unit, {fname: oname}, ["canary_" + fname]))
        except AnchorLost as e:
            plan.anchor_errors.append((oname, str(e)))
    plan.functions += ["src/interpreter/src/stdlib/table_ops.rs: TableJoinFxn::build_joined_table (row-selection part)",
                       "src/interpreter/src/stdlib/access/table.rs: TableAccessRangeIndex::solve, TableAccessRangeBool::solve (per-column statements)"]
    plan.dropped += [vC18.__doc__.strip(), vC18.rows_match_fn.__doc__.strip(), vC18.table_solve.__doc__.strip()]
    plan.trusted += ["Verus 0.2026.09.13 / Z3"]
    plan.assumptions += [
        "in the row-selection contract rows_match(l, r) is an arbitrary (uninterpreted) relation; rows_match's own contract is proved separately over opaque cells (`t.data.get(c).map(index1d)` = an uninterpreted optional cell, Value equality = equality of the model values) and the two are NOT composed mechanically",
        "merge_rows / lhs_only_row and the block that pads an unmatched rhs row are replaced by constructors recording which rows are combined; merge_rows' test `rhs_empty || rhs_row == 0` is mirrored in the model; how the builders fill the columns (HashMap per row) is not verified",
        "row counts below usize::MAX (`1..=n` is verified as `1..n + 1`)",
        "table columns modelled as contracts/common/matmodel.rs column vectors of u64; Matrix::index1d / set_index1d / resize_vertically as stated in the model (index(ix-1) / v[i] = x with their panics as early None; resize gives the requested length)",
        "the contract lists rows in the order the code produces them (stronger than the property's multiset): a reordering that keeps the multiset would fail this obligation",
    ]
    plan.undecided_clauses += ["C18: that the name index behaves as std documents (assumed), table literal construction, the range / mask row selections' fast paths if any are added; join results are not re-evaluated on step (solve swallows errors)"]
    plan.level = "proof"
