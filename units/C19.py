"""C19 — re-evaluation (partial).  Per-kernel clauses on the real generated kernel
structs: solve() does not modify its inputs, its output is a function of the
inputs, and a second solve() changes nothing (the same harness generator as C01
with the re-evaluation assertions switched on, for a slice of the table); plus
the loop structure of Interpreter::step as a Verus fragment."""
import os, re
import vlib
from vlib import read_repo, extract_fn, VerusUnit, AnchorLost
from units import C01, kgen

FORMS3 = [f for f in kgen.BIN_FORMS if f[0] in ("SS", "MDVD", "VDS", "RDMD")]


def harness_modules():
    return C01.harness_modules("C19")


def selector(kinds, tier, seed, op, forms):
    core = next((k for k in ("i8", "u8", "bool") if k in kinds), kinds[0])
    if tier == "thorough":
        return [(k, list(forms)) for k in kinds if k in ("i8", "u8", "bool", "i32", "f32")]
    if forms and isinstance(forms[0], tuple):
        # div/mod/pow over a 2x3 matrix do not solve within the quick harness budget (measured: timeouts at 300 s)
        keep = ("SS", "VDS") if op in ("div", "mod", "pow") else ("SS", "MDVD", "VDS", "RDMD")
        return [(core, [f for f in forms if f[0] in keep])]
    return [(core, [f for f in forms if f in ("S", "M")])]


def step_unit(plan):
    src = read_repo("src/interpreter/src/interpreter.rs")
    sig, body = extract_fn(src, "step")
    # the non-profiling whole-plan branch: `if step_id == 0 { if self.profile { .. } else { <HERE> } }`.
    # Its loop nest is read off the code and transcribed IN THE ORDER FOUND (so an interchange of the two loops is
    # a failing obligation, not a lost anchor).
    m0 = vlib.find_code(body, r"if\s+step_id\s*==\s*0\s*\{")
    if not m0:
        raise AnchorLost("step(): `if step_id == 0` not found")
    blk = body[m0.end() - 1:vlib.match_brace(body, m0.end() - 1)]
    me = vlib.find_code(blk, r"\}\s*else\s*\{")
    if not me:
        raise AnchorLost("step(): non-profiling `else` branch not found")
    els = blk[me.end() - 1:vlib.match_brace(blk, me.end() - 1)]
    COUNT, PLAN = r"for\s+_\s+in\s+0\.\.step_count\s*\{", r"for\s+\(idx,\s*fxn\)\s+in\s+plan_brrw\.iter_mut\(\)\.enumerate\(\)\s*\{"
    fors = vlib.find_all_code(els, r"\bfor\b[^{]*\{")
    if len(fors) != 2:
        raise AnchorLost("step(): expected a nest of two loops in the whole-plan branch, found %d" % len(fors))
    kinds = []
    for fm in fors:
        t = els[fm.start():fm.end()]
        kinds.append("count" if re.match(COUNT, t) else "plan" if re.match(PLAN, t) else None)
    if None in kinds or sorted(kinds) != ["count", "plan"]:
        raise AnchorLost("step(): loop headers of the whole-plan branch are not the step-count loop and the plan loop")
    outer_end = vlib.match_brace(els, fors[0].end() - 1)
    if not (fors[1].start() < outer_end):
        raise AnchorLost("step(): the two loops are not nested")
    inner = els[fors[1].end():vlib.match_brace(els, fors[1].end() - 1) - 1]
    solves = re.findall(r"\bfxn\.solve\(\);", re.sub(r"trace_println!\(.*?\}\);", "", inner, flags=re.S))
    if len(solves) != 1:
        raise AnchorLost("step(): the loop body calls fxn.solve() %d times (expected exactly once per plan function)" % len(solves))
    order = kinds   # e.g. ["count", "plan"]
    text = """use vstd::prelude::*;
verus! {
// ghost log of the plan indices solved, in order
pub struct Plan { pub len: usize, pub log: Ghost<Seq<int>> }
impl Plan {
  #[verifier::external_body]
  pub fn solve(&mut self, idx: usize)
    requires idx < old(self).len,
    ensures final(self).len == old(self).len, final(self).log@ == old(self).log@.push(idx as int),
  { unimplemented!() }
}
pub open spec fn one_pass(len: int) -> Seq<int> { Seq::new(len as nat, |i: int| i) }
pub open spec fn passes(len: int, n: int) -> Seq<int> decreases n { if n <= 0 { Seq::<int>::empty() } else { passes(len, n - 1) + one_pass(len) } }

// Interpreter::step, whole-plan branch (step_id == 0, not profiling): transcription of the loop nest in the
// order found in the source (%(desc)s), with `fxn.solve()` appending the plan index to a ghost log
fn step_all(plan: &mut Plan, step_count: u64)
  ensures final(plan).len == old(plan).len, final(plan).log@ == old(plan).log@ + passes(old(plan).len as int, step_count as int),
{
  let len = plan.len;
  let ghost start = plan.log@;
%(nest)s
}

// n single steps equal one request for n steps
proof fn lemma_passes_add(len: int, a: int, b: int)
  requires a >= 0, b >= 0,
  ensures passes(len, a + b) =~= passes(len, a) + passes(len, b),
  decreases b,
{
  if b > 0 { lemma_passes_add(len, a, b - 1); assert(passes(len, a + b) == passes(len, a + b - 1) + one_pass(len)); }
}
proof fn canary_c19(x: u64) ensures false { }
} // verus!
fn main() {}
"""
    NEST_OK = """  let mut k: u64 = 0;
  while k < step_count
    invariant k <= step_count, plan.len == len, plan.log@ == start + passes(len as int, k as int),
    decreases step_count - k,
  {
    let ghost before = plan.log@;
    let mut idx: usize = 0;
    while idx < len
      invariant idx <= len, plan.len == len, plan.log@ == before + one_pass(len as int).subrange(0, idx as int),
      decreases len - idx,
    {
      plan.solve(idx);
      proof { assert(one_pass(len as int).subrange(0, idx as int + 1) =~= one_pass(len as int).subrange(0, idx as int).push(idx as int)); }
      idx += 1;
    }
    proof {
      assert(one_pass(len as int).subrange(0, len as int) =~= one_pass(len as int));
      assert(passes(len as int, k as int + 1) == passes(len as int, k as int) + one_pass(len as int));
      assert(start + passes(len as int, k as int) + one_pass(len as int) =~= start + (passes(len as int, k as int) + one_pass(len as int)));
    }
    k += 1;
  }"""
    NEST_SWAPPED = """  let mut idx: usize = 0;
  while idx < len
    invariant idx <= len, plan.len == len,
    decreases len - idx,
  {
    let mut k: u64 = 0;
    while k < step_count
      invariant k <= step_count, plan.len == len, idx < len,
      decreases step_count - k,
    {
      plan.solve(idx);
      k += 1;
    }
    idx += 1;
  }"""
    text = text % dict(desc=" inside ".join(reversed(["the %s loop" % o for o in order])), nest=(NEST_OK if order == ["count", "plan"] else NEST_SWAPPED))
    fns = {"step_all": "C19.step.whole_plan_in_order", "lemma_passes_add": "C19.step.n_single_steps_equal_one_n_step"}
    u = VerusUnit("c19_step", text, fns, ["canary_c19"], dropped=[
        "Interpreter::step: only the non-profiling whole-plan branch; the anchor pass checks that the loop nest is `for _ in 0..step_count { for (idx, fxn) in plan_brrw.iter_mut().enumerate() { .. } }` and that its body calls fxn.solve() exactly once; the Verus unit is a transcription of that nest to index loops with `solve` appending its index to a ghost log (trace_println! dropped)"])
    plan.ob(fns["step_all"], "verus", "proved", functions=["Interpreter::step"], what="step(0, n) solves plan[0..len) in order, n times")
    plan.ob(fns["lemma_passes_add"], "verus", "proved", functions=["Interpreter::step"], what="step(0,a); step(0,b) solves the same sequence as step(0,a+b)")
    plan.verus.append(u)
    plan.dropped += u.dropped


def plan(plan, tier, seed):
    C01.plan(plan, tier, seed, prop="C19", selector=selector, twice=True)
    try:
        step_unit(plan)
    except AnchorLost as e:
        plan.anchor_errors.append(("C19.step.*", str(e)))
    plan.assumptions += ["plan-level statement (a program without assignment steps is unchanged by re-evaluation) follows from the per-kernel clauses only if every plan step writes a fresh out cell distinct from its inputs; that the evaluators build such plans is not decided",
                         "cross-process determinism w.r.t. HashMap iteration order is not decidable by contracts"]
    plan.undecided_clauses += ["C19: two interpreters hold equal values for every variable; programs with assignment statements; VarDefine / evaluator side effects"]
    plan.level = "proof"
