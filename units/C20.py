"""C20 — source includes.  Verus on code_fence_delimiter (line classifier) and on
the active-set protocol of expand_mechdown_includes_recursive (fragment)."""
import os, re
import vlib
from vlib import read_repo, extract_fn, verus_fn, verus_canary, VerusUnit, AnchorLost, inject_loop_specs, between

MECHFS = "src/mechfs.rs"

CFD_ENS = """match r {
      Some((m, c, j)) => {
        &&& c >= 3 && j <= bytes@.len() && c <= j && j - c <= 3
        &&& (m == '`' || m == '~')
        &&& forall|k: int| 0 <= k < j - c ==> bytes@[k] == 32u8
        &&& forall|k: int| j - c <= k < j ==> bytes@[k] as char == m
        &&& (j == bytes@.len() || bytes@[j as int] as char != m)
      },
      None => {
        forall|i: int, m: u8| #![trigger bytes@[i], is_marker(m)] 0 <= i <= 3 && i + 3 <= bytes@.len() && is_marker(m)
           && (forall|k: int| 0 <= k < i ==> bytes@[k] == 32u8)
           && bytes@[i] == m && bytes@[i+1] == m && bytes@[i+2] == m ==> false
      },
    }"""


def unit(plan):
    src = read_repo(MECHFS)
    items, fns = [], {}
    items.append("broadcast use vstd::std_specs::hash::group_hash_axioms;\nspec fn is_marker(b: u8) -> bool { b == 96u8 || b == 126u8 }\n")
    # ---- code_fence_delimiter (X; `line: &str` -> `bytes: &[u8]`, the body already works on line.as_bytes())
    sig, body = extract_fn(src, "code_fence_delimiter")
    if not re.search(r"\(\s*line\s*:\s*&str\s*\)", sig):
        raise AnchorLost("code_fence_delimiter signature changed")
    sig = re.sub(r"\(\s*line\s*:\s*&str\s*\)", "(bytes: &[u8])", sig)
    if len(re.findall(r"let bytes = line\.as_bytes\(\);", body)) != 1 or re.search(r"\bline\b", body.replace("let bytes = line.as_bytes();", "")):
        raise AnchorLost("code_fence_delimiter no longer works on line.as_bytes() only")
    body = body.replace("let bytes = line.as_bytes();", "")
    body = inject_loop_specs(body, [
        "    invariant i <= bytes@.len(), forall|k: int| 0 <= k < i ==> bytes@[k] == 32u8,\n    decreases bytes@.len() - i,",
        "    invariant i <= j <= bytes@.len(), forall|k: int| i <= k < j ==> bytes@[k] as char == marker,\n    decreases bytes@.len() - j,",
    ], keyword=r"\bwhile\b")
    items.append(verus_fn(sig, body, ensures=[CFD_ENS]))
    fns["code_fence_delimiter"] = "C20.classifier.code_fence_delimiter"
    # ---- active-set protocol of expand_mechdown_includes_recursive (F)
    sig, body = extract_fn(src, "expand_mechdown_includes_recursive")
    stmts = vlib.split_statements(body)
    rec = [k for k, st in enumerate(stmts) if "expand_mechdown_include_tokens(" in st]
    if not rec:
        raise AnchorLost("no recursive expansion call found in expand_mechdown_includes_recursive")
    if not re.match(r"let canonical_path\s*=", stmts[0]):
        raise AnchorLost("first statement is no longer the canonicalisation of the path")
    head_l = [st for k, st in enumerate(stmts) if 0 < k < rec[0] and "active_set" in st]
    tail_l = [st for k, st in enumerate(stmts) if k > rec[-1] and ("active_set" in st or k == len(stmts) - 1)]
    head, tail = "\n  ".join(head_l), "\n  ".join(tail_l)
    # error construction -> Err(IncErr::Circular)
    head2 = re.sub(r"return Err\(\s*MechError::new\(\s*GenericError\s*\{\s*msg:\s*\"Circular include detected\"\.to_string\(\),\s*\},\s*None,\s*\)\s*\.with_compiler_loc\(\),\s*\);",
                   "return Err(IncErr::Circular);", head, flags=re.S)
    head2 = head2.replace("canonical_path.clone()", "canonical_path")
    if "MechError" in head2 or "MechError" in tail:
        raise AnchorLost("unexpected error construction in the active-set protocol")
    items.append("""pub enum IncErr { Circular, Other }
pub struct Expanded { pub text: u64 }

// stands for: read the file and expand its lines, possibly recursing with the same set.
// Assumed contract = this function's own contract (modular recursion): on Ok the set is restored.
#[verifier::external_body]
fn read_and_expand(canonical_path: u64, active_set: &mut HashSet<u64>) -> (r: Result<Expanded, IncErr>)
  requires old(active_set)@.contains(canonical_path),
  ensures r.is_ok() ==> final(active_set)@ == old(active_set)@,
{ unimplemented!() }

fn expand_includes_protocol(canonical_path: u64, active_set: &mut HashSet<u64>) -> (r: Result<Expanded, IncErr>)
  ensures
    old(active_set)@.contains(canonical_path) ==> r.is_err(),                 // a file that is being expanded is a cycle
    r.is_ok() ==> final(active_set)@ == old(active_set)@,                     // restored: the same file may be included again (diamonds)
{
  %s
  let result = read_and_expand(canonical_path, active_set)?;
  %s
}
""" % (head2.strip(), tail.strip().replace("&canonical_path", "&canonical_path")))
    fns["expand_includes_protocol"] = "C20.active_set.protocol"
    items.append(verus_canary("canary_c20", "x: u64", []))
    text = "use vstd::prelude::*;\nuse std::collections::HashSet;\nverus! {\n" + "\n".join(items) + "\n} // verus!\nfn main() {}\n"
    u = VerusUnit("c20_includes", text, fns, ["canary_c20"], dropped=[
        "code_fence_delimiter: parameter `line: &str` becomes `bytes: &[u8]` and the statement `let bytes = line.as_bytes();` is dropped (the body uses nothing else of `line`); loop invariants attached by loop ordinal",
        "expand_mechdown_includes_recursive: of its top-level statements only those that mention `active_set` are kept, in order, split at the statements that call expand_mechdown_include_tokens (the recursion); everything else (file reading, line loop, the recursion itself) is replaced by one external_body call placed where the recursion was, whose assumed contract is the function's own contract; PathBuf is a u64 identity; the canonicalize statement is dropped"])
    for fn, on in fns.items():
        plan.ob(on, "verus", "proved", functions=[fn], what="contract of " + fn)
    plan.verus.append(u)
    plan.dropped += u.dropped


def plan(plan, tier, seed):
    try:
        unit(plan)
    except AnchorLost as e:
        plan.anchor_errors.append(("C20.*", str(e)))
    plan.functions += ["src/mechfs.rs: code_fence_delimiter; active-set protocol of expand_mechdown_includes_recursive"]
    plan.trusted += ["Verus / Z3, vstd HashSet specification"]
    plan.assumptions += ["the replaced middle of expand_mechdown_includes_recursive satisfies the function's own contract (modular recursion; termination not proved)",
                         "path identity: canonicalize() maps equal files to equal paths (file system, not verified)"]
    plan.undecided_clauses += ["C20: that the result equals the textual substitution, relative-path resolution, fence tracking across lines, is_code_fence_close / standalone_braced_content / looks_like_mech_include (str::trim, ends_with), missing-file errors and termination are not decided"]
    plan.level = "proof"
