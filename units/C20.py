"""C20 — source includes.  Verus on code_fence_delimiter (line classifier) and on
the active-set protocol of expand_mechdown_includes_recursive (fragment)."""
import os, re
import vlib
from vlib import read_repo, extract_fn, verus_fn, verus_canary, VerusUnit, AnchorLost, inject_loop_specs, between

MECHFS = "src/mechfs.rs"

CFD_ENS = """match r {
      Some((m, c, j)) => {
        &&& c >= 3 && j <= bytes@.len() && c <= j && j - c <= 3
        &&& (m == '`' || m == '~')
        &&& forall|k: int| 0 <= k < j - c ==> bytes@[k] == 32u8
        &&& forall|k: int| j - c <= k < j ==> bytes@[k] as char == m
        &&& (j == bytes@.len() || bytes@[j as int] as char != m)
      },
      None => {
        forall|i: int, m: u8| #![trigger bytes@[i], is_marker(m)] 0 <= i <= 3 && i + 3 <= bytes@.len() && is_marker(m)
           && (forall|k: int| 0 <= k < i ==> bytes@[k] == 32u8)
           && bytes@[i] == m && bytes@[i+1] == m && bytes@[i+2] == m ==> false
      },
    }"""


def unit(plan):
    src = read_repo(MECHFS)
    items, fns = [], {}
    items.append("broadcast use vstd::std_specs::hash::group_hash_axioms;\nspec fn is_marker(b: u8) -> bool { b == 96u8 || b == 126u8 }\n")
    # ---- code_fence_delimiter (X; `line: &str` -> `bytes: &[u8]`, the body already works on line.as_bytes())
    sig, body = extract_fn(src, "code_fence_delimiter")
    if not re.search(r"\(\s*line\s*:\s*&str\s*\)", sig):
        raise AnchorLost("code_fence_delimiter signature changed")
    sig = re.sub(r"\(\s*line\s*:\s*&str\s*\)", "(bytes: &[u8])", sig)
    if len(re.findall(r"let bytes = line\.as_bytes\(\);", body)) != 1 or re.search(r"\bline\b", body.replace("let bytes = line.as_bytes();", "")):
        raise AnchorLost("code_fence_delimiter no longer works on line.as_bytes() only")
    body = body.replace("let bytes = line.as_bytes();", "")
    body = inject_loop_specs(body, [
        "    invariant i <= bytes@.len(), forall|k: int| 0 <= k < i ==> bytes@[k] == 32u8,\n    decreases bytes@.len() - i,",
        "    invariant i <= j <= bytes@.len(), forall|k: int| i <= k < j ==> bytes@[k] as char == marker,\n    decreases bytes@.len() - j,",
    ], keyword=r"\bwhile\b")
    items.append("pub uninterp spec fn spec_cfd(bytes: &[u8]) -> Option<(char, usize, usize)>;   // names the classifier's result\n")
    items.append(verus_fn(sig, body, ensures=[CFD_ENS]))
    fns["code_fence_delimiter"] = "C20.classifier.code_fence_delimiter"
    # the same function seen by its callers: its result is `spec_cfd(line)` (a name), nothing more is needed by the close test
    items.append("""#[verifier::external_body]
fn code_fence_delimiter_named(line: &[u8]) -> (r: Option<(char, usize, usize)>) ensures r == spec_cfd(line) { unimplemented!() }
""")
    # ---- is_code_fence_close (X; the trailing blank test on the rest of the line is abstracted)
    sig2, body2 = extract_fn(src, "is_code_fence_close")
    if not re.search(r"\(\s*line\s*:\s*&str\s*,\s*marker\s*:\s*char\s*,\s*min_len\s*:\s*usize\s*\)", sig2):
        raise AnchorLost("is_code_fence_close signature changed")
    sig2 = sig2.replace("line: &str", "line: &[u8]")
    # the test on the rest of the line (`line[after..]` followed by trimming calls and `.is_empty()`) is abstracted
    b2, n2 = re.subn(r"line\[\s*(\w+)\s*\.\.\s*\]\s*(?:\.\s*\w+\s*\((?:[^()]|\([^()]*\))*\)\s*)*?\.\s*is_empty\(\)", r"rest_is_blank(line, \1)", body2)
    b2 = b2.replace("code_fence_delimiter(line)", "code_fence_delimiter_named(line)")
    if n2 != 1:
        raise AnchorLost("is_code_fence_close: trailing blank test not found")
    items.append("""#[verifier::external_body]
fn rest_is_blank(line: &[u8], after: usize) -> bool { unimplemented!() }
""")
    items.append(verus_fn(sig2, b2, ensures=[
        "r ==> (match spec_cfd(line) { Some((m, c, j)) => m == marker && c >= min_len, None => false })"]))
    fns["is_code_fence_close"] = "C20.classifier.is_code_fence_close"
    # ---- active-set protocol of expand_mechdown_includes_recursive (F)
    sig, body = extract_fn(src, "expand_mechdown_includes_recursive")
    stmts = vlib.split_statements(body)
    rec = [k for k, st in enumerate(stmts) if "expand_mechdown_include_tokens(" in st]
    if not rec:
        raise AnchorLost("no recursive expansion call found in expand_mechdown_includes_recursive")
    if not re.match(r"let canonical_path\s*=", stmts[0]):
        raise AnchorLost("first statement is no longer the canonicalisation of the path")
    def escapes(st):
        # an abstracted statement that can leave the function successfully keeps that exit (condition abstracted)
        body_wo_closures = re.sub(r"\|[^|]*\|\s*\{", "{", st)
        return bool(re.search(r"\breturn\s+Ok\(", body_wo_closures))
    EXIT = "if nondet() { return Ok(Expanded { text: 0 }); }   // an early `return Ok(..)` of the abstracted part"
    head_l, tail_l = [], []
    for k, st in enumerate(stmts):
        if k == 0:
            continue
        is_proto = ("active_set" in st and "expand_mechdown_include_tokens(" not in st) or k == len(stmts) - 1
        if k < rec[0]:
            if is_proto:
                head_l.append(st)
            elif escapes(st):
                head_l.append(EXIT)
        elif k > rec[0]:
            if is_proto and k > rec[-1]:
                tail_l.append(st)
            elif escapes(st):
                tail_l.append(EXIT)
        elif escapes(st):
            tail_l.append(EXIT)
    head, tail = "\n  ".join(head_l), "\n  ".join(tail_l)
    # error construction -> Err(IncErr::Circular)
    head2 = re.sub(r"return Err\(\s*MechError::new\(\s*GenericError\s*\{\s*msg:\s*\"Circular include detected\"\.to_string\(\),\s*\},\s*None,\s*\)\s*\.with_compiler_loc\(\),\s*\);",
                   "return Err(IncErr::Circular);", head, flags=re.S)
    head2 = head2.replace("canonical_path.clone()", "canonical_path")
    if "MechError" in head2 or "MechError" in tail:
        raise AnchorLost("unexpected error construction in the active-set protocol")
    items.append("""pub enum IncErr { Circular, Other }
pub struct Expanded { pub text: u64 }

// stands for: read the file and expand its lines, possibly recursing with the same set.
// Assumed contract = this function's own contract (modular recursion): on Ok the set is restored.
#[verifier::external_body]
fn nondet() -> bool { unimplemented!() }
#[verifier::external_body]
fn read_and_expand(canonical_path: u64, active_set: &mut HashSet<u64>) -> (r: Result<Expanded, IncErr>)
  requires old(active_set)@.contains(canonical_path),
  ensures r.is_ok() ==> final(active_set)@ == old(active_set)@,
{ unimplemented!() }

fn expand_includes_protocol(canonical_path: u64, active_set: &mut HashSet<u64>) -> (r: Result<Expanded, IncErr>)
  ensures
    old(active_set)@.contains(canonical_path) ==> r.is_err(),                 // a file that is being expanded is a cycle
    r.is_ok() ==> final(active_set)@ == old(active_set)@,                     // restored: the same file may be included again (diamonds)
{
  %s
  let result = read_and_expand(canonical_path, active_set)?;
  %s
}
""" % (head2.strip(), tail.strip().replace("&canonical_path", "&canonical_path")))
    fns["expand_includes_protocol"] = "C20.active_set.protocol"
    items.append(verus_canary("canary_c20", "x: u64", []))
    text = "use vstd::prelude::*;\nuse std::collections::HashSet;\nverus! {\n" + "\n".join(items) + "\n} // verus!\nfn main() {}\n"
    u = VerusUnit("c20_includes", text, fns, ["canary_c20"], dropped=[
        "code_fence_delimiter: parameter `line: &str` becomes `bytes: &[u8]` and the statement `let bytes = line.as_bytes();` is dropped (the body uses nothing else of `line`); loop invariants attached by loop ordinal",
        "is_code_fence_close: `line: &str` becomes `&[u8]`; the final `line[after..].trim_matches(..).is_empty()` is replaced by an uninterpreted `rest_is_blank(line, after)`; the call to code_fence_delimiter is to a stand-in that only names its result",
        "expand_mechdown_includes_recursive: an abstracted statement containing `return Ok(..)` (outside closures) is kept as `if nondet() { return Ok(..) }` at its position; of its top-level statements only those that mention `active_set` are kept, in order, split at the statements that call expand_mechdown_include_tokens (the recursion); everything else (file reading, line loop, the recursion itself) is replaced by one external_body call placed where the recursion was, whose assumed contract is the function's own contract; PathBuf is a u64 identity; the canonicalize statement is dropped"])
    for fn, on in fns.items():
        plan.ob(on, "verus", "proved", functions=[fn], what="contract of " + fn)
    plan.verus.append(u)
    plan.dropped += u.dropped


def braces_unit(plan):
    """`standalone_braced_content` and `looks_like_mech_include` (src/mechfs.rs), whole bodies over bytes: `&str` -> `&[u8]`, `X.trim()` -> `trim_bytes(X)` (uninterpreted: some
    sub-slice), `X.starts_with('c')` / `X.ends_with('c')` -> first / last byte tests, `X.ends_with(".mec")` -> `ends_with_mec(X)`, `&X[a..b]` -> `slice_subrange(X, a, b)` (whose
    precondition a <= b <= len is the no-panic obligation)"""
    src = read_repo(MECHFS)
    MODEL = """
pub uninterp spec fn trimmed(s: Seq<u8>) -> Seq<u8>;      // str::trim: the text without leading / trailing white space
#[verifier::external_body]
pub fn trim_bytes<'a>(s: &'a [u8]) -> (r: &'a [u8]) ensures r@ == trimmed(s@), { unimplemented!() }
pub fn starts_with_byte(s: &[u8], c: u8) -> (b: bool) ensures b == (s@.len() > 0 && s@[0] == c), { s.len() > 0 && s[0] == c }
pub fn ends_with_byte(s: &[u8], c: u8) -> (b: bool) ensures b == (s@.len() > 0 && s@[s@.len() - 1] == c), { s.len() > 0 && s[s.len() - 1] == c }
pub open spec fn mec_suffix(s: Seq<u8>) -> bool { s.len() >= 4 && s[s.len() - 4] == 46u8 && s[s.len() - 3] == 109u8 && s[s.len() - 2] == 101u8 && s[s.len() - 1] == 99u8 }
pub fn ends_with_mec(s: &[u8]) -> (b: bool) ensures b == mec_suffix(s@), { s.len() >= 4 && s[s.len() - 4] == 46u8 && s[s.len() - 3] == 109u8 && s[s.len() - 2] == 101u8 && s[s.len() - 1] == 99u8 }
"""
    items, fns = [MODEL], {}
    n1, n2 = "C20.classifier.standalone_braced_content", "C20.classifier.looks_like_mech_include"
    plan.ob(n1, "verus", "proved", functions=["src/mechfs.rs: standalone_braced_content"],
            what="for every line: Some(inner) iff the trimmed line begins with `{` and ends with `}`, and inner is the text between those two braces; the slicing never panics")
    plan.ob(n2, "verus", "proved", functions=["src/mechfs.rs: looks_like_mech_include"], what="true iff the trimmed content ends with `.mec`")
    try:
        sig, body = extract_fn(src, "standalone_braced_content")
        if not re.search(r"\(\s*(\w+)\s*:\s*&str\s*\)\s*->\s*Option<&str>", sig):
            raise AnchorLost("standalone_braced_content: signature changed")
        pn = re.search(r"\(\s*(\w+)\s*:", sig).group(1)
        b = re.sub(r"//[^\n]*", "", body)
        b = re.sub(r"\b(\w+)\.trim\(\)", r"trim_bytes(\1)", b)
        b = re.sub(r"\b(\w+)\.starts_with\('\{'\)", r"starts_with_byte(\1, 123u8)", b)
        b = re.sub(r"\b(\w+)\.ends_with\('\}'\)", r"ends_with_byte(\1, 125u8)", b)
        b = re.sub(r"&(\w+)\[\s*([^\]\.]+?)\s*\.\.\s*([^\]]+?)\s*\]", r"slice_subrange(\1, \2, \3)", b)
        if re.search(r"\.(trim|starts_with|ends_with)\(", b):
            raise AnchorLost("standalone_braced_content: statements outside the transcription rules")
        items.append("fn standalone_braced_content<'a>(%s: &'a [u8]) -> (r: Option<&'a [u8]>)\n  ensures ({ let t = trimmed(%s@); let braced = t.len() > 0 && t[0] == 123u8 && t[t.len() - 1] == 125u8;\n    match r { Some(inner) => braced && t.len() >= 2 && inner@ == t.subrange(1, t.len() - 1), None => !braced } }),\n%s\n" % (pn, pn, b))
        fns["standalone_braced_content"] = n1
    except AnchorLost as e:
        plan.anchor_errors.append((n1, str(e)))
    try:
        sig, body = extract_fn(src, "looks_like_mech_include")
        pn = re.search(r"\(\s*(\w+)\s*:\s*&str\s*\)", sig)
        if not pn:
            raise AnchorLost("looks_like_mech_include: signature changed")
        pn = pn.group(1)
        b = re.sub(r"//[^\n]*", "", body)
        b = re.sub(r"\b(\w+)\.trim\(\)", r"trim_bytes(\1)", b)
        b = re.sub(r"\b(\w+)\.ends_with\(\"\.mec\"\)", r"ends_with_mec(\1)", b)
        if re.search(r"\.(trim|starts_with|ends_with)\(", b):
            raise AnchorLost("looks_like_mech_include: statements outside the transcription rules")
        items.append("fn looks_like_mech_include(%s: &[u8]) -> (r: bool)\n  ensures r == mec_suffix(trimmed(%s@)),\n%s\n" % (pn, pn, b))
        fns["looks_like_mech_include"] = n2
    except AnchorLost as e:
        plan.anchor_errors.append((n2, str(e)))
    if fns:
        items.append(verus_canary("canary_braces", "x: u64", []))
        plan.verus.append(VerusUnit("c20_braces", "use vstd::prelude::*;\nuse vstd::slice::*;\nverus! {\n" + "\n".join(items) + "\n} // verus!\nfn main() {}\n", fns, ["canary_braces"]))
        plan.dropped.append(braces_unit.__doc__.strip())


def full_unit(plan):
    from units import vC20
    fns = {"expand_mechdown_include_tokens": "C20.verus.expand_mechdown_include_tokens.line_substitution",
           "expand_mechdown_includes_recursive": "C20.verus.expand_mechdown_includes_recursive.textual_substitution"}
    what = {"expand_mechdown_include_tokens": "for every text, file system and active set: the result is the text with every stand-alone `{x.mec}` line replaced by the expansion of that file (resolved against the including file's directory) followed by the line's own newline, every other line untouched, in order; a path that does not resolve is an error; the active set is unchanged on success",
            "expand_mechdown_includes_recursive": "for every path, file system and active set: the result is unfold(path, active) -- error if the path does not resolve, if the file is already being expanded (cycle) or cannot be read; otherwise the file's lines with fenced lines copied (a fence ends at its closing delimiter) and every other line expanded as above, with the file in the active set during the expansion and the set restored on success"}
    for fn, on in fns.items():
        plan.ob(on, "verus", "proved", functions=["src/mechfs.rs: " + fn + " (whole body)"], what=what[fn])
    src = read_repo(MECHFS)
    for fn, uname, build in (("expand_mechdown_include_tokens", "c20_tokens", vC20.tokens_unit), ("expand_mechdown_includes_recursive", "c20_rec", vC20.rec_unit)):
        try:
            plan.verus.append(VerusUnit(uname, build(src), {fn: fns[fn]}, ["canary_" + uname]))
        except AnchorLost as e:
            plan.anchor_errors.append((fns[fn], str(e)))
    ne = "C20.verus.expand_mechdown_includes.starts_with_empty_active_set"
    plan.ob(ne, "verus", "proved", functions=["src/mechfs.rs: expand_mechdown_includes (whole body)"],
            what="loading a .mec file is the expansion of its canonical path with NO file marked as being expanded (so a file is a cycle only through its own include graph); a path that does not resolve is an error")
    try:
        plan.verus.append(VerusUnit("c20_entry", vC20.entry_unit(src), {"expand_mechdown_includes": ne}, ["canary_c20_entry"]))
    except AnchorLost as e:
        plan.anchor_errors.append((ne, str(e)))
    plan.dropped.append(vC20.entry_fn.__doc__.strip())
    plan.dropped.append(vC20.__doc__.strip())


def plan(plan, tier, seed):
    try:
        unit(plan)
    except AnchorLost as e:
        plan.anchor_errors.append(("C20.*", str(e)))
    full_unit(plan)
    try:
        braces_unit(plan)
    except AnchorLost as e:
        plan.anchor_errors.append(("C20.classifier.braces", str(e)))
    plan.functions += ["src/mechfs.rs: code_fence_delimiter; active-set protocol of expand_mechdown_includes_recursive"]
    plan.trusted += ["Verus / Z3, vstd HashSet specification"]
    plan.assumptions += ["modular recursion: the inner call of expand_mechdown_includes_recursive is a stand-in whose result is the NAME rec(path, active) and which restores the active set on success (the function's own contract); what is proved is the recursion equation F = unfold[rec := F], i.e. partial correctness -- termination is not proved",
                         "ASSUMED std contracts (named, uninterpreted in contracts/C20/incmodel.rs): str::split_inclusive('\\n') (and the two stated facts: re-splitting the concatenation of consecutive pieces gives those pieces, pieces are non-empty), str::strip_suffix, str::trim, String::push_str / is_empty / clear, Path::parent / join / canonicalize, File::open + read_to_string; HashSet per vstd",
                         "the line classifiers are names in the whole-body unit and have their own obligations (C20.classifier.*); str::trim is uninterpreted there (some sub-slice)",
                         "path identity: canonicalize() maps equal files to equal paths (file system, not verified)"]
    plan.undecided_clauses += ["C20: termination of the expansion (needs finiteness of the file system); the error text naming the missing file"]
    plan.level = "proof"
