"""Anchor pass (syntactic, labelled bounded): the output a dispatch arm allocates for an access kernel must have the shape the
kernel's contract `requires` (the Verus .value obligations assume exactly these allocations)."""
import os, re, sys
sys.path.insert(0, os.path.join(os.path.dirname(os.path.abspath(__file__)), "..", "tools"))
import vlib

PATH = "src/interpreter/src/stdlib/access/matrix.rs"
SHAPES = r"(?:M1|M2|M3|M4|M2x3|M3x2|MD|V2|V3|V4|VD|R2|R3|R4|RD)"
# family -> allocation the kernel contract assumes (whitespace-insensitive)
EXPECT = {
    "Access1DVD": "DVector::from_element(ix.borrow().len(),$default)",
    "Access1DVDb": "DVector::from_element(ix.borrow().len(),$default)",
    "Access1DA": "DVector::from_element(input.borrow().len(),$default)",
    "Access2DVDbS": "DVector::from_element(ix1.borrow().len(),$default)",
    "Access2DVDS": "DVector::from_element(ix1.borrow().len(),$default)",
    "Access2DSVDb": "RowDVector::from_element(ix2.borrow().len(),$default)",
    "Access2DSVD": "RowDVector::from_element(ix2.borrow().len(),$default)",
    "Access2DVDbA": "DMatrix::from_element(ix.borrow().len(),input.borrow().ncols(),$default)",
    "Access2DVDA": "DMatrix::from_element(ix.borrow().len(),input.borrow().ncols(),$default)",
    "Access2DAS": "DVector::from_element(input.borrow().nrows(),$default)",
}


def add(plan, prop="C03"):
    try:
        text = vlib.read_repo(PATH)
    except Exception as e:
        plan.anchor_errors.append((prop + ".alloc", str(e)))
        return
    seen = {}
    for m in re.finditer(r"Ok\(Box::new\((Access\w+?)(%s)\s*\{([^{}]*?)out:\s*Ref::new\(([^{}]*?)\)\s*\}\)\)" % SHAPES, text):
        fam, shape, alloc = m.group(1), m.group(2), re.sub(r"\s+", "", m.group(4))
        if fam not in EXPECT:
            continue
        seen.setdefault(fam, []).append((shape, alloc))
    for fam, want in EXPECT.items():
        arms = seen.get(fam, [])
        name = "%s.alloc.%s" % (prop, fam)
        ob = plan.ob(name, "syntactic", "bounded", bound="source-text pass over %d dispatch arms (not a proof)" % len(arms), functions=["impl_access_*_match_arms! arms building %s*" % fam],
                     what="every arm that builds %s<shape> allocates `out` as the kernel contract requires: %s" % (fam, want))
        if not arms:
            plan.anchor_errors.append((name, "no arm found"))
            ob.status, ob.detail = "undecided", "no arm found"
            continue
        bad = [(s, a) for s, a in arms if a != re.sub(r"\s+", "", want)]
        if bad:
            ob.status = "violated"
            ob.detail = "; ".join("%s%s allocates `%s`" % (fam, s, a) for s, a in bad[:4]) + " -- expected `%s`" % want
            ob.raw = ob.detail
        else:
            ob.status = "discharged"
    # range-range arms: the DMatrix sink is (rows, cols) in that order, with rows/cols the number of selected rows/columns
    for macro in ("impl_access_range_range_arms",):
        try:
            mt = vlib.extract_macro(text, macro)
        except Exception as e:
            plan.anchor_errors.append(("%s.alloc.%s" % (prop, macro), str(e)))
            continue
        name = "%s.alloc.Access2DRR" % prop
        ob = plan.ob(name, "syntactic", "bounded", bound="source-text pass (not a proof)", functions=[macro + "!"],
                     what="range-range arms size the sink (rows, cols) = (selected rows, selected columns): `rows`/`cols` come from ix1/ix2 respectively and DMatrix::from_element takes them in that order")
        probs = []
        for mm in re.finditer(r"let\s+(rows|cols)\s*=\s*(ix\d)\.borrow\(\)\.(?:iter\(\)\.filter\(\|x\|\s*\*\*x\)\.count\(\)|len\(\))", mt):
            if (mm.group(1), mm.group(2)) not in (("rows", "ix1"), ("cols", "ix2")):
                probs.append("`%s` is computed from %s" % (mm.group(1), mm.group(2)))
        for mm in re.finditer(r"DMatrix::from_element\(\s*([^,()]+(?:\([^()]*\)[^,()]*)*),\s*([^,()]+(?:\([^()]*\)[^,()]*)*),", mt):
            a, b = re.sub(r"\s+", "", mm.group(1)), re.sub(r"\s+", "", mm.group(2))
            if (a, b) not in (("rows", "cols"), ("1", "1"), ("ix1.borrow().len()", "ix2.borrow().len()")):
                probs.append("DMatrix::from_element(%s, %s, ..)" % (a, b))
        for mm in re.finditer(r"(DVector|RowDVector)::from_element\(\s*(\w+)\s*,", mt):
            if (mm.group(1), mm.group(2)) not in (("DVector", "rows"), ("RowDVector", "cols")):
                probs.append("%s::from_element(%s, ..)" % (mm.group(1), mm.group(2)))
        if probs:
            ob.status, ob.detail = "violated", "; ".join(probs[:4])
            ob.raw = ob.detail
        else:
            ob.status = "discharged"
