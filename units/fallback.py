"""(F) the `MutableReference` fallback of NativeFunctionCompiler::compile for binary functions:

    match (lhs, rhs) {
      (Value::MutableReference(l), Value::MutableReference(r)) => gen(l.borrow().clone(), r.borrow().clone()),
      (l, Value::MutableReference(r))                          => gen(l.clone(), r.borrow().clone()),
      (Value::MutableReference(l), r)                          => gen(l.borrow().clone(), r.clone()),
      ..
    }

The arms that mention MutableReference are verified verbatim (Verus) against: the generated function
receives (deref(lhs), deref(rhs)) in THAT order."""
import re
import vlib
from vlib import VerusUnit, AnchorLost, find_code, find_all_code, match_brace, read_repo

PRELUDE = """
pub struct Fx { pub a: Value, pub b: Value }
pub struct E {}
pub enum Value { MutableReference(RefV), Plain(int) }
pub struct RefV { pub v: Box<Value> }
impl RefV {
  #[verifier::external_body]
  pub fn borrow(&self) -> (r: &Value) ensures *r == *self.v { unimplemented!() }
}
impl Clone for Value {
  #[verifier::external_body]
  fn clone(&self) -> (r: Self) ensures r == *self { unimplemented!() }
}
pub open spec fn deref(v: Value) -> Value { match v { Value::MutableReference(r) => *r.v, other => other } }
#[verifier::external_body]
fn gen(a: Value, b: Value) -> (r: Result<Fx, E>) ensures r matches Ok(f) ==> f.a == a && f.b == b { unimplemented!() }
"""


def arms_of(block):
    from units.C02 import split_arms
    return split_arms(block)


def site_fragment(text, start_rx, callee):
    """find `match (X, Y) {` following start_rx whose arms mention Value::MutableReference; return rewritten arms + scrutinee names"""
    m0 = find_code(text, start_rx)
    if not m0:
        raise AnchorLost("site %s not found" % start_rx)
    for m in find_all_code(text[m0.start():], r"match\s*\(\s*(\w+)\s*,\s*(\w+)\s*\)\s*\{"):
        s = m0.start() + m.start()
        e = match_brace(text, m0.start() + m.end() - 1)
        block = text[m0.start() + m.end():e - 1]
        if "Value::MutableReference" not in block:
            continue
        kept = []
        for attrs, pat, expr in arms_of(block):
            if "Value::MutableReference" not in pat:
                continue
            ex = expr.strip()
            if ex.startswith("{") and ex.endswith("}"):
                ex = ex[1:-1].strip()
            ex2 = re.sub(r"(?<!\w)%s\(" % callee, "gen(", ex)
            if "gen(" not in ex2:
                raise AnchorLost("arm `%s` does not call %s" % (pat, callee))
            kept.append("    %s => { %s }" % (pat, ex2.rstrip(",")))
        if not kept:
            raise AnchorLost("no MutableReference arm")
        return m.group(1), m.group(2), kept
    raise AnchorLost("no fallback match found after %s" % start_rx)


def unit(plan, prop, sites):
    """sites: [(obligation stem, file, start regex, callee regex)]"""
    items, fns = [PRELUDE], {}
    for stem, rel, start_rx, callee in sites:
        try:
            text = read_repo(rel)
            a, b, arms = site_fragment(text, start_rx, callee)
        except AnchorLost as e:
            plan.anchor_errors.append(("%s.fallback.%s" % (prop, stem), str(e)))
            continue
        fn = "fallback_" + re.sub(r"\W", "_", stem)
        items.append("""fn %s(%s: Value, %s: Value) -> (r: Result<Fx, E>)
  ensures r matches Ok(f) ==> f.a == deref(%s) && f.b == deref(%s),
{
  match (%s, %s) {
%s
    _ => Err(E {}),
  }
}
""" % (fn, a, b, a, b, a, b, "\n".join(arms)))
        fns[fn] = "%s.fallback.%s" % (prop, stem)
        plan.ob(fns[fn], "verus", "proved", functions=["%s: NativeFunctionCompiler::compile fallback (%s)" % (rel, stem)],
                what="when an operand arrives as a variable reference, the function is built from (deref(lhs), deref(rhs)) in that order")
    if not fns:
        return
    items.append(vlib.verus_canary("canary_fallback", "x: u64", []))
    plan.verus.append(VerusUnit("%s_fallback" % prop.lower(), vlib.verus_file(items), fns, ["canary_fallback"]))
    plan.dropped.append("(F) compile() fallbacks: of the `match (lhs, rhs)` that retries with dereferenced variable references only the arms whose pattern mentions Value::MutableReference are kept (verbatim; the generated-function call is renamed to `gen`), every other arm becomes `_ => Err`; Value / Ref are stand-ins")


PRELUDE3 = PRELUDE + """
pub struct Fx3 { pub a: Value, pub b: Value, pub c: Value }
#[verifier::external_body]
fn gen3(a: Value, b: Value, c: Value) -> (r: Result<Fx3, E>) ensures r matches Ok(f) ==> f.a == a && f.b == b && f.c == c { unimplemented!() }
"""


def unit3(plan, prop, sites):
    """the same fallback for functions of THREE operands (`match (a, b, c)`): the generated function receives (deref(a), deref(b), deref(c)) in that order"""
    items, fns = [PRELUDE3], {}
    for stem, rel, start_rx, callee in sites:
        name = "%s.fallback.%s" % (prop, stem)
        try:
            text = read_repo(rel)
            m0 = find_code(text, start_rx)
            if not m0:
                raise AnchorLost("site %s not found" % start_rx)
            found = None
            for m in find_all_code(text[m0.start():], r"match\s*\(\s*(\w+)\s*,\s*(\w+)\s*,\s*(\w+)\s*\)\s*\{"):
                e = match_brace(text, m0.start() + m.end() - 1)
                block = text[m0.start() + m.end():e - 1]
                if "Value::MutableReference" in block:
                    found = (m.group(1), m.group(2), m.group(3), block)
                    break
            if not found:
                raise AnchorLost("no three-operand fallback match found after %s" % start_rx)
            a, b, c, block = found
            kept = []
            for attrs, pat, expr in arms_of(block):
                if "Value::MutableReference" not in pat:
                    continue
                ex = expr.strip()
                if ex.startswith("{") and ex.endswith("}"):
                    ex = ex[1:-1].strip()
                ex2 = re.sub(r"(?<!\w)%s\(" % callee, "gen3(", ex)
                if "gen3(" not in ex2:
                    raise AnchorLost("arm `%s` does not call %s" % (pat, callee))
                kept.append("    %s => { %s }" % (pat, ex2.rstrip(",")))
            if not kept:
                raise AnchorLost("no MutableReference arm")
        except AnchorLost as e:
            plan.anchor_errors.append((name, str(e)))
            continue
        fn = "fallback3_" + re.sub(r"\W", "_", stem)
        items.append("""fn %s(%s: Value, %s: Value, %s: Value) -> (r: Result<Fx3, E>)
  ensures r matches Ok(f) ==> f.a == deref(%s) && f.b == deref(%s) && f.c == deref(%s),
{
  match (%s, %s, %s) {
%s
    _ => Err(E {}),
  }
}
""" % (fn, a, b, c, a, b, c, a, b, c, "\n".join(kept)))
        fns[fn] = name
        plan.ob(name, "verus", "proved", functions=["%s: NativeFunctionCompiler::compile fallback (%s)" % (rel, stem)],
                what="when operands arrive as variable references, the function is built from (deref(start), deref(step), deref(bound)) in that order -- every one of the seven reference / value combinations")
    if not fns:
        return
    items.append(vlib.verus_canary("canary_fallback3", "x: u64", []))
    plan.verus.append(VerusUnit("%s_fallback3" % prop.lower(), vlib.verus_file(items), fns, ["canary_fallback3"]))


PRELUDE_ASSIGN = """
pub struct FxA { pub sink: Value, pub source: Value, pub ixes: Vec<Value> }
pub struct E {}
pub enum Value { MutableReference(RefV), Plain(u64) }
pub struct RefV { pub v: Box<Value> }
impl RefV {
  #[verifier::external_body]
  pub fn borrow(&self) -> (r: &Value) ensures *r == *self.v { unimplemented!() }
}
impl Clone for Value {
  #[verifier::external_body]
  fn clone(&self) -> (r: Self) ensures r == *self { unimplemented!() }
}
#[verifier::external_body]
pub fn clone_ixes(v: &Vec<Value>) -> (r: Vec<Value>) ensures r@ == v@ { unimplemented!() }
pub open spec fn deref(v: Value) -> Value { match v { Value::MutableReference(r) => *r.v, other => other } }
#[verifier::external_body]
fn gen_a(sink: Value, source: Value, ixes: Vec<Value>) -> (r: Result<FxA, E>) ensures r matches Ok(f) ==> f.sink == sink && f.source == source && f.ixes@ == ixes@ { unimplemented!() }
"""


def unit_assign(plan, prop, sites):
    """(F) the variable-reference fallback of the indexed (op-)assignment compilers: `match <scrutinee> { .. }` after the first attempt failed.  The scrutinee expression and every arm
    whose pattern mentions Value::MutableReference are copied verbatim (callee renamed `gen_a`, `ixes.clone()` -> `clone_ixes(&ixes)` / `clone_ixes(ixes)`); contract: the kernel builder
    receives (deref(sink), deref(source), ixes) -- in the callee's parameter order (sink, source, indices)"""
    items, fns = [PRELUDE_ASSIGN], {}
    for stem, rel, impl_rx, callee in sites:
        name = "%s.fallback.%s" % (prop, stem)
        try:
            text = read_repo(rel)
            m0 = find_code(text, impl_rx)
            if not m0:
                raise AnchorLost("site %s not found" % impl_rx)
            blk_end = match_brace(text, text.index("{", m0.end() - 1))
            blk = text[m0.start():blk_end]
            found = None
            for m in find_all_code(blk, r"\bmatch\s+([^{]+?)\s*\{"):
                e = match_brace(blk, m.end() - 1)
                body = blk[m.end():e - 1]
                arms = [a for a in arms_of(body) if "Value::MutableReference" in a[1]]
                if arms and not any("match" in a[2] and "Value::MutableReference" in a[2] for a in arms_of(body)):
                    found = (m.group(1).strip(), arms)
            if not found:
                raise AnchorLost("no fallback match found in %s" % impl_rx)
            scrut, arms = found
            kept = []
            for attrs, pat, expr in arms:
                ex = expr.strip()
                if ex.startswith("{") and ex.endswith("}"):
                    ex = ex[1:-1].strip()
                ex2 = re.sub(r"(?<!\w)%s\(" % callee, "gen_a(", ex)
                if "gen_a(" not in ex2:
                    raise AnchorLost("arm `%s` does not call %s" % (pat, callee))
                ex2 = re.sub(r"\bixes\.clone\(\)", "clone_ixes(&ixes)", ex2)
                kept.append("    %s => { %s }" % (pat, ex2.rstrip(",")))
            # a scrutinee component `&ixes` binds `ixes: &Vec<Value>` in the arms that name it: clone_ixes(&ixes) on a && is fine for rustc's auto-deref? keep it simple: take by value
            scrut2 = re.sub(r"\bixes\.clone\(\)", "clone_ixes(&ixes)", scrut)
        except AnchorLost as e:
            plan.anchor_errors.append((name, str(e)))
            continue
        fn = "fallback_a_" + re.sub(r"\W", "_", stem)
        items.append("""fn %s(sink: Value, source: Value, ixes: Vec<Value>) -> (r: Result<FxA, E>)
  ensures r matches Ok(f) ==> f.sink == deref(sink) && f.source == deref(source) && f.ixes@ == ixes@,
{
  match %s {
%s
    _ => Err(E {}),
  }
}
""" % (fn, scrut2, "\n".join(kept)))
        fns[fn] = name
        plan.ob(name, "verus", "proved", functions=["%s: NativeFunctionCompiler::compile fallback (%s)" % (rel, stem)],
                what="when the sink or the source arrives as a variable reference, the kernel builder receives (deref(sink), deref(source), the indices) in its parameter order (sink, source, indices)")
    if not fns:
        return
    items.append(vlib.verus_canary("canary_fallback_a", "x: u64", []))
    plan.verus.append(VerusUnit("%s_fallback_assign" % prop.lower(), vlib.verus_file(items), fns, ["canary_fallback_a"]))
    plan.dropped.append(unit_assign.__doc__.strip())
