"""(F) the `MutableReference` fallback of NativeFunctionCompiler::compile for binary functions:

    match (lhs, rhs) {
      (Value::MutableReference(l), Value::MutableReference(r)) => gen(l.borrow().clone(), r.borrow().clone()),
      (l, Value::MutableReference(r))                          => gen(l.clone(), r.borrow().clone()),
      (Value::MutableReference(l), r)                          => gen(l.borrow().clone(), r.clone()),
      ..
    }

The arms that mention MutableReference are verified verbatim (Verus) against: the generated function
receives (deref(lhs), deref(rhs)) in THAT order."""
import re
import vlib
from vlib import VerusUnit, AnchorLost, find_code, find_all_code, match_brace, read_repo

PRELUDE = """
pub struct Fx { pub a: Value, pub b: Value }
pub struct E {}
pub enum Value { MutableReference(RefV), Plain(int) }
pub struct RefV { pub v: Box<Value> }
impl RefV {
  #[verifier::external_body]
  pub fn borrow(&self) -> (r: &Value) ensures *r == *self.v { unimplemented!() }
}
impl Clone for Value {
  #[verifier::external_body]
  fn clone(&self) -> (r: Self) ensures r == *self { unimplemented!() }
}
pub open spec fn deref(v: Value) -> Value { match v { Value::MutableReference(r) => *r.v, other => other } }
#[verifier::external_body]
fn gen(a: Value, b: Value) -> (r: Result<Fx, E>) ensures r matches Ok(f) ==> f.a == a && f.b == b { unimplemented!() }
"""


def arms_of(block):
    from units.C02 import split_arms
    return split_arms(block)


def site_fragment(text, start_rx, callee):
    """find `match (X, Y) {` following start_rx whose arms mention Value::MutableReference; return rewritten arms + scrutinee names"""
    m0 = find_code(text, start_rx)
    if not m0:
        raise AnchorLost("site %s not found" % start_rx)
    for m in find_all_code(text[m0.start():], r"match\s*\(\s*(\w+)\s*,\s*(\w+)\s*\)\s*\{"):
        s = m0.start() + m.start()
        e = match_brace(text, m0.start() + m.end() - 1)
        block = text[m0.start() + m.end():e - 1]
        if "Value::MutableReference" not in block:
            continue
        kept = []
        for attrs, pat, expr in arms_of(block):
            if "Value::MutableReference" not in pat:
                continue
            ex = expr.strip()
            if ex.startswith("{") and ex.endswith("}"):
                ex = ex[1:-1].strip()
            ex2 = re.sub(r"(?<!\w)%s\(" % callee, "gen(", ex)
            if "gen(" not in ex2:
                raise AnchorLost("arm `%s` does not call %s" % (pat, callee))
            kept.append("    %s => { %s }" % (pat, ex2.rstrip(",")))
        if not kept:
            raise AnchorLost("no MutableReference arm")
        return m.group(1), m.group(2), kept
    raise AnchorLost("no fallback match found after %s" % start_rx)


def unit(plan, prop, sites):
    """sites: [(obligation stem, file, start regex, callee regex)]"""
    items, fns = [PRELUDE], {}
    for stem, rel, start_rx, callee in sites:
        try:
            text = read_repo(rel)
            a, b, arms = site_fragment(text, start_rx, callee)
        except AnchorLost as e:
            plan.anchor_errors.append(("%s.fallback.%s" % (prop, stem), str(e)))
            continue
        fn = "fallback_" + re.sub(r"\W", "_", stem)
        items.append("""fn %s(%s: Value, %s: Value) -> (r: Result<Fx, E>)
  ensures r matches Ok(f) ==> f.a == deref(%s) && f.b == deref(%s),
{
  match (%s, %s) {
%s
    _ => Err(E {}),
  }
}
""" % (fn, a, b, a, b, a, b, "\n".join(arms)))
        fns[fn] = "%s.fallback.%s" % (prop, stem)
        plan.ob(fns[fn], "verus", "proved", functions=["%s: NativeFunctionCompiler::compile fallback (%s)" % (rel, stem)],
                what="when an operand arrives as a variable reference, the function is built from (deref(lhs), deref(rhs)) in that order")
    if not fns:
        return
    items.append(vlib.verus_canary("canary_fallback", "x: u64", []))
    plan.verus.append(VerusUnit("%s_fallback" % prop.lower(), vlib.verus_file(items), fns, ["canary_fallback"]))
    plan.dropped.append("(F) compile() fallbacks: of the `match (lhs, rhs)` that retries with dereferenced variable references only the arms whose pattern mentions Value::MutableReference are kept (verbatim; the generated-function call is renamed to `gen`), every other arm becomes `_ => Err`; Value / Ref are stand-ins")


PRELUDE3 = PRELUDE + """
pub struct Fx3 { pub a: Value, pub b: Value, pub c: Value }
#[verifier::external_body]
fn gen3(a: Value, b: Value, c: Value) -> (r: Result<Fx3, E>) ensures r matches Ok(f) ==> f.a == a && f.b == b && f.c == c { unimplemented!() }
"""


def unit3(plan, prop, sites):
    """the same fallback for functions of THREE operands (`match (a, b, c)`): the generated function receives (deref(a), deref(b), deref(c)) in that order"""
    items, fns = [PRELUDE3], {}
    for stem, rel, start_rx, callee in sites:
        name = "%s.fallback.%s" % (prop, stem)
        try:
            text = read_repo(rel)
            m0 = find_code(text, start_rx)
            if not m0:
                raise AnchorLost("site %s not found" % start_rx)
            found = None
            for m in find_all_code(text[m0.start():], r"match\s*\(\s*(\w+)\s*,\s*(\w+)\s*,\s*(\w+)\s*\)\s*\{"):
                e = match_brace(text, m0.start() + m.end() - 1)
                block = text[m0.start() + m.end():e - 1]
                if "Value::MutableReference" in block:
                    found = (m.group(1), m.group(2), m.group(3), block)
                    break
            if not found:
                raise AnchorLost("no three-operand fallback match found after %s" % start_rx)
            a, b, c, block = found
            kept = []
            for attrs, pat, expr in arms_of(block):
                if "Value::MutableReference" not in pat:
                    continue
                ex = expr.strip()
                if ex.startswith("{") and ex.endswith("}"):
                    ex = ex[1:-1].strip()
                ex2 = re.sub(r"(?<!\w)%s\(" % callee, "gen3(", ex)
                if "gen3(" not in ex2:
                    raise AnchorLost("arm `%s` does not call %s" % (pat, callee))
                kept.append("    %s => { %s }" % (pat, ex2.rstrip(",")))
            if not kept:
                raise AnchorLost("no MutableReference arm")
        except AnchorLost as e:
            plan.anchor_errors.append((name, str(e)))
            continue
        fn = "fallback3_" + re.sub(r"\W", "_", stem)
        items.append("""fn %s(%s: Value, %s: Value, %s: Value) -> (r: Result<Fx3, E>)
  ensures r matches Ok(f) ==> f.a == deref(%s) && f.b == deref(%s) && f.c == deref(%s),
{
  match (%s, %s, %s) {
%s
    _ => Err(E {}),
  }
}
""" % (fn, a, b, c, a, b, c, a, b, c, "\n".join(kept)))
        fns[fn] = name
        plan.ob(name, "verus", "proved", functions=["%s: NativeFunctionCompiler::compile fallback (%s)" % (rel, stem)],
                what="when operands arrive as variable references, the function is built from (deref(start), deref(step), deref(bound)) in that order -- every one of the seven reference / value combinations")
    if not fns:
        return
    items.append(vlib.verus_canary("canary_fallback3", "x: u64", []))
    plan.verus.append(VerusUnit("%s_fallback3" % prop.lower(), vlib.verus_file(items), fns, ["canary_fallback3"]))
