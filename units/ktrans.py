"""(K) kernel-macro transcription for Verus — the stated token rewrites of
DESIGN.md 3.1, applied mechanically to the macro text extracted from /repo."""
import re
import vlib
from vlib import AnchorLost


def scalar_kernel_body(macro_text, params=("lhs", "rhs", "out")):
    """Body of a `($lhs:expr, $rhs:expr, $out:expr) => { unsafe { *$out = *$lhs OP *$rhs; } }` macro
    rewritten with K1 (`unsafe { B }` -> B) and K2 (`*$p` / `(*$p)` -> p)."""
    pat, body = vlib.macro_arm_body(macro_text, 0)
    names = re.findall(r"\$(\w+)\s*:\s*expr", pat)
    if len(names) != len(params):
        raise AnchorLost("kernel macro has %d parameters, expected %d" % (len(names), len(params)))
    b = body.strip()
    m = re.match(r"unsafe\s*\{(.*)\}\s*;?\s*$", b, re.S)   # K1
    if not m:
        raise AnchorLost("kernel macro body is not `unsafe { .. }`")
    b = m.group(1).strip()
    for macro_name, p in zip(names, params):              # K2
        b = re.sub(r"\(\s*&?\s*\*\s*\$%s\s*\)" % macro_name, p, b)
        b = re.sub(r"\*\s*\$%s\b" % macro_name, p, b)
    if "$" in b:
        raise AnchorLost("untranslated macro variable left in kernel body: " + b)
    return b


def loop_kernel_body(macro_text, params=("lhs", "rhs", "out")):
    """Index-loop kernels (`«op»_scalar_lhs_op`, `_scalar_rhs_op`, `_vec_op` of sub/div/compare/logic):
    K1 strip `unsafe{}`; K2 `(&mut (*$p))`, `(&mut *$p)`, `(&(*$p))`, `(&*$p)`, `(*$p)`, `*$p` -> p;
    K3 alias bindings `let [mut] a = &[mut] (*$p);` are inlined; the loop header `for i in 0..X.len()` becomes
    `for i in iter: 0..X.len()` (names the iterator for the invariant; same iteration)."""
    pat, body = vlib.macro_arm_body(macro_text, 0)
    names = re.findall(r"\$(\w+)\s*:\s*expr", pat)
    if len(names) != len(params):
        raise AnchorLost("kernel macro has %d parameters" % len(names))
    b = body.strip()
    m = re.match(r"unsafe\s*\{(.*)\}\s*;?\s*$", b, re.S)
    if not m:
        raise AnchorLost("kernel macro body is not `unsafe { .. }`")
    b = m.group(1).strip()
    alias = {}
    def take_alias(mm):
        alias[mm.group(2)] = mm.group(4)
        return ""
    b = re.sub(r"let\s+(mut\s+)?(\w+)\s*=\s*&(mut\s+)?\(\*\$(\w+)\)\s*;", take_alias, b)     # K3
    for mn, p in zip(names, params):                                                           # K2
        b = re.sub(r"\(\s*&\s*mut\s*\(\s*\*\s*\$%s\s*\)\s*\)" % mn, p, b)
        b = re.sub(r"\(\s*&\s*mut\s*\*\s*\$%s\s*\)" % mn, p, b)
        b = re.sub(r"\(\s*&\s*\(\s*\*\s*\$%s\s*\)\s*\)" % mn, p, b)
        b = re.sub(r"\(\s*&\s*\*\s*\$%s\s*\)" % mn, p, b)
        b = re.sub(r"\(\s*\*\s*\$%s\s*\)" % mn, p, b)
        b = re.sub(r"\*\s*\$%s\b" % mn, p, b)
    for a, mn in alias.items():
        p = params[names.index(mn)]
        b = re.sub(r"\*%s\b" % a, p, b)
        b = re.sub(r"\b%s\b" % a, p, b)
    if "$" in b:
        raise AnchorLost("untranslated macro variable left in kernel body: " + b[:120])
    b, n = re.subn(r"for i in 0\.\.", "for i in iter: 0..", b)
    if n != 1 or "zip(" in b or "iter()" in b or "iter_mut()" in b:
        raise AnchorLost("kernel is not a single index loop")
    return b
