"""(K) kernel-macro transcription for Verus — the stated token rewrites of
DESIGN.md 3.1, applied mechanically to the macro text extracted from /repo."""
import re
import vlib
from vlib import AnchorLost


def scalar_kernel_body(macro_text, params=("lhs", "rhs", "out")):
    """Body of a `($lhs:expr, $rhs:expr, $out:expr) => { unsafe { *$out = *$lhs OP *$rhs; } }` macro
    rewritten with K1 (`unsafe { B }` -> B) and K2 (`*$p` / `(*$p)` -> p)."""
    pat, body = vlib.macro_arm_body(macro_text, 0)
    names = re.findall(r"\$(\w+)\s*:\s*expr", pat)
    if len(names) != len(params):
        raise AnchorLost("kernel macro has %d parameters, expected %d" % (len(names), len(params)))
    b = body.strip()
    m = re.match(r"unsafe\s*\{(.*)\}\s*;?\s*$", b, re.S)   # K1
    if not m:
        raise AnchorLost("kernel macro body is not `unsafe { .. }`")
    b = m.group(1).strip()
    for macro_name, p in zip(names, params):              # K2
        b = re.sub(r"\(\s*&?\s*\*\s*\$%s\s*\)" % macro_name, p, b)
        b = re.sub(r"\*\s*\$%s\b" % macro_name, p, b)
    if "$" in b:
        raise AnchorLost("untranslated macro variable left in kernel body: " + b)
    return b


def loop_kernel_body(macro_text, params=("lhs", "rhs", "out")):
    """Index-loop kernels (`«op»_scalar_lhs_op`, `_scalar_rhs_op`, `_vec_op` of sub/div/compare/logic):
    K1 strip `unsafe{}`; K2 `(&mut (*$p))`, `(&mut *$p)`, `(&(*$p))`, `(&*$p)`, `(*$p)`, `*$p` -> p;
    K3 alias bindings `let [mut] a = &[mut] (*$p);` are inlined; the loop header `for i in 0..X.len()` becomes
    `for i in iter: 0..X.len()` (names the iterator for the invariant; same iteration)."""
    pat, body = vlib.macro_arm_body(macro_text, 0)
    names = re.findall(r"\$(\w+)\s*:\s*expr", pat)
    if len(names) != len(params):
        raise AnchorLost("kernel macro has %d parameters" % len(names))
    b = body.strip()
    m = re.match(r"unsafe\s*\{(.*)\}\s*;?\s*$", b, re.S)
    if not m:
        raise AnchorLost("kernel macro body is not `unsafe { .. }`")
    b = m.group(1).strip()
    alias = {}
    def take_alias(mm):
        alias[mm.group(2)] = mm.group(4)
        return ""
    b = re.sub(r"let\s+(mut\s+)?(\w+)\s*=\s*&(mut\s+)?\(\*\$(\w+)\)\s*;", take_alias, b)     # K3
    for mn, p in zip(names, params):                                                           # K2
        b = re.sub(r"\(\s*&\s*mut\s*\(\s*\*\s*\$%s\s*\)\s*\)" % mn, p, b)
        b = re.sub(r"\(\s*&\s*mut\s*\*\s*\$%s\s*\)" % mn, p, b)
        b = re.sub(r"\(\s*&\s*\(\s*\*\s*\$%s\s*\)\s*\)" % mn, p, b)
        b = re.sub(r"\(\s*&\s*\*\s*\$%s\s*\)" % mn, p, b)
        b = re.sub(r"\(\s*\*\s*\$%s\s*\)" % mn, p, b)
        b = re.sub(r"\*\s*\$%s\b" % mn, p, b)
    for a, mn in alias.items():
        p = params[names.index(mn)]
        b = re.sub(r"\*%s\b" % a, p, b)
        b = re.sub(r"\b%s\b" % a, p, b)
    if "$" in b:
        raise AnchorLost("untranslated macro variable left in kernel body: " + b[:120])
    b, n = re.subn(r"for i in 0\.\.", "for i in iter: 0..", b)
    if n != 1 or "zip(" in b or "iter()" in b or "iter_mut()" in b:
        raise AnchorLost("kernel is not a single index loop")
    return b


def zip_kernel_body(macro_text, kern, params=("lhs", "rhs", "out")):
    """The matrix-with-vector kernels (`«op»_mat_vec_op`, `_vec_mat_op`, `_mat_row_op`, `_row_mat_op`): an outer loop that pairs the columns (rows) of `out` with the
    columns (rows) of the MATRIX operand, and an inner index loop over one column (row).  K1-K3 as for the loop kernels; then
      K4 the outer header `for (mut C, MC) in out.column_iter_mut().zip(M.column_iter())` (resp. row_iter_mut / row_iter) is CHECKED -- both iterators of the expected
         kind (columns for mat_vec / vec_mat, rows for mat_row / row_mat), M the expected matrix operand (lhs for mat_*, rhs for *_mat) -- and DROPPED: that nalgebra
         pairs line j of `out` with line j of M, each once, is ASSUMED (the Kani twins of `sub` run all forms on real nalgebra storage);
      K5 the inner loop `for i in 0..C.len() { C[i] = E; }` is kept with C -> `out`, MC -> the matrix operand's line, the vector operand unchanged.
    Returns (the inner loop as text over (lhs, rhs, out) where the matrix operand now denotes ONE line of the matrix, whether the outer pairing is the expected one, a description)."""
    pat, body = vlib.macro_arm_body(macro_text, 0)
    names = re.findall(r"\$(\w+)\s*:\s*expr", pat)
    if len(names) != len(params):
        raise AnchorLost("kernel macro has %d parameters" % len(names))
    b = body.strip()
    m = re.match(r"unsafe\s*\{(.*)\}\s*;?\s*$", b, re.S)
    if not m:
        raise AnchorLost("kernel macro body is not `unsafe { .. }`")
    b = re.sub(r"//[^\n]*", "", m.group(1)).strip()
    alias = {}
    def take_alias(mm):
        alias[mm.group(2)] = mm.group(4)
        return ""
    b = re.sub(r"let\s+(mut\s+)?(\w+)\s*=\s*&(mut\s+)?\(\*\$(\w+)\)\s*;", take_alias, b)
    for mn, p in zip(names, params):
        for rx in (r"\(\s*&\s*mut\s*\(\s*\*\s*\$%s\s*\)\s*\)", r"\(\s*&\s*mut\s*\*\s*\$%s\s*\)", r"\(\s*&\s*\(\s*\*\s*\$%s\s*\)\s*\)", r"\(\s*&\s*\*\s*\$%s\s*\)", r"\(\s*\*\s*\$%s\s*\)", r"\*\s*\$%s\b"):
            b = re.sub(rx % mn, p, b)
    for a, mn in alias.items():
        p = params[names.index(mn)]
        b = re.sub(r"\*%s\b" % a, p, b)
        b = re.sub(r"\b%s\b" % a, p, b)
    if "$" in b:
        raise AnchorLost("untranslated macro variable left in kernel body")
    b = b.strip()
    line = "column" if kern in ("mat_vec", "vec_mat") else "row"
    mat = "lhs" if kern in ("mat_vec", "mat_row") else "rhs"
    mo = re.match(r"for\s+\(\s*mut\s+(\w+)\s*,\s*(\w+)\s*\)\s+in\s+out\.(column|row)_iter_mut\(\)\.zip\(\s*(lhs|rhs)\.(column|row)_iter\(\)\s*\)\s*\{", b)
    if not mo:
        raise AnchorLost("kernel is not `for (mut c, m) in out.<line>_iter_mut().zip(<matrix>.<line>_iter())`")
    pairing_ok = (mo.group(3) == line and mo.group(5) == line and mo.group(4) == mat)
    detail = "the outer loop pairs %ss of out with %ss of %s; the %s kernel must pair %ss of out with %ss of %s" % (mo.group(3), mo.group(5), mo.group(4), kern, line, line, mat)
    e = vlib.match_brace(b, mo.end() - 1)
    if b[e:].strip():
        raise AnchorLost("statements after the outer loop")
    inner = b[mo.end():e - 1].strip()
    inner = re.sub(r"\b%s\b" % mo.group(1), "out", inner)
    inner = re.sub(r"\b%s\b" % mo.group(2), mo.group(4), inner)
    inner, n = re.subn(r"for i in 0\.\.", "for i in iter: 0..", inner)
    if n != 1 or "zip(" in inner or "iter()" in inner or "iter_mut()" in inner or "add_to" in inner:
        raise AnchorLost("the inner kernel is not a single index loop")
    return inner, pairing_ok, detail
