"""(K) kernel-macro transcription for Verus — the stated token rewrites of
DESIGN.md 3.1, applied mechanically to the macro text extracted from /repo."""
import re
import vlib
from vlib import AnchorLost


def scalar_kernel_body(macro_text, params=("lhs", "rhs", "out")):
    """Body of a `($lhs:expr, $rhs:expr, $out:expr) => { unsafe { *$out = *$lhs OP *$rhs; } }` macro
    rewritten with K1 (`unsafe { B }` -> B) and K2 (`*$p` / `(*$p)` -> p)."""
    pat, body = vlib.macro_arm_body(macro_text, 0)
    names = re.findall(r"\$(\w+)\s*:\s*expr", pat)
    if len(names) != len(params):
        raise AnchorLost("kernel macro has %d parameters, expected %d" % (len(names), len(params)))
    b = body.strip()
    m = re.match(r"unsafe\s*\{(.*)\}\s*;?\s*$", b, re.S)   # K1
    if not m:
        raise AnchorLost("kernel macro body is not `unsafe { .. }`")
    b = m.group(1).strip()
    for macro_name, p in zip(names, params):              # K2
        b = re.sub(r"\(\s*&?\s*\*\s*\$%s\s*\)" % macro_name, p, b)
        b = re.sub(r"\*\s*\$%s\b" % macro_name, p, b)
    if "$" in b:
        raise AnchorLost("untranslated macro variable left in kernel body: " + b)
    return b
