"""Anchor pass (syntactic, labelled bounded): inside the `op_assign!` evaluator macro (src/interpreter/src/statements.rs) every
function pushed onto the plan must be an OP-assignment function (`[<$op Assign..>]`); a plain `MatrixAssign*` there makes
`x[i] += v` an ordinary assignment."""
import os, re, sys
sys.path.insert(0, os.path.join(os.path.dirname(os.path.abspath(__file__)), "..", "tools"))
import vlib


def add(plan, prop="C04"):
    name0 = "%s.routing.op_assign" % prop
    try:
        text = vlib.read_repo("src/interpreter/src/statements.rs")
        mt = vlib.extract_macro(text, "op_assign")
    except Exception as e:
        plan.anchor_errors.append((name0, str(e)))
        return
    pushes = list(re.finditer(r"(\[[^\]]*\]|_|x)\s*=>\s*plan\.borrow_mut\(\)\.push\(\s*([^{}]+?)\{\}\.compile\(|plan\.borrow_mut\(\)\.push\(\s*([^{}]+?)\{\}\.compile\(", mt))
    if not pushes:
        plan.anchor_errors.append((name0, "no `plan.borrow_mut().push(F{}.compile(..))` found in op_assign!"))
        return
    for n, m in enumerate(pushes):
        shape, fn = (m.group(1) or "").strip(), (m.group(2) or m.group(3)).strip()
        ob = plan.ob("%s.push#%d" % (name0, n), "syntactic", "bounded", bound="source-text pass over the op_assign! macro (not a proof)", functions=["op_assign! (statements.rs)"],
                     what="the function that `x[..] op= v` pushes onto the plan for index shape %s is an op-assignment function" % (shape or "(range)"))
        if re.fullmatch(r"\[<\s*\$op\s+Assign\w*\s*>\]", fn):
            ob.status = "discharged"
        else:
            ob.status = "violated"
            ob.detail = "index shape %s is routed to the plain assignment `%s`: `x[i] op= v` overwrites instead of applying the operator" % (shape or "?", fn)
            ob.raw = ob.detail
