"""Syntactic correspondence between a struct's bytecode emitter and its factory:
`compile_*op!(name, self.f0, self.f1, ..)` must pass the fields in the order in
which `new(FunctionArgs::*(out, arg1, ..))` reads them back.  This is an anchor
pass over source text (not a proof); it is what ties the emitter contract (C06,
Verus) to every generated struct."""
import re, os
import vlib
from vlib import find_all_code, match_brace, _skip_trivia

FILES = [
    "src/core/src/stdlib.rs",
    "src/interpreter/src/stdlib/mod.rs",
    "src/interpreter/src/stdlib/access/matrix.rs",
    "src/interpreter/src/stdlib/assign/matrix.rs",
    "src/interpreter/src/stdlib/define.rs",
    "src/interpreter/src/stdlib/convert/scalar.rs",
    "src/interpreter/src/stdlib/convert/mat_to_mat.rs",
    "src/interpreter/src/stdlib/convert/scalar_to_mat.rs",
    "machines/math/src/ops/pow.rs", "machines/math/src/ops/modulus.rs", "machines/math/src/ops/negate.rs",
    "machines/math/src/op_assign/mod.rs",
    "machines/compare/src/lib.rs", "machines/logic/src/lib.rs", "machines/logic/src/not.rs",
    "machines/range/src/exclusive.rs", "machines/range/src/inclusive.rs",
    "machines/range/src/exclusive_increment.rs", "machines/range/src/inclusive_increment.rs",
    "machines/set/src/operations/union.rs", "machines/set/src/operations/intersection.rs", "machines/set/src/operations/difference.rs",
    "machines/set/src/operations/symmetric_difference.rs",
]

ARGS_RX = re.compile(r"FunctionArgs::(Nullary|Unary|Binary|Ternary|Quaternary)\(([^)]*)\)\s*=>")
LET_RX = re.compile(r"let\s+(\w+)\s*(?::[^=]+)?=\s*unsafe\s*\{\s*(\w+)\.as_unchecked\(\)\s*(?:\.clone\(\))?\s*\}\s*(?:\.clone\(\))?\s*;")


def impl_blocks(text, trait):
    """[(target, body_text, start)] for `impl<..> Trait for Target .. { body }`"""
    out = []
    for m in find_all_code(text, r"\bimpl\b[^{;]*?\b%s\s+for\s+([\w\$:<>\[\], ]+?)\s*(?:where\b|\{)" % trait):
        i = text.index("{", m.end() - 1) if text[m.end() - 1] != "{" else m.end() - 1
        # the `{` of the impl body: skip where-clauses
        j = m.end() - 1
        depth = 0
        while j < len(text):
            k = _skip_trivia(text, j)
            if k != j:
                j = k; continue
            c = text[j]
            if c in "(<[":
                depth += (c != "<")
            elif c in ")]":
                depth -= 1
            elif c == "{" and depth == 0:
                break
            j += 1
        end = match_brace(text, j)
        tgt = re.sub(r"\s+", "", m.group(1))
        tgt = re.sub(r"<.*$", "", tgt)
        out.append((tgt, text[j:end], m.start()))
    return out


def field_map_from_new(body):
    """{field: arg position} from a factory body"""
    m = ARGS_RX.search(body)
    if not m:
        return None
    argv = [a.strip() for a in m.group(2).split(",") if a.strip()]
    pos = {a: i for i, a in enumerate(argv)}
    local = {}
    for lm in LET_RX.finditer(body):
        if lm.group(2) in pos:
            local[lm.group(1)] = pos[lm.group(2)]
    # struct literal
    sm = re.search(r"Box::new\(\s*(?:Self|\$struct_name|\[<[^>]*>\]|\w+)\s*(?:::<[^{]*>)?\s*\{([^}]*)\}", body, re.S)
    if not sm:
        return None
    fields = {}
    for part in re.split(r",(?![^()]*\))", sm.group(1)):
        part = part.strip()
        if not part:
            continue
        if ":" in part:
            f, v = [x.strip() for x in part.split(":", 1)]
        else:
            f, v = part, part
        tm = re.fullmatch(r"\(\s*(\w+)\s*,\s*(\w+)\s*\)", v)
        if tm:
            for k, nm in enumerate(tm.groups()):
                if nm in local:
                    fields["%s.%d" % (f, k)] = local[nm]
        elif v in local:
            fields[f] = local[v]
        elif v in pos:
            fields[f] = pos[v]
    return fields


def compile_order(body):
    m = re.search(r"compile_(nullop|unop|binop|ternop|quadop)!\(\s*name\s*,(.*?),\s*ctx\s*,", body, re.S)
    if not m:
        return None
    fields = [re.sub(r"^self\.", "", a.strip()) for a in m.group(2).split(",")]
    return fields


def check(plan):
    results = []
    for rel in FILES:
        try:
            text = vlib.read_repo(rel)
        except vlib.AnchorLost:
            continue
        fac = {}
        for tgt, body, pos in impl_blocks(text, "MechFunctionFactory"):
            fac.setdefault(tgt, []).append((pos, body))
        for tgt, body, pos in impl_blocks(text, "MechFunctionCompiler"):
            order = compile_order(body)
            if order is None or tgt not in fac:
                continue
            # the factory impl that precedes this compiler impl most closely (macro templates repeat `$struct_name`)
            cands = [b for p, b in fac[tgt] if p < pos]
            if not cands:
                continue
            fmap = field_map_from_new(cands[-1])
            if not fmap:
                continue
            line = text.count("\n", 0, pos) + 1
            encl = [m.group(1) for m in re.finditer(r"macro_rules!\s*(\w+)", text[:pos])]
            site = (encl[-1] if (encl and ("$" in tgt or "[" in tgt)) else tgt)
            ok, detail = True, []
            for i, f in enumerate(order):
                if f not in fmap:
                    detail.append("field %s not recovered from new()" % f)
                    ok = None if ok else ok
                elif fmap[f] != i:
                    ok = False
                    detail.append("compile passes self.%s at position %d, new() reads it from argument %d" % (f, i, fmap[f]))
            results.append((rel, line, site, ok, "; ".join(detail), order, fmap))
    return results
