"""Anchor pass (syntactic, labelled bounded): in the dispatch arms that build HorizontalConcatenateRDN / VerticalConcatenateVDN
the running position `i` must advance by the extent of the element just pushed ALONG THE CONCATENATION AXIS:
1 for a scalar, `shape()[1]` (columns) for horzcat, `shape()[0]` (rows) for vertcat."""
import os, re, sys
sys.path.insert(0, os.path.join(os.path.dirname(os.path.abspath(__file__)), "..", "tools"))
import vlib


def add(plan, prop="C11"):
    for path, axis in (("src/interpreter/src/stdlib/horzcat.rs", 1), ("src/interpreter/src/stdlib/vertcat.rs", 0)):
        try:
            text = vlib.read_repo(path)
        except Exception as e:
            plan.anchor_errors.append(("%s.positions.%s" % (prop, os.path.basename(path)), str(e)))
            continue
        pushes = list(re.finditer(r"(scalar|matrix)_args\.push\(\((.*?),\s*i\s*\)\);\s*(.*?);", text, re.S))
        if not pushes:
            plan.anchor_errors.append(("%s.positions.%s" % (prop, os.path.basename(path)), "no `*_args.push((.., i)); i += ..;` pair found"))
            continue
        for n, m in enumerate(pushes):
            kind, what, nxt = m.group(1), m.group(2).strip(), re.sub(r"\s+", " ", m.group(3).strip())
            name = "%s.positions.%s.%s#%d" % (prop, os.path.basename(path)[:-3], kind, n)
            ob = plan.ob(name, "syntactic", "bounded", bound="source-text pass (not a proof)", functions=["impl_%s_arms! position loop" % os.path.basename(path)[:-3]],
                         what="after pushing a %s at position i, i advances by its extent along the concatenation axis" % kind)
            if kind == "scalar":
                ok = nxt == "i += 1"
                want = "i += 1"
            else:
                var = what.split(".")[0].strip()
                want = "i += %s.shape()[%d]" % (var, axis)
                ok = nxt == want
            if ok:
                ob.status = "discharged"
            else:
                ob.status, ob.detail = "violated", "after `%s_args.push((%s, i))` the code has `%s`, expected `%s`" % (kind, what, nxt, want)
                ob.raw = ob.detail
