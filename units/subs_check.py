"""Anchor pass (syntactic, not a proof) over the index-form routing of subscript() (reads, C03) and
subscript_ref() (assignments, C04): in every arm `[Subscript::A(..), Subscript::B(..)] => { .. }` the values pushed
to the function input must be, in order, position 0 then position 1: `Value::IndexAll` for an `All` position, else
the value evaluated from `&subs[j]` for position j (never the value of another position)."""
import re
import vlib
from vlib import find_all_code, match_brace, extract_fn, AnchorLost, read_repo
from units.C02 import split_arms


def check_fn(rel, fn_name):
    text = read_repo(rel)
    sig, body = extract_fn(text, fn_name)
    results = []
    for m in find_all_code(body, r"match\s*&subs\[\.\.\]\s*\{"):
        end = match_brace(body, m.end() - 1)
        block = body[m.end():end - 1]
        for k, (attrs, pat, expr) in enumerate(split_arms(block)):
            pm = re.findall(r"Subscript::(\w+)", pat)
            if not pm or not pat.strip().startswith("["):
                continue
            if re.fullmatch(r"todo!\(\)", expr.strip()):
                continue
            # abstract execution of the arm: track which subs[j] each local was evaluated from, and the pushes
            env, pushes = {}, []
            for tm in re.finditer(r"let\s+(\w+)\s*=\s*subscript_\w+\(\s*&subs\[(\d+)\]|fxn_input\.push\(\s*([^;]*?)\s*\)\s*;", expr):
                if tm.group(1):
                    env[tm.group(1)] = int(tm.group(2))
                else:
                    e = tm.group(3)
                    if e == "Value::IndexAll":
                        pushes.append("All")
                    elif re.fullmatch(r"\w+", e) and e in env:
                        pushes.append(env[e])
                    elif re.fullmatch(r"(source|val|sink)(\.clone\(\))?", e):
                        continue   # the indexed value itself
                    else:
                        pushes.append("?" + e)
            want = ["All" if f == "All" else j for j, f in enumerate(pm)]
            ok = (pushes == want)
            name = "%s.%s[%s]#%d" % (fn_name, "match%d" % body.count("match &subs[..]", 0, m.start()), ",".join(pm), k)
            detail = "" if ok else "pushes %s, expected %s" % (pushes, want)
            results.append((name, ok, detail, pm))
    return results


def add(plan, prop, rel, fn_name):
    try:
        res = check_fn(rel, fn_name)
    except AnchorLost as e:
        plan.anchor_errors.append(("%s.routing.%s" % (prop, fn_name), str(e)))
        return
    seen = set()
    for name, ok, detail, pm in res:
        on = "%s.routing.%s" % (prop, name)
        if on in seen:
            continue
        seen.add(on)
        ob = plan.ob(on, "syntactic", "bounded", bound="source-text pass over the arm (not a proof)", functions=["%s: %s()" % (rel, fn_name)],
                     what="index forms [%s]: the function input receives position 0 then position 1, each evaluated from its own subscript" % ", ".join(pm))
        if ok:
            ob.status = "discharged"
        else:
            ob.status, ob.detail = "violated", detail
            ob.raw = "%s %s(): arm [%s]: %s" % (rel, fn_name, ", ".join(pm), detail)
