"""(X) Verus contracts on the formula grammar of src/syntax/src/expressions.rs: `formula`, `l1` .. `l7`, `factor`,
`parenthetical_term`, `negate_factor`, `not_factor` and the operator-class parsers, extracted verbatim on every run onto
contracts/C02/grammodel.rs (parsers are identified by the name of the function that implements them; nom's combinators are
named, assumed-as-documented functions).  Mechanical rewrites (anything else is a lost anchor):
  G1  `many0(pair(OPS, cut(Y)))(input)?` (with or without `cut`), OPS = NAME | alt((N1, N2, ..))  ->  `many0_pair(vec![A::N1, ..], A::Y, input)?`
  G2  `alt((N1, N2, ..))(input)?`  ->  `alt_of(vec![A::N1, ..], input)?`
  G3  `opt(N)(input)?` -> `opt_of(A::N, input)?`;  `range(N)(input)?` -> `range_of(A::N, input)?`
  G4  `label!(N, ..)(input)?` -> `N(input)?` (label! only attaches an error message)
  G5  `N(input)?` -> `run_f(A::N, input)?` for the parsers that yield a Factor (formula, l1..l7, factor), `run_t(A::N, input)?` otherwise
  G6  `Ok((input, X))` -> `Some((input, X))`; `(input: ParseString) -> ParseResult<T>` -> `(input: Input) -> Option<(Input, T)>`
  G7  in `factor`: every table entry `("name", Box::new(|i| f(i) ..))` -> `A::F` (the `.map(..)` that wraps the result into
      `Factor::Expression(..)` is dropped), the table's type annotation -> `Vec<A>`
  G8  `let msgN = "..";` statements are dropped
The order of the alternatives inside one operator class (longest token first) is not part of the contract: a class is the set of its tokens."""
import os, re
import vlib
from vlib import AnchorLost, extract_fn, match_brace, find_code

PATH = "src/syntax/src/expressions.rs"
FACTOR_KIND = {"formula", "l1", "l2", "l3", "l4", "l5", "l6", "l7", "factor", "parenthetical_term", "negate_factor", "not_factor"}
# the names the contract mentions (grammodel.rs); names found in the code are added to the generated enum
CONTRACT_NAMES = ["l1", "l2", "l3", "l4", "l5", "l6", "l7", "factor", "formula", "logic_operator", "comparison_operator", "add_sub_operator",
                  "mul_div_operator", "matrix_operator", "power_operator", "table_operator", "set_operator", "parenthetical_term", "negate_factor",
                  "not_factor", "matrix_comprehension", "structure", "function_call", "literal", "slice", "var", "transpose", "left_parenthesis",
                  "right_parenthesis", "space_tab0", "dash", "not",
                  "add", "subtract", "multiply", "divide", "modulus", "power", "matrix_multiply", "matrix_solve", "dot_product", "cross_product",
                  "strict_equal", "strict_not_equal", "not_equal", "equal_to", "greater_than_equal", "greater_than", "less_than_equal", "less_than",
                  "and", "or", "xor"]
# operator classes: (function, FormulaOperator variant, member tokens) -- from the property: which operators share a level
CLASSES = [
    ("logic_operator", "Logic", ["and", "or", "xor"]),
    ("comparison_operator", "Comparison", ["strict_equal", "strict_not_equal", "not_equal", "equal_to", "greater_than_equal", "greater_than", "less_than_equal", "less_than"]),
    ("add_sub_operator", "AddSub", ["add", "subtract"]),
    ("mul_div_operator", "MulDiv", ["multiply", "divide", "modulus"]),
    ("matrix_operator", "Vec", ["matrix_multiply", "matrix_solve", "dot_product", "cross_product"]),
    ("power_operator", "Power", ["power"]),
]


def camel(n):
    return "".join(p.capitalize() for p in n.split("_"))


def model():
    return open(os.path.join(os.path.dirname(os.path.dirname(os.path.abspath(__file__))), "contracts", "C02", "grammodel.rs")).read()


class Tr:
    def __init__(self):
        self.names = list(CONTRACT_NAMES)
        self.arities = set()

    def arity_fns(self):
        """model functions per arity, so that the sequence a combinator is applied to is written `seq![a1, .., an]` on both sides"""
        out = []
        for kind, n in sorted(self.arities):
            ps = ", ".join("a%d: A" % k for k in range(n))
            sq = "seq![%s]" % ", ".join("a%d" % k for k in range(n))
            if kind == "many0_pair":
                out.append("#[verifier::external_body]\npub fn many0_pair_%d(%s, operand: A, i: Input) -> (r: Option<(Input, PairList)>) ensures r == many(%s, operand, i), { unimplemented!() }" % (n, ps, sq))
            elif kind == "alt_of":
                mem = " || ".join("a == a%d" % k for k in range(n))
                out.append("#[verifier::external_body]\npub fn alt_of_%d(%s, i: Input) -> (r: Option<(Input, Op)>)\n  ensures forall|s: spec_fn(A) -> bool| #![trigger alt_s(s, i)] (forall|a: A| #[trigger] s(a) <==> (%s)) ==> r == alt_s(s, i),\n{ unimplemented!() }" % (n, ps, mem))
        return "\n".join(out) + "\n"

    def atom(self, n):
        if n not in self.names:
            self.names.append(n)
        return "A::" + camel(n)

    def enum(self):
        return "#[derive(PartialEq, Eq)]\npub enum A { %s }\n" % ", ".join(camel(n) for n in self.names)

    def names_list(self, s):
        """`N` or `alt((N1, N2, ..))` -> [names]"""
        s = s.strip()
        m = re.fullmatch(r"alt\(\(\s*([\w\s,]+?)\s*,?\s*\)\)", s)
        if m:
            return [x.strip() for x in m.group(1).split(",") if x.strip()]
        if re.fullmatch(r"\w+", s):
            return [s]
        raise AnchorLost("operator parser outside the rules: " + s)

    def body(self, fn, b):
        b = re.sub(r"//[^\n]*", "", b).replace("\r", "")
        b = re.sub(r"let\s+msg\d*\s*=\s*\"[^\"]*\"\s*;", "", b)                                                   # G8
        # G1
        def g1(m):
            inner = m.group(1)
            # split `OPS , OPERAND` at top-level comma
            depth, k = 0, None
            for idx, ch in enumerate(inner):
                depth += ch in "(["
                depth -= ch in ")]"
                if ch == "," and depth == 0:
                    k = idx
            if k is None:
                raise AnchorLost(fn + ": many0(pair(..)) without two components")
            ops, operand = inner[:k], inner[k + 1:].strip()
            mc = re.fullmatch(r"cut\(\s*(\w+)\s*\)", operand)
            operand = mc.group(1) if mc else operand
            if not re.fullmatch(r"\w+", operand):
                raise AnchorLost(fn + ": operand parser outside the rules: " + operand)
            ns = self.names_list(ops)
            self.arities.add(("many0_pair", len(ns)))
            return "many0_pair_%d(%s, %s, input)?" % (len(ns), ", ".join(self.atom(n) for n in ns), self.atom(operand))
        while True:
            m = re.search(r"\bmany0\(\s*pair\(", b)
            if not m:
                break
            e_pair = match_brace(b, m.end() - 1, "(", ")")
            e_many = match_brace(b, m.start() + len("many0"), "(", ")")
            mm = re.match(r"\s*\(\s*input\s*\)\s*\?", b[e_many:])
            if not mm:
                raise AnchorLost(fn + ": many0(pair(..)) not applied to `input` with `?`")
            class M:  # minimal match-like
                pass
            inner = b[m.end():e_pair - 1]
            mo = M(); mo.group = lambda k, inner=inner: inner
            b = b[:m.start()] + g1(mo) + b[e_many + mm.end():]
        # G2
        def g2(m):
            ns = self.names_list("alt((" + m.group(1) + "))")
            self.arities.add(("alt_of", len(ns)))
            return "alt_of_%d(%s, input)?" % (len(ns), ", ".join(self.atom(n) for n in ns))
        b = re.sub(r"\balt\(\(\s*([\w\s,]+?)\s*\)\)\s*\(\s*input\s*\)\s*\?", g2, b)
        # G3
        b = re.sub(r"\bopt\(\s*(\w+)\s*\)\s*\(\s*input\s*\)\s*\?", lambda m: "opt_of(%s, input)?" % self.atom(m.group(1)), b)
        b = re.sub(r"\brange\(\s*(\w+)\s*\)\s*\(\s*input\s*\)\s*\?", lambda m: "range_of(%s, input)?" % self.atom(m.group(1)), b)
        # G4
        b = re.sub(r"\blabel!\(\s*(\w+)\s*,[^()]*\)\s*\(\s*input\s*\)\s*\?", r"\1(input)?", b)
        # G7 (factor's table)
        mt = re.search(r"let\s+parsers\s*:\s*Vec<[^;]*?>\s*=\s*vec!\[", b)
        if mt:
            e = match_brace(b, mt.end() - 1, "[", "]")
            entries = []
            for me in re.finditer(r"\(\s*\"(\w+)\"\s*,\s*Box::new\(\s*\|i\|\s*(\w+)\(i\)", b[mt.end():e]):
                entries.append(self.atom(me.group(2)))
            if len(entries) != len(re.findall(r"Box::new\(\s*\|", b[mt.end():e])) or len(entries) != len(re.findall(r"\(\s*\"\w+\"\s*,", b[mt.end():e])):
                raise AnchorLost(fn + ": an entry of the parser table is outside rule G7")
            e2 = b.index(";", e) + 1
            b = b[:mt.start()] + "let parsers: Vec<A> = vec![%s];\n  proof { assert(parsers@ =~= seq![%s]); }   // ghost: names the table" % (", ".join(entries), ", ".join(entries)) + b[e2:]
        # G5
        def g5(m):
            n = m.group(1)
            if re.match(r"(many0_pair|alt_of)_\d+$", n) or n in ("opt_of", "range_of", "alt_best", "run_f", "run_t", "Some"):
                return m.group(0)
            return "%s(%s, input)?" % ("run_f" if n in FACTOR_KIND else "run_t", self.atom(n))
        b = re.sub(r"\b(\w+)\(\s*input\s*\)\s*\?", g5, b)
        # G6
        b = re.sub(r"\bOk\(\(", "Some((", b)
        b = re.sub(r"let\s+\(\(input,\s*(\w+)\)\)", r"let (input, \1)", b)
        if re.search(r"\b(Ok|Err|many0|pair|cut|alt|opt|label|tag)\b|Box::new\(\s*\|", b):
            raise AnchorLost(fn + ": statements outside the transcription rules")
        return b


def level_fn(tr, text, k):
    name = "l%d" % k
    sig, body = extract_fn(text, name)
    if not re.search(r"\(\s*input\s*:\s*ParseString\s*\)\s*->\s*ParseResult<Factor>", sig):
        raise AnchorLost(name + ": signature changed")
    return ("fn %s(input: Input) -> (r: Option<(Input, Factor)>)\n  ensures r == level(%d, input),\n" % (name, k)) + tr.body(name, body) + "\n"


def simple_fn(tr, text, name, ret, ens):
    sig, body = extract_fn(text, name)
    if not re.search(r"\(\s*input\s*:\s*ParseString\s*\)\s*->\s*ParseResult<\w+>", sig):
        raise AnchorLost(name + ": signature changed")
    return ("fn %s(input: Input) -> (r: Option<(Input, %s)>)\n  ensures %s,\n" % (name, ret, ens)) + tr.body(name, body) + "\n"


def class_fn(tr, text, fname, variant, members):
    sig, body = extract_fn(text, fname)
    b = tr.body(fname, body)
    alts = ", ".join(tr.atom(n) for n in members)
    if len(members) == 1:
        src = "pt(%s, input)" % tr.atom(members[0])
    else:
        # a class is the SET of its tokens: the order of the alternatives is not part of the contract (alt_of_N is stated over the set)
        src = "alt_s(|a: A| %s, input)" % " || ".join("a == " + tr.atom(n) for n in members)
    ens = "r == (match %s { None => None::<(Input, FormulaOperator)>, Some((i1, op)) => Some((i1, FormulaOperator::%s(op))) })" % (src, variant)
    return ("fn %s(input: Input) -> (r: Option<(Input, FormulaOperator)>)\n  ensures %s,\n" % (fname, ens)) + b + "\n"


ALT_SET = """
pub uninterp spec fn alt_s(alts: spec_fn(A) -> bool, i: Input) -> Option<(Input, Op)>;    // alt over a SET of token parsers (order of the alternatives abstracted)
"""


def units(plan):
    """returns [(VerusUnit, {fn: obligation})]; one Verus file per group so that a drifted function only loses its own obligations"""
    text = vlib.read_repo(PATH)
    out = []

    def mk(uname, builders):
        tr = Tr()
        items, fns = [], {}
        for fn, on, build, what in builders:
            plan.ob(on, "verus", "proved", functions=["src/syntax/src/expressions.rs: " + fn], what=what)
            try:
                items.append(build(tr))
                fns[fn] = on
            except AnchorLost as e:
                plan.anchor_errors.append((on, str(e)))
        if not fns:
            return
        canary = "canary_" + uname
        unit = vlib.verus_file([tr.enum(), model(), ALT_SET, tr.arity_fns()] + items + [vlib.verus_canary(canary, "x: u64", [])])
        plan.verus.append(vlib.VerusUnit(uname, unit, fns, [canary]))

    for k in range(1, 8):
        mk("c02_level%d" % k, [("l%d" % k, "C02.grammar.l%d.level_structure" % k, (lambda tr, k=k: level_fn(tr, text, k)),
            "grammar level %d parses an operand of the next tighter level and then every (operator of this level, operand of the next tighter level) pair, collected in source order" % k)])
    mk("c02_formula", [("formula", "C02.grammar.formula.loosest_level", lambda tr: simple_fn(tr, text, "formula", "Factor", "r == pf(A::L1, input)"),
        "a formula is parsed by the loosest level (l1)")])
    mk("c02_factor", [
        ("factor", "C02.grammar.factor.primaries_and_transpose", lambda tr: simple_fn(tr, text, "factor", "Factor", "r == factor_spec(input)"),
         "a factor is one of the primaries (among them parenthesised formula, negation, logical not) with an optional postfix transpose applied to that primary only"),
        ("negate_factor", "C02.grammar.negate_factor.binds_a_factor", lambda tr: simple_fn(tr, text, "negate_factor", "Factor", "r == prefix_spec(A::Dash, input, true)"),
         "unary minus applies to the factor that follows it"),
        ("not_factor", "C02.grammar.not_factor.binds_a_factor", lambda tr: simple_fn(tr, text, "not_factor", "Factor", "r == prefix_spec(A::Not, input, false)"),
         "logical not applies to the factor that follows it"),
        ("parenthetical_term", "C02.grammar.parenthetical_term.encloses_a_formula", lambda tr: simple_fn(tr, text, "parenthetical_term", "Factor", "r == paren_spec(input)"),
         "parentheses enclose a whole formula (loosest level) and yield one factor"),
    ])
    mk("c02_classes", [(f, "C02.grammar.class.%s" % f, (lambda tr, f=f, v=v, ms=ms: class_fn(tr, text, f, v, ms)),
                        "operator class %s consists of exactly the tokens {%s} and tags them as FormulaOperator::%s" % (f, ", ".join(ms), v)) for f, v, ms in CLASSES])
