"""(X) Verus contracts on the formula grammar of src/syntax/src/expressions.rs: `formula`, `l1` .. `l7`, `factor`,
`parenthetical_term`, `negate_factor`, `not_factor` and the operator-class parsers, extracted verbatim on every run onto
contracts/C02/grammodel.rs (parsers are identified by the name of the function that implements them; nom's combinators are
named, assumed-as-documented functions).  Mechanical rewrites (anything else is a lost anchor):
  G1  `many0(pair(OPS, cut(Y)))(input)?` (with or without `cut`), OPS = NAME | alt((N1, N2, ..))  ->  `many0_pair(vec![A::N1, ..], A::Y, input)?`
  G2  `alt((N1, N2, ..))(input)?`  ->  `alt_of(vec![A::N1, ..], input)?`
  G3  `opt(N)(input)?` -> `opt_of(A::N, input)?`;  `range(N)(input)?` -> `range_of(A::N, input)?`
  G4  `label!(N, ..)(input)?` -> `N(input)?` (label! only attaches an error message)
  G5  `N(input)?` -> `run_f(A::N, input)?` for the parsers that yield a Factor (formula, l1..l7, factor), `run_t(A::N, input)?` otherwise
  G6  `Ok((input, X))` -> `Some((input, X))`; `(input: ParseString) -> ParseResult<T>` -> `(input: Input) -> Option<(Input, T)>`
  G7  in `factor`: every table entry `("name", Box::new(|i| f(i) ..))` -> `A::F` (the `.map(..)` that wraps the result into
      `Factor::Expression(..)` is dropped), the table's type annotation -> `Vec<A>`
  G8  `let msgN = "..";` statements are dropped
The order of the alternatives inside one operator class (longest token first) is not part of the contract: a class is the set of its tokens."""
import os, re
import vlib
from vlib import AnchorLost, extract_fn, match_brace, find_code

PATH = "src/syntax/src/expressions.rs"
FACTOR_KIND = {"formula", "l1", "l2", "l3", "l4", "l5", "l6", "l7", "factor", "parenthetical_term", "negate_factor", "not_factor"}
# the names the contract mentions (grammodel.rs); names found in the code are added to the generated enum
CONTRACT_NAMES = ["l1", "l2", "l3", "l4", "l5", "l6", "l7", "factor", "formula", "logic_operator", "comparison_operator", "add_sub_operator",
                  "mul_div_operator", "matrix_operator", "power_operator", "table_operator", "set_operator", "parenthetical_term", "negate_factor",
                  "not_factor", "matrix_comprehension", "structure", "function_call", "literal", "slice", "var", "transpose", "left_parenthesis",
                  "right_parenthesis", "space_tab0", "dash", "not",
                  "add", "subtract", "multiply", "divide", "modulus", "power", "matrix_multiply", "matrix_solve", "dot_product", "cross_product",
                  "strict_equal", "strict_not_equal", "not_equal", "equal_to", "greater_than_equal", "greater_than", "less_than_equal", "less_than",
                  "and", "or", "xor"]
# operator classes: (function, FormulaOperator variant, member tokens) -- from the property: which operators share a level
CLASSES = [
    ("logic_operator", "Logic", ["and", "or", "xor"]),
    ("comparison_operator", "Comparison", ["strict_equal", "strict_not_equal", "not_equal", "equal_to", "greater_than_equal", "greater_than", "less_than_equal", "less_than"]),
    ("add_sub_operator", "AddSub", ["add", "subtract"]),
    ("mul_div_operator", "MulDiv", ["multiply", "divide", "modulus"]),
    ("matrix_operator", "Vec", ["matrix_multiply", "matrix_solve", "dot_product", "cross_product"]),
    ("power_operator", "Power", ["power"]),
]


def camel(n):
    return "".join(p.capitalize() for p in n.split("_"))


def model():
    return open(os.path.join(os.path.dirname(os.path.dirname(os.path.abspath(__file__))), "contracts", "C02", "grammodel.rs")).read()


class Tr:
    def __init__(self, text=""):
        self.names = list(CONTRACT_NAMES)
        self.arities = set()
        # which parsers yield a Factor: the known ones plus every function of the file declared `-> ParseResult<Factor>`
        self.factor_kind = set(FACTOR_KIND) | set(re.findall(r"\bfn\s+(\w+)\s*\(\s*input\s*:\s*ParseString\s*\)\s*->\s*ParseResult<\s*Factor\s*>", text))

    def arity_fns(self):
        """model functions per arity, so that the sequence a combinator is applied to is written `seq![a1, .., an]` on both sides"""
        out = []
        for kind, n in sorted(self.arities):
            ps = ", ".join("a%d: A" % k for k in range(n))
            sq = "seq![%s]" % ", ".join("a%d" % k for k in range(n))
            if kind == "many0_pair":
                out.append("#[verifier::external_body]\npub fn many0_pair_%d(%s, operand: A, i: Input) -> (r: Option<(Input, PairList)>) ensures r == many(%s, operand, i), { unimplemented!() }" % (n, ps, sq))
            elif kind == "alt_of":
                mem = " || ".join("a == a%d" % k for k in range(n))
                out.append("#[verifier::external_body]\npub fn alt_of_%d(%s, i: Input) -> (r: Option<(Input, Op)>)\n  ensures forall|s: spec_fn(A) -> bool| #![trigger alt_s(s, i)] (forall|a: A| #[trigger] s(a) <==> (%s)) ==> r == alt_s(s, i),\n{ unimplemented!() }" % (n, ps, mem))
        return "\n".join(out) + "\n"

    def atom(self, n):
        if n not in self.names:
            self.names.append(n)
        return "A::" + camel(n)

    def enum(self):
        return "#[derive(PartialEq, Eq)]\npub enum A { %s }\n" % ", ".join(camel(n) for n in self.names)

    def names_list(self, s):
        """`N` or `alt((N1, N2, ..))` -> [names]"""
        s = s.strip()
        m = re.fullmatch(r"alt\(\(\s*([\w\s,]+?)\s*,?\s*\)\)", s)
        if m:
            return [x.strip() for x in m.group(1).split(",") if x.strip()]
        if re.fullmatch(r"\w+", s):
            return [s]
        raise AnchorLost("operator parser outside the rules: " + s)

    def body(self, fn, b):
        b = re.sub(r"//[^\n]*", "", b).replace("\r", "")
        b = re.sub(r"let\s+msg\d*\s*=\s*\"[^\"]*\"\s*;", "", b)                                                   # G8
        # G1
        def g1(m):
            inner = m.group(1)
            # split `OPS , OPERAND` at top-level comma
            depth, k = 0, None
            for idx, ch in enumerate(inner):
                depth += ch in "(["
                depth -= ch in ")]"
                if ch == "," and depth == 0:
                    k = idx
            if k is None:
                raise AnchorLost(fn + ": many0(pair(..)) without two components")
            ops, operand = inner[:k], inner[k + 1:].strip()
            mc = re.fullmatch(r"cut\(\s*(\w+)\s*\)", operand)
            operand = mc.group(1) if mc else operand
            if not re.fullmatch(r"\w+", operand):
                raise AnchorLost(fn + ": operand parser outside the rules: " + operand)
            ns = self.names_list(ops)
            self.arities.add(("many0_pair", len(ns)))
            return "many0_pair_%d(%s, %s, input)?" % (len(ns), ", ".join(self.atom(n) for n in ns), self.atom(operand))
        while True:
            m = re.search(r"\bmany0\(\s*pair\(", b)
            if not m:
                break
            e_pair = match_brace(b, m.end() - 1, "(", ")")
            e_many = match_brace(b, m.start() + len("many0"), "(", ")")
            mm = re.match(r"\s*\(\s*input\s*\)\s*\?", b[e_many:])
            if not mm:
                raise AnchorLost(fn + ": many0(pair(..)) not applied to `input` with `?`")
            class M:  # minimal match-like
                pass
            inner = b[m.end():e_pair - 1]
            mo = M(); mo.group = lambda k, inner=inner: inner
            b = b[:m.start()] + g1(mo) + b[e_many + mm.end():]
        # G2
        def g2(m):
            ns = self.names_list("alt((" + m.group(1) + "))")
            self.arities.add(("alt_of", len(ns)))
            return "alt_of_%d(%s, input)?" % (len(ns), ", ".join(self.atom(n) for n in ns))
        b = re.sub(r"\balt\(\(\s*([\w\s,]+?)\s*\)\)\s*\(\s*input\s*\)\s*\?", g2, b)
        # the same without `?` (the result matched explicitly): `match alt((..))(input) { Ok(x) => .., Err(e) => Err(e) }`
        b = re.sub(r"\balt\(\(\s*([\w\s,]+?)\s*\)\)\s*\(\s*input\s*\)(?!\s*\?)", lambda m: g2(m)[:-1], b)
        b = re.sub(r"\bErr\(\s*(\w+)\s*\)\s*=>\s*Err\(\s*\1\s*\)", "None => None", b)
        # G3
        b = re.sub(r"\bopt\(\s*(\w+)\s*\)\s*\(\s*input\s*\)\s*\?", lambda m: "opt_of(%s, input)?" % self.atom(m.group(1)), b)
        b = re.sub(r"\brange\(\s*(\w+)\s*\)\s*\(\s*input\s*\)\s*\?", lambda m: "range_of(%s, input)?" % self.atom(m.group(1)), b)
        # G4
        b = re.sub(r"\blabel!\(\s*(\w+)\s*,[^()]*\)\s*\(\s*input\s*\)\s*\?", r"\1(input)?", b)
        # G7 (factor's table)
        mt = re.search(r"let\s+parsers\s*:\s*Vec<[^;]*?>\s*=\s*vec!\[", b)
        if mt:
            e = match_brace(b, mt.end() - 1, "[", "]")
            entries = []
            for me in re.finditer(r"\(\s*\"(\w+)\"\s*,\s*Box::new\(\s*\|i\|\s*(\w+)\(i\)", b[mt.end():e]):
                entries.append(self.atom(me.group(2)))
            if len(entries) != len(re.findall(r"Box::new\(\s*\|", b[mt.end():e])) or len(entries) != len(re.findall(r"\(\s*\"\w+\"\s*,", b[mt.end():e])):
                raise AnchorLost(fn + ": an entry of the parser table is outside rule G7")
            e2 = b.index(";", e) + 1
            self.table_entries = list(entries)
            b = b[:mt.start()] + "let parsers: Vec<A> = vec![%s];\n  proof { assert(parsers@ =~= seq![%s]); }   // ghost: names the table" % (", ".join(entries), ", ".join(entries)) + b[e2:]
        # G5
        def g5(m):
            n = m.group(1)
            if re.match(r"(many0_pair|alt_of)_\d+$", n) or n in ("opt_of", "range_of", "alt_best", "run_f", "run_t", "Some"):
                return m.group(0)
            return "%s(%s, input)?" % ("run_f" if n in self.factor_kind else "run_t", self.atom(n))
        b = re.sub(r"\b(\w+)\(\s*input\s*\)\s*\?", g5, b)
        # G6
        b = re.sub(r"\bOk\(\(", "Some((", b)
        b = re.sub(r"let\s+\(\(input,\s*(\w+)\)\)", r"let (input, \1)", b)
        if re.search(r"\b(Ok|Err|many0|pair|cut|alt|opt|label|tag)\b|Box::new\(\s*\|", b):
            raise AnchorLost(fn + ": statements outside the transcription rules")
        return b


def level_fn(tr, text, k):
    name = "l%d" % k
    sig, body = extract_fn(text, name)
    if not re.search(r"\(\s*input\s*:\s*ParseString\s*\)\s*->\s*ParseResult<Factor>", sig):
        raise AnchorLost(name + ": signature changed")
    return ("fn %s(input: Input) -> (r: Option<(Input, Factor)>)\n  ensures r == level(%d, input),\n" % (name, k)) + tr.body(name, body) + "\n"


def simple_fn(tr, text, name, ret, ens):
    sig, body = extract_fn(text, name)
    if not re.search(r"\(\s*input\s*:\s*ParseString\s*\)\s*->\s*ParseResult<\w+>", sig):
        raise AnchorLost(name + ": signature changed")
    return ("fn %s(input: Input) -> (r: Option<(Input, %s)>)\n  ensures %s,\n" % (name, ret, ens)) + tr.body(name, body) + "\n"


def factor_fn(tr, text):
    """`factor`: the contract is stated over the parser table READ FROM THE CODE (a new primary is not an alarm); a ghost lemma checks that the table still
    holds the three primaries the property speaks of"""
    sig, body = extract_fn(text, "factor")
    if not re.search(r"\(\s*input\s*:\s*ParseString\s*\)\s*->\s*ParseResult<Factor>", sig):
        raise AnchorLost("factor: signature changed")
    tr.table_entries = None
    b = tr.body("factor", body)
    if not tr.table_entries:
        raise AnchorLost("factor: the parser table `let parsers = vec![..]` not found")
    tab = "seq![%s]" % ", ".join(tr.table_entries)
    return ("fn factor(input: Input) -> (r: Option<(Input, Factor)>)\n  ensures r == factor_spec_of(%s, input),\n" % tab + b + "\n"
            "proof fn required_primaries()\n  ensures has_required_primaries(%s),\n{\n"
            "  let t = %s;\n" % (tab, tab) +
            "".join("  if %d < t.len() { assert(t[%d] == %s); }\n" % (k, k, e) for k, e in enumerate(tr.table_entries)) + "}\n")


def class_fn(tr, text, fname, variant, members):
    """an operator class: the contract is stated over the tokens the CODE lists (a new operator token joining a level is not an alarm); a ghost lemma, decided on the
    extracted names, checks that the class still holds every token the property assigns to this level and none the property assigns to another level"""
    sig, body = extract_fn(text, fname)
    b = tr.body(fname, body)
    m1 = re.search(r"alt_of_\d+\(([^()]*),\s*input\)", b)
    m2 = re.search(r"run_t\((A::\w+),\s*input\)", b)
    if m1:
        code_members = [x.strip() for x in m1.group(1).split(",") if x.strip()]
    elif m2:
        code_members = [m2.group(1)]
    else:
        raise AnchorLost(fname + ": the token alternatives of the class were not found")
    required = [tr.atom(n) for n in members]
    foreign = [tr.atom(n) for f, v, ms in CLASSES if f != fname for n in ms]
    missing = [x for x in required if x not in code_members]
    intruders = [x for x in code_members if x in foreign]
    if len(code_members) == 1:
        src = "pt(%s, input)" % code_members[0]
    else:
        # a class is the SET of its tokens: the order of the alternatives is not part of the contract (alt_of_N is stated over the set)
        src = "alt_s(|a: A| %s, input)" % " || ".join("a == " + n for n in code_members)
    ens = "r == (match %s { None => None::<(Input, FormulaOperator)>, Some((i1, op)) => Some((i1, FormulaOperator::%s(op))) })" % (src, variant)
    lemma = ("// decided on the names extracted from %s: required %s; tokens of other levels %s\n"
             "proof fn class_members_%s()\n  ensures %s,   // missing: %s; from another level: %s\n{ }\n"
             % (fname, required, "none" if not intruders else intruders, fname, "true" if not missing and not intruders else "false", missing or "none", intruders or "none"))
    return ("fn %s(input: Input) -> (r: Option<(Input, FormulaOperator)>)\n  ensures %s,\n" % (fname, ens)) + b + "\n" + lemma


ALT_SET = """
pub uninterp spec fn alt_s(alts: spec_fn(A) -> bool, i: Input) -> Option<(Input, Op)>;    // alt over a SET of token parsers (order of the alternatives abstracted)
"""


def units(plan):
    """returns [(VerusUnit, {fn: obligation})]; one Verus file per group so that a drifted function only loses its own obligations"""
    text = vlib.read_repo(PATH)
    out = []

    def mk(uname, builders):
        tr = Tr(text)
        items, fns = [], {}
        for fn, on, build, what in builders:
            plan.ob(on, "verus", "proved", functions=["src/syntax/src/expressions.rs: " + fn], what=what)
            try:
                items.append(build(tr))
                fns[fn] = on
                if fn == "factor":
                    fns["required_primaries"] = on          # ghost lemma of the same obligation: the table holds the primaries the property names
                if fn.endswith("_operator"):
                    fns["class_members_" + fn] = on
            except AnchorLost as e:
                plan.anchor_errors.append((on, str(e)))
        if not fns:
            return
        canary = "canary_" + uname
        unit = vlib.verus_file([tr.enum(), model(), ALT_SET, tr.arity_fns()] + items + [vlib.verus_canary(canary, "x: u64", [])])
        plan.verus.append(vlib.VerusUnit(uname, unit, fns, [canary]))

    for k in range(1, 8):
        mk("c02_level%d" % k, [("l%d" % k, "C02.grammar.l%d.level_structure" % k, (lambda tr, k=k: level_fn(tr, text, k)),
            "grammar level %d parses an operand of the next tighter level and then every (operator of this level, operand of the next tighter level) pair, collected in source order" % k)])
    mk("c02_formula", [("formula", "C02.grammar.formula.loosest_level", lambda tr: simple_fn(tr, text, "formula", "Factor", "r == pf(A::L1, input)"),
        "a formula is parsed by the loosest level (l1)")])
    mk("c02_factor", [
        ("factor", "C02.grammar.factor.primaries_and_transpose", lambda tr: factor_fn(tr, text),
         "a factor is one of the primaries (among them parenthesised formula, negation, logical not) with an optional postfix transpose applied to that primary only"),
        ("negate_factor", "C02.grammar.negate_factor.binds_a_factor", lambda tr: simple_fn(tr, text, "negate_factor", "Factor", "r == prefix_spec(A::Dash, input, true)"),
         "unary minus applies to the factor that follows it"),
        ("not_factor", "C02.grammar.not_factor.binds_a_factor", lambda tr: simple_fn(tr, text, "not_factor", "Factor", "r == prefix_spec(A::Not, input, false)"),
         "logical not applies to the factor that follows it"),
        ("parenthetical_term", "C02.grammar.parenthetical_term.encloses_a_formula", lambda tr: simple_fn(tr, text, "parenthetical_term", "Factor", "r == paren_spec(input)"),
         "parentheses enclose a whole formula (loosest level) and yield one factor"),
    ])
    mk("c02_classes", [(f, "C02.grammar.class.%s" % f, (lambda tr, f=f, v=v, ms=ms: class_fn(tr, text, f, v, ms)),
                        "operator class %s holds the tokens {%s} (and none that the property assigns to another level) and tags every token it accepts as FormulaOperator::%s" % (f, ", ".join(ms), v)) for f, v, ms in CLASSES])


# ---------------------------------------------------------------------------------------------------------------------
# mech_syntax::alt_best (src/syntax/src/lib.rs): the combinator `factor` uses to choose among the primaries
ALT_BEST_MODEL = """
#[derive(Clone, Copy, PartialEq, Eq, Structural)]
pub struct ParseString { pub cursor: usize, pub id: u64 }
impl ParseString { pub fn clone(&self) -> (r: ParseString) ensures r == *self, { *self } }
#[derive(Clone, Copy, PartialEq, Eq, Structural)]
pub struct Val { pub id: u64 }
#[derive(Clone, Copy, PartialEq, Eq, Structural)]
pub struct ParseError { pub remaining_input: ParseString, pub id: u64 }
#[derive(Clone, Copy, PartialEq, Eq, Structural)]
pub enum NomErr { Failure(ParseError), Error(ParseError), Incomplete(u64) }
#[derive(Clone, Copy, PartialEq, Eq, Structural)]
pub struct Name { pub id: u64 }
#[derive(Clone, Copy)]
pub struct Parser { pub id: u64 }
pub uninterp spec fn mech_code_name() -> Name;
pub uninterp spec fn runp(p: u64, i: ParseString) -> Result<(ParseString, Val), NomErr>;      // an alternative applied to the input: arbitrary
#[verifier::external_body]
pub fn run(p: &Parser, i: ParseString) -> (r: Result<(ParseString, Val), NomErr>) ensures r == runp(p.id, i), { unimplemented!() }
#[verifier::external_body]
pub fn is_mech_code(n: &Name) -> (b: bool) ensures b == (*n == mech_code_name()), { unimplemented!() }     // `*name == "mech_code"`
#[verifier::external_body]
pub fn new_error(i: ParseString) -> (e: ParseError) { unimplemented!() }
// the table holds no alternative called "mech_code" (that name short-circuits) and no alternative answers Incomplete (complete-input parsers)
pub open spec fn plain(parsers: Seq<(Name, Parser)>, input: ParseString) -> bool {
  forall|k: int| 0 <= k < parsers.len() ==> (#[trigger] parsers[k]).0 != mech_code_name() && !(runp(parsers[k].1.id, input) matches Err(NomErr::Incomplete(_)))
}
pub open spec fn succ_at(parsers: Seq<(Name, Parser)>, input: ParseString, k: int, i2: ParseString, v: Val) -> bool {
  0 <= k < parsers.len() && runp(parsers[k].1.id, input) == Ok::<(ParseString, Val), NomErr>((i2, v))
}
pub open spec fn is_result_of_some(parsers: Seq<(Name, Parser)>, input: ParseString, i2: ParseString, v: Val) -> bool { exists|k: int| succ_at(parsers, input, k, i2, v) }
pub open spec fn none_goes_further(parsers: Seq<(Name, Parser)>, input: ParseString, c: usize) -> bool { forall|j: int, ij: ParseString, vj: Val| succ_at(parsers, input, j, ij, vj) ==> ij.cursor <= c }
pub open spec fn some_succeeds(parsers: Seq<(Name, Parser)>, input: ParseString) -> bool { exists|k: int, i2: ParseString, v: Val| succ_at(parsers, input, k, i2, v) }
"""
ALT_BEST_SIG = """fn alt_best(input: ParseString, parsers: &Vec<(Name, Parser)>) -> (res: Result<(ParseString, Val), NomErr>)
  requires plain(parsers@, input),
  ensures
    // a success is the result of one of the alternatives on this input, and no alternative succeeds further into the input (longest match)
    (match res { Ok((i2, v)) => is_result_of_some(parsers@, input, i2, v) && none_goes_further(parsers@, input, i2.cursor), Err(_) => true }),
    // when no alternative fails hard (nom Failure), one succeeding alternative is enough for success
    (forall|j: int| 0 <= j < parsers@.len() ==> !(runp(#[trigger] parsers@[j].1.id, input) matches Err(NomErr::Failure(_)))) && some_succeeds(parsers@, input) ==> res is Ok,
"""
ALT_BEST_INV = """    invariant plain(parsers@, input),
      best_success matches Some((bi, bv, bc, _n)) ==> bc == bi.cursor && bk < i_ && succ_at(parsers@, input, bk, bi, bv),
      forall|j: int, ij: ParseString, vj: Val| j < i_ && succ_at(parsers@, input, j, ij, vj) ==> best_success is Some && ij.cursor <= best_success.unwrap().2,
      best_failure matches Some((e, _c, _n)) ==> e is Failure && 0 <= fk < i_ && (runp(parsers@[fk].1.id, input) matches Err(NomErr::Failure(_))),
      best_failure is None ==> forall|j: int| 0 <= j < i_ ==> !(runp(#[trigger] parsers@[j].1.id, input) matches Err(NomErr::Failure(_))),
"""
ALT_BEST_TAIL = """  proof {
    if best_failure is Some { assert(runp(parsers@[fk].1.id, input) matches Err(NomErr::Failure(_))); }
    if best_success is Some {
      let b = best_success.unwrap();
      assert(succ_at(parsers@, input, bk, b.0, b.1));
      assert(is_result_of_some(parsers@, input, b.0, b.1));
      assert(none_goes_further(parsers@, input, b.0.cursor));
    } else {
      assert(!some_succeeds(parsers@, input));
    }
  }
"""


def alt_best_fn(text):
    """(X) `alt_best` (src/syntax/src/lib.rs), whole body: the table `&[(&'static str, Box<dyn Fn(..) -> ..>)]` -> `&Vec<(Name, Parser)>` (names and parsers are identities);
    `for (name, parser) in parsers {` -> index loop; `parser(x)` -> `run(parser, x)`; `*name == "mech_code"` -> `is_mech_code(name)`; `nom::Err::` -> `NomErr::`;
    `Err(e @ nom::Err::Incomplete(_)) => { return Err(e); }` -> `Err(NomErr::Incomplete(n)) => { return Err(NomErr::Incomplete(n)); }`; `ParseError::new(input, "..")` -> `new_error(input)`;
    in the type annotations `O` -> `Val`, `&'static str` -> `Name`, `nom::Err<ParseError>` -> `NomErr`; a stored `name` -> `*name`.  Two ghost witnesses (index of the best
    success / of a hard failure) are assigned next to `best_success = ..` / `best_failure = ..`."""
    sig, body = extract_fn(text, "alt_best")
    b = re.sub(r"//[^\n]*", "", body[body.index("{") + 1:body.rindex("}")]).replace("\r", "")
    b = b.replace("Option<(ParseString, O, usize, &'static str)>", "Option<(ParseString, Val, usize, Name)>").replace("Option<(nom::Err<ParseError>, usize, &'static str)>", "Option<(NomErr, usize, Name)>")
    b, n1 = re.subn(r"for\s+\(\s*name\s*,\s*parser\s*\)\s+in\s+parsers\s*\{", "let ghost mut bk: int = 0;\n  let ghost mut fk: int = 0;\n  for i_ in 0..parsers.len()\n" + ALT_BEST_INV + "  {\n    let name = &parsers[i_].0; let parser = &parsers[i_].1;", b)
    b, n2 = re.subn(r"\bparser\(\s*input\.clone\(\)\s*\)", "run(parser, input.clone())", b)
    b, n3 = re.subn(r"\*name\s*==\s*\"mech_code\"", "is_mech_code(name)", b)
    b = re.sub(r"Err\(\s*e\s*@\s*nom::Err::Incomplete\(_\)\s*\)\s*=>\s*\{\s*return\s+Err\(e\);\s*\}", "Err(NomErr::Incomplete(n)) => { return Err(NomErr::Incomplete(n)); }", b)
    b = b.replace("nom::Err::", "NomErr::")
    b = re.sub(r"ParseError::new\(\s*input\s*,\s*\"[^\"]*\"\s*,?\s*\)", "new_error(input)", b)
    b, n4 = re.subn(r"(best_success\s*=\s*Some\(\((?:[^()]|\([^()]*\))*?),\s*name\s*\)\)\s*;", r"\1, *name));\n          proof { bk = i_ as int; }", b)
    b, n5 = re.subn(r"(best_failure\s*=\s*Some\(\((?:[^()]|\([^()]*\))*?),\s*name\s*\)\)\s*;", r"\1, *name));\n          proof { fk = i_ as int; }", b)
    b = re.sub(r"(best_error\s*=\s*Some\(\((?:[^()]|\([^()]*\))*?),\s*name\s*\)\)\s*;", r"\1, *name));", b)
    mt = re.search(r"if\s+let\s+Some\(\(\s*next_input\s*,\s*val\s*,\s*success_cursor\s*,\s*_\s*\)\)\s*=\s*best_success\s*\{", b)
    if (n1, n2, n3, n4, n5) != (1, 1, 1, 1, 1) or not mt:
        raise AnchorLost("alt_best: statements outside the transcription rules %r" % ((n1, n2, n3, n4, n5),))
    b = b[:mt.start()] + ALT_BEST_TAIL + "  " + b[mt.start():]
    if re.search(r"\b(nom::|ParseError::new|Box<dyn)\b", b):
        raise AnchorLost("alt_best: statements outside the transcription rules")
    return ALT_BEST_SIG + "{\n" + b + "\n}\n"


def alt_best_unit(text):
    return vlib.verus_file([ALT_BEST_MODEL, alt_best_fn(text), vlib.verus_canary("canary_alt_best", "x: u64", [])])
