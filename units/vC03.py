"""C03 (K) Verus contracts for the read kernels of src/interpreter/src/stdlib/access/matrix.rs.

Per kernel two obligations over the same transcribed body (panic == early None, see vmat.py):
  .value   requires VALID (every index addresses an element / mask length == dimension):
           the kernel returns normally and `out` holds exactly the elements the 1-based column-major
           model selects, in reference order and in the documented shape
  .reject  the kernel returns normally  ==>  VALID   (an index that addresses no element never yields a value)
`out` is constrained in `requires` exactly as the dispatch arm allocates it."""
import os, sys
sys.path.insert(0, os.path.join(os.path.dirname(os.path.abspath(__file__)), "..", "tools"))
import vlib
from vlib import AnchorLost, extract_macro
from units import vmat

PATH = "src/interpreter/src/stdlib/access/matrix.rs"

NE = ["source.r >= 1", "source.c >= 1"]       # non-empty source (the property quantifies shapes from 1x1)
SAME_SHAPE = ["final(out).r == old(out).r", "final(out).c == old(out).c", "final(out).d@.len() == old(out).d@.len()"]
OUT_INV = "source.wf(), out.r == old(out).r, out.c == old(out).c, out.d@.len() == old(out).d@.len(), out.wf()"
SINK_INV = "source.wf(), sink.r == old(sink).r, sink.c == old(sink).c, sink.wf()"

K = {}

K["access_1d"] = dict(
    structs="Access1DS*", params=["source", "ix", "out"], scalars=["ix", "out"], sig="source: &Mat, ix: usize, out: &mut u64",
    requires=["source.wf()"], valid="1 <= ix <= source.d@.len()",
    value=["*final(out) == source.d@[ix - 1]"], loops=[])

K["access_2d"] = dict(
    structs="Access2DSS*", params=["source", "ix1", "ix2", "out"], scalars=["ix1", "ix2", "out"], sig="source: &Mat, ix1: usize, ix2: usize, out: &mut u64",
    requires=["source.wf()"], valid="(1 <= ix1 <= source.r && 1 <= ix2 <= source.c)",
    value=["*final(out) == source.at(ix1 - 1, ix2 - 1)"], loops=[])

K["access_1d_slice"] = dict(
    structs="Access1DVD*", params=["source", "ix", "out"], scalars=[], sig="source: &Mat, ix: &IVec, out: &mut Mat",
    requires=["source.wf()", "old(out).wf()", "old(out).d@.len() == ix.d@.len()"],
    valid="ix_ok(ix.d@, source.d@.len() as int)",
    value=["forall|k: int| 0 <= k < ix.d@.len() ==> #[trigger] final(out).d@[k] == source.d@[ix.d@[k] - 1]"] + SAME_SHAPE,
    loops=["    invariant " + OUT_INV + ", out.d@.len() == ix.d@.len(),\n"
           "      forall|k: int| 0 <= k < i ==> 1 <= #[trigger] ix.d@[k] <= source.d@.len() && out.d@[k] == source.d@[ix.d@[k] - 1],"])

K["access_1d_all"] = dict(
    structs="Access1DA*", params=["source", "ix", "out"], scalars=[], sig="source: &Mat, ix: &IVec, out: &mut Mat",
    requires=["source.wf()", "old(out).wf()", "old(out).d@.len() == source.d@.len()"],
    valid="true",
    value=["final(out).d@ =~= source.d@"] + SAME_SHAPE,
    loops=["    invariant " + OUT_INV + ", out.d@.len() == source.d@.len(),\n"
           "      forall|k: int| 0 <= k < i ==> out.d@[k] == source.d@[k],"])

K["access_col"] = dict(
    structs="Access2DAS*", params=["source", "ix", "out"], scalars=["ix"], sig="source: &Mat, ix: usize, out: &mut Mat",
    requires=["source.wf()", "old(out).wf()", "old(out).d@.len() == source.r"] + NE,
    valid="1 <= ix <= source.c",
    value=["forall|k: int| 0 <= k < source.r ==> #[trigger] final(out).d@[k] == source.at(k, ix - 1)"] + SAME_SHAPE,
    loops=["    invariant " + OUT_INV + ", out.d@.len() == source.r, i > 0 ==> 1 <= ix <= source.c,\n"
           "      forall|k: int| 0 <= k < i ==> out.d@[k] == source.at(k, ix - 1),"])

K["access_row"] = dict(
    structs="Access2DSA*", params=["source", "ix", "out"], scalars=["ix"], sig="source: &Mat, ix: usize, out: &mut Mat",
    requires=["source.wf()", "old(out).wf()", "old(out).d@.len() == source.c"] + NE,
    valid="1 <= ix <= source.r",
    value=["forall|k: int| 0 <= k < source.c ==> #[trigger] final(out).d@[k] == source.at(ix - 1, k)"] + SAME_SHAPE,
    loops=["    invariant " + OUT_INV + ", out.d@.len() == source.c, i > 0 ==> 1 <= ix <= source.r,\n"
           "      forall|k: int| 0 <= k < i ==> out.d@[k] == source.at(ix - 1, k),"])

K["access_2d_row_slice"] = dict(
    structs="Access2DSVD*", params=["source", "ix1", "ix2", "out"], scalars=["ix1"], sig="source: &Mat, ix1: usize, ix2: &IVec, out: &mut Mat",
    requires=["source.wf()", "old(out).wf()", "old(out).d@.len() == ix2.d@.len()", "ix2.d@.len() >= 1"],
    valid="(1 <= ix1 <= source.r && ix_ok(ix2.d@, source.c as int))",
    value=["forall|k: int| 0 <= k < ix2.d@.len() ==> #[trigger] final(out).d@[k] == source.at(ix1 - 1, ix2.d@[k] - 1)"] + SAME_SHAPE,
    loops=["    invariant " + OUT_INV + ", out.d@.len() == ix2.d@.len(), out_cols == ix2.d@.len(), out_ix == c, c > 0 ==> 1 <= ix1 <= source.r,\n"
           "      forall|k: int| 0 <= k < c ==> 1 <= #[trigger] ix2.d@[k] <= source.c && out.d@[k] == source.at(ix1 - 1, ix2.d@[k] - 1),"])

K["access_2d_col_slice"] = dict(
    structs="Access2DVDS*", params=["source", "ix1", "ix2", "out"], scalars=["ix2"], sig="source: &Mat, ix1: &IVec, ix2: usize, out: &mut Mat",
    requires=["source.wf()", "old(out).wf()", "old(out).d@.len() == ix1.d@.len()", "ix1.d@.len() >= 1"],
    valid="(ix_ok(ix1.d@, source.r as int) && 1 <= ix2 <= source.c)",
    value=["forall|k: int| 0 <= k < ix1.d@.len() ==> #[trigger] final(out).d@[k] == source.at(ix1.d@[k] - 1, ix2 - 1)"] + SAME_SHAPE,
    loops=["    invariant " + OUT_INV + ", out.d@.len() == ix1.d@.len(), out_rows == ix1.d@.len(), out_ix == c, c > 0 ==> 1 <= ix2 <= source.c,\n"
           "      forall|k: int| 0 <= k < c ==> 1 <= #[trigger] ix1.d@[k] <= source.r && out.d@[k] == source.at(ix1.d@[k] - 1, ix2 - 1),"])

# x[I, :]  -- out is DMatrix(ix.len, source.ncols), filled in linear (column-major) order
K["access_2d_slice_all"] = dict(
    structs="Access2DVDA*", params=["source", "ix", "out"], scalars=[], sig="source: &Mat, ix: &IVec, out: &mut Mat",
    requires=["source.wf()", "old(out).wf()", "old(out).r == ix.d@.len()", "old(out).c == source.c", "ix.d@.len() >= 1"] + NE,
    valid="ix_ok(ix.d@, source.r as int)",
    value=["forall|k: int| 0 <= k < final(out).d@.len() ==> "
           "#[trigger] final(out).d@[k] == source.at(ix.d@[k % (ix.d@.len() as int)] - 1, k / (ix.d@.len() as int))"] + SAME_SHAPE,
    loops=[("    invariant " + OUT_INV + ", n_rows == ix.d@.len(), n_cols == source.c, out.r == n_rows, out.c == n_cols, n_rows >= 1, out_ix == c * n_rows,\n"
            "      c > 0 ==> ix_ok(ix.d@, source.r as int),\n"
            "      forall|k: int| 0 <= k < out_ix ==> #[trigger] out.d@[k] == source.at(ix.d@[k % (n_rows as int)] - 1, k / (n_rows as int)),",
            "proof { lemma_divmod(n_rows as int, 0, c as int); }"),
           ("      invariant " + OUT_INV + ", n_rows == ix.d@.len(), n_cols == source.c, out.r == n_rows, out.c == n_cols, n_rows >= 1, c < n_cols, out_ix == c * n_rows + r,\n"
            "        c > 0 ==> ix_ok(ix.d@, source.r as int),\n"
            "        forall|ii: int| 0 <= ii < r ==> 1 <= #[trigger] ix.d@[ii] <= source.r,\n"
            "        forall|k: int| 0 <= k < out_ix ==> #[trigger] out.d@[k] == source.at(ix.d@[k % (n_rows as int)] - 1, k / (n_rows as int)),",
            "proof { lemma_cm_bound(n_rows as int, n_cols as int, r as int, c as int); lemma_divmod(n_rows as int, r as int, c as int); assert(out_ix < out.d.len()); }")],
    post_proof="proof { lemma_divmod(ix.d@.len() as int, 0, source.c as int); assert(source.c * ix.d@.len() == ix.d@.len() * source.c) by (nonlinear_arith); }")

# x[mask]  -- out is DVector(mask.len)
K["access_1d_slice_bool_v"] = dict(
    structs="Access1DVDb*", params=["source", "ix", "out"], scalars=[], sig="source: &Mat, ix: &BVec, out: &mut Mat",
    requires=["source.wf()", "old(out).wf()", "old(out).c == 1", "old(out).r == ix.d@.len()", "ix.d@.len() >= 1"] + NE,
    valid="ix.d@.len() == source.d@.len()",
    addressed="ix.d@.len() >= source.d@.len()",   # (a mask with entries beyond the last element is accepted: part of .masklen)
    value=["final(out).c == 1", "final(out).r == cnt(ix.d@, ix.d@.len() as int)", "final(out).wf()",
           "forall|i: int| 0 <= i < ix.d@.len() && #[trigger] ix.d@[i] ==> final(out).d@[cnt(ix.d@, i)] == source.d@[i]"],
    loops=[("    invariant " + OUT_INV + ", j == cnt(ix.d@, i as int), j <= i,", ""),
           ("    invariant source.wf(), out.wf(), out.c == 1, out.r == cnt(ix.d@, ix.d@.len() as int), j == cnt(ix.d@, i as int), j <= i, i <= ix.d@.len(),\n"
            "      forall|ii: int| 0 <= ii < i && ii < ix.d@.len() && #[trigger] ix.d@[ii] ==> cnt(ix.d@, ii) < j && out.d@[cnt(ix.d@, ii)] == source.d@[ii],",
            "proof { if i < ix.d@.len() { lemma_cnt_mono(ix.d@, i as int + 1, ix.d@.len() as int); } }")])

# x[mask, j]  -- out is DVector(mask.len)
K["access_2d_col_slice_bool"] = dict(
    structs="Access2DVDbS*", params=["source", "ix1", "ix2", "out"], scalars=["ix2"], sig="source: &Mat, ix1: &BVec, ix2: usize, out: &mut Mat",
    requires=["source.wf()", "old(out).wf()", "old(out).c == 1", "old(out).r == ix1.d@.len()", "ix1.d@.len() >= 1"] + NE,
    valid="(ix1.d@.len() == source.r && 1 <= ix2 <= source.c)", masklen="ix1.d@.len() == source.r",
    addressed="(forall|i: int| 0 <= i < ix1.d@.len() && #[trigger] ix1.d@[i] ==> i < source.r) && (1 <= ix2 <= source.c || cnt(ix1.d@, ix1.d@.len() as int) == 0)",
    value=["final(out).c == 1", "final(out).r == cnt(ix1.d@, ix1.d@.len() as int)", "final(out).wf()",
           "forall|i: int| 0 <= i < ix1.d@.len() && #[trigger] ix1.d@[i] ==> final(out).d@[cnt(ix1.d@, i)] == source.at(i, ix2 - 1)"],
    loops=[("    invariant vec_ix == ix1, scalar_ix == ix2, " + OUT_INV + ", j == cnt(ix1.d@, i as int), j <= i,", ""),
           ("    invariant vec_ix == ix1, scalar_ix == ix2, source.wf(), out.wf(), out.c == 1, out.r == cnt(ix1.d@, ix1.d@.len() as int), j == cnt(ix1.d@, i as int), j <= i,\n"
            "      j > 0 ==> 1 <= ix2 <= source.c,\n"
            "      forall|ii: int| 0 <= ii < i && #[trigger] ix1.d@[ii] ==> ii < source.r && cnt(ix1.d@, ii) < j && out.d@[cnt(ix1.d@, ii)] == source.at(ii, ix2 - 1),",
            "proof { lemma_cnt_mono(ix1.d@, i as int + 1, ix1.d@.len() as int); }")])

# x[i, mask]  -- out is RowDVector(mask.len)
K["access_2d_row_slice_bool"] = dict(
    structs="Access2DSVDb*", params=["source", "ix1", "ix2", "out"], scalars=["ix1"], sig="source: &Mat, ix1: usize, ix2: &BVec, out: &mut Mat",
    requires=["source.wf()", "old(out).wf()", "old(out).r == 1", "old(out).c == ix2.d@.len()", "ix2.d@.len() >= 1"] + NE,
    valid="(ix2.d@.len() == source.c && 1 <= ix1 <= source.r)", masklen="ix2.d@.len() == source.c",
    addressed="(forall|i: int| 0 <= i < ix2.d@.len() && #[trigger] ix2.d@[i] ==> i < source.c) && (1 <= ix1 <= source.r || cnt(ix2.d@, ix2.d@.len() as int) == 0)",
    value=["final(out).r == 1", "final(out).c == cnt(ix2.d@, ix2.d@.len() as int)", "final(out).wf()",
           "forall|i: int| 0 <= i < ix2.d@.len() && #[trigger] ix2.d@[i] ==> final(out).d@[cnt(ix2.d@, i)] == source.at(ix1 - 1, i)"],
    loops=[("    invariant vec_ix == ix2, scalar_ix == ix1, " + OUT_INV + ", j == cnt(ix2.d@, i as int), j <= i,", ""),
           ("    invariant vec_ix == ix2, scalar_ix == ix1, source.wf(), out.wf(), out.r == 1, out.c == cnt(ix2.d@, ix2.d@.len() as int), j == cnt(ix2.d@, i as int), j <= i,\n"
            "      j > 0 ==> 1 <= ix1 <= source.r,\n"
            "      forall|ii: int| 0 <= ii < i && #[trigger] ix2.d@[ii] ==> ii < source.c && cnt(ix2.d@, ii) < j && out.d@[cnt(ix2.d@, ii)] == source.at(ix1 - 1, ii),",
            "proof { lemma_cnt_mono(ix2.d@, i as int + 1, ix2.d@.len() as int); }")])

# x[mask, :]  -- out is DMatrix(mask.len, source.ncols); the kernel resizes it to cnt(mask) rows and fills it in
# linear (column-major) order
_CMI = "cm(out.r as int, cnt(ix.d@, ii), kk)"
K["access_2d_slice_all_bool"] = dict(
    structs="Access2DVDbA*", params=["source", "ix", "out"], scalars=[], sig="source: &Mat, ix: &BVec, out: &mut Mat",
    requires=["source.wf()", "old(out).wf()", "old(out).r == ix.d@.len()", "old(out).c == source.c", "ix.d@.len() >= 1"] + NE,
    valid="ix.d@.len() == source.r",
    addressed="(forall|i: int| 0 <= i < ix.d@.len() && #[trigger] ix.d@[i] ==> i < source.r)",
    value=["final(out).c == source.c", "final(out).r == cnt(ix.d@, ix.d@.len() as int)", "final(out).wf()",
           "forall|ii: int, kk: int| 0 <= ii < ix.d@.len() && 0 <= kk < source.c && ix.d@[ii] ==> final(out).d@[#[trigger] cm(final(out).r as int, cnt(ix.d@, ii), kk)] == source.at(ii, kk)"],
    loops=[("    invariant vec_ix == ix, " + OUT_INV + ", j == cnt(ix.d@, i as int), j <= i,", "",
            "proof { lemma_cnt_bounds(ix.d@, ix.d@.len() as int); lemma_mul_ge(ix.d@.len() as int, source.c as int); }"),
           ("    invariant vec_ix == ix, source.wf(), out.wf(), out.c == source.c, out.r == cnt(ix.d@, ix.d@.len() as int), j == k * out.r,\n"
            "      k > 0 ==> (forall|ii: int| 0 <= ii < ix.d@.len() && #[trigger] ix.d@[ii] ==> ii < source.r),\n"
            "      forall|ii: int, kk: int| 0 <= ii < ix.d@.len() && 0 <= kk < k && ix.d@[ii] ==> %s < j && out.d@[#[trigger] %s] == source.at(ii, kk)," % (_CMI, _CMI),
            "proof { lemma_cnt_bounds(ix.d@, ix.d@.len() as int); assert((k + 1) * out.r == k * out.r + out.r) by (nonlinear_arith); }",
            "proof { assert(out.r == cnt(ix.d@, ix.d@.len() as int)); assert(0 * out.r == 0); }"),
           ("      invariant vec_ix == ix, source.wf(), out.wf(), out.c == source.c, out.r == cnt(ix.d@, ix.d@.len() as int), k < source.c, j == k * out.r + cnt(ix.d@, i as int),\n"
            "        k > 0 ==> (forall|ii: int| 0 <= ii < ix.d@.len() && #[trigger] ix.d@[ii] ==> ii < source.r),\n"
            "        forall|ii: int, kk: int| 0 <= ii < ix.d@.len() && 0 <= kk < k && ix.d@[ii] ==> %s < j && out.d@[#[trigger] %s] == source.at(ii, kk),\n"
            "        forall|ii: int| 0 <= ii < i && #[trigger] ix.d@[ii] ==> ii < source.r && cm(out.r as int, cnt(ix.d@, ii), k as int) < j && out.d@[cm(out.r as int, cnt(ix.d@, ii), k as int)] == source.at(ii, k as int)," % (_CMI, _CMI),
            "proof { lemma_cnt_mono(ix.d@, i as int + 1, ix.d@.len() as int); lemma_cnt_bounds(ix.d@, i as int); "
            "if ix.d@[i as int] { lemma_cm_bound(out.r as int, out.c as int, cnt(ix.d@, i as int), k as int); assert(j < out.d.len()); } }")],
    )

# x[I, J] / x[I, mask] / x[mask, J] / x[mask, mask]: the range-range kernels write the sink through (row, col) subscripts
_SK = "source.wf(), sink.r == old(sink).r, sink.c == old(sink).c, sink.wf()"
SINK_SHAPE = ["final(sink).r == old(sink).r", "final(sink).c == old(sink).c", "final(sink).wf()"]

K["access_2d_range_range_vuu"] = dict(
    structs="Access2DRRVUU", params=["sink", "ix1", "ix2", "source"], scalars=[], sig="sink: &mut Mat, ix1: &IVec, ix2: &IVec, source: &Mat",
    requires=["source.wf()", "old(sink).wf()", "old(sink).r == ix1.d@.len()", "old(sink).c == ix2.d@.len()", "ix1.d@.len() >= 1", "ix2.d@.len() >= 1"],
    valid="(ix_ok(ix1.d@, source.r as int) && ix_ok(ix2.d@, source.c as int))",
    value=["forall|a: int, b: int| 0 <= a < ix1.d@.len() && 0 <= b < ix2.d@.len() ==> #[trigger] final(sink).at(a, b) == source.at(ix1.d@[a] - 1, ix2.d@[b] - 1)"] + SINK_SHAPE,
    loops=[("    invariant " + _SK + ", sink.r == ix1.d@.len(), sink.c == ix2.d@.len(), ix2.d@.len() >= 1, sink_rix == r, sink_cix == 0,\n"
            "      r > 0 ==> ix_ok(ix2.d@, source.c as int),\n"
            "      forall|a: int| 0 <= a < r ==> 1 <= #[trigger] ix1.d@[a] <= source.r,\n"
            "      forall|a: int, b: int| 0 <= a < r && 0 <= b < ix2.d@.len() ==> #[trigger] sink.at(a, b) == source.at(ix1.d@[a] - 1, ix2.d@[b] - 1),", ""),
           ("      invariant " + _SK + ", sink.r == ix1.d@.len(), sink.c == ix2.d@.len(), ix2.d@.len() >= 1, sink_rix == r, r < ix1.d@.len(), sink_cix == c,\n"
            "        ix1.d@[r as int] >= 1, row == ix1.d@[r as int] - 1, c > 0 ==> ix1.d@[r as int] <= source.r,\n"
            "        r > 0 ==> ix_ok(ix2.d@, source.c as int),\n"
            "        forall|b: int| 0 <= b < c ==> 1 <= #[trigger] ix2.d@[b] <= source.c,\n"
            "        forall|a: int| 0 <= a < r ==> 1 <= #[trigger] ix1.d@[a] <= source.r,\n"
            "        forall|a: int, b: int| 0 <= a < r && 0 <= b < ix2.d@.len() ==> #[trigger] sink.at(a, b) == source.at(ix1.d@[a] - 1, ix2.d@[b] - 1),\n"
            "        forall|b: int| 0 <= b < c ==> #[trigger] sink.at(r as int, b) == source.at(ix1.d@[r as int] - 1, ix2.d@[b] - 1),", "")])

K["access_2d_range_range_vub"] = dict(
    post_proof="proof { lemma_cnt_lt(ix2.d@, ix2.d@.len() as int); }",
    structs="Access2DRRVUB", params=["sink", "ix1", "ix2", "source"], scalars=[], sig="sink: &mut Mat, ix1: &IVec, ix2: &BVec, source: &Mat",
    requires=["source.wf()", "old(sink).wf()", "old(sink).r == ix1.d@.len()", "old(sink).c == cnt(ix2.d@, ix2.d@.len() as int)", "ix1.d@.len() >= 1", "ix2.d@.len() >= 1"],
    valid="(ix2.d@.len() == source.c && ix_ok(ix1.d@, source.r as int))", masklen="ix2.d@.len() == source.c",
    addressed="(cnt(ix2.d@, ix2.d@.len() as int) > 0 ==> ix_ok(ix1.d@, source.r as int)) && (forall|b: int| 0 <= b < ix2.d@.len() && #[trigger] ix2.d@[b] ==> b < source.c)",
    value=["forall|a: int, b: int| 0 <= a < ix1.d@.len() && 0 <= b < ix2.d@.len() && ix2.d@[b] ==> #[trigger] final(sink).at(a, cnt(ix2.d@, b)) == source.at(ix1.d@[a] - 1, b)"] + SINK_SHAPE,
    loops=[("    invariant " + _SK + ", sink.r == ix1.d@.len(), sink.c == cnt(ix2.d@, ix2.d@.len() as int), sink_rix == r, sink_cix == 0,\n"
            "      (r > 0 && sink.c > 0) ==> (forall|b: int| 0 <= b < ix2.d@.len() && #[trigger] ix2.d@[b] ==> b < source.c),\n"
            "      forall|a: int| 0 <= a < r ==> 1 <= #[trigger] ix1.d@[a] && (sink.c > 0 ==> ix1.d@[a] <= source.r),\n"
            "      forall|a: int, b: int| 0 <= a < r && 0 <= b < ix2.d@.len() && ix2.d@[b] ==> #[trigger] sink.at(a, cnt(ix2.d@, b)) == source.at(ix1.d@[a] - 1, b),", ""),
           ("      invariant " + _SK + ", sink.r == ix1.d@.len(), sink.c == cnt(ix2.d@, ix2.d@.len() as int), sink_rix == r, r < ix1.d@.len(), sink_cix == cnt(ix2.d@, c as int),\n"
            "        ix1.d@[r as int] >= 1, row == ix1.d@[r as int] - 1, sink_cix > 0 ==> ix1.d@[r as int] <= source.r,\n"
            "        (r > 0 && sink.c > 0) ==> (forall|b: int| 0 <= b < ix2.d@.len() && #[trigger] ix2.d@[b] ==> b < source.c),\n"
            "        forall|b: int| 0 <= b < c && #[trigger] ix2.d@[b] ==> b < source.c && cnt(ix2.d@, b) < sink_cix,\n"
            "        forall|a: int| 0 <= a < r ==> 1 <= #[trigger] ix1.d@[a] && (sink.c > 0 ==> ix1.d@[a] <= source.r),\n"
            "        forall|a: int, b: int| 0 <= a < r && 0 <= b < ix2.d@.len() && ix2.d@[b] ==> #[trigger] sink.at(a, cnt(ix2.d@, b)) == source.at(ix1.d@[a] - 1, b),\n"
            "        forall|b: int| 0 <= b < c && ix2.d@[b] ==> #[trigger] sink.at(r as int, cnt(ix2.d@, b)) == source.at(ix1.d@[r as int] - 1, b),",
            "proof { lemma_cnt_lt(ix2.d@, ix2.d@.len() as int); lemma_cnt_mono(ix2.d@, c as int + 1, ix2.d@.len() as int); lemma_cnt_bounds(ix2.d@, c as int); }")])

K["access_2d_range_range_vbu"] = dict(
    post_proof="proof { lemma_cnt_lt(ix1.d@, ix1.d@.len() as int); }",
    structs="Access2DRRVBU", params=["sink", "ix1", "ix2", "source"], scalars=[], sig="sink: &mut Mat, ix1: &BVec, ix2: &IVec, source: &Mat",
    requires=["source.wf()", "old(sink).wf()", "old(sink).r == cnt(ix1.d@, ix1.d@.len() as int)", "old(sink).c == ix2.d@.len()", "ix1.d@.len() >= 1", "ix2.d@.len() >= 1"],
    valid="(ix1.d@.len() == source.r && ix_ok(ix2.d@, source.c as int))", masklen="ix1.d@.len() == source.r",
    addressed="(cnt(ix1.d@, ix1.d@.len() as int) > 0 ==> ix_ok(ix2.d@, source.c as int)) && (forall|a: int| 0 <= a < ix1.d@.len() && #[trigger] ix1.d@[a] ==> a < source.r)",
    value=["forall|a: int, b: int| 0 <= a < ix1.d@.len() && 0 <= b < ix2.d@.len() && ix1.d@[a] ==> #[trigger] final(sink).at(cnt(ix1.d@, a), b) == source.at(a, ix2.d@[b] - 1)"] + SINK_SHAPE,
    loops=[("    invariant " + _SK + ", sink.r == cnt(ix1.d@, ix1.d@.len() as int), sink.c == ix2.d@.len(), ix2.d@.len() >= 1, sink_rix == cnt(ix1.d@, r as int), sink_cix == 0,\n"
            "      sink_rix > 0 ==> ix_ok(ix2.d@, source.c as int),\n"
            "      forall|a: int| 0 <= a < r && #[trigger] ix1.d@[a] ==> a < source.r && cnt(ix1.d@, a) < sink_rix,\n"
            "      forall|a: int, b: int| 0 <= a < r && 0 <= b < ix2.d@.len() && ix1.d@[a] ==> #[trigger] sink.at(cnt(ix1.d@, a), b) == source.at(a, ix2.d@[b] - 1),",
            "proof { lemma_cnt_lt(ix1.d@, ix1.d@.len() as int); lemma_cnt_mono(ix1.d@, r as int + 1, ix1.d@.len() as int); lemma_cnt_bounds(ix1.d@, r as int); }"),
           ("      invariant " + _SK + ", sink.r == cnt(ix1.d@, ix1.d@.len() as int), sink.c == ix2.d@.len(), ix2.d@.len() >= 1, sink_rix == cnt(ix1.d@, r as int), sink_rix < sink.r,\n"
            "        r < ix1.d@.len(), ix1.d@[r as int], sink_cix == c, c > 0 ==> r < source.r,\n"
            "        sink_rix > 0 ==> ix_ok(ix2.d@, source.c as int),\n"
            "        forall|b: int| 0 <= b < c ==> 1 <= #[trigger] ix2.d@[b] <= source.c,\n"
            "        forall|a: int| 0 <= a < r && #[trigger] ix1.d@[a] ==> a < source.r && cnt(ix1.d@, a) < sink_rix,\n"
            "        forall|a: int, b: int| 0 <= a < r && 0 <= b < ix2.d@.len() && ix1.d@[a] ==> #[trigger] sink.at(cnt(ix1.d@, a), b) == source.at(a, ix2.d@[b] - 1),\n"
            "        forall|b: int| 0 <= b < c ==> #[trigger] sink.at(sink_rix as int, b) == source.at(r as int, ix2.d@[b] - 1),", "proof { lemma_cnt_lt(ix1.d@, ix1.d@.len() as int); }")])

K["access_2d_range_range_vbb"] = dict(
    post_proof="proof { lemma_cnt_lt(ix1.d@, ix1.d@.len() as int); lemma_cnt_lt(ix2.d@, ix2.d@.len() as int); }",
    structs="Access2DRRVBB", params=["sink", "ix1", "ix2", "source"], scalars=[], sig="sink: &mut Mat, ix1: &BVec, ix2: &BVec, source: &Mat",
    requires=["source.wf()", "old(sink).wf()", "old(sink).r == cnt(ix1.d@, ix1.d@.len() as int)", "old(sink).c == cnt(ix2.d@, ix2.d@.len() as int)", "ix1.d@.len() >= 1", "ix2.d@.len() >= 1"],
    valid="(ix1.d@.len() == source.r && ix2.d@.len() == source.c)",
    addressed="(cnt(ix2.d@, ix2.d@.len() as int) > 0 ==> (forall|a: int| 0 <= a < ix1.d@.len() && #[trigger] ix1.d@[a] ==> a < source.r))"
              " && (cnt(ix1.d@, ix1.d@.len() as int) > 0 ==> (forall|b: int| 0 <= b < ix2.d@.len() && #[trigger] ix2.d@[b] ==> b < source.c))",
    value=["forall|a: int, b: int| 0 <= a < ix1.d@.len() && 0 <= b < ix2.d@.len() && ix1.d@[a] && ix2.d@[b] ==> #[trigger] final(sink).at(cnt(ix1.d@, a), cnt(ix2.d@, b)) == source.at(a, b)"] + SINK_SHAPE,
    loops=[("    invariant " + _SK + ", sink.r == cnt(ix1.d@, ix1.d@.len() as int), sink.c == cnt(ix2.d@, ix2.d@.len() as int), sink_rix == cnt(ix1.d@, r as int), sink_cix == 0,\n"
            "      sink_rix > 0 ==> (forall|b: int| 0 <= b < ix2.d@.len() && #[trigger] ix2.d@[b] ==> b < source.c),\n"
            "      forall|a: int| 0 <= a < r && #[trigger] ix1.d@[a] ==> cnt(ix1.d@, a) < sink_rix && (sink.c > 0 ==> a < source.r),\n"
            "      forall|a: int, b: int| 0 <= a < r && 0 <= b < ix2.d@.len() && ix1.d@[a] && ix2.d@[b] ==> #[trigger] sink.at(cnt(ix1.d@, a), cnt(ix2.d@, b)) == source.at(a, b),",
            "proof { lemma_cnt_lt(ix1.d@, ix1.d@.len() as int); lemma_cnt_lt(ix2.d@, ix2.d@.len() as int); lemma_cnt_mono(ix1.d@, r as int + 1, ix1.d@.len() as int); lemma_cnt_bounds(ix1.d@, r as int); }"),
           ("      invariant " + _SK + ", sink.r == cnt(ix1.d@, ix1.d@.len() as int), sink.c == cnt(ix2.d@, ix2.d@.len() as int), sink_rix == cnt(ix1.d@, r as int), sink_rix < sink.r,\n"
            "        r < ix1.d@.len(), ix1.d@[r as int], sink_cix == cnt(ix2.d@, c as int), sink_cix > 0 ==> r < source.r,\n"
            "        sink_rix > 0 ==> (forall|b: int| 0 <= b < ix2.d@.len() && #[trigger] ix2.d@[b] ==> b < source.c),\n"
            "        forall|b: int| 0 <= b < c && #[trigger] ix2.d@[b] ==> b < source.c && cnt(ix2.d@, b) < sink_cix,\n"
            "        forall|a: int| 0 <= a < r && #[trigger] ix1.d@[a] ==> cnt(ix1.d@, a) < sink_rix && (sink.c > 0 ==> a < source.r),\n"
            "        forall|a: int, b: int| 0 <= a < r && 0 <= b < ix2.d@.len() && ix1.d@[a] && ix2.d@[b] ==> #[trigger] sink.at(cnt(ix1.d@, a), cnt(ix2.d@, b)) == source.at(a, b),\n"
            "        forall|b: int| 0 <= b < c && ix2.d@[b] ==> #[trigger] sink.at(sink_rix as int, cnt(ix2.d@, b)) == source.at(r as int, b),",
            "proof { lemma_cnt_lt(ix1.d@, ix1.d@.len() as int); lemma_cnt_lt(ix2.d@, ix2.d@.len() as int); lemma_cnt_mono(ix2.d@, c as int + 1, ix2.d@.len() as int); lemma_cnt_bounds(ix2.d@, c as int); }")])


# loop variable names the contracts above were written with (by loop ordinal); see vmat.mode_fn
LOOPVARS = {'access_1d': [], 'access_2d': [], 'access_1d_slice': ['i'], 'access_1d_all': ['i'], 'access_col': ['i'], 'access_row': ['i'], 'access_2d_row_slice': ['c'], 'access_2d_col_slice': ['c'], 'access_2d_slice_all': ['c', 'r'], 'access_1d_slice_bool_v': ['i', 'i'], 'access_2d_col_slice_bool': ['i', 'i'], 'access_2d_row_slice_bool': ['i', 'i'], 'access_2d_slice_all_bool': ['i', 'k', 'i'], 'access_2d_range_range_vuu': ['r', 'c'], 'access_2d_range_range_vub': ['r', 'c'], 'access_2d_range_range_vbu': ['r', 'c'], 'access_2d_range_range_vbb': ['r', 'c']}
for _n, _v in LOOPVARS.items():
    K[_n]["loopvars"] = _v

MODES = {
    "value": "%s (structs %s): with every index valid, the kernel returns normally and the output holds exactly the elements the 1-based column-major model selects, in reference order and documented shape (any matrix size)",
    "reject": "%s (structs %s): if the kernel returns normally then every addressed position exists (0, or a position beyond the dimension, never yields a value)",
    "masklen": "%s (structs %s): if the kernel returns normally then the mask length equals the indexed dimension",
}


def kernel_items(names=None):
    text = vlib.read_repo(PATH)
    items = []
    for name, k in K.items():
        if names and name not in names:
            continue
        mt = extract_macro(text, name)
        for mode in vmat.modes_of(k):
            items.append(("%s.%s" % (name, mode), vmat.mode_fn(name, k, mt, mode)))
    return items


def add_units(plan, prop="C03"):
    vmat.add_units(plan, prop, K, PATH, MODES)
