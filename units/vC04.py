"""C04 (K) Verus contracts for the indexed-assignment kernels of src/interpreter/src/stdlib/assign/matrix.rs.

Per kernel, over the same transcribed body (panic == early None, see vmat.py):
  .value    requires VALID: the kernel returns normally, every addressed element holds the assigned value, and every
            other element and the shape are unchanged
  .reject   the kernel returns normally  ==>  every addressed position exists
  .masklen  (mask kernels) the kernel returns normally ==> mask length == indexed dimension
  .atomic   the kernel fails ==> the sink is unchanged   (the property: an error leaves `x` unchanged)"""
import os, sys
sys.path.insert(0, os.path.join(os.path.dirname(os.path.abspath(__file__)), "..", "tools"))
import vlib
from units import vmat

PATH = "src/interpreter/src/stdlib/assign/matrix.rs"

SHAPE = ["final(sink).r == old(sink).r", "final(sink).c == old(sink).c", "final(sink).wf()"]
SK = "sink.r == old(sink).r, sink.c == old(sink).c, sink.wf(), sink.d@.len() == old(sink).d@.len()"
NE = ["old(sink).r >= 1", "old(sink).c >= 1"]

K = {}

# x[i] = v
K["assign_1d_scalar"] = dict(
    structs="Assign1DS", params=["source", "ix", "sink"], scalars=["source", "ix"], sig="source: u64, ix: usize, sink: &mut Mat",
    requires=["old(sink).wf()"], valid="1 <= ix <= old(sink).d@.len()",
    value=["final(sink).d@ =~= old(sink).d@.update(ix - 1, source)"] + SHAPE, loops=[])

# x[I] = v
K["set_1d_range"] = dict(
    structs="Assign1DRS", params=["source", "ix", "sink"], scalars=["source"], sig="source: u64, ix: &IVec, sink: &mut Mat",
    requires=["old(sink).wf()"], valid="ix_ok(ix.d@, old(sink).d@.len() as int)",
    value=["forall|p: int| 0 <= p < final(sink).d@.len() ==> #[trigger] final(sink).d@[p] == (if hit(ix.d@, ix.d@.len() as int, p) { source } else { old(sink).d@[p] })"] + SHAPE,
    loops=["    invariant " + SK + ",\n"
           "      forall|k: int| 0 <= k < i ==> 1 <= #[trigger] ix.d@[k] <= sink.d@.len(),\n"
           "      forall|p: int| 0 <= p < sink.d@.len() ==> #[trigger] sink.d@[p] == (if hit(ix.d@, i as int, p) { source } else { old(sink).d@[p] }),"])

# x[mask] = v
K["set_1d_range_b"] = dict(
    structs="Assign1DRB", params=["source", "ix", "sink"], scalars=["source"], sig="source: u64, ix: &BVec, sink: &mut Mat",
    requires=["old(sink).wf()"], valid="ix.d@.len() == old(sink).d@.len()",
    addressed="(forall|p: int| 0 <= p < ix.d@.len() && #[trigger] ix.d@[p] ==> p < old(sink).d@.len())",
    value=["forall|p: int| 0 <= p < final(sink).d@.len() ==> #[trigger] final(sink).d@[p] == (if ix.d@[p] { source } else { old(sink).d@[p] })"] + SHAPE,
    loops=["    invariant " + SK + ",\n"
           "      forall|p: int| 0 <= p < i && #[trigger] ix.d@[p] ==> p < sink.d@.len(),\n"
           "      forall|p: int| 0 <= p < sink.d@.len() ==> #[trigger] sink.d@[p] == (if p < i && ix.d@[p] { source } else { old(sink).d@[p] }),"])

# x[I] = V  (distinct linear indices)
K["set_1d_range_vec"] = dict(
    structs="Assign1DRV", params=["source", "ix", "sink"], scalars=[], sig="source: &Mat, ix: &IVec, sink: &mut Mat",
    requires=["old(sink).wf()", "source.wf()"],
    valid="(ix_ok(ix.d@, old(sink).d@.len() as int) && distinct(ix.d@) && source.d@.len() == ix.d@.len())",
    addressed="(ix_ok(ix.d@, old(sink).d@.len() as int) && source.d@.len() >= ix.d@.len())", mask=False,
    value=["forall|k: int| 0 <= k < ix.d@.len() ==> final(sink).d@[#[trigger] ix.d@[k] - 1] == source.d@[k]",
           "forall|p: int| 0 <= p < final(sink).d@.len() && !hit(ix.d@, ix.d@.len() as int, p) ==> #[trigger] final(sink).d@[p] == old(sink).d@[p]"] + SHAPE,
    loops=["    invariant source.wf(), " + SK + ", i <= source.d@.len(),\n"
           "      forall|k: int| 0 <= k < i ==> 1 <= #[trigger] ix.d@[k] <= sink.d@.len(),\n"
           "      distinct(ix.d@) ==> (forall|k: int| 0 <= k < i ==> sink.d@[#[trigger] ix.d@[k] - 1] == source.d@[k]),\n"
           "      forall|p: int| 0 <= p < sink.d@.len() && !hit(ix.d@, i as int, p) ==> #[trigger] sink.d@[p] == old(sink).d@[p],"])

# x[mask] = V : the i-th addressed element receives the i-th source element (property text)
K["set_1d_range_vec_b"] = dict(
    structs="Assign1DRVB", params=["source", "ix", "sink"], scalars=[], sig="source: &Mat, ix: &BVec, sink: &mut Mat",
    requires=["old(sink).wf()", "source.wf()"],
    valid="(ix.d@.len() == old(sink).d@.len() && source.d@.len() == cnt(ix.d@, ix.d@.len() as int))", masklen="ix.d@.len() == old(sink).d@.len()",
    addressed="(forall|p: int| 0 <= p < ix.d@.len() && #[trigger] ix.d@[p] ==> p < old(sink).d@.len())",
    value=["forall|p: int| 0 <= p < final(sink).d@.len() ==> #[trigger] final(sink).d@[p] == (if ix.d@[p] { source.d@[cnt(ix.d@, p)] } else { old(sink).d@[p] })"] + SHAPE,
    loops=["    invariant source.wf(), " + SK + ",\n"
           "      forall|p: int| 0 <= p < i && #[trigger] ix.d@[p] ==> p < sink.d@.len(),\n"
           # (invariant states what the code does -- source indexed by POSITION; the .value postcondition above is the property's)
           "      forall|p: int| 0 <= p < sink.d@.len() ==> #[trigger] sink.d@[p] == (if p < i && ix.d@[p] { source.d@[p] } else { old(sink).d@[p] }),"])

# x[:, j] = v
K["assign_2d_all_scalar"] = dict(
    structs="Assign2DASS", params=["source", "ix", "sink"], scalars=["source", "ix"], sig="source: u64, ix: usize, sink: &mut Mat",
    requires=["old(sink).wf()"] + NE, valid="1 <= ix <= old(sink).c",
    value=["forall|a: int, b: int| 0 <= a < old(sink).r && 0 <= b < old(sink).c ==> #[trigger] final(sink).at(a, b) == (if b == ix - 1 { source } else { old(sink).at(a, b) })"] + SHAPE,
    loops=["    invariant " + SK + ", i > 0 ==> 1 <= ix <= sink.c, i == 0 ==> sink.d@ == old(sink).d@,\n"
           "      forall|a: int, b: int| 0 <= a < sink.r && 0 <= b < sink.c ==> #[trigger] sink.at(a, b) == (if b == ix - 1 && a < i { source } else { old(sink).at(a, b) }),"])

# x[i, :] = v
K["assign_2d_scalar_all_scalar"] = dict(
    structs="Assign2DSAS", params=["source", "ix", "sink"], scalars=["source", "ix"], sig="source: u64, ix: usize, sink: &mut Mat",
    requires=["old(sink).wf()"] + NE, valid="1 <= ix <= old(sink).r",
    value=["forall|a: int, b: int| 0 <= a < old(sink).r && 0 <= b < old(sink).c ==> #[trigger] final(sink).at(a, b) == (if a == ix - 1 { source } else { old(sink).at(a, b) })"] + SHAPE,
    loops=["    invariant " + SK + ", i > 0 ==> 1 <= ix <= sink.r, i == 0 ==> sink.d@ == old(sink).d@,\n"
           "      forall|a: int, b: int| 0 <= a < sink.r && 0 <= b < sink.c ==> #[trigger] sink.at(a, b) == (if a == ix - 1 && b < i { source } else { old(sink).at(a, b) }),"])

# x[i, J] = v
K["assign_2d_scalar_range"] = dict(
    structs="Assign2DSRS", params=["sink", "ix1", "ix2", "source"], scalars=["ix1", "source"], sig="sink: &mut Mat, ix1: usize, ix2: &IVec, source: u64",
    requires=["old(sink).wf()", "ix2.d@.len() >= 1"] + NE, valid="(1 <= ix1 <= old(sink).r && ix_ok(ix2.d@, old(sink).c as int))",
    value=["forall|a: int, b: int| 0 <= a < old(sink).r && 0 <= b < old(sink).c ==> #[trigger] final(sink).at(a, b) == (if a == ix1 - 1 && hit(ix2.d@, ix2.d@.len() as int, b) { source } else { old(sink).at(a, b) })"] + SHAPE,
    loops=["    invariant " + SK + ", i > 0 ==> 1 <= ix1 <= sink.r,\n"
           "      forall|k: int| 0 <= k < i ==> 1 <= #[trigger] ix2.d@[k] <= sink.c,\n"
           "      forall|a: int, b: int| 0 <= a < sink.r && 0 <= b < sink.c ==> #[trigger] sink.at(a, b) == (if a == ix1 - 1 && hit(ix2.d@, i as int, b) { source } else { old(sink).at(a, b) }),"])

# x[i, mask] = v
K["assign_2d_scalar_range_b"] = dict(
    mask=False, atomic=False,   # the dispatch arm admits only a mask of the indexed dimension's length (typed shapes / `if len ==` guard)
    structs="Assign2DSRB", params=["sink", "ix1", "ix2", "source"], scalars=["ix1", "source"], sig="sink: &mut Mat, ix1: usize, ix2: &BVec, source: u64",
    requires=["old(sink).wf()", "ix2.d@.len() >= 1"] + NE, valid="(1 <= ix1 <= old(sink).r && ix2.d@.len() == old(sink).c)", masklen="ix2.d@.len() == old(sink).c",
    addressed="(forall|b: int| 0 <= b < ix2.d@.len() && #[trigger] ix2.d@[b] ==> b < old(sink).c && 1 <= ix1 <= old(sink).r)",
    value=["forall|a: int, b: int| 0 <= a < old(sink).r && 0 <= b < old(sink).c ==> #[trigger] final(sink).at(a, b) == (if a == ix1 - 1 && ix2.d@[b] { source } else { old(sink).at(a, b) })"] + SHAPE,
    loops=["    invariant " + SK + ",\n"
           "      forall|b: int| 0 <= b < cix && #[trigger] ix2.d@[b] ==> b < sink.c && 1 <= ix1 <= sink.r,\n"
           "      forall|a: int, b: int| 0 <= a < sink.r && 0 <= b < sink.c ==> #[trigger] sink.at(a, b) == (if a == ix1 - 1 && b < cix && ix2.d@[b] { source } else { old(sink).at(a, b) }),"])

# x[:, mask] = v
K["assign_2d_all_range_b"] = dict(
    structs="Set2DARB", params=["source", "ix", "sink"], scalars=["source"], sig="source: u64, ix: &BVec, sink: &mut Mat",
    requires=["old(sink).wf()", "ix.d@.len() >= 1"] + NE, valid="ix.d@.len() == old(sink).c",
    addressed="(forall|b: int| 0 <= b < ix.d@.len() && #[trigger] ix.d@[b] ==> b < old(sink).c)",
    value=["forall|a: int, b: int| 0 <= a < old(sink).r && 0 <= b < old(sink).c ==> #[trigger] final(sink).at(a, b) == (if ix.d@[b] { source } else { old(sink).at(a, b) })"] + SHAPE,
    loops=["    invariant " + SK + ", sink.r >= 1,\n"
           "      forall|b: int| 0 <= b < cix && #[trigger] ix.d@[b] ==> b < sink.c,\n"
           "      forall|a: int, b: int| 0 <= a < sink.r && 0 <= b < sink.c ==> #[trigger] sink.at(a, b) == (if b < cix && b < ix.d@.len() && ix.d@[b] { source } else { old(sink).at(a, b) }),",
           "      invariant ITER_END(sink.r), " + SK + ", sink.r >= 1, cix < ix.d@.len(), (rix > 0 && ix.d@[cix as int]) ==> cix < sink.c,\n"
           "        forall|b: int| 0 <= b < cix && #[trigger] ix.d@[b] ==> b < sink.c,\n"
           "        forall|a: int, b: int| 0 <= a < sink.r && 0 <= b < sink.c ==> #[trigger] sink.at(a, b) == (if (b < cix || (b == cix && a < rix)) && b < ix.d@.len() && ix.d@[b] { source } else { old(sink).at(a, b) }),"])

# x[mask, :] = v
K["assign_2d_range_all_b"] = dict(
    mask=False, atomic=False,   # the dispatch arm admits only a mask of the indexed dimension's length (typed shapes / `if len ==` guard)
    structs="Set2DRAB", params=["source", "ix", "sink"], scalars=["source"], sig="source: u64, ix: &BVec, sink: &mut Mat",
    requires=["old(sink).wf()", "ix.d@.len() >= 1"] + NE, valid="ix.d@.len() == old(sink).r",
    addressed="(forall|a: int| 0 <= a < ix.d@.len() && #[trigger] ix.d@[a] ==> a < old(sink).r)",
    value=["forall|a: int, b: int| 0 <= a < old(sink).r && 0 <= b < old(sink).c ==> #[trigger] final(sink).at(a, b) == (if ix.d@[a] { source } else { old(sink).at(a, b) })"] + SHAPE,
    loops=["    invariant " + SK + ", sink.c >= 1,\n"
           "      cix > 0 ==> (forall|a: int| 0 <= a < ix.d@.len() && #[trigger] ix.d@[a] ==> a < sink.r),\n"
           "      forall|a: int, b: int| 0 <= a < sink.r && 0 <= b < sink.c ==> #[trigger] sink.at(a, b) == (if b < cix && a < ix.d@.len() && ix.d@[a] { source } else { old(sink).at(a, b) }),",
           "      invariant " + SK + ", sink.c >= 1, cix < sink.c,\n"
           "        cix > 0 ==> (forall|a: int| 0 <= a < ix.d@.len() && #[trigger] ix.d@[a] ==> a < sink.r),\n"
           "        forall|a: int| 0 <= a < rix && #[trigger] ix.d@[a] ==> a < sink.r,\n"
           "        forall|a: int, b: int| 0 <= a < sink.r && 0 <= b < sink.c ==> #[trigger] sink.at(a, b) == (if (b < cix || (b == cix && a < rix)) && a < ix.d@.len() && ix.d@[a] { source } else { old(sink).at(a, b) }),"])

# x[I, J] = v
K["assign_2d_range_range"] = dict(
    structs="Assign2DRRS", params=["sink", "ix1", "ix2", "source"], scalars=["source"], sig="sink: &mut Mat, ix1: &IVec, ix2: &IVec, source: u64",
    requires=["old(sink).wf()", "ix1.d@.len() >= 1", "ix2.d@.len() >= 1"] + NE,
    valid="(ix_ok(ix1.d@, old(sink).r as int) && ix_ok(ix2.d@, old(sink).c as int))",
    value=["forall|a: int, b: int| 0 <= a < old(sink).r && 0 <= b < old(sink).c ==> #[trigger] final(sink).at(a, b) == "
           "(if hit(ix1.d@, ix1.d@.len() as int, a) && hit(ix2.d@, ix2.d@.len() as int, b) { source } else { old(sink).at(a, b) })"] + SHAPE,
    loops=["    invariant " + SK + ", ix2.d@.len() >= 1,\n"
           "      rix > 0 ==> ix_ok(ix2.d@, sink.c as int),\n"
           "      forall|k: int| 0 <= k < rix ==> 1 <= #[trigger] ix1.d@[k] <= sink.r,\n"
           "      forall|a: int, b: int| 0 <= a < sink.r && 0 <= b < sink.c ==> #[trigger] sink.at(a, b) == "
           "(if hit(ix1.d@, rix as int, a) && hit(ix2.d@, ix2.d@.len() as int, b) { source } else { old(sink).at(a, b) }),",
           "      invariant " + SK + ", ix2.d@.len() >= 1, rix < ix1.d@.len(), ix1.d@[rix as int] >= 1, r == ix1.d@[rix as int] - 1, cix > 0 ==> r < sink.r,\n"
           "        rix > 0 ==> ix_ok(ix2.d@, sink.c as int),\n"
           "        forall|k: int| 0 <= k < cix ==> 1 <= #[trigger] ix2.d@[k] <= sink.c,\n"
           "        forall|k: int| 0 <= k < rix ==> 1 <= #[trigger] ix1.d@[k] <= sink.r,\n"
           "        forall|a: int, b: int| 0 <= a < sink.r && 0 <= b < sink.c ==> #[trigger] sink.at(a, b) == "
           "(if (hit(ix1.d@, rix as int, a) && hit(ix2.d@, ix2.d@.len() as int, b)) || (a == r && hit(ix2.d@, cix as int, b)) { source } else { old(sink).at(a, b) }),"])

# x[mask, mask] = v
K["assign_2d_range_range_b"] = dict(
    mask=False, atomic=False,   # the dispatch arm admits only a mask of the indexed dimension's length (typed shapes / `if len ==` guard)
    structs="Assign2DRRBB", params=["sink", "ix1", "ix2", "source"], scalars=["source"], sig="sink: &mut Mat, ix1: &BVec, ix2: &BVec, source: u64",
    requires=["old(sink).wf()", "ix1.d@.len() >= 1", "ix2.d@.len() >= 1"] + NE,
    valid="(ix1.d@.len() == old(sink).r && ix2.d@.len() == old(sink).c)",
    addressed="(forall|a: int, b: int| 0 <= a < ix1.d@.len() && 0 <= b < ix2.d@.len() && #[trigger] ix1.d@[a] && #[trigger] ix2.d@[b] ==> a < old(sink).r && b < old(sink).c)",
    value=["forall|a: int, b: int| 0 <= a < old(sink).r && 0 <= b < old(sink).c ==> #[trigger] final(sink).at(a, b) == (if ix1.d@[a] && ix2.d@[b] { source } else { old(sink).at(a, b) })"] + SHAPE,
    loops=["    invariant " + SK + ",\n"
           "      forall|a: int, b: int| 0 <= a < r && 0 <= b < ix2.d@.len() && #[trigger] ix1.d@[a] && #[trigger] ix2.d@[b] ==> a < sink.r && b < sink.c,\n"
           "      forall|a: int, b: int| 0 <= a < sink.r && 0 <= b < sink.c ==> #[trigger] sink.at(a, b) == (if a < r && a < ix1.d@.len() && b < ix2.d@.len() && ix1.d@[a] && ix2.d@[b] { source } else { old(sink).at(a, b) }),",
           "          invariant " + SK + ", r < ix1.d@.len(), ix1.d@[r as int],\n"
           "            forall|a: int, b: int| 0 <= a < r && 0 <= b < ix2.d@.len() && #[trigger] ix1.d@[a] && #[trigger] ix2.d@[b] ==> a < sink.r && b < sink.c,\n"
           "            forall|b: int| 0 <= b < c && #[trigger] ix2.d@[b] ==> r < sink.r && b < sink.c,\n"
           "            forall|a: int, b: int| 0 <= a < sink.r && 0 <= b < sink.c ==> #[trigger] sink.at(a, b) == "
           "(if ((a < r && a < ix1.d@.len() && b < ix2.d@.len()) || (a == r && b < c)) && ix1.d@[a] && ix2.d@[b] { source } else { old(sink).at(a, b) }),"])

# x[mask, J] = v
K["assign_2d_range_range_bu"] = dict(
    mask=False,   # mask length is guarded by the dispatch arm; the index-vector part is not (atomic stays)
    structs="Assign2DRRBU", params=["sink", "ix1", "ix2", "source"], scalars=["source"], sig="sink: &mut Mat, ix1: &BVec, ix2: &IVec, source: u64",
    requires=["old(sink).wf()", "ix1.d@.len() >= 1", "ix2.d@.len() >= 1"] + NE,
    valid="(ix1.d@.len() == old(sink).r && ix_ok(ix2.d@, old(sink).c as int))", masklen="ix1.d@.len() == old(sink).r",
    addressed="(forall|a: int| 0 <= a < ix1.d@.len() && #[trigger] ix1.d@[a] ==> a < old(sink).r && ix_ok(ix2.d@, old(sink).c as int))",
    value=["forall|a: int, b: int| 0 <= a < old(sink).r && 0 <= b < old(sink).c ==> #[trigger] final(sink).at(a, b) == (if ix1.d@[a] && hit(ix2.d@, ix2.d@.len() as int, b) { source } else { old(sink).at(a, b) })"] + SHAPE,
    loops=["    invariant " + SK + ", ix2.d@.len() >= 1,\n"
           "      forall|a: int| 0 <= a < r && #[trigger] ix1.d@[a] ==> a < sink.r && ix_ok(ix2.d@, sink.c as int),\n"
           "      forall|a: int, b: int| 0 <= a < sink.r && 0 <= b < sink.c ==> #[trigger] sink.at(a, b) == (if a < r && a < ix1.d@.len() && ix1.d@[a] && hit(ix2.d@, ix2.d@.len() as int, b) { source } else { old(sink).at(a, b) }),",
           "          invariant " + SK + ", ix2.d@.len() >= 1, r < ix1.d@.len(), ix1.d@[r as int], cix > 0 ==> r < sink.r,\n"
           "            forall|k: int| 0 <= k < cix ==> 1 <= #[trigger] ix2.d@[k] <= sink.c,\n"
           "            forall|a: int| 0 <= a < r && #[trigger] ix1.d@[a] ==> a < sink.r && ix_ok(ix2.d@, sink.c as int),\n"
           "            forall|a: int, b: int| 0 <= a < sink.r && 0 <= b < sink.c ==> #[trigger] sink.at(a, b) == "
           "(if (a < r && a < ix1.d@.len() && ix1.d@[a] && hit(ix2.d@, ix2.d@.len() as int, b)) || (a == r && hit(ix2.d@, cix as int, b)) { source } else { old(sink).at(a, b) }),"])

# x[I, mask] = v   -- the kernel uses the position in I as the row (known finding; the existing suite pins that behaviour, see
# known_findings.json): the contract below is the property's, no invariant can make it hold
K["assign_2d_range_range_ub"] = dict(
    mask=False,   # mask length is guarded by the dispatch arm; the index-vector part is not (atomic stays)
    structs="Assign2DRRUB", params=["sink", "ix1", "ix2", "source"], scalars=["source"], sig="sink: &mut Mat, ix1: &IVec, ix2: &BVec, source: u64",
    requires=["old(sink).wf()", "ix1.d@.len() >= 1", "ix2.d@.len() >= 1"] + NE,
    valid="(ix_ok(ix1.d@, old(sink).r as int) && ix2.d@.len() == old(sink).c)", masklen="ix2.d@.len() == old(sink).c",
    addressed="(forall|b: int| 0 <= b < ix2.d@.len() && #[trigger] ix2.d@[b] ==> b < old(sink).c && ix_ok(ix1.d@, old(sink).r as int))",
    value=["forall|a: int, b: int| 0 <= a < old(sink).r && 0 <= b < old(sink).c ==> #[trigger] final(sink).at(a, b) == (if hit(ix1.d@, ix1.d@.len() as int, a) && ix2.d@[b] { source } else { old(sink).at(a, b) })"] + SHAPE,
    loops=["    invariant " + SK + ",", "          invariant " + SK + ","])

# ---- kernels that iterate with nalgebra iterators / bind a column view (rules R10, R11)
# x[I, j] = v
K["assign_2d_range_scalar"] = dict(
    structs="Assign2DRSS", params=["sink", "ix1", "ix2", "source"], scalars=["ix2", "source"], sig="sink: &mut Mat, ix1: &IVec, ix2: usize, source: u64",
    requires=["old(sink).wf()", "ix1.d@.len() >= 1"] + NE, valid="(ix_ok(ix1.d@, old(sink).r as int) && 1 <= ix2 <= old(sink).c)",
    value=["forall|a: int, b: int| 0 <= a < old(sink).r && 0 <= b < old(sink).c ==> #[trigger] final(sink).at(a, b) == (if b == ix2 - 1 && hit(ix1.d@, ix1.d@.len() as int, a) { source } else { old(sink).at(a, b) })"] + SHAPE,
    loops=["    invariant " + SK + ", 1 <= ix2 <= sink.c, col_ix_ == ix2 - 1,\n"
           "      forall|k: int| 0 <= k < k_rix ==> 1 <= #[trigger] ix1.d@[k] <= sink.r,\n"
           "      forall|a: int, b: int| 0 <= a < sink.r && 0 <= b < sink.c ==> #[trigger] sink.at(a, b) == (if b == ix2 - 1 && hit(ix1.d@, k_rix as int, a) { source } else { old(sink).at(a, b) }),"])

# x[mask, j] = v
K["assign_2d_range_scalar_b"] = dict(
    structs="Assign2DRSB", params=["sink", "ix1", "ix2", "source"], scalars=["ix2", "source"], sig="sink: &mut Mat, ix1: &BVec, ix2: usize, source: u64",
    requires=["old(sink).wf()", "ix1.d@.len() >= 1"] + NE, valid="(ix1.d@.len() == old(sink).r && 1 <= ix2 <= old(sink).c)", masklen="ix1.d@.len() == old(sink).r",
    addressed="(1 <= ix2 <= old(sink).c && (forall|a: int| 0 <= a < ix1.d@.len() && #[trigger] ix1.d@[a] ==> a < old(sink).r))",
    value=["forall|a: int, b: int| 0 <= a < old(sink).r && 0 <= b < old(sink).c ==> #[trigger] final(sink).at(a, b) == (if b == ix2 - 1 && ix1.d@[a] { source } else { old(sink).at(a, b) })"] + SHAPE,
    loops=["    invariant " + SK + ", 1 <= ix2 <= sink.c, col_ix_ == ix2 - 1,\n"
           "      forall|a: int| 0 <= a < rix && #[trigger] ix1.d@[a] ==> a < sink.r,\n"
           "      forall|a: int, b: int| 0 <= a < sink.r && 0 <= b < sink.c ==> #[trigger] sink.at(a, b) == (if b == ix2 - 1 && a < rix && a < ix1.d@.len() && ix1.d@[a] { source } else { old(sink).at(a, b) }),"])

# x[:, J] = v
K["assign_2d_all_range"] = dict(
    structs="Set2DARS", params=["source", "ix", "sink"], scalars=["source"], sig="source: u64, ix: &IVec, sink: &mut Mat",
    requires=["old(sink).wf()", "ix.d@.len() >= 1"] + NE, valid="ix_ok(ix.d@, old(sink).c as int)",
    value=["forall|a: int, b: int| 0 <= a < old(sink).r && 0 <= b < old(sink).c ==> #[trigger] final(sink).at(a, b) == (if hit(ix.d@, ix.d@.len() as int, b) { source } else { old(sink).at(a, b) })"] + SHAPE,
    loops=["    invariant " + SK + ", sink.r >= 1,\n"
           "      forall|k: int| 0 <= k < k_cix ==> 1 <= #[trigger] ix.d@[k] <= sink.c,\n"
           "      forall|a: int, b: int| 0 <= a < sink.r && 0 <= b < sink.c ==> #[trigger] sink.at(a, b) == (if hit(ix.d@, k_cix as int, b) { source } else { old(sink).at(a, b) }),",
           "      invariant ITER_END(sink.r), " + SK + ", sink.r >= 1, k_cix < ix.d@.len(), cix == ix.d@[k_cix as int], rix > 0 ==> 1 <= cix <= sink.c,\n"
           "        forall|k: int| 0 <= k < k_cix ==> 1 <= #[trigger] ix.d@[k] <= sink.c,\n"
           "        forall|a: int, b: int| 0 <= a < sink.r && 0 <= b < sink.c ==> #[trigger] sink.at(a, b) == (if hit(ix.d@, k_cix as int, b) || (b == cix - 1 && a < rix) { source } else { old(sink).at(a, b) }),"])

# x[I, :] = v
K["assign_2d_range_all"] = dict(
    structs="Set2DRAS", params=["source", "ix", "sink"], scalars=["source"], sig="source: u64, ix: &IVec, sink: &mut Mat",
    requires=["old(sink).wf()", "ix.d@.len() >= 1"] + NE, valid="ix_ok(ix.d@, old(sink).r as int)",
    value=["forall|a: int, b: int| 0 <= a < old(sink).r && 0 <= b < old(sink).c ==> #[trigger] final(sink).at(a, b) == (if hit(ix.d@, ix.d@.len() as int, a) { source } else { old(sink).at(a, b) })"] + SHAPE,
    loops=["    invariant ITER_END(sink.c), " + SK + ", sink.c >= 1, ix.d@.len() >= 1,\n"
           "      cix > 0 ==> ix_ok(ix.d@, sink.r as int),\n"
           "      forall|a: int, b: int| 0 <= a < sink.r && 0 <= b < sink.c ==> #[trigger] sink.at(a, b) == (if b < cix && hit(ix.d@, ix.d@.len() as int, a) { source } else { old(sink).at(a, b) }),",
           "      invariant " + SK + ", sink.c >= 1, cix < sink.c, ix.d@.len() >= 1,\n"
           "        cix > 0 ==> ix_ok(ix.d@, sink.r as int),\n"
           "        forall|k: int| 0 <= k < k_rix ==> 1 <= #[trigger] ix.d@[k] <= sink.r,\n"
           "        forall|a: int, b: int| 0 <= a < sink.r && 0 <= b < sink.c ==> #[trigger] sink.at(a, b) == (if (b < cix && hit(ix.d@, ix.d@.len() as int, a)) || (b == cix && hit(ix.d@, k_rix as int, a)) { source } else { old(sink).at(a, b) }),"])


# loop variable names the contracts above were written with (by loop ordinal); see vmat.mode_fn
LOOPVARS = {'assign_1d_scalar': [], 'set_1d_range': ['i'], 'set_1d_range_b': ['i'], 'set_1d_range_vec': ['i'], 'set_1d_range_vec_b': ['i'], 'assign_2d_all_scalar': ['i'], 'assign_2d_scalar_all_scalar': ['i'], 'assign_2d_scalar_range': ['i'], 'assign_2d_scalar_range_b': ['cix'], 'assign_2d_all_range_b': ['cix', 'rix'], 'assign_2d_range_all_b': ['cix', 'rix'], 'assign_2d_range_range': ['rix', 'cix'], 'assign_2d_range_range_b': ['r', 'c'], 'assign_2d_range_range_bu': ['r', 'cix'], 'assign_2d_range_range_ub': ['r', 'c'], 'assign_2d_range_scalar': ['k_rix'], 'assign_2d_range_scalar_b': ['rix'], 'assign_2d_all_range': ['k_cix', 'rix'], 'assign_2d_range_all': ['cix', 'k_rix']}
for _n, _v in LOOPVARS.items():
    if _n in K and K[_n].get("loopvars") is None:
        K[_n]["loopvars"] = _v

MODES = {
    "value": "%s (struct %s): with every index valid the kernel returns normally, every addressed element holds the assigned value, every other element and the shape are unchanged (any matrix size)",
    "reject": "%s (struct %s): if the kernel returns normally then every addressed position exists",
    "masklen": "%s (struct %s): if the kernel returns normally then the mask length equals the indexed dimension",
    "atomic": "%s (struct %s): if the kernel fails, the sink is unchanged (an error leaves x unchanged)",
}


def kernel_items(names=None):
    text = vlib.read_repo(PATH)
    items = []
    for name, k in K.items():
        if names and name not in names:
            continue
        mt = vlib.extract_macro(text, name)
        for mode in vmat.modes_of(k, atomic=True):
            items.append(("%s.%s" % (name, mode), vmat.mode_fn(name, k, mt, mode, out="sink")))
    return items


def add_units(plan, prop="C04"):
    vmat.add_units(plan, prop, K, PATH, MODES, atomic=True, out="sink")
    plan.assumptions.append("kernels marked mask=False / atomic=False: the dispatch arms of src/core/src/stdlib.rs admit only masks whose length equals the indexed "
                            "dimension (fixed-size shape patterns, `if ix.len() == sink.len()` guards on the dynamic ones) -- read off the arms and confirmed by "
                            "native runs (mismatched masks give UnhandledFunctionArgumentIxes), not proved")


# ---------------------------------------------------------------------------------------------------------------------
# op-assignment kernels (machines/math/src/op_assign/<op>_assign.rs): same shapes, the written value is op(old, source)
OP_PATH = "machines/math/src/op_assign/%s_assign.rs"
OPS = ["add", "sub", "mul", "div"]


def op_table(op):
    F = "opf_%s" % op
    T = {}
    T["%s_assign_1d_range" % op] = dict(
        structs="%sAssign1DRS" % op.capitalize(), params=["source", "ix", "sink"], scalars=["source"], sig="source: u64, ix: &IVec, sink: &mut Mat",
        requires=["old(sink).wf()"], valid="(ix_ok(ix.d@, old(sink).d@.len() as int) && distinct(ix.d@))",
        addressed="ix_ok(ix.d@, old(sink).d@.len() as int)", mask=False,
        value=["forall|k: int| 0 <= k < ix.d@.len() ==> final(sink).d@[#[trigger] ix.d@[k] - 1] == %s(old(sink).d@[ix.d@[k] - 1], source)" % F,
               "forall|p: int| 0 <= p < final(sink).d@.len() && !hit(ix.d@, ix.d@.len() as int, p) ==> #[trigger] final(sink).d@[p] == old(sink).d@[p]"] + SHAPE,
        loops=["    invariant " + SK + ",\n"
               "      forall|k: int| 0 <= k < i ==> 1 <= #[trigger] ix.d@[k] <= sink.d@.len(),\n"
               "      distinct(ix.d@) ==> (forall|k: int| 0 <= k < i ==> sink.d@[#[trigger] ix.d@[k] - 1] == %s(old(sink).d@[ix.d@[k] - 1], source)),\n"
               "      distinct(ix.d@) ==> (forall|k: int| i <= k < ix.d@.len() && 1 <= #[trigger] ix.d@[k] <= sink.d@.len() ==> sink.d@[ix.d@[k] - 1] == old(sink).d@[ix.d@[k] - 1]),\n"
               "      forall|p: int| 0 <= p < sink.d@.len() && !hit(ix.d@, i as int, p) ==> #[trigger] sink.d@[p] == old(sink).d@[p]," % F],
        loopvars=["i"])
    T["%s_assign_1d_range_b" % op] = dict(
        structs="%sAssign1DRB" % op.capitalize(), params=["source", "ix", "sink"], scalars=["source"], sig="source: u64, ix: &BVec, sink: &mut Mat",
        mask=False, atomic=False,   # the dispatch arm rejects a mask of another length (natively: UnhandledFunctionArgumentIxes)
        requires=["old(sink).wf()"], valid="ix.d@.len() == old(sink).d@.len()",
        addressed="(forall|p: int| 0 <= p < ix.d@.len() && #[trigger] ix.d@[p] ==> p < old(sink).d@.len())",
        value=["forall|p: int| 0 <= p < final(sink).d@.len() ==> #[trigger] final(sink).d@[p] == (if ix.d@[p] { %s(old(sink).d@[p], source) } else { old(sink).d@[p] })" % F] + SHAPE,
        loops=["    invariant " + SK + ",\n"
               "      forall|p: int| 0 <= p < i && #[trigger] ix.d@[p] ==> p < sink.d@.len(),\n"
               "      forall|p: int| 0 <= p < sink.d@.len() ==> #[trigger] sink.d@[p] == (if p < i && ix.d@[p] { %s(old(sink).d@[p], source) } else { old(sink).d@[p] })," % F],
        loopvars=["i"])
    T["%s_assign_1d_range_vec" % op] = dict(
        structs="%sAssign1DRV" % op.capitalize(), params=["source", "ix", "sink"], scalars=[], sig="source: &Mat, ix: &IVec, sink: &mut Mat",
        requires=["old(sink).wf()", "source.wf()"],
        valid="(ix_ok(ix.d@, old(sink).d@.len() as int) && distinct(ix.d@) && source.d@.len() == ix.d@.len())",
        addressed="(ix_ok(ix.d@, old(sink).d@.len() as int) && source.d@.len() >= ix.d@.len())", mask=False,
        value=["forall|k: int| 0 <= k < ix.d@.len() ==> final(sink).d@[#[trigger] ix.d@[k] - 1] == %s(old(sink).d@[ix.d@[k] - 1], source.d@[k])" % F,
               "forall|p: int| 0 <= p < final(sink).d@.len() && !hit(ix.d@, ix.d@.len() as int, p) ==> #[trigger] final(sink).d@[p] == old(sink).d@[p]"] + SHAPE,
        loops=["    invariant source.wf(), " + SK + ", i <= source.d@.len(),\n"
               "      forall|k: int| 0 <= k < i ==> 1 <= #[trigger] ix.d@[k] <= sink.d@.len(),\n"
               "      distinct(ix.d@) ==> (forall|k: int| 0 <= k < i ==> sink.d@[#[trigger] ix.d@[k] - 1] == %s(old(sink).d@[ix.d@[k] - 1], source.d@[k])),\n"
               "      distinct(ix.d@) ==> (forall|k: int| i <= k < ix.d@.len() && 1 <= #[trigger] ix.d@[k] <= sink.d@.len() ==> sink.d@[ix.d@[k] - 1] == old(sink).d@[ix.d@[k] - 1]),\n"
               "      forall|p: int| 0 <= p < sink.d@.len() && !hit(ix.d@, i as int, p) ==> #[trigger] sink.d@[p] == old(sink).d@[p]," % F],
        loopvars=["i"])
    T["%s_assign_2d_vector_all_b" % op] = dict(
        structs="%sAssign2DRASB" % op.capitalize(), params=["source", "ix", "sink"], scalars=["source"], sig="source: u64, ix: &BVec, sink: &mut Mat",
        mask=False, atomic=False,
        requires=["old(sink).wf()", "ix.d@.len() >= 1"] + NE, valid="ix.d@.len() == old(sink).r",
        addressed="(forall|a: int| 0 <= a < ix.d@.len() && #[trigger] ix.d@[a] ==> a < old(sink).r)",
        value=["forall|a: int, b: int| 0 <= a < old(sink).r && 0 <= b < old(sink).c ==> #[trigger] final(sink).at(a, b) == (if ix.d@[a] { %s(old(sink).at(a, b), source) } else { old(sink).at(a, b) })" % F] + SHAPE,
        loops=["    invariant " + SK + ", sink.c >= 1,\n"
               "      cix > 0 ==> (forall|a: int| 0 <= a < ix.d@.len() && #[trigger] ix.d@[a] ==> a < sink.r),\n"
               "      forall|a: int, b: int| 0 <= a < sink.r && 0 <= b < sink.c ==> #[trigger] sink.at(a, b) == (if b < cix && a < ix.d@.len() && ix.d@[a] { %s(old(sink).at(a, b), source) } else { old(sink).at(a, b) })," % F,
               "      invariant " + SK + ", sink.c >= 1, cix < sink.c,\n"
               "        cix > 0 ==> (forall|a: int| 0 <= a < ix.d@.len() && #[trigger] ix.d@[a] ==> a < sink.r),\n"
               "        forall|a: int| 0 <= a < rix && #[trigger] ix.d@[a] ==> a < sink.r,\n"
               "        forall|a: int, b: int| 0 <= a < sink.r && 0 <= b < sink.c ==> #[trigger] sink.at(a, b) == (if (b < cix || (b == cix && a < rix)) && a < ix.d@.len() && ix.d@[a] { %s(old(sink).at(a, b), source) } else { old(sink).at(a, b) })," % F],
        loopvars=["cix", "rix"])
    if op == "div":
        # div_assign_2d_vector_all_b has its own shape (`row = i / ncols` over iter_mut(): it reads the column-major linear
        # index as if it were row-major) and is unreachable (op_assign_range_all_fxn! never tries the mask arms): no contract
        del T["div_assign_2d_vector_all_b"]
    T["%s_assign_2d_vector_all" % op] = dict(
        structs="%sAssign2DRAS" % op.capitalize(), params=["source", "ix", "sink"], scalars=["source"], sig="source: u64, ix: &IVec, sink: &mut Mat",
        requires=["old(sink).wf()", "ix.d@.len() >= 1"] + NE, valid="(ix_ok(ix.d@, old(sink).r as int) && distinct(ix.d@))",
        addressed="ix_ok(ix.d@, old(sink).r as int)", mask=False,
        value=["forall|a: int, b: int| 0 <= a < old(sink).r && 0 <= b < old(sink).c ==> #[trigger] final(sink).at(a, b) == (if hit(ix.d@, ix.d@.len() as int, a) { %s(old(sink).at(a, b), source) } else { old(sink).at(a, b) })" % F] + SHAPE,
        loops=["    invariant ITER_END(sink.c), " + SK + ", sink.c >= 1, ix.d@.len() >= 1,\n"
               "      cix > 0 ==> ix_ok(ix.d@, sink.r as int),\n"
               "      distinct(ix.d@) ==> (forall|a: int, b: int| 0 <= a < sink.r && 0 <= b < sink.c ==> #[trigger] sink.at(a, b) == (if b < cix && hit(ix.d@, ix.d@.len() as int, a) { %s(old(sink).at(a, b), source) } else { old(sink).at(a, b) }))," % F,
               "      invariant " + SK + ", sink.c >= 1, cix < sink.c, ix.d@.len() >= 1,\n"
               "        cix > 0 ==> ix_ok(ix.d@, sink.r as int),\n"
               "        forall|k: int| 0 <= k < k_rix ==> 1 <= #[trigger] ix.d@[k] <= sink.r,\n"
               "        distinct(ix.d@) ==> (forall|a: int, b: int| 0 <= a < sink.r && 0 <= b < sink.c ==> #[trigger] sink.at(a, b) == "
               "(if (b < cix && hit(ix.d@, ix.d@.len() as int, a)) || (b == cix && hit(ix.d@, k_rix as int, a)) { %s(old(sink).at(a, b), source) } else { old(sink).at(a, b) }))," % F],
        loopvars=["cix", "k_rix"])
    return T


OP_MODES = {
    "value": "%s (struct %s): with every index valid and distinct, every addressed element becomes op(old element, source), every other element and the shape are unchanged (any matrix size; the element operation is an uninterpreted total function per operator)",
    "reject": MODES["reject"], "masklen": MODES["masklen"], "atomic": MODES["atomic"],
}


def op_items(op, names=None):
    text = vlib.read_repo(OP_PATH % op)
    items = []
    for name, k in op_table(op).items():
        if names and name not in names:
            continue
        mt = vlib.extract_macro(text, name)
        for mode in vmat.modes_of(k, atomic=True):
            items.append(("%s.%s" % (name, mode), vmat.mode_fn(name, k, mt, mode, out="sink")))
    return items


def add_op_units(plan, prop="C04"):
    for op in OPS:
        vmat.add_units(plan, prop, op_table(op), OP_PATH % op, OP_MODES, atomic=True, out="sink")
