"""C05 — `var()` (src/interpreter/src/expressions.rs, whole body): what a reference to a name denotes.

Transcription rules (V):
  V1 the closure `let maybe_cast_to_kind = |value: Value| -> MResult<Value> { BODY };` is lifted to a top-level function `maybe_cast_to_kind(value, v, p)` (this Verus has no
     capturing closures in exec code) and its calls get the two captured variables as extra arguments
  V2 `{ let state_brrw = p.state.borrow(); kind_annotation(K, p)?.to_value_kind(&state_brrw.kinds)? }` -> `{ kind_annotation(K, p)?.to_value_kind(p)? }`
  V3 the four statements `let state_brrw = p.state.borrow(); let symbols_brrw = state_brrw.symbol_table.borrow(); let symbol_value = symbols_brrw.get(id); drop(..); drop(..);`
     -> `let symbol_value = symbol_get(p, id);`
  V4 `p.state.borrow_mut().add_plan_step(f)` -> `add_plan_step(p, f)`;  `Err(MechError::new(UndefinedVariableError { id }, None)...)` -> `Err(undefined_variable(id))`
  V5 `p: &Interpreter` -> `&mut Interpreter` (ghost plan steps); `MResult` -> `Result<_, MechError>`; `value.clone()` on an environment entry kept (model clone)
"""
import re
import vlib
from vlib import AnchorLost, extract_fn, match_brace

PATH = "src/interpreter/src/expressions.rs"
MODEL = """
#[derive(Clone, Copy, PartialEq, Eq, Structural)]
pub struct SymRef { pub id: u64 }                 // the shared cell a symbol-table entry holds
#[derive(Clone, Copy, PartialEq, Eq, Structural)]
pub struct KindV { pub id: u64 }
#[derive(Clone, Copy, PartialEq, Eq, Structural)]
pub enum Value { MutableReference(SymRef), Kind(KindV), Other(u64) }
impl Value { pub fn clone(&self) -> (r: Value) ensures r == *self, { *self } }
pub struct MechError { pub id: u64 }
pub struct Ident { pub id: u64 }
pub uninterp spec fn ident_hash(i: Ident) -> u64;
impl Ident { #[verifier::external_body] pub fn hash(&self) -> (r: u64) ensures r == ident_hash(*self), { unimplemented!() } }
pub struct NodeKind { pub id: u64 }
pub struct KindAnnotation { pub kind: NodeKind }
pub struct Var { pub name: Ident, pub kind: Option<KindAnnotation> }
pub struct Environment { pub m: Ghost<Map<u64, Value>> }
impl Environment {
  #[verifier::external_body]
  pub fn get(&self, k: &u64) -> (r: Option<&Value>)
    ensures (match r { Some(v) => self.m@.contains_key(*k) && self.m@[*k] == *v, None => !self.m@.contains_key(*k) }),
  { unimplemented!() }
}
#[derive(Clone, Copy, PartialEq, Eq, Structural)]
pub struct Fx { pub a: Value, pub b: Value }
// the interpreter: its symbol table (a function of the name id; nothing here writes it) and the ghost list of plan steps added through it
pub struct Interpreter { pub syms: Ghost<Map<u64, SymRef>>, pub steps: Ghost<Seq<Fx>> }
pub struct KindN { pub id: u64 }
pub uninterp spec fn kind_val(k: NodeKind) -> Option<KindN>;             // kind_annotation
pub uninterp spec fn value_kind(k: KindN) -> Option<KindV>;              // Kind::to_value_kind
pub uninterp spec fn convertible(v: Value, k: Value) -> bool;            // ConvertKind{}.compile accepts            (C12's subject)
pub uninterp spec fn converted(v: Value, k: Value) -> Value;             // the converted value after solve()         (C12's subject)
#[verifier::external_body]
pub fn kind_annotation(k: &NodeKind, p: &Interpreter) -> (r: Result<KindN, MechError>)
  ensures (match r { Ok(v) => kind_val(*k) == Some(v), Err(_) => kind_val(*k) is None }), { unimplemented!() }
impl KindN {
  #[verifier::external_body]
  pub fn to_value_kind(&self, p: &Interpreter) -> (r: Result<KindV, MechError>)
    ensures (match r { Ok(v) => value_kind(*self) == Some(v), Err(_) => value_kind(*self) is None }), { unimplemented!() }
}
pub struct ConvertKind {}
impl ConvertKind {
  #[verifier::external_body]
  pub fn compile(&self, args: &Vec<Value>) -> (r: Result<Fx, MechError>)
    requires args@.len() == 2,
    ensures (match r { Ok(f) => convertible(args@[0], args@[1]) && f.a == args@[0] && f.b == args@[1], Err(_) => !convertible(args@[0], args@[1]) }), { unimplemented!() }
}
impl Fx {
  #[verifier::external_body] pub fn solve(&self) { unimplemented!() }
  #[verifier::external_body] pub fn out(&self) -> (v: Value) ensures v == converted(self.a, self.b), { unimplemented!() }
}
#[verifier::external_body]
pub fn add_plan_step(p: &mut Interpreter, f: Fx) ensures final(p).steps@ == old(p).steps@.push(f), final(p).syms == old(p).syms, { unimplemented!() }
#[verifier::external_body]
pub fn symbol_get(p: &Interpreter, id: u64) -> (r: Option<SymRef>)
  ensures (match r { Some(c) => p.syms@.contains_key(id) && p.syms@[id] == c, None => !p.syms@.contains_key(id) }), { unimplemented!() }
#[verifier::external_body]
pub fn undefined_variable(id: u64) -> (e: MechError) { unimplemented!() }
// ---- THE CONTRACT (C05 "a name denotes its binding": C16 "pattern variables bound to the matched parts"): a reference to a name denotes the binding of the innermost
// environment that has one (a pattern / comprehension variable shadows a global of the same name), otherwise the symbol-table entry (as a reference to its cell),
// otherwise it is an undefined-variable error; a kind annotation on the reference converts that value (rule: C12) and nothing else
pub open spec fn denotes(id: u64, env: Option<Map<u64, Value>>, syms: Map<u64, SymRef>) -> Option<Value> {
  if env is Some && env.unwrap().contains_key(id) { Some(env.unwrap()[id]) }
  else if syms.contains_key(id) { Some(Value::MutableReference(syms[id])) }
  else { None }
}
pub open spec fn cast(value: Value, kind: Option<KindAnnotation>) -> Option<Value> {
  match kind {
    None => Some(value),
    Some(ka) => match kind_val(ka.kind) { None => None, Some(kn) => match value_kind(kn) { None => None, Some(kv) =>
      if convertible(value, Value::Kind(kv)) { Some(converted(value, Value::Kind(kv))) } else { None } } },
  }
}
pub open spec fn var_spec(v: Var, env: Option<Map<u64, Value>>, syms: Map<u64, SymRef>) -> Option<Value> {
  match denotes(ident_hash(v.name), env, syms) { None => None, Some(x) => cast(x, v.kind) }
}
pub open spec fn outcome(r: Result<Value, MechError>) -> Option<Value> { match r { Ok(v) => Some(v), Err(_) => None } }
pub open spec fn env_view(env: Option<&Environment>) -> Option<Map<u64, Value>> { match env { Some(e) => Some(e.m@), None => None } }
"""


def var_fns(text, features):
    from units import vC16
    sig, body = extract_fn(text, "var")
    b = vC16.apply_cfg(re.sub(r"//[^\n]*", "", body).replace("\r", ""), features).strip()[1:-1]
    # V1
    m = re.search(r"let\s+(\w+)\s*=\s*\|\s*value\s*:\s*Value\s*\|\s*->\s*MResult<Value>\s*\{", b)
    if not m:
        raise AnchorLost("var(): the closure `maybe_cast_to_kind` not found")
    name = m.group(1)
    e = match_brace(b, m.end() - 1)
    closure = b[m.end():e - 1]
    k = e
    while b[k] in " \t\r\n":
        k += 1
    if b[k] != ";":
        raise AnchorLost("var(): unexpected text after the closure")
    rest = b[:m.start()] + b[k + 1:]
    def common(s):
        s = re.sub(r"let\s+state_brrw\s*=\s*p\.state\.borrow\(\)\s*;\s*(kind_annotation\([^;]*?)\.to_value_kind\(\s*&state_brrw\.kinds\s*\)", r"\1.to_value_kind(p)", s)   # V2
        s = re.sub(r"let\s+state_brrw\s*=\s*p\.state\.borrow\(\)\s*;\s*let\s+symbols_brrw\s*=\s*state_brrw\.symbol_table\.borrow\(\)\s*;\s*let\s+(\w+)\s*=\s*symbols_brrw\.get\(\s*(\w+)\s*\)\s*;\s*drop\(\s*symbols_brrw\s*\)\s*;\s*drop\(\s*state_brrw\s*\)\s*;",
                   r"let \1 = symbol_get(p, \2);", s)                                                                                                                       # V3
        s = re.sub(r"p\.state\.borrow_mut\(\)\.add_plan_step\(\s*(\w+)\s*\)", r"add_plan_step(p, \1)", s)                                                                  # V4
        while True:
            mm = re.search(r"Err\(\s*MechError::new\(\s*UndefinedVariableError\s*\{\s*(\w+)\s*\}", s)
            if not mm:
                break
            ee = match_brace(s, mm.start() + 3, "(", ")")
            s = s[:mm.start()] + "Err(undefined_variable(%s))" % mm.group(1) + s[ee:]
        return s
    closure, rest = common(closure), common(rest)
    rest = re.sub(r"\b%s\(" % name, "%s(v, p, " % name, rest)
    if re.search(r"\b(borrow|borrow_mut|state_brrw|symbols_brrw|MechError::new)\b", closure + rest):
        raise AnchorLost("var(): statements outside the transcription rules")
    return ("fn %s(v: &Var, p: &mut Interpreter, value: Value) -> (res: Result<Value, MechError>)\n"
            "  ensures outcome(res) == cast(value, v.kind), final(p).syms == old(p).syms,\n{\n" % name + closure + "\n}\n"
            "fn var(v: &Var, env: Option<&Environment>, p: &mut Interpreter) -> (res: Result<Value, MechError>)\n"
            "  ensures outcome(res) == var_spec(*v, env_view(env), old(p).syms@), final(p).syms == old(p).syms,\n{\n" + rest + "\n}\n"), [name, "var"]


def unit(text, features):
    body, fns = var_fns(text, features)
    return "use vstd::prelude::*;\nverus! {\n" + MODEL + body + vlib.verus_canary("canary_c05_var", "x: u64", []) + "\n} // verus!\nfn main() {}\n", fns
