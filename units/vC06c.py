"""(X) Verus contracts on the container constant WRITERS of src/core/src/program/compiler/constants.rs: for MechTable, MechSet and MechTuple both
`ConstElem::write_le` (whole body) and the payload built by `CompileConst::compile_const` (all statements before the final
`ctx.compile_const(&payload, ..)`), onto contracts/C06/constmodel.rs (the buffer is a token stream).  The contract is the layout the reader
`from_le` consumes (kind, counts, then the elements / columns in order), so the two writers of a type agree with each other and with the reader's
order of reads.  Mechanical rewrites:
  W1  `X.write_u32::<LittleEndian>(E)` followed by `.expect(..)` or `?` -> `write_u32(X, E)` (likewise u64); `Vec::<u8>::new()` -> `Out::new()`; `&mut Vec<u8>` -> `&mut Out`
  W2  `for (col_id, (vk, col_data)) in &self.data {` -> index loop binding `col_id`, `vk`, `col_data` to the i-th entry; `for x in &self.F {` -> index loop
  W3  `String::from("")` -> `empty_string()`; the final `ctx.compile_const(&payload, K)` of compile_const is cut (anchor) and `payload` returned"""
import os, re
import vlib
from vlib import AnchorLost, extract_fn, match_brace, find_code

PATH = "src/core/src/program/compiler/constants.rs"
TYPES = {
    "MechTable": dict(toks="table_toks", loops=[(r"for\s+\(\s*col_id\s*,\s*\(\s*vk\s*,\s*col_data\s*\)\s*\)\s+in\s+&self\.data\s*\{",
                                               "for i_ in 0..self.data.len()\n    invariant OUT.toks@ =~= PRE + seq![Tok::Kind(self.k), Tok::U32(self.rows as u32), Tok::U32(self.cols as u32)] + cols_toks(*self, i_ as int),\n  {\n      let col_id = &self.data[i_].0; let vk = &(self.data[i_].1).0; let col_data = &(self.data[i_].1).1;\n      proof { reveal_with_fuel(cols_toks, 2); }\n      let ghost o0 = OUT.toks@;",
                                               "proof { assert(OUT.toks@ =~= o0 + col_toks(*self, i_ as int)); assert(PRE + seq![Tok::Kind(self.k), Tok::U32(self.rows as u32), Tok::U32(self.cols as u32)] + cols_toks(*self, i_ as int) + col_toks(*self, i_ as int) =~= PRE + seq![Tok::Kind(self.k), Tok::U32(self.rows as u32), Tok::U32(self.cols as u32)] + (cols_toks(*self, i_ as int) + col_toks(*self, i_ as int))); }")]),
    "MechSet": dict(toks="set_toks", loops=[(r"for\s+(\w+)\s+in\s+&self\.set\s*\{",
                                             "for i_ in 0..self.set.len()\n    invariant OUT.toks@ =~= PRE + seq![Tok::Kind(self.kind), Tok::U32(self.num_elements as u32)] + vals_toks(self.set@, i_ as int),\n  {\n      let VAR = &self.set[i_];\n      proof { reveal_with_fuel(vals_toks, 2); }",
                                             "proof { assert(OUT.toks@ =~= PRE + seq![Tok::Kind(self.kind), Tok::U32(self.num_elements as u32)] + vals_toks(self.set@, i_ + 1)); }")]),
    "MechTuple": dict(toks="tuple_toks", loops=[(r"for\s+(\w+)\s+in\s+&self\.elements\s*\{",
                                                 "for i_ in 0..self.elements.len()\n    invariant OUT.toks@ =~= PRE + seq![Tok::Kind(self.k), Tok::U32(self.elements@.len() as u32)] + vals_toks(self.elements@, i_ as int),\n  {\n      let VAR = &self.elements[i_];\n      proof { reveal_with_fuel(vals_toks, 2); }",
                                                 "proof { assert(OUT.toks@ =~= PRE + seq![Tok::Kind(self.k), Tok::U32(self.elements@.len() as u32)] + vals_toks(self.elements@, i_ + 1)); }")]),
}


def model():
    return open(os.path.join(os.path.dirname(os.path.dirname(os.path.abspath(__file__))), "contracts", "C06", "constmodel.rs")).read()


def _impl_block(text, trait, ty):
    m = find_code(text, r"impl\s+%s\s+for\s+%s\s*\{" % (trait, ty))
    if not m:
        raise AnchorLost("impl %s for %s not found" % (trait, ty))
    return text[m.start():match_brace(text, m.end() - 1)]


def _rewrite(b, ty, out, pre):
    b = re.sub(r"//[^\n]*", "", b).replace("\r", "")
    # W1
    b = re.sub(r"\b(\w+)\s*\.write_u(32|64)::<LittleEndian>\(((?:[^()]|\([^()]*\))*)\)\s*(?:\.expect\(\s*\"[^\"]*\"\s*\)|\?)",
               lambda m: "write_u%s(%s%s, %s)" % (m.group(2), "" if m.group(1) == "out" else "&mut ", m.group(1), m.group(3)), b)
    b = b.replace("Vec::<u8>::new()", "Out::new()")
    b = b.replace('String::from("")', "empty_string()")
    # W2
    for pat, hdr, tail in TYPES[ty]["loops"]:
        m = re.search(pat, b)
        if not m:
            raise AnchorLost("%s: the loop over its elements not found" % ty)
        e = match_brace(b, m.end() - 1)
        var = m.group(1) if m.groups() else ""
        h = hdr.replace("OUT", out).replace("PRE", pre).replace("VAR", var)
        t = tail.replace("OUT", out).replace("PRE", pre)
        b = b[:m.start()] + h + b[m.end():e - 1] + "      " + t + "\n    }" + b[e:]
    if re.search(r"\b(write_u32::|write_u64::|expect\(|LittleEndian)\b", b):
        raise AnchorLost("%s: statements outside the transcription rules" % ty)
    return b


def write_le_fn(text, ty):
    blk = _impl_block(text, "ConstElem", ty)
    sig, body = extract_fn(blk, "write_le")
    if not re.search(r"\(\s*&self\s*,\s*out\s*:\s*&mut\s+Vec<u8>\s*\)", sig):
        raise AnchorLost("%s::write_le: signature changed" % ty)
    b = _rewrite(body[body.index("{") + 1:body.rindex("}")], ty, "out", "old(out).toks@")
    tk = TYPES[ty]["toks"]
    return ("impl %s {\npub fn write_le(&self, out: &mut Out)\n  ensures final(out).toks@ == old(out).toks@ + %s(*self),\n{\n" % (ty, tk)) + b + \
        "\n  proof { assert(out.toks@ =~= old(out).toks@ + %s(*self)); }\n}\n}\n" % tk


def payload_fn(text, ty):
    blk = _impl_block(text, "CompileConst", ty)
    sig, body = extract_fn(blk, "compile_const")
    inner = body[body.index("{") + 1:body.rindex("}")]
    m = re.search(r"\bctx\.compile_const\(\s*&payload\s*,", inner)
    if not m or not re.search(r"let\s+mut\s+payload\s*=\s*Vec::<u8>::new\(\)\s*;", inner):
        raise AnchorLost("%s::compile_const: `let mut payload = Vec::<u8>::new();` .. `ctx.compile_const(&payload, ..)` not found" % ty)
    b = _rewrite(inner[:m.start()], ty, "payload", "Seq::<Tok>::empty()")
    tk = TYPES[ty]["toks"]
    return ("impl %s {\npub fn compile_const_payload(&self) -> (payload: Out)\n  ensures payload.toks@ == %s(*self),\n{\n" % (ty, tk)) + b + \
        "\n  proof { assert(payload.toks@ =~= %s(*self)); }\n  payload\n}\n}\n" % tk


def unit(text, ty, which):
    fn = write_le_fn(text, ty) if which == "write_le" else payload_fn(text, ty)
    can = "canary_c06_%s_%s" % (ty.lower(), which)
    return "use vstd::prelude::*;\nverus! {\n" + model() + fn + vlib.verus_canary(can, "x: u64", []) + "\n} // verus!\nfn main() {}\n", can
