"""(F) Verus contract on the instruction loop of `Interpreter::run_program` (src/interpreter/src/interpreter.rs): the text from
`while self.ip < program.instrs.len() {` to its closing brace, onto contracts/C06/runmodel.rs.  Mechanical rewrites:
  R1  `self.` -> `self_.` (ip, registers, constants, out are fields of the model handle); `state_brrw` (the RefCell borrow that holds the plan)
      and `functions_table` become parameters
  R2  `fxn_factory(ARGS)?` -> `call_factory(fxn_factory, ARGS)?` (a factory is an opaque value)
  R3  `args.iter().map(|r| self.registers[*r as usize].clone()).collect()` -> `registers_of(&self_.registers, args)`
  R4  `Err(MechError::new(..)..)` -> `Err(mech_error_())`; `todo!()` -> `unreached()` (provably unreachable: the compiler emits no Ret)
Precondition = what the compiler guarantees of an emitted program (register operands below the register count, constant ids below the
constant count, no Ret): under it Verus's own index obligations show the loop cannot panic."""
import os, re
import vlib
from vlib import AnchorLost, extract_fn, match_brace, find_code

PATH = "src/interpreter/src/interpreter.rs"


def model():
    return open(os.path.join(os.path.dirname(os.path.dirname(os.path.abspath(__file__))), "contracts", "C06", "runmodel.rs")).read() + """
#[verifier::external_body]
pub fn mech_error_() -> (e: MechError) { unimplemented!() }
"""


SIG = """fn run_instructions(self_: &mut Interp, program: &ParsedProgram, functions_table: &Functions, state_brrw: &mut PlanLog) -> (res: Result<(), MechError>)
  requires old(self_).ip <= program.instrs@.len(),
    forall|k: int| 0 <= k < program.instrs@.len() ==> instr_ok(#[trigger] program.instrs@[k], old(self_).registers@.len() as int, old(self_).constants@.len() as int),
  ensures ({
    let r = exec(program.instrs@, old(self_).ip as int, old(self_).registers@, old(self_).constants@, old(state_brrw).steps@, old(self_).out, functions_table.functions);
    match res {
      Ok(_) => r == Some((final(self_).registers@, final(state_brrw).steps@, final(self_).out)) && final(self_).ip == program.instrs@.len(),
      Err(_) => r is None,
    }
  }),
"""
INV = """    invariant self_.ip <= program.instrs@.len(), self_.registers@.len() == old(self_).registers@.len(), self_.constants@ == old(self_).constants@,
      forall|k: int| 0 <= k < program.instrs@.len() ==> instr_ok(#[trigger] program.instrs@[k], self_.registers@.len() as int, self_.constants@.len() as int),
      exec(program.instrs@, old(self_).ip as int, old(self_).registers@, old(self_).constants@, old(state_brrw).steps@, old(self_).out, functions_table.functions)
        == exec(program.instrs@, self_.ip as int, self_.registers@, self_.constants@, state_brrw.steps@, self_.out, functions_table.functions),
    decreases program.instrs@.len() - self_.ip,
"""


def err_to_call(b):
    while True:
        m = re.search(r"\bErr\s*\(\s*MechError::new\(", b)
        if not m:
            return b
        e = match_brace(b, m.start() + b[m.start():].index("("), "(", ")")
        b = b[:m.start()] + "Err(mech_error_())" + b[e:]


def loop_fn(text):
    sig, body = extract_fn(text, "run_program")
    m = find_code(body, r"while\s+self\.ip\s*<\s*program\.instrs\.len\(\)\s*\{")
    if not m:
        raise AnchorLost("run_program: `while self.ip < program.instrs.len()` not found")
    e = match_brace(body, m.end() - 1)
    b = re.sub(r"//[^\n]*", "", body[m.start():e]).replace("\r", "")
    b = re.sub(r"\bself\.", "self_.", b)                                                                                 # R1
    b = re.sub(r"\bfxn_factory\(", "call_factory(fxn_factory, ", b)                                                      # R2
    b, n = re.subn(r"args\s*\.iter\(\)\s*\.map\(\s*\|r\|\s*self_\.registers\[\*r as usize\]\.clone\(\)\s*\)\s*\.collect\(\)", "registers_of(&self_.registers, args)", b)   # R3
    b = err_to_call(b)                                                                                                   # R4
    b = re.sub(r"\btodo!\(\)", "unreached::<()>()", b)
    hdr = re.match(r"while\s+self_\.ip\s*<\s*program\.instrs\.len\(\)\s*", b)
    b = b[:hdr.end()] + "\n" + INV + b[hdr.end():]
    # ghost: one unfolding of `exec` at the current instruction
    b = re.sub(r"(let\s+instr\s*=\s*&program\.instrs\[self_\.ip\]\s*;)", r"\1\n        proof { reveal_with_fuel(exec, 2); }", b, count=1)
    # ghost: the collected operand list is the list the contract names (extensionality)
    mr = re.search(r"registers_of\(&self_\.registers, args\)\s*;", b)
    if mr:
        mv = re.search(r"let\s+(\w+)\s*(?::[^=]*)?=\s*$", b[:mr.start()])
        if mv:
            b = b[:mr.end()] + "\n                proof { assert(%s@ =~= Seq::new(args@.len(), |k: int| self_.registers@[args@[k] as int])); }" % mv.group(1) + b[mr.end():]
    if re.search(r"\b(MechError::new|format!|todo!|iter\(\))", b):
        raise AnchorLost("run_program: the instruction loop is outside the transcription rules")
    return SIG + "{\n" + b + "\n  Ok(())\n}\n"


def unit(text):
    return "use vstd::prelude::*;\nverus! {\n" + model() + loop_fn(text) + vlib.verus_canary("canary_c06_run", "x: u64", []) + "\n} // verus!\nfn main() {}\n"


# ---- Interpreter::compile(): every plan step, once, in plan order, into one fresh context ---------------------------------------------------------
COMPILE_MODEL = """
#[derive(Clone, Copy, PartialEq, Eq, Structural)]
pub struct Step { pub id: u64 }
pub struct MechError { pub id: u64 }
// a compile context: the ghost list of the steps compiled into it so far
pub struct CompileCtx { pub log: Ghost<Seq<Step>> }
pub uninterp spec fn step_ok(s: Step, before: Seq<Step>) -> bool;        // MechFunctionCompiler::compile succeeds (may depend on what was compiled before)
pub uninterp spec fn bytes_of(log: Seq<Step>) -> Option<Seq<u8>>;        // CompileCtx::compile: the serialised program (None = error)
impl CompileCtx {
  #[verifier::external_body] pub fn new() -> (r: CompileCtx) ensures r.log@ == Seq::<Step>::empty(), { unimplemented!() }
  #[verifier::external_body] pub fn compile(&mut self) -> (r: Result<Vec<u8>, MechError>)
    ensures final(self).log == old(self).log, (match r { Ok(b) => bytes_of(old(self).log@) == Some(b@), Err(_) => bytes_of(old(self).log@) is None }), { unimplemented!() }
}
impl Step {
  #[verifier::external_body] pub fn compile(&self, ctx: &mut CompileCtx) -> (r: Result<u32, MechError>)
    ensures (match r { Ok(_) => step_ok(*self, old(ctx).log@) && final(ctx).log@ == old(ctx).log@.push(*self), Err(_) => !step_ok(*self, old(ctx).log@) }), { unimplemented!() }
}
pub struct Interp { pub context: Option<CompileCtx> }
// ---- THE CONTRACT (C06: "compiling ... emits bytecode" of THE program): the bytes are the serialisation of a fresh context into which every step of the plan was
// compiled exactly once, in plan order; the first step that fails to compile fails the whole compilation
pub open spec fn all_ok(plan: Seq<Step>, n: int) -> bool { forall|k: int| 0 <= k < n ==> step_ok(#[trigger] plan[k], plan.subrange(0, k)) }
"""


def compile_fn(text):
    """`Interpreter::compile` (whole body): the borrows `self.state.borrow()` / `state_brrw.plan.borrow_mut()` are removed and the plan becomes the parameter
    `plan_brrw: &Vec<Step>`; `for step in plan_brrw.iter()` -> index loop; `self` -> `self_`; `MResult` -> `Result<_, MechError>`"""
    m = find_code(text, r"pub\s+fn\s+compile\s*\(\s*&mut\s+self\s*\)\s*->\s*MResult<Vec<u8>>")
    if not m:
        raise AnchorLost("Interpreter::compile not found")
    e = match_brace(text, text.index("{", m.end()))
    b = re.sub(r"//[^\n]*", "", text[text.index("{", m.end()) + 1:e - 1]).replace("\r", "")
    n = 0
    for pat in (r"let\s+state_brrw\s*=\s*self\.state\.borrow\(\)\s*;", r"let\s+mut\s+plan_brrw\s*=\s*state_brrw\.plan\.borrow_mut\(\)\s*;"):
        b, k = re.subn(pat, "", b)
        n += k
    b, k = re.subn(r"for\s+(\w+)\s+in\s+plan_brrw\.iter\(\)\s*\{",
                   lambda mm: ("for i_ in 0..plan_brrw.len()\n      invariant ctx.log@ =~= plan_brrw@.subrange(0, i_ as int), all_ok(plan_brrw@, i_ as int),\n    {\n"
                               "      let %s = &plan_brrw[i_];\n      proof { assert(plan_brrw@.subrange(0, i_ + 1) =~= plan_brrw@.subrange(0, i_ as int).push(plan_brrw@[i_ as int])); }" % mm.group(1)), b)
    b = re.sub(r"\bself\b", "self_", b)
    if n != 2 or k != 1 or re.search(r"\b(borrow|borrow_mut|iter)\b", b):
        raise AnchorLost("Interpreter::compile: the body is outside the transcription rules")
    return ("fn interpreter_compile(self_: &mut Interp, plan_brrw: &Vec<Step>) -> (res: Result<Vec<u8>, MechError>)\n"
            "  ensures (match res {\n"
            "      Ok(bytes) => all_ok(plan_brrw@, plan_brrw@.len() as int) && bytes_of(plan_brrw@) == Some(bytes@),\n"
            "      Err(_) => !all_ok(plan_brrw@, plan_brrw@.len() as int) || bytes_of(plan_brrw@) is None }),\n{\n" + b +
            "\n}\n").replace("let bytes = ctx.compile()?;", "proof { assert(plan_brrw@.subrange(0, plan_brrw@.len() as int) =~= plan_brrw@); }\n    let bytes = ctx.compile()?;")


def compile_unit(text):
    return "use vstd::prelude::*;\nverus! {\n" + COMPILE_MODEL + compile_fn(text) + vlib.verus_canary("canary_c06_compile", "x: u64", []) + "\n} // verus!\nfn main() {}\n"
