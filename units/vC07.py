"""C07 (K) Verus obligation on the real `decode_instructions`: for EVERY byte sequence it terminates, never panics
(no arithmetic overflow / underflow, no out-of-range cast) and never asks for more memory than the input is long.

Transcription onto the cursor model contracts/C07/curmodel.rs (mechanical, every run):
  T1 `cur.get_ref().len()`                      -> `cur.len()`
  T2 `cur.read_uN::<LittleEndian>()?`           -> `cur.read_uN()?`        (io error -> None)
  T3 `return Err(MechError::new(..)..);`        -> `return None;`
  T4 `Ok(out)`                                  -> `Some(out)`; result type MResult<Vec<DecodedInstr>> -> Option<Vec<DecodedInstr>>
  T5 `Vec::with_capacity(E)`                    -> `vec_u32_with_capacity(E, Ghost(cur.buf@.len() as int))`   (allocation-bound obligation)
  T6 `for _ in`                                 -> `for i_ in`
`OpCode`, `OpCode::from_u8` and `DecodedInstr` are copied verbatim (derive attributes dropped).

The same treatment for the rest of the load path (`load_program_from_reader`, `parse_const_entries`, `section_in_file`):
  L2 `r.seek(SeekFrom::Start(E))?`              -> `r.seek_start(E)?`
  L4 `vec![0u8; E]` / `v.resize(E, 0)`           -> `vec_u8_zeroed(E, Ghost(total_len as int))`   (allocation-bound obligation; the header
                                                   buffer of constant size -> `vec_u8_fixed()`)
  L5 `Cursor::new(&B[..])`                       -> `Cur::of(&B)`
  L6 `ByteCodeHeader::read_from(&mut c)?`        -> `read_header(&mut c)?`   (arbitrary field values); `validate_magic(b"MECH")` -> arbitrary bool
  L9 `a.saturating_sub(b)`, `a.checked_add(b)`, `a.min(b)` -> model functions with their arithmetic specification
  L11 `String::from_utf8(b).map_err(..)?`        -> `string_from_utf8(b)?`
  L14 `Ok(ParsedProgram {..})`                   -> `Some(())`
  `TypeSection` is reduced to its `entries` field; `ByteCodeHeader`, `TypeTag`, `TypeTag::from_u16`, `TypeEntry`, `ParsedConstEntry` verbatim."""
import os, re, sys
sys.path.insert(0, os.path.join(os.path.dirname(os.path.abspath(__file__)), "..", "tools"))
import vlib
from vlib import AnchorLost, extract_fn, match_brace, find_code

PROG = "src/core/src/program/program.rs"
SECT = "src/core/src/program/compiler/sections.rs"
MODEL = os.path.join(os.path.dirname(os.path.abspath(__file__)), "..", "contracts", "C07", "curmodel.rs")


def _enum(text, name):
    m = find_code(text, r"pub\s+enum\s+%s\s*\{" % name)
    if not m:
        raise AnchorLost("enum %s not found" % name)
    e = match_brace(text, m.end() - 1)
    body = re.sub(r"//[^\n]*", "", text[m.start():e])
    return body + "\n"


def _strip_err_returns(b):
    while True:
        m = re.search(r"return\s+Err\s*\(", b)
        if not m:
            return b
        e = match_brace(b, m.end() - 1, "(", ")")
        k = e
        while b[k] in " \t\r\n":
            k += 1
        if b[k] not in ";,":
            raise AnchorLost("`return Err(..)` not followed by `;` or `,`")
        b = b[:m.start()] + "return None" + b[k] + b[k + 1:]


def decode_fn(prog):
    sig, body = extract_fn(prog, "decode_instructions")
    if not re.search(r"fn\s+decode_instructions\s*\(\s*mut\s+cur\s*:\s*Cursor<&\[u8\]>\s*\)\s*->\s*MResult<Vec<DecodedInstr>>", sig):
        raise AnchorLost("decode_instructions signature changed: %s" % sig.strip())
    b = body
    b = re.sub(r"//[^\n]*", "", b)
    b, n1 = re.subn(r"\bcur\.get_ref\(\)\.len\(\)", "cur.len()", b)
    b, n2 = re.subn(r"\bcur\.read_(u8|u16|u32|u64)(?:::<LittleEndian>)?\(\)\?", r"cur.read_\1()?", b)
    b = _strip_err_returns(b)
    b, n4 = re.subn(r"\bOk\(out\)", "Some(out)", b)
    b, n5 = re.subn(r"\bVec::with_capacity\(([^()]*)\)", r"vec_u32_with_capacity(\1, Ghost(cur.buf@.len() as int))", b)
    b = re.sub(r"\bfor\s+_\s+in\b", "for i_ in", b)
    if n1 < 1 or n2 < 5 or n4 != 1 or "Err(" in b or "MechError" in b:
        raise AnchorLost("decode_instructions no longer has the expected shape (len=%d reads=%d ok=%d)" % (n1, n2, n4))
    # loop contracts: the outer `while` and the VarArg `for`
    wh = vlib.find_all_code(b, r"\bwhile\b")
    fo = vlib.find_all_code(b, r"\bfor\b")
    if len(wh) != 1 or len(fo) > 1:
        raise AnchorLost("expected one while loop and at most one for loop, found %d / %d" % (len(wh), len(fo)))
    from units import vmat
    specs = []
    order = sorted([(m.start(), "w") for m in wh] + [(m.start(), "f") for m in fo])
    for _, kind in order:
        if kind == "w":
            specs.append("    invariant cur.buf@ == buf0,\n    decreases cur.rem(),")
        else:
            specs.append("        invariant cur.buf@ == buf0, pos_before < cur.pos, cur.pos as int <= buf0.len(),")
    b = vmat.inject(b, specs, keyword=r"\b(while|for)\b")
    return ("fn decode_instructions(mut cur: Cur) -> (res: Option<Vec<DecodedInstr>>)\n"
            "{\n  let ghost buf0 = cur.buf@;\n" + b.strip()[1:].rstrip()[:-1] + "\n}\n")


def referenced_consts(src, fn_text):
    """module-level `const NAME: T = expr;` items of `src` that the transcribed function mentions (copied verbatim)"""
    out = []
    for name in sorted(set(re.findall(r"\b[A-Z][A-Z0-9_]{2,}\b", fn_text))):
        m = re.search(r"^\s*(?:pub(?:\([^)]*\))?\s+)?const\s+%s\s*:\s*[^=;]+=\s*[^;]+;" % name, src, re.M)
        if m:
            out.append(re.sub(r"^\s*(?:pub(?:\([^)]*\))?\s+)?", "pub ", m.group(0).strip()))
    return "\n".join(out) + ("\n" if out else "")


def opcode_table(sect):
    """[(variant, byte)] read off `pub enum OpCode { X = 0x.., .. }`"""
    m = find_code(sect, r"pub\s+enum\s+OpCode\s*\{")
    body = sect[m.end():match_brace(sect, m.end() - 1) - 1]
    return [(a, int(b, 16)) for a, b in re.findall(r"(\w+)\s*=\s*0x([0-9A-Fa-f]+)", body)]


# instruction sizes in bytes, from the ENCODER (EncodedInstr::write_to / byte_len: opcode byte, u64 function id, u32 operands; VarArg: + u32 count + count u32 operands)
SIZES = {"ConstLoad": "9", "Return": "5", "NullOp": "13", "Unop": "17", "Binop": "21", "Ternop": "25", "Quadop": "29"}


def complete_items(sect, prog):
    """the same transcription of decode_instructions with a second contract: every stream that consists of well-formed instructions (sizes as the encoder writes them, every
    opcode known, every instruction entirely inside the buffer) is ACCEPTED -- the decoder rejects nothing the encoder can emit, for any number of VarArg operands"""
    tab = opcode_table(sect)
    if {a for a, _ in tab} != set(SIZES) | {"VarArg"}:
        raise AnchorLost("enum OpCode has other variants than the size table was written for: %s" % sorted(a for a, _ in tab))
    spec_from = "pub open spec fn opcode_of(b: u8) -> Option<OpCode> {\n  " + " else ".join("if b == %du8 { Some(OpCode::%s) }" % (v, a) for a, v in tab) + " else { None }\n}\n"
    size = ("pub open spec fn instr_size(buf: Seq<u8>, pos: int) -> Option<int> {\n  match opcode_of(buf[pos]) {\n"
            + "".join("    Some(OpCode::%s) => Some(%s),\n" % (a, SIZES[a]) for a, _ in tab if a in SIZES)
            + "    Some(OpCode::VarArg) => Some(17 + 4 * (le32(buf, pos + 13) as int)),\n    None => None,\n  }\n}\n"
            "pub open spec fn decodable(buf: Seq<u8>, pos: int) -> bool decreases buf.len() - pos {\n"
            "  if pos < 0 || pos >= buf.len() { true } else { match instr_size(buf, pos) { Some(n) => n > 0 && pos + n <= buf.len() && decodable(buf, pos + n), None => false } }\n}\n")
    m = find_code(sect, r"impl\s+OpCode\s*\{")
    blk = sect[m.start():match_brace(sect, m.end() - 1)]
    sig, body = extract_fn(blk, "from_u8")
    from_u8 = "impl OpCode {\n%s\n  ensures r == opcode_of(%s),\n%s\n}\n" % (vlib.name_return(vlib.strip_vis(sig.strip())), vlib.param_names(sig)[0], body)
    fn = decode_fn(prog)
    fn = fn.replace("fn decode_instructions(mut cur: Cur) -> (res: Option<Vec<DecodedInstr>>)\n{", "fn decode_instructions(cur_in: Cur) -> (res: Option<Vec<DecodedInstr>>)\n  requires cur_in.pos as int <= cur_in.buf@.len(),\n  ensures decodable(cur_in.buf@, cur_in.pos as int) ==> res is Some,\n{\n  let ghost pos0 = cur_in.pos as int;\n  let ghost buf_in = cur_in.buf@;\n  let mut cur = cur_in;", 1)
    fn = fn.replace("    invariant cur.buf@ == buf0,\n    decreases cur.rem(),", "    invariant cur.buf@ == buf0, buf0 == cur_in.buf@, pos0 == cur_in.pos as int, cur.pos as int <= buf0.len(), decodable(buf0, pos0) ==> decodable(buf0, cur.pos as int),\n    decreases cur.rem(),", 1)
    fn = fn.replace("        invariant cur.buf@ == buf0, pos_before < cur.pos, cur.pos as int <= buf0.len(),", "        invariant cur.buf@ == buf0, buf0 == cur_in.buf@, pos0 == cur_in.pos as int, pos_before < cur.pos, cur.pos as int <= buf0.len(), arg_count == le32(buf0, pos_before as int + 13) as usize, decodable(buf0, pos0) ==> (cur.pos as int + 4 * (arg_count - i_) == pos_before as int + 17 + 4 * arg_count && pos_before as int + 17 + 4 * arg_count <= buf0.len() && decodable(buf0, pos_before as int + 17 + 4 * arg_count)),", 1)
    # one unfolding of `decodable` at the instruction being decoded
    fn = re.sub(r"(let\s+pos_before\s*=\s*cur\.position\(\)\s*;)", r"\1\n    proof { reveal_with_fuel(decodable, 2); }", fn, count=1)
    return spec_from, size, from_u8, fn


def _struct(text, name):
    m = find_code(text, r"pub\s+struct\s+%s\s*\{" % name)
    if not m:
        raise AnchorLost("struct %s not found" % name)
    e = match_brace(text, m.end() - 1)
    return re.sub(r"//[^\n]*", "", text[m.start():e]) + "\n"


def _common(b):
    b = re.sub(r"//[^\n]*", "", b)
    b = re.sub(r"\b(\w+)\.get_ref\(\)\.len\(\)", r"\1.len()", b)
    b = re.sub(r"\b(\w+)\.read_(u8|u16|u32|u64)(?:::<LittleEndian>)?\(\)\?", r"\1.read_\2()?", b)
    b = _strip_err_returns(b)
    b = re.sub(r"\bfor\s+_\s+in\b", "for i_ in", b)
    return b


def parse_const_entries_fn(prog):
    sig, body = extract_fn(prog, "parse_const_entries")
    if not re.search(r"fn\s+parse_const_entries\s*\(\s*mut\s+cur\s*:\s*Cursor<&\[u8\]>\s*,\s*count\s*:\s*usize\s*\)\s*->\s*io::Result<Vec<ParsedConstEntry>>", sig):
        raise AnchorLost("parse_const_entries signature changed")
    b = _common(body)
    b, n1 = re.subn(r"\bVec::with_capacity\((.*)\);", r"vec_entries_with_capacity(\1, Ghost(cur.buf@.len() as int));", b)
    b = re.sub(r"\b(\w+)\.min\(([^;]*?)\)(?=,\s*Ghost)", r"min_usize(\1, \2)", b)
    b, n2 = re.subn(r"\bOk\(out\)", "Some(out)", b)
    if n1 != 1 or n2 != 1 or "Err(" in b:
        raise AnchorLost("parse_const_entries no longer has the expected shape")
    from units import vmat
    b = vmat.inject(b, ["    invariant cur.buf@ == buf0,"], keyword=r"\bfor\b")
    return ("fn parse_const_entries(mut cur: Cur, count: usize) -> (res: Option<Vec<ParsedConstEntry>>)\n{\n  let ghost buf0 = cur.buf@;\n"
            + b.strip()[1:].rstrip()[:-1] + "\n}\n")


def section_in_file_fn(prog):
    sig, body = extract_fn(prog, "section_in_file")
    b = re.sub(r"\b(\w+)\.checked_add\((\w+)\)", r"checked_add_u64(\1, \2)", body)
    return ("fn section_in_file(off: u64, len: u64, total_len: u64) -> (r: bool)\n  ensures r == (off + len <= total_len),\n" + b + "\n")


def loader_fn(prog):
    """load_program_from_reader onto the cursor model (rules L1-L14 in the module docstring)"""
    sig, body = extract_fn(prog, "load_program_from_reader")
    if not re.search(r"fn\s+load_program_from_reader<R:\s*Read\s*\+\s*Seek>\(r:\s*&mut\s+R,\s*total_len:\s*u64\)\s*->\s*MResult<ParsedProgram>", sig):
        raise AnchorLost("load_program_from_reader signature changed")
    b = _common(body)
    b, a1 = re.subn(r"\b(\w+)\.seek\(SeekFrom::Start\(([^;]*?)\)\)\?;", r"\1.seek_start(\2)?;", b)
    b = b.replace("vec![0u8; ByteCodeHeader::HEADER_SIZE]", "vec_u8_fixed()")
    b, a2 = re.subn(r"\bvec!\[0u8;\s*([^\]]*?)\]", r"vec_u8_zeroed(\1, Ghost(total_len as int))", b)
    b, a3 = re.subn(r"\b(\w+)\.resize\(([^;]*?),\s*0\);", r"\1 = vec_u8_zeroed(\2, Ghost(total_len as int));", b)
    b = re.sub(r"\bvec!\[\]", "Vec::new()", b)
    b, a4 = re.subn(r"\bCursor::new\(&(\w+)\[\.\.\]\)", r"Cur::of(&\1)", b)
    b, a5 = re.subn(r"\bByteCodeHeader::read_from\(&mut\s+(\w+)\)\?", r"read_header(&mut \1)?", b)
    b, a6 = re.subn(r'\bheader\.validate_magic\(b"MECH"\)', "header.validate_magic_mech()", b)
    b = re.sub(r"\b([\w.]+)\.saturating_sub\(([^()]*)\)", r"sat_sub(\1, \2)", b)
    # String::from_utf8(x).map_err(|_| ...)?
    while True:
        m = re.search(r"String::from_utf8\((\w+)\)\.map_err\(", b)
        if not m:
            break
        e = match_brace(b, m.end() - 1, "(", ")")
        k = e
        while b[k] in " \t\r\n":
            k += 1
        if b[k] != "?":
            raise AnchorLost("String::from_utf8(..).map_err(..) not followed by `?`")
        b = b[:m.start()] + "string_from_utf8(%s)?" % m.group(1) + b[k + 1:]
    b = re.sub(r"\bHashMap::new\(\)", "HashMap::<u64, _>::new()", b)
    b = re.sub(r"\bHashSet::new\(\)", "HashSet::<u64>::new()", b)
    # final value
    m = re.search(r"\bOk\(ParsedProgram\s*\{", b)
    if not m:
        raise AnchorLost("final Ok(ParsedProgram {..}) not found")
    e = match_brace(b, m.start() + 2, "(", ")")
    b = b[:m.start()] + "Some(())" + b[e:]
    if a1 < 5 or a2 < 4 or a4 < 3 or a5 != 1 or a6 != 1 or "Err(" in b or "MechError" in b:
        raise AnchorLost("load_program_from_reader no longer has the expected shape (seek=%d vec=%d cursor=%d)" % (a1, a2, a4))
    from units import vmat
    loops = vlib.find_all_code(b, r"\b(while|for)\b")
    kinds = [b[m.start():m.start() + 5].startswith("while") for m in loops]
    if kinds != [False, False, False, True]:
        raise AnchorLost("expected three for loops and one while loop, found %s" % kinds)
    FR = "r.buf@ == file0, total_len == file0.len(),"
    specs = ["      invariant " + FR,
             "      invariant " + FR,
             "      invariant " + FR + " cur.buf@ == symbols_bytes@,",
             "      invariant " + FR + " cur.buf@ == dict_bytes@, dict_bytes@.len() <= total_len,\n      decreases cur.rem(),"]
    b = vmat.inject(b, specs, keyword=r"\b(while|for)\b")
    return ("fn load_program_from_reader(r: &mut Cur, total_len: u64) -> (res: Option<()>)\n  requires total_len == old(r).buf@.len(),\n{\n  let ghost file0 = r.buf@;\n"
            + b.strip()[1:].rstrip()[:-1] + "\n}\n")


CONST_MODEL = """
// model of the few std operations the bounds prefix of decode_const_entries uses; each panic condition of the real
// operation is the precondition here, so Verus has to prove it can never occur
#[verifier::external_body]
pub fn slice_to_vec(v: &Vec<u8>, a: usize, b: usize) -> (r: Vec<u8>)     // `v[a .. b].to_vec()`
  requires a <= b <= v@.len(),
  ensures r@.len() == b - a,
{ v[a..b].to_vec() }
#[verifier::external_body]
pub fn vec_get_entry(v: &Vec<TypeEntry>, i: usize) -> (o: Option<&TypeEntry>)   // `v.get(i)`
  ensures i < v@.len() ==> o.is_some(), i >= v@.len() ==> o.is_none(),
{ v.get(i) }
#[verifier::external_body]
pub fn enc_is_inline(enc: u8) -> (b: bool) { unimplemented!() }            // `enc == ConstEncoding::Inline as u8`
#[verifier::external_body]
pub fn vec_values_with_capacity(n: usize) -> (v: Vec<u64>) ensures v@.len() == 0, { Vec::with_capacity(n) }
"""


def const_prefix_fn(prog, check_alignment_item):
    """(F) the statements of decode_const_entries before `let val: Value = match ty.tag {`: encoding / bounds / alignment checks,
    the payload slice and the type lookup.  `self.const_entries`, `self.const_blob`, `self.types.entries` become parameters;
    `for e in &X` -> index loop; `X[a .. b].to_vec()` -> slice_to_vec(X, a, b) (its panic condition is the precondition);
    `X.get(i)` -> vec_get_entry; `enc != ConstEncoding::Inline as u8` -> `!enc_is_inline(enc)`; the per-type decoding
    (`match ty.tag {..}`: the ConstElem::from_le decoders) is cut off and NOT decided."""
    m = find_code(prog, r"pub\s+fn\s+decode_const_entries\s*\(\s*&self\s*\)\s*->\s*MResult<Vec<Value>>\s*\{")
    if not m:
        raise AnchorLost("decode_const_entries not found")
    body = prog[m.end() - 1:match_brace(prog, m.end() - 1)]
    cut = find_code(body, r"let\s+val\s*:\s*Value\s*=\s*match\s+ty\.tag\s*\{")
    if not cut:
        raise AnchorLost("`let val: Value = match ty.tag {` not found")
    b = body[1:cut.start()]
    b = _common(b)
    b, n0 = re.subn(r"for\s+const_entry\s+in\s+&self\.const_entries\s*\{", "for k_ in 0..const_entries.len()\n    invariant blob_len == const_blob@.len(),\n{ let const_entry = &const_entries[k_];", b)
    b = b.replace("self.const_entries", "const_entries").replace("self.const_blob", "const_blob").replace("self.types.entries", "types_entries")
    b, n1 = re.subn(r"\bVec::with_capacity\(([^;]*)\);", r"vec_values_with_capacity(\1);", b)
    b, n2 = re.subn(r"\bconst_entry\.enc\s*!=\s*ConstEncoding::Inline\s+as\s+u8", "!enc_is_inline(const_entry.enc)", b)
    b, n3 = re.subn(r"\b(\w+)\[\s*([^\[\]]*?)\s*\.\.\s*([^\[\]]*?)\s*\]\.to_vec\(\)", r"slice_to_vec(\1, \2, \3)", b)
    b, n4 = re.subn(r"\btypes_entries\.get\(([^()]*(?:\([^()]*\))?[^()]*)\)", r"vec_get_entry(types_entries, \1)", b)
    b = re.sub(r"\b(\w+(?:\.\w+)*)\.checked_add\(([\w.]+)\)", r"checked_add_u64(\1, \2)", b)
    if n0 != 1 or n2 != 1 or n3 != 1 or "self." in b or "Err(" in b:
        raise AnchorLost("decode_const_entries prefix no longer has the expected shape (loop=%d enc=%d slice=%d)" % (n0, n2, n3))
    return ("fn decode_const_entries_bounds(const_entries: &Vec<ParsedConstEntry>, const_blob: &Vec<u8>, types_entries: &Vec<TypeEntry>) -> (res: Option<()>)\n{\n"
            + b + "\n    }\n  Some(())\n}\n")


def add_loader_unit(plan, prop, prog, sect, decode_items, model2):
    obs = {
        "load_program_from_reader": plan.ob("%s.verus.load_program_from_reader.total_no_panic_bounded_alloc" % prop, "verus", "proved", functions=["load_program_from_reader", "section_in_file"],
                                            what="for EVERY file content the loader terminates, has no arithmetic overflow / underflow, and every buffer it allocates (vec![0u8; n], resize) "
                                                 "is at most as long as the file; its callees parse_const_entries and decode_instructions are used through their own contracts"),
        "parse_const_entries": plan.ob("%s.verus.parse_const_entries.total_no_panic_bounded_alloc" % prop, "verus", "proved", functions=["parse_const_entries"],
                                       what="for EVERY table content and count parse_const_entries terminates, does not overflow and reserves at most the table's own size"),
    }
    try:
        m = find_code(sect, r"impl\s+TypeTag\s*\{")
        blk = sect[m.start():match_brace(sect, m.end() - 1)]
        tsig, tbody = extract_fn(blk, "from_u16")
        items = list(decode_items[:-1])     # model, OpCode, DecodedInstr, decode_instructions (without its canary)
        items += [model2, _struct(sect, "ByteCodeHeader"), _enum(sect, "TypeTag"), "impl TypeTag {\n%s %s\n}\n" % (tsig.strip(), tbody), _struct(sect, "TypeEntry"),
                  _struct(prog, "ParsedConstEntry"), section_in_file_fn(prog), parse_const_entries_fn(prog), loader_fn(prog),
                  vlib.verus_canary("canary_loader", "x: u64", [])]
        text = vlib.verus_file(items, prelude="use std::collections::HashMap;\nuse std::collections::HashSet;\n")
        text = text.replace("verus! {\n", "verus! {\nbroadcast use vstd::std_specs::hash::group_hash_axioms;\n", 1)
        u = vlib.VerusUnit("c07_loader", text, {"load_program_from_reader": obs["load_program_from_reader"].name, "parse_const_entries": obs["parse_const_entries"].name}, ["canary_loader"])
        plan.verus.append(u)
        # bounds prefix of the constant decoder
        ob = plan.ob("%s.verus.decode_const_entries.bounds_no_panic" % prop, "verus", "proved", functions=["ParsedProgram::decode_const_entries (statements before the per-type match)"],
                     what="for EVERY constant table, blob and type section: the offset/length arithmetic cannot overflow, the payload slice and the type lookup are in range "
                          "(the per-type ConstElem::from_le decoders after it are NOT under contract)")
        try:
            csig, cbody = extract_fn(prog, "check_alignment")
            ca = "pub " + csig.strip().replace("pub ", "") + " " + cbody + "\n"
            ca = re.sub(r"fn check_alignment\(([^)]*)\)\s*->\s*bool", r"fn check_alignment(\1) -> (r: bool)", ca)
            items2 = [decode_items[0], model2, _struct(sect, "ByteCodeHeader"), _enum(sect, "TypeTag"), _struct(sect, "TypeEntry"), _struct(prog, "ParsedConstEntry"), CONST_MODEL,
                      ca, const_prefix_fn(prog, ca), vlib.verus_canary("canary_const", "x: u64", [])]
            u2 = vlib.VerusUnit("c07_const_bounds", vlib.verus_file(items2), {"decode_const_entries_bounds": ob.name}, ["canary_const"])
            plan.verus.append(u2)
        except Exception as e:
            plan.anchor_errors.append((ob.name, "%s: %s" % (type(e).__name__, e)))
            ob.status, ob.detail = "undecided", "anchor lost: %s" % e
    except Exception as e:
        for o in obs.values():
            plan.anchor_errors.append((o.name, "%s: %s" % (type(e).__name__, e)))
            o.status, o.detail = "undecided", "anchor lost: %s" % e


def add_units(plan, prop="C07"):
    ob = plan.ob("%s.verus.decode_instructions.total_no_panic_bounded_alloc" % prop, "verus", "proved", functions=["decode_instructions"],
                 what="for EVERY byte sequence decode_instructions terminates (decreases: remaining bytes), has no arithmetic overflow / underflow or lossy cast, "
                      "and every Vec::with_capacity it performs asks for at most as many bytes as the input is long")
    try:
        prog, sect = vlib.read_repo(PROG), vlib.read_repo(SECT)
        sig, body = extract_fn(sect, "from_u8", which=0, unique=False)
        m = find_code(sect, r"impl\s+OpCode\s*\{")
        blk = sect[m.start():match_brace(sect, m.end() - 1)]
        sig, body = extract_fn(blk, "from_u8")
        model = open(MODEL).read()
        part1, part2 = model.split("// ---- the reader", 1)
        part2 = "// ---- the reader" + part2
        dfn = decode_fn(prog)
        items = [part1, _enum(sect, "OpCode"), "impl OpCode {\n%s %s\n}\n" % (sig.strip(), body), _enum(prog, "DecodedInstr"), referenced_consts(prog, dfn), dfn,
                 vlib.verus_canary("canary_decode", "x: u64", [])]
        u = vlib.VerusUnit("c07_decode_instructions", vlib.verus_file(items), {"decode_instructions": ob.name}, ["canary_decode"])
        plan.verus.append(u)
        add_loader_unit(plan, prop, prog, sect, items, part2)
        obc = plan.ob("%s.verus.decode_instructions.accepts_every_encodable_stream" % prop, "verus", "proved", functions=["decode_instructions", "OpCode::from_u8"],
                      what="every byte stream made of well-formed instructions -- known opcode, size as the encoder writes it (VarArg: 17 + 4 * operand count, for ANY count), entirely inside the buffer -- is accepted: the decoder rejects nothing the encoder can emit; OpCode::from_u8 is the inverse of the enum's discriminants")
        try:
            spec_from, size, from_u8, fnc = complete_items(sect, prog)
            itemsc = [part1, _enum(sect, "OpCode"), spec_from, size, from_u8, _enum(prog, "DecodedInstr"), referenced_consts(prog, fnc), fnc, vlib.verus_canary("canary_decode_complete", "x: u64", [])]
            plan.verus.append(vlib.VerusUnit("c07_decode_complete", vlib.verus_file(itemsc), {"decode_instructions": obc.name}, ["canary_decode_complete"]))
            plan.dropped.append(complete_items.__doc__.strip())
        except Exception as e:
            plan.anchor_errors.append((obc.name, "%s: %s" % (type(e).__name__, e)))
        plan.dropped.append(__doc__.split("Transcription", 1)[1].strip())
        plan.assumptions.append("std::io::Cursor<&[u8]> and byteorder::ReadBytesExt behave as contracts/C07/curmodel.rs (a read succeeds iff enough bytes remain and advances the position; decoded values unspecified); usize is 64 bits")
    except Exception as e:
        plan.anchor_errors.append((ob.name, "%s: %s" % (type(e).__name__, e)))
        ob.status, ob.detail = "undecided", "anchor lost: %s" % e
