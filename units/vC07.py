"""C07 (K) Verus obligation on the real `decode_instructions`: for EVERY byte sequence it terminates, never panics
(no arithmetic overflow / underflow, no out-of-range cast) and never asks for more memory than the input is long.

Transcription onto the cursor model contracts/C07/curmodel.rs (mechanical, every run):
  T1 `cur.get_ref().len()`                      -> `cur.len()`
  T2 `cur.read_uN::<LittleEndian>()?`           -> `cur.read_uN()?`        (io error -> None)
  T3 `return Err(MechError::new(..)..);`        -> `return None;`
  T4 `Ok(out)`                                  -> `Some(out)`; result type MResult<Vec<DecodedInstr>> -> Option<Vec<DecodedInstr>>
  T5 `Vec::with_capacity(E)`                    -> `vec_u32_with_capacity(E, Ghost(cur.buf@.len() as int))`   (allocation-bound obligation)
  T6 `for _ in`                                 -> `for i_ in`
`OpCode`, `OpCode::from_u8` and `DecodedInstr` are copied verbatim (derive attributes dropped)."""
import os, re, sys
sys.path.insert(0, os.path.join(os.path.dirname(os.path.abspath(__file__)), "..", "tools"))
import vlib
from vlib import AnchorLost, extract_fn, match_brace, find_code

PROG = "src/core/src/program/program.rs"
SECT = "src/core/src/program/compiler/sections.rs"
MODEL = os.path.join(os.path.dirname(os.path.abspath(__file__)), "..", "contracts", "C07", "curmodel.rs")


def _enum(text, name):
    m = find_code(text, r"pub\s+enum\s+%s\s*\{" % name)
    if not m:
        raise AnchorLost("enum %s not found" % name)
    e = match_brace(text, m.end() - 1)
    body = re.sub(r"//[^\n]*", "", text[m.start():e])
    return body + "\n"


def _strip_err_returns(b):
    while True:
        m = re.search(r"return\s+Err\s*\(", b)
        if not m:
            return b
        e = match_brace(b, m.end() - 1, "(", ")")
        k = e
        while b[k] in " \t\r\n":
            k += 1
        if b[k] != ";":
            raise AnchorLost("`return Err(..)` not followed by `;`")
        b = b[:m.start()] + "return None;" + b[k + 1:]


def decode_fn(prog):
    sig, body = extract_fn(prog, "decode_instructions")
    if not re.search(r"fn\s+decode_instructions\s*\(\s*mut\s+cur\s*:\s*Cursor<&\[u8\]>\s*\)\s*->\s*MResult<Vec<DecodedInstr>>", sig):
        raise AnchorLost("decode_instructions signature changed: %s" % sig.strip())
    b = body
    b = re.sub(r"//[^\n]*", "", b)
    b, n1 = re.subn(r"\bcur\.get_ref\(\)\.len\(\)", "cur.len()", b)
    b, n2 = re.subn(r"\bcur\.read_(u8|u16|u32|u64)(?:::<LittleEndian>)?\(\)\?", r"cur.read_\1()?", b)
    b = _strip_err_returns(b)
    b, n4 = re.subn(r"\bOk\(out\)", "Some(out)", b)
    b, n5 = re.subn(r"\bVec::with_capacity\(([^()]*)\)", r"vec_u32_with_capacity(\1, Ghost(cur.buf@.len() as int))", b)
    b = re.sub(r"\bfor\s+_\s+in\b", "for i_ in", b)
    if n1 < 1 or n2 < 5 or n4 != 1 or "Err(" in b or "MechError" in b:
        raise AnchorLost("decode_instructions no longer has the expected shape (len=%d reads=%d ok=%d)" % (n1, n2, n4))
    # loop contracts: the outer `while` and the VarArg `for`
    wh = vlib.find_all_code(b, r"\bwhile\b")
    fo = vlib.find_all_code(b, r"\bfor\b")
    if len(wh) != 1 or len(fo) > 1:
        raise AnchorLost("expected one while loop and at most one for loop, found %d / %d" % (len(wh), len(fo)))
    from units import vmat
    specs = []
    order = sorted([(m.start(), "w") for m in wh] + [(m.start(), "f") for m in fo])
    for _, kind in order:
        if kind == "w":
            specs.append("    invariant cur.buf@ == buf0,\n    decreases cur.rem(),")
        else:
            specs.append("        invariant cur.buf@ == buf0, pos_before < cur.pos, cur.pos as int <= buf0.len(),")
    b = vmat.inject(b, specs, keyword=r"\b(while|for)\b")
    return ("fn decode_instructions(mut cur: Cur) -> (res: Option<Vec<DecodedInstr>>)\n"
            "{\n  let ghost buf0 = cur.buf@;\n" + b.strip()[1:].rstrip()[:-1] + "\n}\n")


def add_units(plan, prop="C07"):
    ob = plan.ob("%s.verus.decode_instructions.total_no_panic_bounded_alloc" % prop, "verus", "proved", functions=["decode_instructions"],
                 what="for EVERY byte sequence decode_instructions terminates (decreases: remaining bytes), has no arithmetic overflow / underflow or lossy cast, "
                      "and every Vec::with_capacity it performs asks for at most as many bytes as the input is long")
    try:
        prog, sect = vlib.read_repo(PROG), vlib.read_repo(SECT)
        sig, body = extract_fn(sect, "from_u8", which=0, unique=False)
        m = find_code(sect, r"impl\s+OpCode\s*\{")
        blk = sect[m.start():match_brace(sect, m.end() - 1)]
        sig, body = extract_fn(blk, "from_u8")
        items = [open(MODEL).read(), _enum(sect, "OpCode"), "impl OpCode {\n%s %s\n}\n" % (sig.strip(), body), _enum(prog, "DecodedInstr"), decode_fn(prog),
                 vlib.verus_canary("canary_decode", "x: u64", [])]
        u = vlib.VerusUnit("c07_decode_instructions", vlib.verus_file(items), {"decode_instructions": ob.name}, ["canary_decode"])
        plan.verus.append(u)
        plan.dropped.append(__doc__.split("Transcription", 1)[1].strip())
        plan.assumptions.append("std::io::Cursor<&[u8]> and byteorder::ReadBytesExt behave as contracts/C07/curmodel.rs (a read succeeds iff enough bytes remain and advances the position; decoded values unspecified); usize is 64 bits")
    except Exception as e:
        plan.anchor_errors.append((ob.name, "%s: %s" % (type(e).__name__, e)))
        ob.status, ob.detail = "undecided", "anchor lost: %s" % e
