"""(X/F) Verus contracts on the Mechdown evaluators of src/interpreter/src/mechdown.rs, extracted on every run onto
contracts/C10/docmodel.rs: `eval_fenced_code_block` (whole), the `SectionElement::FencedMechCode(block) => { .. }` arm of
`section_element` (block verbatim), `body` and `section` (whole).  Mechanical rewrites (anything else is a lost anchor):
  D1  `#[cfg(..)]` attributes on statements are evaluated for the default feature set of mech-interpreter
  D2  `for (c, cmmnt) in code {` -> `for i_ in 0..code.len() { let c = &code[i_].0; let cmmnt = &code[i_].1;`;
      `for x in &a.b {` -> `for i_ in 0..a.b.len() { let x = &a.b[i_];`
  D3  `Value::String(Ref::new(format!(.. err ..)))` -> `error_report(&err)` (the value that displays an isolated error)
  D4  `p: &Interpreter` -> `p: &mut Interpreter` (the log is ghost state of the handle); `MResult<T>` -> `Result<T, MechError>`
  D5  the arm is prefixed with `let mut out = Value::Empty;` (declared at the top of section_element; checked)
  D6  `p.sub_interpreters.borrow_mut()` -> the parameter `subs` (the shared map is a separate heap object)
  D7  `.entry(K).or_insert(Box::new(V)).as_mut()` -> `.entry_or_insert(K, V)`
  D8  `X.out_values.borrow_mut().insert(K, V.clone())` -> `X.out_values_insert(K, V)`;  `hash_str(&format!("{:?}", X))` -> `debug_hash(X)`;
      `block.code.last().unwrap()` -> `last_unwrap(&block.code)` (requires a non-empty fence)
One ghost lemma call (error isolation => the fence succeeds) is placed before the isolated evaluation of a named fence."""
import os, re
import vlib
from vlib import AnchorLost, extract_fn, match_brace, find_code, find_all_code
from units import vC16

PATH = "src/interpreter/src/mechdown.rs"
CARGO = "src/interpreter/Cargo.toml"


def model():
    return open(os.path.join(os.path.dirname(os.path.dirname(os.path.abspath(__file__))), "contracts", "C10", "docmodel.rs")).read()


EXTRA = """
#[verifier::external_body]
pub fn last_unwrap(v: &Vec<(MechCode, Option<Comment>)>) -> (r: (&MechCode, &Option<Comment>)) requires v@.len() > 0, ensures *r.0 == v@.last().0, { unimplemented!() }
"""


def _features():
    return vC16.default_features(vlib.read_repo(CARGO))


def _err_value(b):
    """D3"""
    while True:
        m = re.search(r"Value::String\(\s*Ref::new\(\s*format!\(", b)
        if not m:
            return b
        e = match_brace(b, m.end() - 1, "(", ")")
        args = b[m.end():e - 1]
        mm = re.match(r"\s*\)\s*\)", b[e:])
        if not mm or not re.search(r"\berr\b", args):
            raise AnchorLost("the displayed-error value is no longer `Value::String(Ref::new(format!(.. err ..)))`")
        b = b[:m.start()] + "error_report(&err)" + b[e + mm.end():]


EFB_SIG = """fn eval_fenced_code_block(code: &Vec<(MechCode, Option<Comment>)>, interpreter: &mut Interpreter, isolate_errors: bool) -> (res: Result<Value, MechError>)
  // the items run in document order on this one interpreter; the first failing item (or attached comment) ends the fence; with
  // isolation the error becomes the displayed value and the call succeeds; nothing but the history of the interpreter changes
  ensures (final(interpreter).log@, res) == run(code@, 0, old(interpreter).log@, Value::Empty, isolate_errors),
    *final(interpreter) == (Interpreter { log: final(interpreter).log, ..*old(interpreter) }),
"""
EFB_INV = """    invariant run(code@, 0, old(interpreter).log@, Value::Empty, isolate_errors) == run(code@, i_ as int, interpreter.log@, out, isolate_errors),
      *interpreter == (Interpreter { log: interpreter.log, ..*old(interpreter) }),
"""


def efb_fn(text):
    sig, body = extract_fn(text, "eval_fenced_code_block")
    if vlib.param_names(sig) != ["code", "interpreter", "isolate_errors"]:
        if len(vlib.param_names(sig)) != 3:
            raise AnchorLost("eval_fenced_code_block: parameter list changed")
    b = re.sub(r"//[^\n]*", "", body[body.index("{") + 1:body.rindex("}")]).replace("\r", "")
    b = vlib.canon_bindings(sig, b, ["code", "interpreter", "isolate_errors"], ['out', 'c', 'cmmnt', 'value', 'err'])
    b = vC16.apply_cfg(b, _features())
    b = _err_value(b)
    b, n = re.subn(r"for\s+\(\s*c\s*,\s*cmmnt\s*\)\s+in\s+code\s*\{", "for i_ in 0..code.len()\n" + EFB_INV + "  {\n    let c = &code[i_].0; let cmmnt = &code[i_].1;", b)
    if n != 1:
        raise AnchorLost("eval_fenced_code_block: the loop `for (c, cmmnt) in code` not found")
    if re.search(r"\b(format|Ref|MECH_ERROR_HTML_PREFIX|cfg)\b", b):
        raise AnchorLost("eval_fenced_code_block: statements outside the transcription rules")
    return EFB_SIG + "{\n" + b + "\n}\n"


EFB_STANDIN = "#[verifier::external_body]\n" + EFB_SIG + "{ unimplemented!() }\n"

ARM_SIG = """fn fenced_mech_code(block: &FencedMechCode, p: &mut Interpreter, subs: &mut SubMap) -> (res: Result<Value, MechError>)
  requires block.code@.len() > 0,
  ensures
    // a disabled fence evaluates nothing
    block.config.disabled ==> res == Ok::<Value, MechError>(Value::Empty) && *final(p) == *old(p) && final(subs).m@ == old(subs).m@,
    // an unnamed fence runs on the document's interpreter (whether its errors propagate or are displayed is not part of the property) and touches no named namespace
    !block.config.disabled && block.config.namespace == 0 ==> ((final(p).log@, res) == run(block.code@, 0, old(p).log@, Value::Empty, false) || (final(p).log@, res) == run(block.code@, 0, old(p).log@, Value::Empty, true))
        && final(p).id == old(p).id && final(p).fns == old(p).fns && final(subs).m@ == old(subs).m@,
    // a named fence runs on the interpreter of ITS name (created on first use, empty, with the document's functions): the document's
    // interpreter and every other namespace are untouched, and an error inside it is isolated (the fence succeeds)
    !block.config.disabled && block.config.namespace != 0 ==> ({
        let ns = block.config.namespace;
        let base = if old(subs).m@.contains_key(ns) { old(subs).m@[ns] } else { fresh(ns, old(p).fns) };
        &&& *final(p) == *old(p)
        &&& res is Ok
        &&& final(subs).m@.dom() == old(subs).m@.dom().insert(ns)
        &&& (forall|k: u64| #![auto] k != ns && old(subs).m@.contains_key(k) ==> final(subs).m@[k] == old(subs).m@[k])
        &&& final(subs).m@[ns].log@ == run(block.code@, 0, base.log@, Value::Empty, true).0
        &&& final(subs).m@[ns].id == base.id && final(subs).m@[ns].fns == base.fns
    }),
"""


def arm_fn(text):
    sig, body = extract_fn(text, "section_element")
    if not find_code(body, r"let\s+mut\s+out\s*=\s*Value::Empty\s*;"):
        raise AnchorLost("section_element: `let mut out = Value::Empty;` not found")
    m = find_code(body, r"SectionElement::FencedMechCode\(\s*block\s*\)\s*=>\s*\{")
    if not m:
        raise AnchorLost("section_element: the `SectionElement::FencedMechCode(block) => {` arm not found")
    e = match_brace(body, m.end() - 1)
    b = re.sub(r"//[^\n]*", "", body[m.end():e - 1]).replace("\r", "")
    b = vC16.apply_cfg(b, _features())
    b = b.replace("p.sub_interpreters.borrow_mut()", "subs")                                                              # D6
    b = re.sub(r"\.entry\(\s*(\w+)\s*\)\s*\.or_insert\(\s*Box::new\(\s*(\w+)\s*\)\s*\)\s*\.as_mut\(\)", r".entry_or_insert(\1, \2)", b)   # D7
    b = re.sub(r"\b(\w+)\.out_values\.borrow_mut\(\)\.insert\(\s*(\w+)\s*,\s*(\w+)\.clone\(\)\s*\)", r"\1.out_values_insert(\2, \3)", b)  # D8
    b = re.sub(r"hash_str\(\s*&format!\(\s*\"\{:\?\}\"\s*,\s*(\w+)\s*\)\s*\)", r"debug_hash(\1)", b)
    b = b.replace("block.code.last().unwrap()", "last_unwrap(&block.code)")
    # ghost: before each ISOLATED evaluation, the lemma "an isolated run succeeds" for the interpreter it runs on
    for mm in reversed(find_all_code(b, r"eval_fenced_code_block\(\s*&block\.code\s*,\s*(\w+)\s*,\s*true\s*\)")):
        ls = b.rfind("\n", 0, mm.start()) + 1
        b = b[:ls] + "        proof { lemma_isolated_run_succeeds(block.code@, 0, %s.log@, Value::Empty); }\n" % mm.group(1) + b[ls:]
    if re.search(r"\b(borrow_mut|borrow|format|hash_str|Box|or_insert|entry\()\b", b):
        raise AnchorLost("section_element: the FencedMechCode arm is outside the transcription rules")
    return ARM_SIG + "{\n  let mut out = Value::Empty;\n" + b + "\n}\n"


# ---- body / section: elements in document order, the first error stops the document
ORDER_MODEL = """
pub struct Elem { pub id: u64 }
#[derive(Clone, Copy)]
pub struct MechError { pub id: u64 }
#[derive(Clone, Copy)]
pub enum Value { Empty, Other(u64) }
pub struct Interpreter { pub log: Ghost<Seq<Elem>> }
pub struct Holder { pub items: Vec<Elem> }
pub uninterp spec fn sev(e: Elem, log: Seq<Elem>) -> Result<Value, MechError>;
#[verifier::external_body]
pub fn CALLEE(e: &Elem, p: &mut Interpreter) -> (r: Result<Value, MechError>)
  ensures r == sev(*e, old(p).log@), final(p).log@ == old(p).log@.push(*e),
{ unimplemented!() }
// the document: every element in order; the first error ends it; the value is that of the last element
pub open spec fn seq_run(els: Seq<Elem>, k: int, log: Seq<Elem>, out: Result<Value, MechError>) -> (Seq<Elem>, Result<Value, MechError>)
  decreases els.len() - k,
{
  if k < 0 || k >= els.len() { (log, out) } else {
    match sev(els[k], log) {
      Err(e) => (log.push(els[k]), Err(e)),
      Ok(v) => seq_run(els, k + 1, log.push(els[k]), Ok(v)),
    }
  }
}
"""


def order_fn(text, fname, field, callee):
    sig, body = extract_fn(text, fname)
    ps = vlib.param_names(sig)
    if len(ps) != 2:
        raise AnchorLost(fname + ": parameter list changed")
    b = re.sub(r"//[^\n]*", "", body[body.index("{") + 1:body.rindex("}")]).replace("\r", "")
    # the parameter is renamed `doc_` (Verus resolves a parameter named like its function to the function)
    b = vlib.canon_bindings(sig, b, ["doc_", "p"], None)
    INV = "    invariant seq_run(doc_.items@, 0, old(p).log@, Ok(Value::Empty)) == seq_run(doc_.items@, i_ as int, p.log@, result),\n"
    def hdr(m):
        if m.group("rev"):     # the same loop over descending positions (cannot satisfy the contract: document order)
            return "for r_ in 0..doc_.items.len()\n%s  {\n    let i_ = doc_.items.len() - 1 - r_; let %s = &doc_.items[i_];" % (INV.replace("i_ as int", "(doc_.items.len() - 1 - r_) as int"), m.group(1))
        return "for i_ in 0..doc_.items.len()\n%s  {\n    let %s = &doc_.items[i_];" % (INV, m.group(1))
    b, n = re.subn(r"for\s+(\w+)\s+in\s+(?:&\s*doc_\.%s|doc_\.%s\.iter\(\)(?P<rev>\.rev\(\))?)\s*\{" % (field, field), hdr, b)
    if n != 1:
        raise AnchorLost("%s: the loop over its %s not found" % (fname, field))
    b = re.sub(r"\b%s\(\s*&(\w+)\s*,\s*p\s*\)" % callee, r"CALLEE(\1, p)", b)
    if re.search(r"\b%s\s*\(" % callee, b):
        raise AnchorLost("%s: call of %s outside the rules" % (fname, callee))
    return ("fn %s(doc_: &Holder, p: &mut Interpreter) -> (res: Result<Value, MechError>)\n"
            "  ensures (final(p).log@, res) == seq_run(doc_.items@, 0, old(p).log@, Ok(Value::Empty)),\n{\n" % fname) + b + "\n}\n"


def pre():
    return "use vstd::prelude::*;\nverus! {\n"


def efb_unit(text):
    return pre() + model() + EXTRA + efb_fn(text) + vlib.verus_canary("canary_c10_efb", "x: u64", []) + "\n} // verus!\nfn main() {}\n"


def arm_unit(text):
    return pre() + model() + EXTRA + EFB_STANDIN + arm_fn(text) + vlib.verus_canary("canary_c10_arm", "x: u64", []) + "\n} // verus!\nfn main() {}\n"


def order_unit(text, fname, field, callee):
    return pre() + ORDER_MODEL + order_fn(text, fname, field, callee) + vlib.verus_canary("canary_c10_" + fname, "x: u64", []) + "\n} // verus!\nfn main() {}\n"


# ---- syntactic pass (NOT a proof): the prose arms of section_element call no evaluator of executable code
PROSE_OK_CALLS = {"paragraph_element", "hash", "insert", "clone", "borrow_mut", "iter", "finish", "Ok", "Some", "Err"}
CODE_ARMS = {"MechCode", "FencedMechCode", "Float", "Mika"}
EVALUATORS = {"mech_code", "statement", "expression", "eval_fenced_code_block", "section", "section_element", "function_define", "variable_define", "variable_assign"}


# the element kinds the property calls prose (titles, paragraphs, lists, quotes, tables, plain code blocks, comments, ..) as they exist at the pinned commit, plus the
# catch-all error arm `x`; an element kind added later is NOT judged by this pass (it may legitimately be executable): it is listed as not judged
PROSE_ARMS = {"Prompt", "InfoBlock", "QuestionBlock", "WarningBlock", "ErrorBlock", "IdeaBlock", "SuccessBlock", "Image", "Citation", "Equation", "Abstract", "Diagram",
              "Subtitle", "CodeBlock", "Comment", "Footnote", "Paragraph", "Grammar", "Table", "QuoteBlock", "ThematicBreak", "List", "FigureTable", "x"}


def prose_pass(text):
    """[(arm, ok, detail)] for every arm of `match element` in section_element that is not a code arm"""
    import units.C02 as C02
    sig, body = extract_fn(text, "section_element")
    m = find_code(body, r"match\s+element\s*\{")
    if not m:
        raise AnchorLost("section_element: `match element {` not found")
    inner = body[m.end():match_brace(body, m.end() - 1) - 1]
    out = []
    for attrs, pat, expr in C02.split_arms(inner):
        pm = re.match(r"SectionElement::(\w+)", pat.strip())
        name = pm.group(1) if pm else pat.strip()
        if name in CODE_ARMS:
            continue
        if name not in PROSE_ARMS:
            out.append((name, None, "an element kind the property does not list as prose: not judged"))
            continue
        e = re.sub(r"//[^\n]*", "", expr)
        calls = set(re.findall(r"\b([a-z_]\w*)\s*\(", e))
        bad = sorted(calls & EVALUATORS)
        out.append((name, not bad, "calls " + ", ".join(bad) if bad else "calls only " + ", ".join(sorted(calls)) if calls else "calls nothing"))
    return out


# ---------------------------------------------------------------------------------------------------------------------
# inline evaluation inside prose: paragraph_element and comment (whole bodies)
PROSE_MODEL = """
#[derive(Clone, Copy, PartialEq, Eq, Structural)]
pub struct Expression { pub id: u64 }
#[derive(Clone, Copy, PartialEq, Eq, Structural)]
pub enum Value { Empty, Other(u64) }
impl Value { pub fn clone(&self) -> (r: Value) ensures r == *self, { *self } }
pub struct MechError { pub id: u64 }
pub enum ParagraphElement { EvalInlineMechCode(Expression), Text(u64), Other(u64) }
pub struct Paragraph { pub elements: Vec<ParagraphElement> }
pub struct Comment { pub paragraph: Paragraph }
// an interpreter: the ghost list of EXPRESSIONS evaluated on it (no statement evaluator is reachable from here), the table of displayed outputs, the inline counter
// `vars` is the ghost list of values written to the SYMBOL TABLE through this interpreter (the only writer reachable from prose code is `update_ans_symbol`)
pub struct Interpreter { pub evals: Ghost<Seq<Expression>>, pub outs: Ghost<Map<u64, Value>>, pub counter: Ghost<nat>, pub vars: Ghost<Seq<Value>> }
pub uninterp spec fn ev(e: Expression, before: Seq<Expression>) -> Option<Value>;
pub uninterp spec fn inline_id(n: nat) -> u64;
#[verifier::external_body]
pub fn expression(e: &Expression, env: Option<&u64>, p: &mut Interpreter) -> (r: Result<Value, MechError>)
  ensures final(p).evals@ == old(p).evals@.push(*e), final(p).outs == old(p).outs, final(p).counter == old(p).counter, final(p).vars == old(p).vars,
    (match r { Ok(v) => ev(*e, old(p).evals@) == Some(v), Err(_) => ev(*e, old(p).evals@) is None }),
{ unimplemented!() }
#[verifier::external_body]
pub fn inline_eval_id(p: &mut Interpreter) -> (r: u64)
  ensures r == inline_id(old(p).counter@), final(p).counter@ == old(p).counter@ + 1, final(p).evals == old(p).evals, final(p).outs == old(p).outs, final(p).vars == old(p).vars,
{ unimplemented!() }
// mechdown.rs `update_ans_symbol` (what `mech_code` calls after a statement): writes the variable `ans`
#[verifier::external_body]
pub fn update_ans_symbol(v: &Value, p: &mut Interpreter)
  ensures final(p).vars@ == old(p).vars@.push(*v), final(p).evals == old(p).evals, final(p).outs == old(p).outs, final(p).counter == old(p).counter,
{ unimplemented!() }
#[verifier::external_body]
pub fn not_executable_error() -> (e: MechError) { unimplemented!() }
impl Interpreter {
  #[verifier::external_body]
  pub fn out_values_insert(&mut self, k: u64, v: Value) ensures final(self).outs@ == old(self).outs@.insert(k, v), final(self).evals == old(self).evals, final(self).counter == old(self).counter, final(self).vars == old(self).vars, { unimplemented!() }
}
"""


def paragraph_element_fn(text):
    """`paragraph_element` (whole body): error construction -> `not_executable_error()`; `MResult` -> `Result<_, MechError>`; the unreachable third arm `_ => todo!()` of the match on
    the evaluation result is dropped (Ok / Err are exhaustive); `p: &Interpreter` -> `&mut` (ghost evaluation list)"""
    sig, body = extract_fn(text, "paragraph_element")
    b = re.sub(r"//[^\n]*", "", body[body.index("{") + 1:body.rindex("}")]).replace("\r", "")
    b = re.sub(r"_\s*=>\s*todo!\(\)\s*,", "", b)
    while True:
        mm = re.search(r"\bErr\s*\(\s*MechError::new\(", b)
        if not mm:
            break
        ee = match_brace(b, mm.start() + b[mm.start():].index("("), "(", ")")
        b = b[:mm.start()] + "Err(not_executable_error())" + b[ee:]
    b = re.sub(r"\bexpression\(\s*&expr\s*,", "expression(expr,", b)
    b = vC16.apply_cfg(b, _features())
    if re.search(r"\b(MechError::new|todo!)\b", b):
        raise AnchorLost("paragraph_element: statements outside the transcription rules")
    return ("fn paragraph_element(element: &ParagraphElement, p: &mut Interpreter) -> (res: Result<(u64, Value), MechError>)\n"
            "  ensures final(p).outs == old(p).outs,\n"
            "    final(p).vars == old(p).vars,          // prose writes no variable\n"
            "    // only an inline `{{..}}` element evaluates anything, and what it evaluates is one EXPRESSION; its failure is displayed as the empty value, never raised\n"
            "    (match *element {\n"
            "       ParagraphElement::EvalInlineMechCode(e) => final(p).evals@ == old(p).evals@.push(e) && res == Ok::<(u64, Value), MechError>((inline_id(old(p).counter@), match ev(e, old(p).evals@) { Some(v) => v, None => Value::Empty })),\n"
            "       _ => final(p).evals == old(p).evals && res is Err }),\n{\n" + b + "\n}\n")


COMMENT_SPEC = """
// the inline expressions of a paragraph, in document order
pub open spec fn inline_exprs(els: Seq<ParagraphElement>) -> Seq<Expression> decreases els.len() {
  if els.len() == 0 { Seq::empty() } else {
    match els.last() { ParagraphElement::EvalInlineMechCode(e) => inline_exprs(els.drop_last()).push(e), _ => inline_exprs(els.drop_last()) }
  }
}
"""


def _para_loop(b, owner, what):
    """the loop over a paragraph's elements: `for el in P.elements.iter()` -> index `while` (the body uses `continue`), `paragraph_element(&el, p)` -> `paragraph_element(el, p)`,
    `p.out_values.borrow_mut().insert(k, v.clone())` -> `p.out_values_insert(k, v)`"""
    b, n1 = re.subn(r"for\s+(\w+)\s+in\s+(\w+)\.elements\.iter\(\)\s*\{",
                    lambda m: ("let mut i_: usize = 0;\n  while i_ < %s.elements.len()\n"
                               "    invariant i_ <= %s.elements@.len(), %s.elements@ == %s.elements@, p.vars == old(p).vars, p.evals@ == old(p).evals@ + inline_exprs(%s.elements@.subrange(0, i_ as int)),\n"
                               "    decreases %s.elements@.len() - i_,\n  {\n    let %s = &%s.elements[i_]; i_ += 1;\n"
                               "    proof { assert(%s.elements@.subrange(0, i_ as int).drop_last() =~= %s.elements@.subrange(0, i_ - 1)); }"
                               % (m.group(2), m.group(2), m.group(2), owner, m.group(2), m.group(2), m.group(1), m.group(2), m.group(2), m.group(2))), b)
    b = re.sub(r"paragraph_element\(\s*&(\w+)\s*,", r"paragraph_element(\1,", b)
    b = re.sub(r"\b(\w+)\.out_values\.borrow_mut\(\)\.insert\(\s*(\w+)\s*,\s*(\w+)\.clone\(\)\s*\)", r"\1.out_values_insert(\2, \3)", b)
    if n1 != 1 or re.search(r"\b(borrow_mut|iter)\b", b):
        raise AnchorLost(what + ": the element loop is outside the transcription rules")
    return b + "\n  proof { assert(%s.elements@.subrange(0, %s.elements@.len() as int) =~= %s.elements@); }\n" % (owner, owner, owner)


def comment_fn(text):
    """`comment` (whole body), verified against the contract PROVED for `paragraph_element` in the same file (loop rules: _para_loop); `MResult` -> `Result<_, MechError>`"""
    sig, body = extract_fn(text, "comment")
    b = re.sub(r"//[^\n]*", "", body[body.index("{") + 1:body.rindex("}")]).replace("\r", "")
    b = vC16.apply_cfg(b, _features()).rstrip()
    m = re.search(r"Ok\(\s*Value::Empty\s*\)\s*$", b)
    if not m:
        raise AnchorLost("comment: the function no longer ends in `Ok(Value::Empty)`")
    b = _para_loop(b[:m.start()], "cmmt.paragraph", "comment") + "  " + b[m.start():]
    return (COMMENT_SPEC +
            "fn comment(cmmt: &Comment, p: &mut Interpreter) -> (res: Result<Value, MechError>)\n"
            "  ensures final(p).vars == old(p).vars,          // a comment writes no variable\n"
            "    res is Ok,                                      // and never fails (a failing inline expression is skipped)\n"
            "    final(p).evals@ == old(p).evals@ + inline_exprs(cmmt.paragraph.elements@),   // it evaluates its inline expressions, each once, in order, and nothing else\n{\n"
            + b + "\n}\n")


def paragraph_arm_fn(text):
    """the arm `SectionElement::Paragraph(x) => {..}` of `section_element` as `fn paragraph_arm(x, p)` (same loop rules)"""
    sig, body = extract_fn(text, "section_element")
    b0 = vC16.apply_cfg(re.sub(r"//[^\n]*", "", body).replace("\r", ""), _features())
    m = re.search(r"SectionElement::Paragraph\(\s*(\w+)\s*\)\s*=>\s*\{", b0)
    if not m:
        raise AnchorLost("section_element: the arm `SectionElement::Paragraph(x)` not found")
    x = m.group(1)
    arm = b0[m.end():match_brace(b0, m.end() - 1) - 1]
    arm = _para_loop(arm, x, "section_element / Paragraph")
    if re.search(r"\breturn\b", arm):
        raise AnchorLost("section_element / Paragraph: the arm returns early")
    return ("fn paragraph_arm(%s: &Paragraph, p: &mut Interpreter)\n"
            "  ensures final(p).vars == old(p).vars,          // a paragraph writes no variable\n"
            "    final(p).evals@ == old(p).evals@ + inline_exprs(%s.elements@),   // it evaluates its inline expressions, each once, in order, and nothing else\n{\n" % (x, x)
            + arm + "\n}\n")


def _index_loops(b, inv):
    """every `for V in &E {` / `for V in E {` / `for V in E.iter() {` -> an index loop over E with the invariant `inv` (an index `while` when the body is innermost
    and uses `continue`)"""
    k = 0
    while True:
        m = re.search(r"for\s+(\w+)\s+in\s+&?([\w\.]+?)(?:\.iter\(\))?\s*\{", b)
        if not m:
            return b
        e = match_brace(b, m.end() - 1)
        body = b[m.end():e - 1]
        v, xs = m.group(1), m.group(2)
        ix = "i%d_" % k
        k += 1
        if re.search(r"\bcontinue\b", body):          # this Verus rejects `continue` anywhere inside a `for` body, nested loops included
            head = "let mut %s: usize = 0;\n  while %s < %s.len()\n    invariant %s,\n    decreases %s.len() - %s,\n  {\n    let %s = &%s[%s]; %s += 1;" % (ix, ix, xs, inv, xs, ix, v, xs, ix, ix)
        else:
            head = ("for %s in 0..%s.len()\n    invariant %s,\n  {\n    let %s = &%s[%s];" % (ix, xs, inv, v, xs, ix)).replace("for ", "f\x00r ")   # protect the generated header from the next search
        b = b[:m.start()] + head + body + "}" + b[e:]


def table_arms_fn(text):
    """the arms `SectionElement::Table(x)` and `SectionElement::FigureTable(x)` of `section_element` as `fn table_arm(x, p)` / `fn figure_table_arm(x, p)`: the three nested
    loops over rows / cells (figures) / paragraph elements -> index loops (_index_loops), `x.hash(&mut hasher)` dropped (it feeds the element id only),
    `paragraph_element(&el, p)` -> `paragraph_element(el, p)`, `p.out_values.borrow_mut().insert(k, v.clone())` -> `p.out_values_insert(k, v)`"""
    sig, body = extract_fn(text, "section_element")
    b0 = vC16.apply_cfg(re.sub(r"//[^\n]*", "", body).replace("\r", ""), _features())
    out = ""
    for variant, fn, ty in (("Table", "table_arm", "Table"), ("FigureTable", "figure_table_arm", "FigureTable")):
        m = re.search(r"SectionElement::%s\(\s*(\w+)\s*\)\s*=>\s*\{" % variant, b0)
        if not m:
            raise AnchorLost("section_element: the arm `SectionElement::%s(x)` not found" % variant)
        x = m.group(1)
        arm = b0[m.end():match_brace(b0, m.end() - 1) - 1]
        arm = re.sub(r"\b%s\.hash\(\s*&mut\s+hasher\s*\)\s*;" % x, "", arm)
        arm = re.sub(r"paragraph_element\(\s*&(\w+)\s*,", r"paragraph_element(\1,", arm)
        arm = re.sub(r"\b(\w+)\.out_values\.borrow_mut\(\)\.insert\(\s*(\w+)\s*,\s*(\w+)\.clone\(\)\s*\)", r"\1.out_values_insert(\2, \3)", arm)
        arm = _index_loops(arm, "p.vars == old(p).vars").replace("f\x00r ", "for ")
        if re.search(r"\b(borrow_mut|iter|hasher|return)\b", arm):
            raise AnchorLost("section_element / %s: the arm is outside the transcription rules" % variant)
        out += ("fn %s(%s: &%s, p: &mut Interpreter)\n  ensures final(p).vars == old(p).vars,          // a table cell / figure caption writes no variable\n{\n" % (fn, x, ty) + arm + "\n}\n")
    return out


TABLE_MODEL = """
pub struct Table { pub rows: Vec<Vec<Paragraph>> }
pub struct Figure { pub caption: Paragraph }
pub struct FigureTable { pub rows: Vec<Vec<Figure>> }
"""


def prose_unit(text):
    return "use vstd::prelude::*;\nverus! {\n" + PROSE_MODEL + paragraph_element_fn(text) + vlib.verus_canary("canary_c10_prose", "x: u64", []) + "\n} // verus!\nfn main() {}\n"


def comment_unit(text):
    return "use vstd::prelude::*;\nverus! {\n" + PROSE_MODEL + paragraph_element_fn(text) + comment_fn(text) + paragraph_arm_fn(text) + TABLE_MODEL + table_arms_fn(text) + vlib.verus_canary("canary_c10_comment", "x: u64", []) + "\n} // verus!\nfn main() {}\n"
