"""C11 (X/K) Verus contracts for the block-copy loops of `impl CopyMat for Ref<_>` (src/core/src/structures/matrix.rs, macro
copy_mat!) and, modularly on top of them, for the solve() bodies of the dynamic horzcat / vertcat structs
(src/interpreter/src/stdlib/{horzcat,vertcat}.rs): a caller is checked against the callee's contract, not its body.

Transcription (mechanical, every run): in the four copy functions the two prelude lines that turn `self` / `dst` into
`src_ptr` / `dst_ptr` are dropped and those names become the parameters `src: &Mat`, `dst: &mut Mat`; container
subscripts follow rules R4-R8 of vmat.py (bounds-checked, `?` for the panic); the returned length is wrapped in `Some`.
In the solve() bodies `self.eK.copy_into*(&self.out, X)` becomes `copy_into*(eK, out, X)?` and nothing else changes."""
import os, re, sys
sys.path.insert(0, os.path.join(os.path.dirname(os.path.abspath(__file__)), "..", "tools"))
import vlib
from vlib import AnchorLost, extract_fn, extract_macro
from units import vmat

CORE = "src/core/src/structures/matrix.rs"
HORZ = "src/interpreter/src/stdlib/horzcat.rs"
VERT = "src/interpreter/src/stdlib/vertcat.rs"

FRAME = ("forall|p: int| 0 <= p < final(dst).d@.len() && (p < offset || p >= offset + src.d@.len()) ==> #[trigger] final(dst).d@[p] == old(dst).d@[p]")
SHAPE = ["final(dst).r == old(dst).r", "final(dst).c == old(dst).c", "final(dst).d@.len() == old(dst).d@.len()", "final(dst).wf()"]


def copy_fn(text, name):
    """transcribe `fn copy_into*(&self, dst, offset) -> usize` of copy_mat!"""
    mt = extract_macro(text, "copy_mat")
    sig, body = extract_fn(mt, name)
    b = body.strip()
    if b.startswith("{"):
        b = b[1:vlib.match_brace(b, 0) - 1]
    b, n1 = re.subn(r"let\s+src_ptr\s*=\s*unsafe\s*\{\s*\(\*\(self\.as_ptr\(\)\)\)\.clone\(\)\s*\}\s*;", "", b)
    b, n2 = re.subn(r"let\s+mut\s+dst_ptr\s*=\s*unsafe\s*\{\s*&mut\s*\*\(dst\.as_mut_ptr\(\)\)\s*\}\s*;", "", b)
    if n1 != 1 or n2 != 1:
        raise AnchorLost("%s: prelude (src_ptr / dst_ptr bindings) not found" % name)
    b = re.sub(r"\bsrc_ptr\b", "src", b)
    b = re.sub(r"\bdst_ptr\b", "dst", b)
    b = vmat.rewrite_body(b, ["src", "dst"], ())
    # final expression -> Some(..)
    m = re.search(r"\n\s*([A-Za-z_][\w.()]*)\s*$", b)
    if not m:
        raise AnchorLost("%s: no final expression" % name)
    return b[:m.start()] + "\n  Some(%s)" % m.group(1)


def linear_copy(text, name):
    body = copy_fn(text, name)
    inv = ("    invariant offset + src.d@.len() <= usize::MAX, src.wf(), dst.r == old(dst).r, dst.c == old(dst).c, dst.d@.len() == old(dst).d@.len(), dst.wf(),\n"
           "      i <= dst.d@.len() - offset || dst.d@.len() < offset, i > 0 ==> offset + i <= dst.d@.len(),\n"
           "      forall|k: int| 0 <= k < i ==> #[trigger] dst.d@[offset + k] == src.d@[k],\n"
           "      forall|p: int| 0 <= p < dst.d@.len() && (p < offset || p >= offset + i) ==> #[trigger] dst.d@[p] == old(dst).d@[p],")
    out = {}
    for mode in ("value", "reject"):
        req = ["src.wf()", "old(dst).wf()", "offset + src.d@.len() <= usize::MAX"]
        if mode == "value":
            req.append("offset + src.d@.len() <= old(dst).d@.len()")
            ens = ["res == Some(src.d@.len() as usize)", "forall|k: int| 0 <= k < src.d@.len() ==> #[trigger] final(dst).d@[offset + k] == src.d@[k]", FRAME] + SHAPE
            head = inv.replace("invariant ", "invariant offset + src.d@.len() <= dst.d@.len(), ", 1)
        else:
            ens = ["res.is_some() ==> ((src.d@.len() == 0 || offset + src.d@.len() <= old(dst).d@.len()) && res == Some(src.d@.len() as usize))"] + SHAPE
            head = inv
        b = vmat.inject(body, [head])
        out[mode] = "fn %s_%s(src: &Mat, dst: &mut Mat, offset: usize) -> (res: Option<usize>)\n  requires %s,\n  ensures %s,\n{\n%s\n}\n" % (
            name, mode, ",\n    ".join(req), ",\n    ".join(ens), b)
    return out


def row_major_copy(text):
    name = "copy_into_row_major"
    body = copy_fn(text, name)
    # K rule (this function only): `(COND) as usize * X` -> `(if COND { X } else { 0 })`
    #                                  `X * (COND) as usize` likewise; any other `(COND) as usize` -> `(if COND { 1 } else { 0 })`
    COND = r"\(\s*((?:\([^()]*\)|[^()])*?(?:==|!=|<=|>=|<|>)(?:\([^()]*\)|[^()])*?)\s*\)\s*as\s+usize"
    body, n = re.subn(COND + r"\s*\*\s*(\w+)", r"(if \1 { \2 } else { 0 })", body)
    body, n2 = re.subn(r"(\w+)\s*\*\s*" + COND, r"(if \2 { \1 } else { 0 })", body)
    body, n3 = re.subn(COND, r"(if \1 { 1 } else { 0 })", body)
    if " as usize" in body:
        raise AnchorLost("copy_into_row_major: a cast to usize outside the transcription rules")
    P = "rm_pos(off0 as int, src.r as int, dst.r as int, %s)"
    inv = ("    invariant src.wf(), dst.wf(), dst.r == old(dst).r, dst.c == old(dst).c, dst.d@.len() == old(dst).d@.len(),\n"
           "      src_rows == src.r, dest_rows == dst.r, stride == dest_rows - src_rows, src.r >= 1, src.r <= dst.r, src.c >= 1,\n"
           "      off0 + (src.c - 1) * dst.r + src.r <= dst.d@.len(), src.d@.len() == src.r * src.c, dst.d@.len() + dst.r <= usize::MAX,\n"
           "      offset == " + P % "ix as int" + ",\n"
           "      forall|k: int| 0 <= k < ix ==> " + P % "k" + " < offset && dst.d@[#[trigger] " + P % "k" + "] == src.d@[k],\n"
           "      forall|p: int| 0 <= p < dst.d@.len() && #[trigger] dst.d@[p] != old(dst).d@[p] ==> (exists|k: int| 0 <= k < ix && " + P % "k" + " == p),")
    first = ("proof { lemma_rm_step(off0 as int, src.r as int, dst.r as int, ix as int); lemma_rm_bound(off0 as int, src.r as int, src.c as int, dst.r as int, ix as int);\n"
             "        assert(dst.d@.len() == dst.d.len()); }")
    before = "proof { lemma_rm_at(off0 as int, src.r as int, dst.r as int, 0, 0); }"
    b = vmat.inject(body, [(inv, first, before)])
    req = ["src.wf()", "old(dst).wf()", "src.r >= 1", "src.c >= 1", "src.r <= old(dst).r", "offset + (src.c - 1) * old(dst).r + src.r <= old(dst).d@.len()",
           "old(dst).d@.len() + old(dst).r <= usize::MAX"]   # the running offset steps one column past the block after its last element
    P0 = "rm_pos(offset as int, src.r as int, old(dst).r as int, %s)"
    ens = ["res == Some(src.r)",
           "forall|k: int| 0 <= k < src.d@.len() ==> final(dst).d@[#[trigger] " + P0 % "k" + "] == src.d@[k]",
           "forall|i: int, j: int| 0 <= i < src.r && 0 <= j < src.c ==> final(dst).d@[offset + j * old(dst).r + i] == #[trigger] src.at(i, j)",
           "forall|p: int| 0 <= p < final(dst).d@.len() && #[trigger] final(dst).d@[p] != old(dst).d@[p] ==> (exists|k: int| 0 <= k < src.d@.len() && " + P0 % "k" + " == p)"] + SHAPE
    post = ("  proof {\n    assert forall|i: int, j: int| 0 <= i < src.r && 0 <= j < src.c implies dst.d@[off0 + j * dst.r + i] == #[trigger] src.at(i, j) by {\n"
            "      lemma_rm_at(off0 as int, src.r as int, dst.r as int, i, j); lemma_cm_bound(src.r as int, src.c as int, i, j);\n"
            "      assert(dst.d@[" + P % "cm(src.r as int, i, j)" + "] == src.d@[cm(src.r as int, i, j)]);\n    }\n  }\n")
    # the final `Some(src_rows)` comes from copy_fn; insert the post proof before it
    k = b.rindex("Some(")
    b = b[:k] + post + "  " + b[k:]
    return ("fn %s(src: &Mat, dst: &mut Mat, offset: usize) -> (res: Option<usize>)\n  requires %s,\n  ensures %s,\n{\n  let ghost off0 = offset;\n%s\n}\n" % (
        name, ",\n    ".join(req), ",\n    ".join(ens), b))


def solve_body(text, struct):
    """body of `fn solve(&self)` of `impl<T> MechFunctionImpl for <struct><T>` with the copy calls made explicit"""
    m = vlib.find_code(text, r"impl<T>\s+MechFunctionImpl\s+for\s+%s<T>" % struct)
    if not m:
        raise AnchorLost("impl MechFunctionImpl for %s not found" % struct)
    # the impl block: from `impl` to its closing brace
    ob = text.index("{", vlib.find_code(text[m.start():], r"\bwhere\b|\{").start() + m.start())
    # skip a where clause: the impl body is the first `{` at depth 0 after the header
    hdr_end = m.end()
    i = hdr_end
    while text[i] != "{" or text[hdr_end:i].count("<") != text[hdr_end:i].count(">"):
        i += 1
    blk = text[m.start():vlib.match_brace(text, i)]
    sig, body = extract_fn(blk, "solve")
    b = body.strip()
    if b.startswith("{"):
        b = b[1:vlib.match_brace(b, 0) - 1]
    b, n = re.subn(r"self\.(e\d)\.(copy_into\w*)\(\s*&self\.out\s*,\s*([^()]*?)\)", r"\2(\1, out, \3)?", b)
    if n == 0 or "self." in b:
        raise AnchorLost("%s::solve is no longer a sequence of copy_into* calls on self.eK / self.out" % struct)
    return b.strip(), n


HCAT = {"HorizontalConcatenateTwoArgs": 2, "HorizontalConcatenateThreeArgs": 3, "HorizontalConcatenateFourArgs": 4}


def horz_fn(text, struct, n, block=True):
    body, calls = solve_body(text, struct)
    es = ["e%d" % k for k in range(n)]
    params = ", ".join("%s: &Mat" % e for e in es) + ", out: &mut Mat"
    total = " + ".join("%s.d@.len()" % e for e in es)
    req = ["%s.wf()" % e for e in es] + ["old(out).wf()", "old(out).d@.len() == " + total]
    if block:
        req += ["%s.r == old(out).r" % e for e in es] + ["old(out).c == " + " + ".join("%s.c" % e for e in es)]
    cat = " + ".join("%s.d@" % e for e in es)
    ens = ["res.is_some()", "final(out).d@ =~= " + cat, "final(out).r == old(out).r", "final(out).c == old(out).c"]
    # block reading of the same fact: block k occupies the columns after those of blocks 0..k-1
    proof = []
    for k, e in enumerate(es if block else []):
        c0 = " + ".join("%s.c" % x for x in es[:k]) or "0"
        ens.append("forall|i: int, j: int| 0 <= i < %s.r && 0 <= j < %s.c ==> #[trigger] final(out).at(i, (%s) + j) == %s.at(i, j)" % (e, e, c0, e))
        off = " + ".join("%s.d@.len()" % x for x in es[:k]) or "0"
        proof.append("    assert forall|i: int, j: int| 0 <= i < %s.r && 0 <= j < %s.c implies #[trigger] out.at(i, (%s) + j) == %s.at(i, j) by {\n"
                     "      lemma_cm_shift_col(out.r as int, (%s) as int, i, j); lemma_cm_bound(%s.r as int, %s.c as int, i, j);\n"
                     "      %s\n      assert(out.d@[(%s) + cm(%s.r as int, i, j)] == %s.d@[cm(%s.r as int, i, j)]);\n    }" % (
                         e, e, c0, e, c0, e, e,
                         " ".join("assert((%s.c as int) * (out.r as int) == %s.d@.len()) by (nonlinear_arith) requires %s.d@.len() == %s.r * %s.c, %s.r == out.r;" % (x, x, x, x, x, x) for x in es[:k])
                         + (" assert(((%s) as int) * (out.r as int) == %s) by (nonlinear_arith) requires %s;" % (
                             c0, off, ", ".join("(%s.c as int) * (out.r as int) == %s.d@.len()" % (x, x) for x in es[:k])) if k else ""),
                         off, e, e, e))
    # linear reading: out.d is the concatenation
    offs = [" + ".join("%s.d@.len()" % x for x in es[:k]) or "0" for k in range(n + 1)]
    cases = " else ".join("if p < %s { assert(out.d@[(%s) + (p - (%s))] == %s.d@[p - (%s)]); }" % (offs[k + 1], offs[k], offs[k], es[k], offs[k]) for k in range(n))
    proof.append("    assert forall|p: int| 0 <= p < out.d@.len() implies out.d@[p] == (%s)[p] by { %s }" % (cat, cases))
    return ("fn k_%s(%s) -> (res: Option<()>)\n  requires %s,\n  ensures %s,\n{\n  proof { assert(out.d@.len() == out.d.len()); }\n%s\n  proof {\n%s\n  }\n  Some(())\n}\n" % (
        struct, params, ",\n    ".join(req), ",\n    ".join(ens), body, "\n".join(proof)))


VDCAT = {"VerticalConcatenateVD2": 2, "VerticalConcatenateVD3": 3, "VerticalConcatenateVD4": 4}
VCAT = {"VerticalConcatenateTwoArgs": 2, "VerticalConcatenateThreeArgs": 3, "VerticalConcatenateFourArgs": 4}


def vert_fn(text, struct, n):
    body, calls = solve_body(text, struct)
    if calls != n:
        raise AnchorLost("%s::solve has %d copy calls, expected %d" % (struct, calls, n))
    es = ["e%d" % k for k in range(n)]
    sts = vlib.split_statements("{" + body + "}")
    sts = [x for x in sts if x.strip()]
    if len(sts) != n:
        raise AnchorLost("%s::solve: expected %d statements, found %d" % (struct, n, len(sts)))
    lines = []
    for k, st in enumerate(sts):      # ghost snapshot of the destination after each call (ghost code only)
        lines.append("  " + st.strip())
        lines.append("  let ghost s%d = out.d@;" % k)
    params = ", ".join("%s: &Mat" % e for e in es) + ", out: &mut Mat"
    R = lambda k: "(" + (" + ".join("%s.r" % x for x in es[:k]) or "0") + ")"
    req = ["%s.wf()" % e for e in es] + ["old(out).wf()"] + ["%s.c == old(out).c" % e for e in es] + ["%s.r >= 1" % e for e in es] + \
          ["old(out).c >= 1", "old(out).r == " + " + ".join("%s.r" % e for e in es), "old(out).d@.len() + old(out).r <= usize::MAX"]
    ens = ["res.is_some()", "final(out).r == old(out).r", "final(out).c == old(out).c", "final(out).wf()"]
    proof = []
    for k, e in enumerate(es):
        ens.append("forall|i: int, j: int| 0 <= i < %s.r && 0 <= j < %s.c ==> #[trigger] final(out).at(%s + i, j) == %s.at(i, j)" % (e, e, R(k), e))
        later = ""
        for m in range(k + 1, n):
            em = es[m]
            later += ("      if s%d[pos] != s%d[pos] {\n"
                      "        let offm: int = %s as int;\n"
                      "        let kk = choose|kk: int| 0 <= kk < %s.d@.len() && #[trigger] rm_pos(offm, %s.r as int, out.r as int, kk) == pos;\n"
                      "        assert(EM.d@.len() == (EM.r as int) * (EM.c as int));\n"
                      "        lemma_rm_bound(%s as int, %s.r as int, %s.c as int, out.r as int, kk);\n"
                      "        lemma_cm_inj(out.r as int, %s + i, j, %s + kk %% (%s.r as int), kk / (%s.r as int));\n      }\n" % (
                          m, m - 1, R(m), em, em, R(m), em, em, R(k), R(m), em, em)).replace("EM", em)
        proof.append(("    assert forall|i: int, j: int| 0 <= i < %s.r && 0 <= j < %s.c implies #[trigger] out.at(%s + i, j) == %s.at(i, j) by {\n"
                     "      let pos = %s + j * (out.r as int) + i;\n"
                     "      lemma_cm_bound(out.r as int, out.c as int, RK + i, j);\n"
                     "      assert(s%d[pos] == %s.at(i, j));\n%s"
                     "      assert(cm(out.r as int, %s + i, j) == pos);\n    }" % (e, e, R(k), e, R(k), k, e, later, R(k))).replace("RK", R(k)))
    return ("fn k_%s(%s) -> (res: Option<()>)\n  requires %s,\n  ensures %s,\n{\n"
            "  proof { assert(out.d@.len() == out.d.len()); assert((out.c - 1) * out.r + out.r == out.r * out.c) by (nonlinear_arith); }\n"
            "%s\n  proof {\n%s\n  }\n  Some(())\n}\n" % (struct, params, ",\n    ".join(req), ",\n    ".join(ens), "\n".join(lines), "\n".join(proof)))


def nargs_fn(text, struct="HorizontalConcatenateNArgs", copy="copy_into"):
    """`for e in &self.e0 { offset += e.copy_into(&self.out, offset); }` -> index loop over the operand vector (K rule:
    `for e in &self.e0 {` -> `for k_ in 0..es.len() { let e = &es[k_];`, the call -> `copy_into(e, out, offset)?`)"""
    m = vlib.find_code(text, r"impl<T>\s+MechFunctionImpl\s+for\s+%s<T>" % struct)
    if not m:
        raise AnchorLost("impl MechFunctionImpl for %s not found" % struct)
    i = m.end()
    while text[i] != "{" or text[m.end():i].count("<") != text[m.end():i].count(">"):
        i += 1
    sig, body = extract_fn(text[m.start():vlib.match_brace(text, i)], "solve")
    b = body.strip()
    if b.startswith("{"):
        b = b[1:vlib.match_brace(b, 0) - 1]
    b, n1 = re.subn(r"for\s+e\s+in\s+&self\.e0\s*\{", "for k_ in 0..es.len()\nINV\n{ let e = &es[k_];\nPRE", b)
    b, n2 = re.subn(r"\be\.(%s)\(\s*&self\.out\s*,\s*offset\s*\)\s*;" % copy, r"\1(e, out, offset)?;\nPOST", b)
    if n1 != 1 or n2 != 1 or "self." in b:
        raise AnchorLost("%s::solve is no longer `for e in &self.e0 { offset += e.%s(&self.out, offset); }`" % (struct, copy))
    inv = ("    invariant out.wf(), out.r == old(out).r, out.c == old(out).c, out.d@.len() == old(out).d@.len(), out.d@.len() == total(es@, es@.len() as int),\n"
           "      forall|k: int| 0 <= k < es@.len() ==> (#[trigger] es@[k]).wf(),\n"
           "      offset == total(es@, k_ as int),\n"
           "      forall|kk: int, p: int| 0 <= kk < k_ && 0 <= p < es@[kk].d@.len() ==> out.d@[#[trigger] (total(es@, kk) + p)] == #[trigger] es@[kk].d@[p],")
    pre = "proof { lemma_total_mono(es@, k_ as int + 1, es@.len() as int); lemma_total_mono(es@, 0, k_ as int); assert(out.d@.len() == out.d.len()); }\n let ghost before = out.d@;"
    post = ("proof {\n    assert forall|kk: int, p: int| 0 <= kk < k_ + 1 && 0 <= p < es@[kk].d@.len() implies out.d@[#[trigger] (total(es@, kk) + p)] == #[trigger] es@[kk].d@[p] by {\n"
            "      if kk < k_ { lemma_total_mono(es@, kk + 1, k_ as int); lemma_total_mono(es@, 0, kk); assert(before[total(es@, kk) + p] == es@[kk].d@[p]); }\n"
            "      else { assert(out.d@[total(es@, k_ as int) + p] == es@[k_ as int].d@[p]); }\n    }\n  }")
    b = b.replace("INV", inv).replace("PRE", pre).replace("POST", post)
    req = ["forall|k: int| 0 <= k < es@.len() ==> (#[trigger] es@[k]).wf()", "old(out).wf()", "old(out).d@.len() == total(es@, es@.len() as int)"]
    ens = ["res.is_some()", "final(out).r == old(out).r", "final(out).c == old(out).c",
           "forall|kk: int, p: int| 0 <= kk < es@.len() && 0 <= p < es@[kk].d@.len() ==> final(out).d@[#[trigger] (total(es@, kk) + p)] == #[trigger] es@[kk].d@[p]"]
    return ("fn k_%s(es: &Vec<Mat>, out: &mut Mat) -> (res: Option<()>)\n  requires %s,\n  ensures %s,\n{\n%s\n  Some(())\n}\n" % (
        struct, ",\n    ".join(req), ",\n    ".join(ens), b))


def vnargs_fn(text, struct="VerticalConcatenateNArgs"):
    """`for e in &self.e0 { offset += e.copy_into_row_major(&self.out, offset); }` (same K rule as nargs_fn)"""
    m = vlib.find_code(text, r"impl<T>\s+MechFunctionImpl\s+for\s+%s<T>" % struct)
    if not m:
        raise AnchorLost("impl MechFunctionImpl for %s not found" % struct)
    i = m.end()
    while text[i] != "{" or text[m.end():i].count("<") != text[m.end():i].count(">"):
        i += 1
    sig, body = extract_fn(text[m.start():vlib.match_brace(text, i)], "solve")
    b = body.strip()
    if b.startswith("{"):
        b = b[1:vlib.match_brace(b, 0) - 1]
    b, n1 = re.subn(r"for\s+e\s+in\s+&self\.e0\s*\{", "for k_ in 0..es.len()\nINV\n{ let e = &es[k_];\nPRE", b)
    b, n2 = re.subn(r"\be\.(copy_into_row_major)\(\s*&self\.out\s*,\s*offset\s*\)\s*;", r"\1(e, out, offset)?;\nPOST", b)
    if n1 != 1 or n2 != 1 or "self." in b:
        raise AnchorLost("%s::solve is no longer `for e in &self.e0 { offset += e.copy_into_row_major(&self.out, offset); }`" % struct)
    OK = "forall|k: int| 0 <= k < es@.len() ==> (#[trigger] es@[k]).wf() && es@[k].c == out.c && es@[k].r >= 1"
    inv = ("    invariant out.wf(), out.r == old(out).r, out.c == old(out).c, out.d@.len() == old(out).d@.len(), out.c >= 1,\n"
           "      out.r == rsum(es@, es@.len() as int), out.d@.len() + out.r <= usize::MAX,\n"
           "      " + OK + ",\n"
           "      offset == rsum(es@, k_ as int),\n"
           "      forall|kk: int, i: int, j: int| 0 <= kk < k_ && 0 <= i < es@[kk].r && 0 <= j < out.c ==> #[trigger] out.at(rsum(es@, kk) + i, j) == #[trigger] es@[kk].at(i, j),")
    pre = ("proof { lemma_rsum_mono(es@, k_ as int + 1, es@.len() as int); lemma_rsum_mono(es@, 0, k_ as int); assert(out.d@.len() == out.d.len());\n"
           "        assert((out.c - 1) * out.r + out.r == out.r * out.c) by (nonlinear_arith); }\n let ghost before = out.d@; let ghost bm = *out;")
    post = ("proof {\n    assert forall|kk: int, i: int, j: int| 0 <= kk < k_ + 1 && 0 <= i < es@[kk].r && 0 <= j < out.c implies #[trigger] out.at(rsum(es@, kk) + i, j) == #[trigger] es@[kk].at(i, j) by {\n"
            "      lemma_rsum_mono(es@, kk + 1, es@.len() as int); lemma_rsum_mono(es@, 0, kk);\n"
            "      let pos = rsum(es@, kk) + j * (out.r as int) + i;\n"
            "      lemma_cm_bound(out.r as int, out.c as int, rsum(es@, kk) + i, j);\n"
            "      assert(cm(out.r as int, rsum(es@, kk) + i, j) == pos);\n"
            "      if kk < k_ {\n"
            "        lemma_rsum_mono(es@, kk + 1, k_ as int);\n"
            "        assert(bm.at(rsum(es@, kk) + i, j) == es@[kk].at(i, j));\n"
            "        assert(before[pos] == es@[kk].at(i, j));\n"
            "        if out.d@[pos] != before[pos] {\n"
            "          let offm: int = rsum(es@, k_ as int);\n"
            "          let ek = es@[k_ as int];\n"
            "          let q = choose|q: int| 0 <= q < ek.d@.len() && #[trigger] rm_pos(offm, ek.r as int, out.r as int, q) == pos;\n"
            "          assert(ek.d@.len() == (ek.r as int) * (ek.c as int));\n"
            "          lemma_rm_bound(offm, ek.r as int, ek.c as int, out.r as int, q);\n"
            "          lemma_cm_inj(out.r as int, rsum(es@, kk) + i, j, offm + q % (ek.r as int), q / (ek.r as int));\n"
            "        }\n"
            "      } else {\n"
            "        assert(out.d@[rsum(es@, k_ as int) + j * (out.r as int) + i] == es@[k_ as int].at(i, j));\n"
            "      }\n    }\n  }")
    b = b.replace("INV", inv).replace("PRE", pre).replace("POST", post)
    req = [OK.replace("out.c", "old(out).c"), "old(out).wf()", "old(out).c >= 1", "old(out).r == rsum(es@, es@.len() as int)", "old(out).d@.len() + old(out).r <= usize::MAX"]
    ens = ["res.is_some()", "final(out).r == old(out).r", "final(out).c == old(out).c",
           "forall|kk: int, i: int, j: int| 0 <= kk < es@.len() && 0 <= i < es@[kk].r && 0 <= j < final(out).c ==> #[trigger] final(out).at(rsum(es@, kk) + i, j) == #[trigger] es@[kk].at(i, j)"]
    return ("fn k_%s(es: &Vec<Mat>, out: &mut Mat) -> (res: Option<()>)\n  requires %s,\n  ensures %s,\n{\n%s\n  Some(())\n}\n" % (
        struct, ",\n    ".join(req), ",\n    ".join(ens), b))


def kernel_items():
    text = vlib.read_repo(CORE)
    items = []
    for name in ("copy_into", "copy_into_v", "copy_into_r"):
        fns = linear_copy(text, name)
        items.append((name + ".value", fns["value"].replace("fn %s_value(" % name, "fn %s(" % name)))   # the callee contract used by the callers
        items.append((name + ".reject", fns["reject"]))
    items.append(("copy_into_row_major.value", row_major_copy(text)))
    ht = vlib.read_repo(HORZ)
    for struct, n in HCAT.items():
        items.append((struct, horz_fn(ht, struct, n)))
    items.append(("HorizontalConcatenateNArgs", nargs_fn(ht)))
    vt = vlib.read_repo(VERT)
    for struct, n in VCAT.items():
        items.append((struct, vert_fn(vt, struct, n)))
    items.append(("VerticalConcatenateNArgs", vnargs_fn(vt)))
    for struct, n in VDCAT.items():     # column vectors stacked: the data is the plain concatenation
        items.append((struct, horz_fn(vt, struct, n, block=False)))
    return items


def add_units(plan, prop="C11"):
    model = vmat.model_text()
    core = vlib.read_repo(CORE)
    callee = {}      # name -> text (value contract under the plain name: what callers see)
    copy_items, copy_fns = [model], {}
    for name in ("copy_into", "copy_into_v", "copy_into_r"):
        obs = {m: plan.ob("%s.verus.%s.%s" % (prop, name, m), "verus", "proved", functions=["CopyMat::%s (copy_mat!)" % name],
                          what=("%s: with offset + len <= dst.len the block lands at dst[offset..offset+len], every other element and the shape unchanged, returns len (any size)" % name)
                          if m == "value" else "%s: returns normally only if the block fits (or is empty)" % name) for m in ("value", "reject")}
        try:
            fns = linear_copy(core, name)
            callee[name] = fns["value"].replace("fn %s_value(" % name, "fn %s(" % name)
            copy_items += [callee[name], fns["reject"]]
            copy_fns[name] = obs["value"].name
            copy_fns[name + "_reject"] = obs["reject"].name
        except Exception as e:
            plan.anchor_errors.append(("%s.verus.%s.*" % (prop, name), "%s: %s" % (type(e).__name__, e)))
            for o in obs.values():
                o.status, o.detail = "undecided", "anchor lost: %s" % e
    ob = plan.ob("%s.verus.copy_into_row_major.value" % prop, "verus", "proved", functions=["CopyMat::copy_into_row_major (copy_mat!)"],
                 what="copy_into_row_major: a block with r rows placed at linear offset `off` of a column-major destination with R >= r rows lands at off + j*R + i for every (i, j), "
                      "nothing else changes, returns r (any shape)")
    try:
        callee["copy_into_row_major"] = row_major_copy(core)
        copy_items.append(callee["copy_into_row_major"])
        copy_fns["copy_into_row_major"] = ob.name
    except Exception as e:
        plan.anchor_errors.append((ob.name, "%s: %s" % (type(e).__name__, e)))
        ob.status, ob.detail = "undecided", "anchor lost: %s" % e
    if copy_fns:
        copy_items.append(vlib.verus_canary("canary_copy", "x: u64", []))
        u = vlib.VerusUnit("c11_copy", vlib.verus_file(copy_items), copy_fns, ["canary_copy"])
        u.rlimit = 150
        plan.verus.append(u)
    ht, vt = vlib.read_repo(HORZ), vlib.read_repo(VERT)
    jobs = [(s_, n, ht, "h") for s_, n in HCAT.items()] + [(s_, n, vt, "v") for s_, n in VCAT.items()] + [(s_, n, vt, "l") for s_, n in VDCAT.items()] + \
           [("HorizontalConcatenateNArgs", 0, ht, "n"), ("VerticalConcatenateNArgs", 0, vt, "vn")]
    for struct, n, text, kind in jobs:
        ob = plan.ob("%s.verus.%s" % (prop, struct), "verus", "proved", functions=["%s::solve" % struct],
                     what="%s::solve (checked against the contracts of the copy functions it calls, not their bodies): out is the %s of its %d operands in written order, for every block shape" % (
                         struct, {"h": "horizontal block matrix", "v": "vertical block matrix", "l": "stacked column vector", "n": "concatenation (any number of operands, loop over the operand vector)",
                                                               "vn": "vertical block matrix (any number of operands, loop over the operand vector)"}[kind], n))
        try:
            fn = vert_fn(text, struct, n) if kind == "v" else nargs_fn(text, struct) if kind == "n" else vnargs_fn(text, struct) if kind == "vn" else horz_fn(text, struct, n, block=(kind == "h"))
            need = "copy_into_row_major" if kind in ("v", "vn") else ("copy_into" if kind in ("h", "n") else "copy_into_v")
            if need not in callee:
                raise AnchorLost("callee %s has no contract in this run" % need)
            items = [model, callee[need], fn, vlib.verus_canary("canary_" + struct, "x: u64", [])]
            u = vlib.VerusUnit("c11_" + struct, vlib.verus_file(items), {"k_" + struct: ob.name}, ["canary_" + struct])
            u.rlimit = 150
            plan.verus.append(u)
        except Exception as e:
            plan.anchor_errors.append((ob.name, "%s: %s" % (type(e).__name__, e)))
            ob.status, ob.detail = "undecided", "anchor lost: %s" % e
    plan.dropped.append(__doc__.split("Transcription", 1)[1].strip() if "Transcription" in __doc__ else "")
    plan.assumptions.append("nalgebra containers behave as contracts/common/matmodel.rs; elements modelled as u64; `self` and `dst`/`out` do not alias; "
                            "copy_into_row_major: dst.len + dst.nrows <= usize::MAX (its running offset steps one column past the block after the last element)")
