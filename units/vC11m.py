"""(X) Verus contracts on the shape checks of the matrix-literal evaluators `matrix` and `matrix_row`
(src/interpreter/src/structures.rs), whole bodies extracted on every run onto contracts/C11/litmodel.rs.  The contract is the
PRECONDITION of the concatenation compilers (what the C11 kernel contracts assume): every block handed to MatrixHorzCat has the same
height, every row handed to MatrixVertCat the same width (0x0 blocks exempt) -- so a literal with disagreeing blocks cannot reach a
kernel.  Mechanical rewrites (anything else is a lost anchor):
  M1  `#[cfg(..)]` attributes evaluated for the default feature set of mech-interpreter
  M2  `for x in &a.b {` -> `for i_ in 0..a.b.len() { let x = &a.b[i_];`
  M3  `shape == vec![0,0]` -> `is_zero_shape(&shape)`;  `x |= matches!(e, ValueKind::Empty)` -> `x = x || is_empty_kind(e)`
  M4  `MatrixHorzCat{}.compile(&v)` -> `horzcat_compile(&v)`, `MatrixVertCat{}.compile(&v)` -> `vertcat_compile(&v)`
  M5  `Value::MatrixValue(Matrix::from_vec(v, r, c))` -> `matrix_value_from_vec(v, r, c)`; `v.iter().all(|value| value.shape() == vec![1, 1])` -> `all_unit_shape(&v)`
  M6  `let mut plan_brrw = plan.borrow_mut(); plan_brrw.push(f);` -> `plan_push(&plan, f);`; error constructions -> `mech_error()`; `MResult<T>` -> `Result<T, MechError>`"""
import os, re
import vlib
from vlib import AnchorLost, extract_fn, match_brace, find_code
from units import vC16

PATH = "src/interpreter/src/structures.rs"
CARGO = "src/interpreter/Cargo.toml"


def model(without):
    t = open(os.path.join(os.path.dirname(os.path.dirname(os.path.abspath(__file__))), "contracts", "C11", "litmodel.rs")).read()
    # the function under proof must not collide with its own stand-in
    t = re.sub(r"#\[verifier::external_body\]\npub fn %s\(.*?\{ unimplemented!\(\) \}\n" % without, "", t, flags=re.S)
    return t + "\n#[verifier::external_body]\npub fn mech_error() -> (e: MechError) { unimplemented!() }\n"


def err_to_call(b):
    while True:
        m = re.search(r"\bErr\s*\(\s*MechError::new\(", b)
        if not m:
            return b
        e = match_brace(b, m.start() + b[m.start():].index("("), "(", ")")
        b = b[:m.start()] + "Err(mech_error())" + b[e:]


def transcribe(text, fname, loop_over, axis, callee):
    sig, body = extract_fn(text, fname)
    ps = vlib.param_names(sig)
    if len(ps) != 3:
        raise AnchorLost(fname + ": parameter list changed")
    b = re.sub(r"//[^\n]*", "", body[body.index("{") + 1:body.rindex("}")]).replace("\r", "")
    b = vlib.canon_bindings(sig, b, ["node_", "env", "p"], None)
    b = vC16.apply_cfg(b, vC16.default_features(vlib.read_repo(CARGO)))
    b = err_to_call(b)
    acc = "row" if fname == "matrix_row" else "col"
    INV = ("    invariant shape@.len() == 2, %s@.len() == i_,\n"
           "      shape@ == seq![0usize, 0usize] ==> forall|k: int| 0 <= k < %s@.len() ==> is_empty_block(#[trigger] %s@[k]),\n"
           "      forall|k: int| 0 <= k < %s@.len() ==> is_empty_block(#[trigger] %s@[k]) || %s(%s@[k]) == shape@[%d],\n" % (acc, acc, acc, acc, acc, "rows" if axis == 0 else "cols", acc, axis))
    b, n = re.subn(r"for\s+(\w+)\s+in\s+&node_\.%s\s*\{" % loop_over, lambda m: "for i_ in 0..node_.%s.len()\n%s  {\n    let %s = &node_.%s[i_];" % (loop_over, INV, m.group(1), loop_over), b)
    if n != 1:
        raise AnchorLost("%s: the loop over its %s not found" % (fname, loop_over))
    b = re.sub(r"\b(\w+)\s*==\s*vec!\[\s*0\s*,\s*0\s*\]", r"is_zero_shape(&\1)", b)                                      # M3
    b = re.sub(r"\b(\w+)\s*\|=\s*matches!\(\s*(.+?)\s*,\s*ValueKind::Empty\s*\)\s*;", r"\1 = \1 || is_empty_kind(\2);", b)
    b = re.sub(r"\bMatrixHorzCat\s*\{\s*\}\s*\.compile\(", "horzcat_compile(", b)                                       # M4
    b = re.sub(r"\bMatrixVertCat\s*\{\s*\}\s*\.compile\(", "vertcat_compile(", b)
    b = re.sub(r"Value::MatrixValue\(\s*Matrix::from_vec\(", "matrix_value_from_vec((", b)                               # M5 (extra paren closes the outer)
    b = re.sub(r"\b(\w+)\.iter\(\)\.all\(\s*\|\s*(\w+)\s*\|\s*\2\.shape\(\)\s*==\s*vec!\[\s*1\s*,\s*1\s*\]\s*\)", r"all_unit_shape(&\1)", b)
    b = re.sub(r"matrix_value_from_vec\(\((.*?)\)\)", r"matrix_value_from_vec(\1)", b, flags=re.S)
    b = re.sub(r"let\s+mut\s+(\w+)\s*=\s*(\w+)\.borrow_mut\(\)\s*;\s*\1\.push\(\s*(\w+)\s*\)\s*;", r"plan_push(&\2, \3);", b)   # M6
    b = re.sub(r"\bvec!\[\s*\]", "Vec::new()", b)
    b = b.replace("vec![0, 0]", "vec![0usize, 0usize]")
    if re.search(r"\b(MechError::new|MatrixHorzCat|MatrixVertCat|borrow_mut|matches!|cfg|iter\(\))\b", b):
        raise AnchorLost(fname + ": statements outside the transcription rules")
    return ("fn %s(node_: &%s, env: Option<&Environment>, p: &Interpreter) -> (res: Result<Value, MechError>)\n{\n" % (fname, "MatrixRow" if fname == "matrix_row" else "Mat")) + b + "\n}\n"


def unit(text, fname):
    if fname == "matrix_row":
        fn = transcribe(text, "matrix_row", "columns", 0, "matrix_column")
    else:
        fn = transcribe(text, "matrix", "rows", 1, "matrix_row")
    return "use vstd::prelude::*;\nverus! {\n" + model(fname) + fn + vlib.verus_canary("canary_c11_" + fname, "x: u64", []) + "\n} // verus!\nfn main() {}\n"
