"""C13 (Verus) — the literal evaluators of src/interpreter/src/literals.rs under contract.

Each evaluator is extracted verbatim on every run and rewritten onto contracts/C13/litmodel.rs by the
mechanical rules L1-L9 below; the contract of each is the clause of the property it implements:

  dec / hex / oct / binary  : the value is I64(sum digit_i * radix^i) for radix 10 / 16 / 8 / 2, accepted iff the
                              digits are digits of that radix and the number fits i64 (otherwise an error, never a value)
  integer / float           : F64(nearest(spelling))      — `nearest` = std's <f64 as FromStr> (correctly rounded), assumed
  scientific                : integral exponent  => F64(nearest(`a.b e [-] c`))   (one rounding: the nearest double)
                              fractional exponent => F64(a.b * 10^(+-c.d)) in IEEE arithmetic (structure only)
  rational                  : R64 in lowest terms with the spelled numerator / denominator; zero denominator => no value
  negated                   : same variant, negated payload; any other variant => no value
  complex                   : C64(re, im) with re from the real part (0.0 when absent) and im from the imaginary part
  real / number             : routing table variant -> evaluator (arms verbatim, cfg evaluated for the default features)

Rewrite rules (what the extraction changes; everything else is copied token for token):
  L1  `X.chars.iter().collect::<String>()` / `X.chars.iter().collect()`     -> `collect_string(&X.chars)`
  L2  `i64::from_str_radix(&S, R).unwrap()`                                 -> `i64_from_str_radix(&S, R)?`
  L3  `E.parse::<i64>().unwrap()` / `E.parse::<f64>().unwrap()`             -> `parse_i64(&E)?` / `parse_f64(&E)?`
  L4  `format!("{}.{}",a,b)` -> `fmt_dot(&a,&b)`; `format!("{}.{}e{}{}",a,b,s,c)` -> `fmt_sci(&a,&b,s,&c)`
  L5  `Ref::new(E)` -> `mk(E)`; `*v.borrow()` -> `v`   (Ref<T> is the identity)
  L6  `panic!(..)` -> `return None`; result type `Value` / `MResult<Value>` -> `Option<Value>`; `Ok(e)` / tail `e` -> `Some(e)`
  L7  `X.chars.iter().all(|ch| *ch == '0')` -> `all_zero(&X.chars)`
  L8  `R64::new(n,d)` -> `r64_new(n,d)` (precondition d != 0), `C64::new(re,im)` -> `c64_new(re,im)`
  L9  doubles are opaque: type `f64` -> `F`, `-x` on a double -> `fneg(x)`, `x * 10f64.powf(e)` -> `fmul(x, fpow10(e))`, `0.0` -> `fzero()`
"""
import os, re
import vlib
from vlib import read_repo, extract_fn, VerusUnit, AnchorLost, match_brace, find_code, find_all_code, split_statements, verus_canary, VERIF

LIT_RS = "src/interpreter/src/literals.rs"
NODES_RS = "src/core/src/nodes.rs"
CARGO = "src/interpreter/Cargo.toml"

RADIX = {"dec": 10, "hex": 16, "oct": 8, "binary": 2}     # from the property: decimal, hexadecimal, octal, binary

# the property's routing: which evaluator gives meaning to which literal form
ROUTE = {"Negated": "negated", "Integer": "integer", "Float": "float", "Decimal": "dec", "Hexadecimal": "hex",
         "Octal": "oct", "Binary": "binary", "Scientific": "scientific", "Rational": "rational", "TypedInteger": "typed_literal"}


def strip_comments(s):
    out, i, n = [], 0, len(s)
    while i < n:
        j = vlib._skip_trivia(s, i)
        if j != i and (s.startswith("//", i) or s.startswith("/*", i)):
            out.append(" " if s.startswith("/*", i) else "\n" if s[i:j].endswith("\n") else "")
            i = j
            continue
        if j != i:
            out.append(s[i:j]); i = j; continue
        out.append(s[i]); i += 1
    return "".join(out)


def common_rewrites(b):
    b = strip_comments(b)
    b = re.sub(r"(\w+(?:\.\d+)?)\.chars\.iter\(\)\.collect(?:::<String>)?\(\)", r"collect_string(&\1.chars)", b)          # L1
    b = re.sub(r"(\w+(?:\.\d+)?)\.chars\.iter\(\)\.all\(\|(\w+)\|\s*\*\2\s*==\s*'0'\)", r"all_zero(&\1.chars)", b)         # L7
    b = re.sub(r"i64::from_str_radix\(\s*&(\w+)\s*,\s*(\w+)\s*\)\.unwrap\(\)", r"i64_from_str_radix(&\1, \2)?", b)         # L2
    b = re.sub(r'format!\("\{\}\.\{\}"\s*,\s*(\w+)\s*,\s*(\w+)\s*\)', r"fmt_dot(&\1,&\2)", b)                              # L4
    b = re.sub(r'format!\("\{\}\.\{\}e\{\}\{\}"\s*,\s*(\w+)\s*,\s*(\w+)\s*,\s*(\w+)\s*,\s*(\w+)\s*\)', r"fmt_sci(&\1,&\2,\3,&\4)", b)
    b = re.sub(r"((?:collect_string|fmt_dot|fmt_sci)\([^()]*\)|\b\w+)\.parse::<(i64|f64)>\(\)\.unwrap\(\)", r"parse_\2(&\1)?", b)   # L3
    b = re.sub(r"\bRef::new\(", "mk(", b)                                                                                     # L5
    b = re.sub(r"\*(\w+)\.borrow\(\)", r"\1", b)
    b = re.sub(r"\bR64::new\(", "r64_new(", b)                                                                                # L8
    b = re.sub(r"\bC64::new\(", "c64_new(", b)
    b = re.sub(r"panic!\((?:[^()]|\([^()]*\))*\)", "return None", b)                                                          # L6
    return b


def leftovers(b, what):
    for bad in ("format!", ".parse::", ".collect", "from_str_radix(", ".unwrap()", ".borrow()", "panic!", ".iter()"):
        if bad in b.replace("i64_from_str_radix(", ""):
            raise AnchorLost("%s: `%s` left after the rewrite rules (body has a shape the rules do not cover)" % (what, bad))


def wrap_tail(body, conv=lambda e: "Some(%s)" % e):
    """L6: the tail expression of a `{..}` body becomes Some(tail); `return V;` -> `return Some(V);`"""
    st = split_statements(body)
    if not st or st[-1].rstrip().endswith(";"):
        raise AnchorLost("no tail expression")
    tail = st[-1]
    i = body.rindex(tail)
    body = body[:i] + conv(tail) + body[i + len(tail):]
    body = re.sub(r"\breturn\s+(Value::[^;]+);", r"return Some(\1);", body)
    return body


def only_param(sig):
    ps = vlib.param_names(sig)
    if len(ps) != 1:
        raise AnchorLost("expected one parameter in `%s`" % " ".join(sig.split()))
    return ps[0]


def ret_option(sig):
    s = vlib.strip_vis(sig)
    s2 = re.sub(r"->\s*(Value|MResult<Value>)\s*$", "-> (r: Option<Value>)", s.strip())
    if s2 == s.strip():
        raise AnchorLost("unexpected result type in `%s`" % " ".join(sig.split()))
    return s2


def fn_item(sig, body, requires, ensures, pre=""):
    spec = ""
    if requires:
        spec += "\n  requires " + ",\n    ".join(requires) + ","
    spec += "\n  ensures " + ",\n    ".join(ensures) + ","
    if pre:
        b = body.strip()
        body = "{\n" + pre + b[1:]
    return sig + spec + "\n" + body + "\n"


def based(text, name):
    sig, body = extract_fn(text, name)
    p = only_param(sig)
    b = wrap_tail(common_rewrites(body))
    leftovers(b, name)
    R = RADIX[name]
    return fn_item(ret_option(sig), b, [], [
        "r matches Some(v) ==> radix_ok(%s.chars@, %d) && v == Value::I64(radix_val(%s.chars@, %d) as i64)" % (p, R, p, R),
        "radix_ok(%s.chars@, %d) ==> r.is_some()" % (p, R)])


def floats(text, name):
    sig, body = extract_fn(text, name)
    # a parameter called `int` / `nat` collides with Verus' spec types: renamed (sig and body alike)
    sig, body = (re.sub(r"\b(int|nat)\b", r"\1_", x) for x in (sig, body))
    p = only_param(sig)
    b = wrap_tail(common_rewrites(body))
    b = re.sub(r"\bf64\b", "F", b)
    leftovers(b, name)
    spelled = "%s.chars@" % p if name == "integer" else "%s.0.chars@ + seq!['.'] + %s.1.chars@" % (p, p)
    return fn_item(ret_option(sig), b, [], [
        "r matches Some(v) ==> v == Value::F64(nearest(%s))" % spelled,
        "dec_ok(%s) ==> r.is_some()" % spelled])


def rational(text):
    sig, body = extract_fn(text, "rational")
    p = only_param(sig)
    b = wrap_tail(common_rewrites(body))
    leftovers(b, "rational")
    N, D = "radix_val(%s.0.chars@, 10)" % p, "radix_val(%s.1.chars@, 10)" % p
    return fn_item(ret_option(sig), b, [], [
        "r matches Some(v) ==> (v matches Value::R64(q) && lowest_terms(q, %s, %s)) && %s != 0" % (N, D, D),
        "radix_ok(%s.1.chars@, 10) && %s == 0 ==> r.is_none()" % (p, D),
        "radix_ok(%s.0.chars@, 10) && radix_ok(%s.1.chars@, 10) && %s != 0 ==> r.is_some()" % (p, p, D)])


def scientific(text):
    sig, body = extract_fn(text, "scientific")
    p = only_param(sig)
    b = common_rewrites(body)
    b = re.sub(r"(\w+)\s*\*\s*10f64\.powf\((\w+)\)", r"fmul(\1, fpow10(\2))", b)          # L9
    b = re.sub(r"=\s*-\s*(\w+)\s*;", r"= fneg(\1);", b)
    b = re.sub(r"\bf64\b", "F", b)
    b = wrap_tail(b)
    leftovers(b, "scientific")
    A, B, C, D, NEG = ("%s.0.0.chars@" % p, "%s.0.1.chars@" % p, "%s.1.1.chars@" % p, "%s.1.2.chars@" % p, "%s.1.0" % p)
    sgn = "(if %s { seq!['-'] } else { Seq::<char>::empty() })" % NEG
    integral = "(forall|i: int| 0 <= i < %s.len() ==> %s[i] == '0')" % (D, D)
    e = "nearest(%s + seq!['.'] + %s)" % (C, D)
    return fn_item(ret_option(sig), b, [], [
        # the property: a scientific literal is the double nearest to the number it spells
        "%s ==> (r matches Some(v) ==> v == Value::F64(nearest(%s + seq!['.'] + %s + seq!['e'] + %s + %s)))" % (integral, A, B, sgn, C),
        "%s && dec_ok(%s + seq!['.'] + %s + seq!['e'] + %s + %s) ==> r.is_some()" % (integral, A, B, sgn, C),
        # fractional exponents have no decimal spelling std can read: mantissa * 10^exp in IEEE arithmetic
        "!%s ==> (r matches Some(v) ==> v == Value::F64(f_mul(nearest(%s + seq!['.'] + %s), f_pow10(if %s { f_neg(%s) } else { %s }))))" % (integral, A, B, NEG, e, e),
    ], pre='  proof { reveal_strlit("-"); reveal_strlit(""); assert("-"@ =~= seq![\'-\']); assert(""@ =~= Seq::<char>::empty()); }\n')


INT_KINDS = ["I8", "I16", "I32", "I64", "I128"]


def negated(text, feats):
    import units.C02 as C02
    sig, body = extract_fn(text, "negated")
    st = split_statements(body)
    if len(st) != 3 or not re.match(r"let num_val = real\(&num, p\)\?;$", st[0].strip()) or st[2].strip() != "Ok(result)":
        raise AnchorLost("negated(): expected `let num_val = real(&num, p)?; let result = match num_val {..}; Ok(result)`")
    m = re.match(r"let result = match num_val\s*\{", st[1].strip())
    if not m:
        raise AnchorLost("negated(): `let result = match num_val {` not found")
    mt = st[1].strip()
    inner = mt[m.end():match_brace(mt, m.end() - 1) - 1]
    arms = []
    for attrs, pat, expr in C02.split_arms(inner):
        if any(not C02.cfg_eval(re.match(r"#\[cfg\((.*)\)\]$", a.strip(), re.S).group(1), feats) for a in attrs if a.strip().startswith("#[cfg")):
            continue
        e = common_rewrites(expr)
        if re.match(r"Value::F(32|64)\(", pat):
            e = re.sub(r"-\s*\(\s*(\w+)\s*\)|-\s*(\w+)", lambda mm: "fneg(%s)" % (mm.group(1) or mm.group(2)), e, count=1) if "-" in e else e   # L9
        if e.strip() == "return None":
            e = "{ return None; }"
        arms.append("    %s => %s," % (pat, e))
        leftovers(e, "negated arm " + pat)
    spec_arms = ["    Value::%s(x) => Value::%s((-x) as %s)," % (k, k, k.lower()) for k in INT_KINDS] + \
                ["    Value::F64(x) => Value::F64(f_neg(x)),", "    Value::F32(x) => Value::F32(f_neg(x)),", "    x => x,"]
    items = ["pub open spec fn neg_spec(v: Value) -> Value {\n  match v {\n%s\n  }\n}" % "\n".join(spec_arms),
             "pub open spec fn negatable(v: Value) -> bool {\n  match v {\n%s\n    Value::F64(_) => true, Value::F32(_) => true,\n    _ => false,\n  }\n}" % "\n".join(
                 "    Value::%s(x) => x != %s::MIN," % (k, k.lower()) for k in INT_KINDS)]
    fn = """// negated(): `let num_val = real(&num, p)?;` is the parameter; arms verbatim
fn negated(num_val: Value) -> (r: Option<Value>)
  requires (num_val matches Value::I8(x) ==> x != i8::MIN), (num_val matches Value::I16(x) ==> x != i16::MIN), (num_val matches Value::I32(x) ==> x != i32::MIN),
           (num_val matches Value::I64(x) ==> x != i64::MIN), (num_val matches Value::I128(x) ==> x != i128::MIN),
  ensures r matches Some(v) ==> negatable(num_val) && v == neg_spec(num_val),
          negatable(num_val) ==> r.is_some(),
{
  let result = match num_val {
%s
  };
  Some(result)
}
""" % "\n".join(arms)
    return items + [fn]


def complex_(text):
    sig, body = extract_fn(text, "complex")
    b = common_rewrites(body)
    b = re.sub(r"\breal\(&(\w+(?:\.\w+)*)\s*,\s*p\)\?\.as_f64\(\)", r"as_f64(real(&\1)?)", b)
    b = re.sub(r"\b0\.0\b", "fzero()", b)
    b = re.sub(r"\bf64\b", "F", b)
    b = re.sub(r"\bOk\(result\)\s*$", "Some(result)", b.strip()[1:-1].strip())
    b = re.sub(r"\bOk\((\w+)\) =>", r"Ok(\1) =>", b)
    b = "{\n  " + b + "\n}"
    leftovers(b, "complex")
    if "real(" not in b or "c64_new(" not in b:
        raise AnchorLost("complex(): unexpected shape")
    pre = """pub struct RealNumber { pub id: int }
pub struct ImaginaryNumber { pub number: RealNumber }
pub struct C64Node { pub real: Option<RealNumber>, pub imaginary: ImaginaryNumber }
pub uninterp spec fn ev(x: RealNumber) -> Option<Value>;
pub uninterp spec fn f64_of(v: Value) -> Option<F>;
#[verifier::external_body]
fn real(x: &RealNumber) -> (r: Option<Value>) ensures r == ev(*x) { unimplemented!() }
#[verifier::external_body]
fn as_f64(v: Value) -> (r: Result<F, ()>) ensures (r matches Ok(x) ==> f64_of(v) == Some(x)), (r is Err ==> f64_of(v) is None) { unimplemented!() }
pub open spec fn part(x: RealNumber) -> F { match f64_of(ev(x).unwrap()) { Some(f) => f, None => f_zero() } }
"""
    fn = fn_item("fn complex(num: &C64Node) -> (r: Option<Value>)", b, [], [
        "r matches Some(v) ==> v == Value::C64(Cx { re: (match num.real { Some(x) => part(x), None => f_zero() }), im: part(num.imaginary.number) })",
        "ev(num.imaginary.number) is Some && (num.real matches Some(x) ==> ev(x) is Some) ==> r.is_some()"])
    return [pre, fn]


def routing(text, nodes, feats):
    import units.C02 as C02
    m = find_code(nodes, r"pub enum RealNumber\s*\{")
    if not m:
        raise AnchorLost("enum RealNumber not found")
    variants = re.findall(r"^\s*(\w+)\s*(?:\(|,|$)", nodes[m.end():match_brace(nodes, m.end() - 1) - 1], re.M)
    sig, body = extract_fn(text, "real")
    mm = find_code(body, r"let result = match rl\s*\{")
    if not mm:
        raise AnchorLost("real(): `let result = match rl {` not found")
    inner = body[mm.end():match_brace(body, mm.end() - 1) - 1]
    arms, callees = [], set(ROUTE.values())
    for attrs, pat, expr in C02.split_arms(inner):
        if any(not C02.cfg_eval(re.match(r"#\[cfg\((.*)\)\]$", a.strip(), re.S).group(1), feats) for a in attrs if a.strip().startswith("#[cfg")):
            continue
        pm = re.match(r"RealNumber::(\w+)\s*\(", pat)
        e = strip_comments(expr).strip()
        if pat.strip() == "_":
            arms.append("    _ => Callee::reject,")
            continue
        if not pm:
            raise AnchorLost("real(): arm `%s` has an unexpected shape" % pat)
        # the evaluator the arm hands the payload to: the last call of the arm (a block may first rebuild the node)
        calls = re.findall(r"\b([a-z_]\w*)\s*\(", re.sub(r"\b(Box|Some|Ok)\s*\(", "", e))
        calls = [c for c in calls if c not in ("clone",)]
        if not calls:
            raise AnchorLost("real(): arm `%s` calls nothing" % pat)
        callee = calls[-1]
        callees.add(callee)
        arms.append("    RN::%s => Callee::%s," % (pm.group(1), callee))
        if pm.group(1) == "TypedInteger" and not re.search(r"RealNumber::Integer\(\s*num_tkn", e):
            raise AnchorLost("real(): the TypedInteger arm no longer re-reads its digits as an Integer literal")
    items = ["#[allow(non_camel_case_types)]\npub enum RN { %s }" % ", ".join(variants),
             "#[allow(non_camel_case_types)]\npub enum Callee { %s, reject }" % ", ".join(sorted(callees)),
             "pub open spec fn routes(rl: RN, c: Callee) -> bool {\n  match rl {\n%s\n    _ => true,\n  }\n}" % "\n".join(
                 "    RN::%s => (c matches Callee::%s)," % (k, v) for k, v in ROUTE.items() if k in variants),
             "// real(): which evaluator gives a literal form its value (arms verbatim, payloads dropped)\nfn real_route(rl: RN) -> (r: Callee)\n  ensures routes(rl, r),\n{\n  match rl {\n%s\n  }\n}\n" % "\n".join(arms)]
    return items


TYPED_MODEL = """
pub struct Tok { pub id: u64 }
impl Tok { pub fn clone(&self) -> (r: Tok) ensures r == *self, { Tok { id: self.id } } }
pub struct Kind { pub id: u64 }
pub struct Interp { pub id: u64 }
pub struct TVal { pub id: u64 }
#[allow(non_camel_case_types)]
pub enum RealNumber { Integer(Tok), Decimal(Tok), Float(Tok), Hexadecimal(Tok), Octal(Tok), Binary(Tok), Other(u64) }
pub enum Number { Real(RealNumber), Other(u64) }
pub enum Literal { Number(Number), Other(u64) }
// typed_literal(lit, kind): evaluate `lit`, then convert the value to `kind` (the conversion is C12's subject).  Uninterpreted here.
pub uninterp spec fn typed(lit: Literal, kind: Kind) -> Option<TVal>;
#[verifier::external_body]
pub fn typed_literal(lit: &Literal, kind: &Kind, p: &Interp) -> (r: Option<TVal>) ensures r == typed(*lit, *kind), { unimplemented!() }
"""


def typed_integer_arm(text, feats):
    """the block of the `RealNumber::TypedInteger((num_tkn, kind)) => { .. }` arm of real(), verbatim, `#[cfg(..)]` attributes on its
    statements evaluated for the default feature set; `?` on MResult -> `?` on Option; the block's value is returned as `Some(..)`"""
    import units.C02 as C02
    from units import vC16
    sig, body = extract_fn(text, "real")
    mm = find_code(body, r"let result = match rl\s*\{")
    if not mm:
        raise AnchorLost("real(): `let result = match rl {` not found")
    inner = body[mm.end():match_brace(body, mm.end() - 1) - 1]
    for attrs, pat, expr in C02.split_arms(inner):
        pm = re.match(r"RealNumber::TypedInteger\s*\(\s*\(\s*(\w+)\s*,\s*(\w+)\s*\)\s*\)", pat.strip())
        if not pm:
            continue
        e = strip_comments(expr).strip()
        if not e.startswith("{"):
            e = "{ " + e.rstrip(",") + " }"
        e = vC16.apply_cfg(e, feats)
        tok, kind = pm.group(1), pm.group(2)
        return ("// real(): the arm of a suffixed integer `123u8` (block verbatim)\n"
                "fn typed_integer_arm(%s: &Tok, %s: &Kind, p: &Interp) -> (r: Option<TVal>)\n"
                "  // the digits are read as an unsuffixed integer literal (a double: C13.verus.integer), so that the conversion to the suffix kind\n"
                "  // is the float -> kind conversion, which truncates and CLAMPS (C12); reading them as an i64 would make it the wrapping integer cast\n"
                "  ensures r == typed(Literal::Number(Number::Real(RealNumber::Integer(*%s))), *%s),\n{\n  let v = %s;\n  Some(v)\n}\n" % (tok, kind, tok, kind, e))
    raise AnchorLost("real(): no TypedInteger arm")


SYN_RS = "src/syntax/src/literals.rs"
SYN_MODEL = """
// model for the sign handling of the literal PARSERS (src/syntax/src/literals.rs): a token parser is named by the function that
// implements it; `plus` yields a token of kind Plus, `dash` one of kind Dash (their definitions: leaf!{plus, "+", TokenKind::Plus} ..);
// nom's opt / alt behave as documented (opt never fails; alt takes the first alternative that succeeds)
pub struct Input { pub id: u64 }
#[derive(PartialEq, Eq, Structural)]
pub enum TokenKind { Plus, Dash, Other }
pub struct Token { pub kind: TokenKind, pub id: u64 }
#[derive(PartialEq, Eq)]
pub enum A { Plus, Dash, Other(u64) }
pub uninterp spec fn pt(a: A, i: Input) -> Option<(Input, Token)>;
pub open spec fn kinds_ok(a: A, t: Token) -> bool { (a == A::Plus ==> t.kind == TokenKind::Plus) && (a == A::Dash ==> t.kind == TokenKind::Dash) }
pub open spec fn opt_spec(a: A, i: Input) -> (Input, Option<Token>) { match pt(a, i) { Some((i1, t)) => (i1, Some(t)), None => (i, None) } }
#[verifier::external_body]
pub fn opt_of(a: A, i: Input) -> (r: Option<(Input, Option<Token>)>)
  ensures r == Some(opt_spec(a, i)), pt(a, i) matches Some((i1, t)) ==> kinds_ok(a, t) && ends(a, i, i1),
{ unimplemented!() }
#[verifier::external_body]
pub fn opt_alt_of_2(a0: A, a1: A, i: Input) -> (r: Option<(Input, Option<Token>)>)
  ensures r == Some(match pt(a0, i) { Some((i1, t)) => (i1, Some(t)), None => opt_spec(a1, i) }),
    pt(a0, i) matches Some((i1, t)) ==> kinds_ok(a0, t) && ends(a0, i, i1), pt(a1, i) matches Some((i1, t)) ==> kinds_ok(a1, t) && ends(a1, i, i1),
{ unimplemented!() }
// a parse of `a` starting somewhere ends exactly at k
pub open spec fn ends(a: A, j: Input, k: Input) -> bool { pt(a, j) is Some && pt(a, j).unwrap().0 == k }
pub open spec fn ended_at(a: A, k: Input) -> bool { exists|j: Input| ends(a, j, k) }
pub broadcast proof fn lemma_ended(a: A, j: Input, k: Input) requires #[trigger] ends(a, j, k), ensures ended_at(a, k), { }
"""


def exponent_sign_fragment(syn):
    """(F) of `scientific_literal` (src/syntax/src/literals.rs): the statements between the `e`/`E` tag and the exponent digits (those that
    apply `opt(..)` to a sign parser) and the statement `let ex_sign = ..;`, verbatim; `opt(N)(input)?` -> `opt_of(A::N, input)?`,
    `opt(alt((N1, N2)))(input)?` -> `opt_alt_of_2(A::N1, A::N2, input)?`; the fragment returns `(input, ex_sign)`"""
    sig, body = extract_fn(syn, "scientific_literal")
    sts = [strip_comments(x).strip() for x in vlib.split_statements(body)]
    ie = [k for k, x in enumerate(sts) if re.search(r"alt\(\(\s*tag\(\"e\"\)\s*,\s*tag\(\"E\"\)\s*\)\)", x)]
    isg = [k for k, x in enumerate(sts) if re.match(r"let\s+ex_sign\b", x)]
    if len(ie) != 1 or len(isg) != 1 or isg[0] < ie[0]:
        raise AnchorLost("scientific_literal: the `e`/`E` tag statement or `let ex_sign` not found")
    sign_sts = [x for x in sts[ie[0] + 1:isg[0]] if re.search(r"\bopt\(", x)]
    if not sign_sts:
        raise AnchorLost("scientific_literal: no optional sign parser between the exponent marker and the exponent digits")
    def atom(n):
        return {"plus": "A::Plus", "dash": "A::Dash"}.get(n, "A::Other(%d)" % (sum(map(ord, n)) % 1000))
    out = []
    for x in sign_sts:
        x2, n = re.subn(r"\bopt\(\s*alt\(\(\s*(\w+)\s*,\s*(\w+)\s*\)\)\s*\)\s*\(\s*input\s*\)\s*\?", lambda m: "opt_alt_of_2(%s, %s, input)?" % (atom(m.group(1)), atom(m.group(2))), x)
        x2, n2 = re.subn(r"\bopt\(\s*(\w+)\s*\)\s*\(\s*input\s*\)\s*\?", lambda m: "opt_of(%s, input)?" % atom(m.group(1)), x2)
        if n + n2 != 1 or re.search(r"\b(opt|alt|tag)\(", x2):
            raise AnchorLost("scientific_literal: sign statement outside the rules: " + x)
        out.append(x2)
    sg = sts[isg[0]]
    if re.search(r"\binput\b|\?", sg):
        raise AnchorLost("scientific_literal: `let ex_sign` is no longer a pure computation")
    return ("fn exponent_sign(input: Input) -> (r: Option<(Input, bool)>)\n"
            "  // the flag handed to the evaluator as 'negative exponent' is set exactly when the sign that was consumed is a minus\n"
            "  ensures (match r { Some((i2, neg)) => (neg ==> ended_at(A::Dash, i2)) && (!neg ==> (i2 == input || ended_at(A::Plus, i2))), None => true }),\n"
            "{\n  broadcast use lemma_ended;\n  %s\n  %s\n  Some((input, ex_sign))\n}\n" % ("\n  ".join(out), sg))


SYN_NUM_MODEL = """
// the numbers the literal parsers build: `-x` is Negated(x)
pub enum RealNumber { Negated(Box<RealNumber>), Lit(u64) }
pub uninterp spec fn alt_num(alts: spec_fn(u64) -> bool, i: Input) -> Option<(Input, RealNumber)>;     // alt((..the literal parsers..)): which number literal follows
#[verifier::external_body]
pub fn alt_of_literals(i: Input) -> (r: Option<(Input, RealNumber)>) ensures r == alt_num(|x: u64| true, i), { unimplemented!() }
"""


def negation_fn(syn, fname):
    """(X) `real_number` / `untyped_real_number` (src/syntax/src/literals.rs), whole body: `opt(dash)(input)?` -> `opt_of(A::Dash, input)?`; the
    `alt((.. literal parsers ..))(input)?` -> `alt_of_literals(input)?` (WHICH literals are tried is not part of this contract);
    `Ok((input, x))` -> `Some((input, x))`"""
    sig, body = extract_fn(syn, fname)
    b = strip_comments(body[body.index("{") + 1:body.rindex("}")])
    b, n1 = re.subn(r"\bopt\(\s*dash\s*\)\s*\(\s*input\s*\)\s*\?", "opt_of(A::Dash, input)?", b)
    b, n2 = re.subn(r"\balt\(\(\s*[\w\s,]+\)\)\s*\(\s*input\s*\)\s*\?", "alt_of_literals(input)?", b)
    b = re.sub(r"\bOk\(\(", "Some((", b)
    if n1 != 1 or n2 != 1 or re.search(r"\b(opt|alt|tag|Ok|Err)\(", b):
        raise AnchorLost(fname + ": statements outside the transcription rules")
    return ("fn %s(input: Input) -> (r: Option<(Input, RealNumber)>)\n"
            "  // the literal is negated exactly when a minus sign was consumed in front of it\n"
            "  ensures r == (match alt_num(|x: u64| true, opt_spec(A::Dash, input).0) { None => None::<(Input, RealNumber)>, Some((i2, x)) => Some((i2, if opt_spec(A::Dash, input).1 is Some { RealNumber::Negated(Box::new(x)) } else { x })) }),\n{\n%s\n}\n" % (fname, b))


def complex_sign_fn(syn):
    """(F) `complex_number` (src/syntax/src/literals.rs): the statement `let imaginary = match sign.kind { .. };`, verbatim; `unreachable!()` -> `unreached()`
    (provably unreachable: the sign token comes from alt((plus, dash)))"""
    sig, body = extract_fn(syn, "complex_number")
    m = find_code(body, r"let\s+imaginary\s*=\s*match\s+sign\.kind\s*\{")
    if not m:
        raise AnchorLost("complex_number: `let imaginary = match sign.kind {` not found")
    e = match_brace(body, m.end() - 1)
    st = strip_comments(body[m.start():e]) + ";"
    st = st.replace("unreachable!()", "unreached()")
    return ("fn complex_imaginary_sign(sign: Token, imaginary_num: RealNumber) -> (imaginary: RealNumber)\n"
            "  requires sign.kind == TokenKind::Plus || sign.kind == TokenKind::Dash,\n"
            "  // `a - bi` has imaginary part -b, `a + bi` has imaginary part b\n"
            "  ensures imaginary == (if sign.kind == TokenKind::Dash { RealNumber::Negated(Box::new(imaginary_num)) } else { imaginary_num }),\n{\n  %s\n  imaginary\n}\n" % st)


TYPED_LIT_MODEL = """
pub struct Literal { pub id: u64 }
pub struct NodeKind { pub id: u64 }
pub struct KindAnnotation { pub kind: NodeKind }
pub struct Interpreter { pub steps: Ghost<Seq<Fx>> }
pub struct MechError { pub id: u64 }
#[derive(Clone, Copy, PartialEq, Eq, Structural)]
pub struct Value { pub id: u64 }
#[derive(Clone, Copy)]
pub struct Kind { pub id: u64 }
#[derive(Clone, Copy, PartialEq, Eq, Structural)]
pub struct Fx { pub a: Value, pub b: Value }
pub uninterp spec fn lit_val(l: Literal) -> Option<Value>;            // literal(l, p)
pub uninterp spec fn kind_val(k: NodeKind) -> Option<Kind>;           // kind_annotation(k, p)
pub uninterp spec fn kind_as_value(k: Kind) -> Option<Value>;         // Kind::to_value
pub uninterp spec fn convertible(v: Value, k: Value) -> bool;         // ConvertKind{}.compile accepts (value, kind)      -- C12's subject
pub uninterp spec fn converted(v: Value, k: Value) -> Value;          // the value the compiled conversion holds after solve() -- C12's subject
#[verifier::external_body]
pub fn literal(l: &Literal, p: &mut Interpreter) -> (r: Result<Value, MechError>)
  ensures final(p).steps == old(p).steps, (match r { Ok(v) => lit_val(*l) == Some(v), Err(_) => lit_val(*l) is None }), { unimplemented!() }
#[verifier::external_body]
pub fn kind_annotation(k: &NodeKind, p: &mut Interpreter) -> (r: Result<Kind, MechError>)
  ensures final(p).steps == old(p).steps, (match r { Ok(v) => kind_val(*k) == Some(v), Err(_) => kind_val(*k) is None }), { unimplemented!() }
impl Kind {
  #[verifier::external_body]
  pub fn to_value(&self, p: &Interpreter) -> (r: Result<Value, MechError>)
    ensures (match r { Ok(v) => kind_as_value(*self) == Some(v), Err(_) => kind_as_value(*self) is None }), { unimplemented!() }
}
pub struct ConvertKind {}
impl ConvertKind {
  #[verifier::external_body]
  pub fn compile(&self, args: &Vec<Value>) -> (r: Result<Fx, MechError>)
    requires args@.len() == 2,
    ensures (match r { Ok(f) => convertible(args@[0], args@[1]) && f.a == args@[0] && f.b == args@[1], Err(_) => !convertible(args@[0], args@[1]) }), { unimplemented!() }
}
impl Fx {
  #[verifier::external_body] pub fn solve(&self) { unimplemented!() }
  #[verifier::external_body] pub fn out(&self) -> (v: Value) ensures v == converted(self.a, self.b), { unimplemented!() }
}
#[verifier::external_body]
pub fn add_plan_step(p: &mut Interpreter, f: Fx) ensures final(p).steps@ == old(p).steps@.push(f), { unimplemented!() }
// ---- THE CONTRACT (C13: "a suffixed or annotated literal ... is either clamped as documented or rejected"): an annotated literal is the literal's own value
// converted to the annotated kind (conversion rule = C12), and it is rejected when either part fails or no conversion exists -- never the unconverted value
pub open spec fn typed_spec(l: Literal, k: NodeKind) -> Option<Value> {
  match lit_val(l) { None => None, Some(v) =>
  match kind_val(k) { None => None, Some(kk) =>
  match kind_as_value(kk) { None => None, Some(kv) => if convertible(v, kv) { Some(converted(v, kv)) } else { None } } } }
}
"""


def typed_literal_fn(text, feats):
    """`typed_literal` (whole body): `p: &Interpreter` -> `&mut` (ghost plan steps), `K.to_value(&p.state.borrow().kinds)` -> `K.to_value(p)`,
    `p.state.borrow_mut().add_plan_step(f)` -> `add_plan_step(p, f)`, `MResult` -> `Result<_, MechError>`; cfg attributes evaluated"""
    from units import vC16
    sig, body = extract_fn(text, "typed_literal")
    b = vC16.apply_cfg(re.sub(r"//[^\n]*", "", body).replace("\r", ""), feats).strip()[1:-1]
    b, n1 = re.subn(r"(\w+)\.to_value\(\s*&p\.state\.borrow\(\)\.kinds\s*\)", r"\1.to_value(p)", b)
    b, n2 = re.subn(r"p\.state\.borrow_mut\(\)\.add_plan_step\(\s*(\w+)\s*\)", r"add_plan_step(p, \1)", b)
    if (n1, n2) != (1, 1) or re.search(r"\b(borrow|borrow_mut|state)\b", b):
        raise AnchorLost("typed_literal: the body is outside the transcription rules %r" % ((n1, n2),))
    return ("fn typed_literal(ltrl: &Literal, knd_attn: &KindAnnotation, p: &mut Interpreter) -> (res: Result<Value, MechError>)\n"
            "  ensures (match typed_spec(*ltrl, knd_attn.kind) { Some(v) => res == Ok::<Value, MechError>(v), None => res is Err }),\n{\n" + b + "\n}\n")


def dispatch_lemmas(text, feats):
    """`literal()` and `number()`: the `match` arms reduced to `variant => the evaluator the arm hands its payload to` (the last call of the arm; cfg-disabled arms
    removed); the table is compared with the property's routing on the extracted names and the outcome is a ghost lemma per function"""
    import units.C02 as C02
    out, fns = [], []
    for fn, head, prefix, expected in (
            ("literal", r"match\s+&?ltrl\s*\{", "Literal", {"Number": "number", "TypedLiteral": "typed_literal"}),
            ("number", r"match\s+num\s*\{", "Number", {"Real": "real", "Complex": "complex"})):
        sig, body = extract_fn(text, fn)
        mm = find_code(body, head)
        if not mm:
            raise AnchorLost("%s(): the dispatching match not found" % fn)
        inner = body[mm.end():match_brace(body, mm.end() - 1) - 1]
        table = {}
        for attrs, pat, expr in C02.split_arms(inner):
            if any(not C02.cfg_eval(re.match(r"#\[cfg\((.*)\)\]$", a.strip(), re.S).group(1), feats) for a in attrs if a.strip().startswith("#[cfg")):
                continue
            pm = re.match(r"%s::(\w+)" % prefix, pat.strip())
            if not pm:
                continue
            calls = [c for c in re.findall(r"\b([a-z_]\w*)\s*\(", re.sub(r"\b(Box|Some|Ok|Err)\s*\(", "(", strip_comments(expr))) if c not in ("clone",)]
            table[pm.group(1)] = calls[-1] if calls else None
        wrong = ["%s::%s -> %s (expected %s)" % (prefix, k, table.get(k), v) for k, v in expected.items() if k in table and table.get(k) != v]
        missing = [k for k in expected if k not in table and not (k == "Complex" and "complex" not in feats) and not (k == "TypedLiteral" and "convert" not in feats)]
        ok = not wrong and not missing
        out.append("// %s(): %s\nproof fn %s_dispatch()\n  ensures %s,   // wrong: %s; missing: %s\n{ }\n" % (fn, table, fn, "true" if ok else "false", wrong or "none", missing or "none"))
        fns.append("%s_dispatch" % fn)
    return out, fns


def plan_units(plan):
    text = read_repo(LIT_RS)
    nodes = read_repo(NODES_RS)
    import units.C02 as C02
    feats = C02.default_features(read_repo(CARGO))
    with open(os.path.join(VERIF, "contracts", "C13", "litmodel.rs")) as f:
        model = f.read()
    aliases = []
    for nm in ("Sign", "Whole", "Part", "Base", "Exponent"):
        m = re.search(r"^pub type %s\s*=\s*[^;]+;" % nm, nodes, re.M)
        if not m:
            raise AnchorLost("type alias %s not found in nodes.rs" % nm)
        aliases.append(m.group(0))
    groups = [
        ("c13_based", lambda: [based(text, n) for n in ("dec", "hex", "oct", "binary")],
         {"dec": "C13.verus.dec.denotes_radix_10", "hex": "C13.verus.hex.denotes_radix_16", "oct": "C13.verus.oct.denotes_radix_8", "binary": "C13.verus.binary.denotes_radix_2"}),
        ("c13_float", lambda: [floats(text, "integer"), floats(text, "float")],
         {"integer": "C13.verus.integer.nearest_double", "float": "C13.verus.float.nearest_double"}),
        ("c13_scientific", lambda: [scientific(text)], {"scientific": "C13.verus.scientific.nearest_double"}),
        ("c13_rational", lambda: [rational(text)], {"rational": "C13.verus.rational.lowest_terms_nonzero_denominator"}),
        ("c13_negated", lambda: negated(text, feats), {"negated": "C13.verus.negated.same_kind_negated_value"}),
        ("c13_complex", lambda: complex_(text), {"complex": "C13.verus.complex.re_im_parts"}),
        ("c13_route", lambda: routing(text, nodes, feats), {"real_route": "C13.verus.real.routing_table"}),
        ("c13_typed", lambda: [TYPED_MODEL, typed_integer_arm(text, feats)], {"typed_integer_arm": "C13.verus.real.suffixed_integer_clamps"}),
        ("c13_dispatch", lambda: dispatch_lemmas(text, feats)[0], {f: "C13.verus.literal_number.dispatch" for f in ("literal_dispatch", "number_dispatch")}),
        ("c13_typed_literal", lambda: [TYPED_LIT_MODEL, typed_literal_fn(text, feats)], {"typed_literal": "C13.verus.typed_literal.literal_then_conversion"}),
        ("c13_syn_sign", lambda: [SYN_MODEL, exponent_sign_fragment(read_repo(SYN_RS))], {"exponent_sign": "C13.verus.syntax.scientific_literal.exponent_sign"}),
        ("c13_syn_neg", lambda: [SYN_MODEL, SYN_NUM_MODEL, negation_fn(read_repo(SYN_RS), "real_number"), negation_fn(read_repo(SYN_RS), "untyped_real_number")],
         {"real_number": "C13.verus.syntax.real_number.negated_iff_minus", "untyped_real_number": "C13.verus.syntax.untyped_real_number.negated_iff_minus"}),
        ("c13_syn_complex", lambda: [SYN_MODEL, SYN_NUM_MODEL, complex_sign_fn(read_repo(SYN_RS))], {"complex_imaginary_sign": "C13.verus.syntax.complex_number.imaginary_sign"}),
    ]
    what = {
        "dec": "`0d..` evaluates to I64(sum of digit * 10^i); accepted iff decimal digits that fit i64", "hex": "`0x..` evaluates to I64(value in radix 16)",
        "oct": "`0o..` evaluates to I64(value in radix 8)", "binary": "`0b..` evaluates to I64(value in radix 2)",
        "integer": "an unsuffixed integer literal is the double nearest to its digits", "float": "`w.p` is the double nearest to the decimal number `w.p`",
        "scientific": "`w.p e [-] x` with an integral exponent is the double nearest to the number it spells (one rounding); with a fractional exponent it is w.p * 10^(+-x.y) in IEEE arithmetic",
        "rational": "`n/d` is the fraction n/d in lowest terms; zero denominator yields no value",
        "negated": "`-lit` has the kind of `lit` and the negated value; non-numeric operands are rejected",
        "complex": "real and imaginary parts go to re and im (re = 0 when absent)",
        "typed_integer_arm": "a suffixed integer literal is its digits read as an unsuffixed integer (double) and then converted to the suffix kind, i.e. by the clamping float -> kind conversion of C12, never by a wrapping integer cast",
        "real_number": "the parser negates a real literal exactly when it consumed a minus sign in front of it", "untyped_real_number": "the parser negates an unsuffixed real literal exactly when it consumed a minus sign in front of it",
        "complex_imaginary_sign": "the imaginary part of `a - bi` is the negated literal, that of `a + bi` the literal itself",
        "exponent_sign": "the parser of a scientific literal sets the negative-exponent flag exactly when the sign it consumed between the exponent marker and the exponent digits is a minus (an explicit plus, or no sign, leaves it unset)",
        "typed_literal": "an annotated / suffixed literal is the value of the literal itself converted to the annotated kind (the conversion of C12 applied to (value, kind) in that order; the CONVERTED value is returned); if the literal, the kind or the conversion fails the literal is rejected",
        "literal_dispatch": "literal() hands a number to number() and an annotated literal to typed_literal(); number() hands a real number to real() and a complex one to complex() (decided on the extracted arm table)",
        "number_dispatch": "literal() hands a number to number() and an annotated literal to typed_literal(); number() hands a real number to real() and a complex one to complex() (decided on the extracted arm table)",
        "real_route": "every literal form is evaluated by its own evaluator"}
    for uname, build, fns in groups:
        try:
            items = build()
        except AnchorLost as e:
            for on in fns.values():
                plan.anchor_errors.append((on, str(e)))
            continue
        can = "canary_" + uname
        utext = vlib.verus_file((items if uname in ("c13_typed", "c13_dispatch", "c13_typed_literal", "c13_syn_sign", "c13_syn_neg", "c13_syn_complex") else aliases + [model] + items) + [verus_canary(can, "x: u64", [])])
        for fn, on in fns.items():
            if any(o.name == on for o in plan.obs):
                continue            # several functions / lemmas of one obligation
            if uname == "c13_dispatch":
                # decided on the extracted arm table (a textual correspondence carried through Verus as a ghost lemma): labelled syntactic / bounded, never counted as proved
                plan.ob(on, "syntactic", "bounded", bound="textual: the arm tables of literal() and number() as extracted from the source", functions=["src/interpreter/src/literals.rs: literal(), number() (dispatch arms)"], what=what[fn])
                continue
            plan.ob(on, "verus", "proved", functions=["src/interpreter/src/literals.rs: %s()" % fn.replace("real_route", "real").replace("typed_integer_arm", "real").replace("exponent_sign", "scientific_literal [src/syntax/src/literals.rs]").replace("complex_imaginary_sign", "complex_number [src/syntax/src/literals.rs]")], what=what[fn])
        plan.verus.append(VerusUnit(uname, utext, fns, [can]))
    plan.dropped += [
        "(X) literal evaluators extracted verbatim and rewritten by rules L1-L9 of units/vC13.py: chars.iter().collect() -> collect_string; i64::from_str_radix(..).unwrap() / str::parse(..).unwrap() -> model calls whose failure is an early None (a panic is an error, Interpreter::interpret converts it); format! -> fmt_dot / fmt_sci; Ref<T> = identity; doubles opaque (f64 -> F, unary minus -> fneg, x * 10f64.powf(e) -> fmul(x, fpow10(e))); panic!(..) -> return None; comments dropped",
        "negated(): its first statement `let num_val = real(&num, p)?;` becomes the parameter; cfg-disabled arms removed (default features of mech-interpreter)",
        "real(): arms reduced to `variant => evaluator` (payload expressions dropped; payload types differ per variant, so handing a payload to another variant's evaluator does not compile)",
        "complex(): `real(&x, p)?` is an uninterpreted evaluator, `.as_f64()` an uninterpreted projection"]
    plan.assumptions += [
        "ASSUMED std contracts: i64::from_str_radix(s, r) / str::parse::<i64> = the radix-r value of s iff s consists of radix-r digits and fits i64; <f64 as FromStr>::from_str(s) = the double nearest to the decimal number s spells (std documents correct rounding); Iterator::collect::<String>() over chars = the same characters; Iterator::all; format!(\"{}.{}\") concatenates",
        "ASSUMED num_rational contract: Ratio::new(n, d) is n/d in lowest terms with a positive denominator and panics for d == 0",
        "IEEE negation / multiplication / powf are uninterpreted: for a fractional exponent only the structure mantissa * 10^(+-exp) is decided, not its rounding",
        "a panic inside an evaluator is an error of the statement (catch_unwind in Interpreter::interpret) — assumed, not verified"]
    plan.functions += ["src/interpreter/src/literals.rs: dec, hex, oct, binary, integer, float, scientific, rational, negated, complex, real (routing)"]
    plan.trusted += ["Verus 0.2026.09.13 / Z3"]
