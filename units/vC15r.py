"""(X) Verus contracts on the two functions that turn a range EXPRESSION into a range kernel call:
  * the parser `range_expression` (src/syntax/src/expressions.rs, whole body): `a OP b` is (start a, no step, operator OP, bound b); `a OP1 s OP2 b` is (start a,
    step s, operator OP2 -- the operator written before the bound --, bound b).  `formula(input)?` / `range_operator(input)?` / `opt(nom_tuple((range_operator, formula)))(input)?`
    become named, uninterpreted parser applications (nom's opt / tuple assumed as documented); `Ok((input, x))` -> `Some((input, x))`
  * the evaluator `range` (src/interpreter/src/expressions.rs, whole body): the kernel compiler is chosen by (step present?, operator) and receives the operands in the
    order (start, [step,] bound).  `factor(&x, env, p)?` is an uninterpreted evaluation, `X {}.compile(&vec![..])?` a stand-in returning a tagged function object over its
    argument list, `#[cfg]` arms evaluated (default features), `x => unreachable!()` -> `unreached()`; the plan statements -> `plan_push_solve(plan, f)`"""
import os, re
import vlib
from vlib import AnchorLost, extract_fn, match_brace, find_code

SYN = "src/syntax/src/expressions.rs"
INT = "src/interpreter/src/expressions.rs"
CARGO = "src/interpreter/Cargo.toml"

PARSE_MODEL = """
#[derive(Clone, Copy, PartialEq, Eq, Structural)]
pub struct Input { pub id: u64 }
#[derive(Clone, Copy, PartialEq, Eq, Structural)]
pub struct Factor { pub id: u64 }
#[derive(Clone, Copy, PartialEq, Eq, Structural)]
pub enum RangeOp { Inclusive, Exclusive }
pub struct RangeExpression { pub start: Factor, pub increment: Option<(RangeOp, Factor)>, pub operator: RangeOp, pub terminal: Factor }
pub uninterp spec fn pform(i: Input) -> Option<(Input, Factor)>;        // formula
pub uninterp spec fn pop(i: Input) -> Option<(Input, RangeOp)>;         // range_operator
#[verifier::external_body]
pub fn formula(i: Input) -> (r: Option<(Input, Factor)>) ensures r == pform(i), { unimplemented!() }
#[verifier::external_body]
pub fn range_operator(i: Input) -> (r: Option<(Input, RangeOp)>) ensures r == pop(i), { unimplemented!() }
// opt(nom_tuple((range_operator, formula))): both or nothing; never fails
pub open spec fn opt_pair(i: Input) -> (Input, Option<(RangeOp, Factor)>) {
  match pop(i) { None => (i, None), Some((i1, o)) => match pform(i1) { None => (i, None), Some((i2, f)) => (i2, Some((o, f))) } }
}
#[verifier::external_body]
pub fn opt_range_operator_formula(i: Input) -> (r: Option<(Input, Option<(RangeOp, Factor)>)>) ensures r == Some(opt_pair(i)), { unimplemented!() }
// ---- THE CONTRACT (C15): `a..b`, `a..=b`, `a..s..b`, `a..s..=b`: first formula = start, LAST formula = bound, a middle formula = step; inclusive / exclusive is the operator in
// front of the bound
pub open spec fn range_spec(i: Input) -> Option<(Input, (Factor, Option<Factor>, RangeOp, Factor))> {
  match pform(i) { None => None, Some((i1, a)) => match pop(i1) { None => None, Some((i2, o1)) => match pform(i2) { None => None, Some((i3, x)) => {
    let (i4, y) = opt_pair(i3);
    match y { Some((o2, b)) => Some((i4, (a, Some(x), o2, b))), None => Some((i4, (a, None, o1, x))) }
  } } } }
}
"""

EVAL_MODEL = """
#[derive(Clone, Copy, PartialEq, Eq, Structural)]
pub struct Value { pub id: u64 }
#[derive(Clone, Copy, PartialEq, Eq, Structural)]
pub struct Factor { pub id: u64 }
#[derive(Clone, Copy, PartialEq, Eq, Structural)]
pub enum RangeOp { Inclusive, Exclusive }
pub struct RangeExpression { pub start: Factor, pub increment: Option<(RangeOp, Factor)>, pub operator: RangeOp, pub terminal: Factor }
pub struct Environment { pub id: u64 }
pub struct Interpreter { pub id: u64 }
pub struct Plan { pub id: u64 }
pub struct MechError { pub id: u64 }
#[derive(Clone, Copy, PartialEq, Eq, Structural)]
pub enum Tag { RangeExclusive, RangeInclusive, RangeIncrementExclusive, RangeIncrementInclusive }
pub struct Fx { pub tag: Tag, pub args: Vec<Value> }
pub uninterp spec fn fv(f: Factor) -> Option<Value>;
pub uninterp spec fn accepts(t: Tag, args: Seq<Value>) -> bool;
pub uninterp spec fn outv(t: Tag, args: Seq<Value>) -> Value;
impl Interpreter { #[verifier::external_body] pub fn plan(&self) -> (r: Plan) { unimplemented!() } }
#[verifier::external_body]
pub fn factor(f: &Factor, env: Option<&Environment>, p: &Interpreter) -> (r: Result<Value, MechError>)
  ensures (match r { Ok(v) => fv(*f) == Some(v), Err(_) => fv(*f) is None }),
{ unimplemented!() }
#[verifier::external_body]
pub fn compile_range(t: Tag, args: &Vec<Value>) -> (r: Result<Fx, MechError>)
  ensures (match r { Ok(f) => accepts(t, args@) && f.tag == t && f.args@ == args@, Err(_) => !accepts(t, args@) }),
{ unimplemented!() }
// `plan.borrow_mut().push(f); let step = plan.last().unwrap(); step.solve(); step.out()`
#[verifier::external_body]
pub fn plan_push_solve(plan: &Plan, f: Fx) -> (v: Value) ensures v == outv(f.tag, f.args@), { unimplemented!() }
// ---- THE CONTRACT (C15): which progression a range expression denotes: operands in the order (start, [step,] bound); the kernel by (step?, inclusive?)
pub open spec fn range_value(r: RangeExpression) -> Option<Value> {
  match (fv(r.start), fv(r.terminal)) {
    (Some(a), Some(b)) => match r.increment {
      None => { let t = if r.operator is Inclusive { Tag::RangeInclusive } else { Tag::RangeExclusive }; if accepts(t, seq![a, b]) { Some(outv(t, seq![a, b])) } else { None } },
      Some((_o, inc)) => match fv(inc) { None => None, Some(s) => {
        let t = if r.operator is Inclusive { Tag::RangeIncrementInclusive } else { Tag::RangeIncrementExclusive };
        if accepts(t, seq![a, s, b]) { Some(outv(t, seq![a, s, b])) } else { None } } },
    },
    _ => None,
  }
}
"""


def parser_fn(text):
    sig, body = extract_fn(text, "range_expression")
    b = re.sub(r"//[^\n]*", "", body[body.index("{") + 1:body.rindex("}")])
    b, n = re.subn(r"\bopt\(\s*nom_tuple\(\(\s*range_operator\s*,\s*formula\s*\)\)\s*\)\s*\(\s*input\s*\)\s*\?", "opt_range_operator_formula(input)?", b)
    b = re.sub(r"\bOk\(\(", "Some((", b)
    if n != 1 or re.search(r"\b(opt|nom_tuple|alt|tag|Ok|Err)\(", b):
        raise AnchorLost("range_expression: statements outside the transcription rules")
    return ("fn range_expression(input: Input) -> (r: Option<(Input, RangeExpression)>)\n"
            "  ensures (match (r, range_spec(input)) {\n"
            "      (Some((i2, x)), Some((j2, (a, s, o, b)))) => i2 == j2 && x.start == a && x.terminal == b && x.operator == o && (match (x.increment, s) { (Some((_o1, f)), Some(g)) => f == g, (None, None) => true, _ => false }),\n"
            "      (None, None) => true, _ => false }),\n{\n" + b + "\n}\n")


def eval_fn(text, feats):
    import units.C02 as C02
    from units import vC16
    sig, body = extract_fn(text, "range")
    b = re.sub(r"//[^\n]*", "", body[body.index("{") + 1:body.rindex("}")]).replace("\r", "")
    b = vlib.canon_bindings(sig, b, ["rng", "env", "p"], None)
    # cfg on match arms: evaluate by removing the attribute (true) or the arm (false)
    def arm_cfg(m):
        return "" if C02.cfg_eval(m.group(1), feats) else "#[DROP]"
    b = re.sub(r"#\[cfg\(((?:[^()]|\([^()]*\))*)\)\]\s*", arm_cfg, b)
    if "#[DROP]" in b:
        raise AnchorLost("range(): a range kernel is disabled in the default feature set")
    b, n = re.subn(r"\b(RangeIncrementExclusive|RangeIncrementInclusive|RangeExclusive|RangeInclusive)\s*\{\s*\}\s*\.compile\(", r"compile_range(Tag::\1, ", b)
    b = re.sub(r"\bx\s*=>\s*unreachable!\(\)\s*,", "", b)
    m = re.search(r"let\s+mut\s+plan_brrw\s*=\s*plan\.borrow_mut\(\)\s*;\s*plan_brrw\.push\(\s*new_fxn\s*\)\s*;\s*let\s+step\s*=\s*plan_brrw\.last\(\)\.unwrap\(\)\s*;\s*step\.solve\(\)\s*;\s*let\s+res\s*=\s*step\.out\(\)\s*;", b)
    if n != 4 or not m:
        raise AnchorLost("range(): statements outside the transcription rules")
    b = b[:m.start()] + "let res = plan_push_solve(&plan, new_fxn);" + b[m.end():]
    if re.search(r"\b(borrow_mut|unreachable!|cfg)\b|\.compile\(", b):
        raise AnchorLost("range(): statements outside the transcription rules")
    return ("fn range(rng: &RangeExpression, env: Option<&Environment>, p: &Interpreter) -> (res: Result<Value, MechError>)\n"
            "  ensures (match res { Ok(v) => range_value(*rng) == Some(v), Err(_) => range_value(*rng) is None }),\n{\n" + b + "\n}\n")


def add(plan):
    from units import vC16
    feats = vC16.default_features(vlib.read_repo(CARGO))
    for on, uname, fn, build, fdesc, what in (
        ("C15.verus.syntax.range_expression.start_step_bound", "c15_range_parser", "range_expression", lambda: vlib.verus_file([PARSE_MODEL, parser_fn(vlib.read_repo(SYN)), vlib.verus_canary("canary_c15_range_parser", "x: u64", [])]),
         "src/syntax/src/expressions.rs: range_expression (whole body)", "`a OP b` parses to (start a, no step, OP, bound b) and `a OP1 s OP2 b` to (start a, step s, OP2, bound b): the first formula is the start, the last the bound, a middle one the step, and the operator in front of the bound decides inclusive / exclusive"),
        ("C15.verus.eval.range.kernel_and_operand_order", "c15_range_eval", "range", lambda: vlib.verus_file([EVAL_MODEL, eval_fn(vlib.read_repo(INT), feats), vlib.verus_canary("canary_c15_range_eval", "x: u64", [])]),
         "src/interpreter/src/expressions.rs: range (whole body)", "a range expression is evaluated by the kernel that matches (step present?, inclusive?) applied to the operand values in the order (start, [step,] bound)")):
        plan.ob(on, "verus", "proved", functions=[fdesc], what=what)
        try:
            plan.verus.append(vlib.VerusUnit(uname, build(), {fn: on}, ["canary_" + uname]))
        except AnchorLost as e:
            plan.anchor_errors.append((on, str(e)))
    plan.dropped.append(__doc__.strip())
